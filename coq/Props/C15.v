(* C15 — Packaging and loading a chart preserves its content.
   Property theorems only: each closed by [exact] of a lemma proved under Chart/.
   Third-party codecs (YAML for Chart.yaml / Chart.lock / values.yaml, json.Valid, semver,
   the string sanitiser, tar+gzip of nested archives, .helmignore matching) are universally
   quantified functions; the hypotheses about them are written out in each statement. *)
From Coq Require Import List String Ascii Bool ZArith.
From Helm Require Import Values.Tree Chart.Paths Chart.Archive Chart.Files Chart.Save Chart.Load Gen.Limits
  Chart.Wf Chart.LoadProofs Chart.AgreeProofs Chart.RecProofs Chart.Examples15
  Chart.Ignore Chart.Utf8 Chart.Match Chart.MatchProofs Chart.IgnoreProofs
  Chart.Wf2 Chart.Rt2Proofs Chart.Examples15b Chart.OrderProofs Common.SortUniq Chart.SaveDir Chart.DirProofs Chart.Examples15c Gen.IgnoreConsts Chart.DefaultRuleProofs.
Import ListNotations.
Local Open Scope string_scope.

(* ---------- round trip: Save, then LoadArchive (chart without dependencies) ---------- *)
(* For every well-formed chart (metadata accepted by Validate and already in sanitised form,
   apiVersion v2 — or v1 without dependencies and lock —, a name usable as base directory,
   Values = what the raw values.yaml documents parse to, a JSON schema, clean relative
   template names under templates/, other files outside the reserved names and directories)
   in which no file begins with a UTF-8 BOM: Save succeeds, and if the archive fits the
   limits, loading it yields the same metadata, lock, raw and parsed values, schema,
   templates and files, byte for byte and in the same order. *)
Theorem C15_roundtrip :
  forall (md_enc : meta -> string) (lock_enc : lockv -> string) (json_valid : string -> bool)
         (sanitize : meta -> meta) (is_semver : string -> bool) (rest_valid : meta -> bool)
         (md_merge : meta -> string -> option meta) (lock_dec : string -> option (option lockv))
         (parse_values : string -> option val) (untar : string -> tstream) (maxt maxf : Z),
  (forall m, validate sanitize is_semver rest_valid m = Some m -> md_merge empty_meta (md_enc m) = Some m) ->
  (forall m, has_bom (md_enc m) = false) ->
  (forall l, lock_dec (lock_enc l) = Some (Some l)) ->
  (forall l, has_bom (lock_enc l) = false) ->
  forall c : chart,
  wf_chart parse_values json_valid sanitize is_semver rest_valid c -> no_bom c ->
  exists es, save md_enc lock_enc json_valid sanitize is_semver rest_valid c = Some es /\
    (fits maxt maxf es -> forall fuel, exists c',
       load_archive md_merge lock_dec parse_values untar sanitize is_semver rest_valid maxt maxf (S fuel)
                    (mkTS false es false) = inr c' /\
       same_content c c').
Proof. exact roundtrip. Qed.
Print Assumptions C15_roundtrip.

(* the hypotheses are satisfiable: a toy codec instance and a chart with lock, values, schema,
   a template, a file in a dot directory; its round trip evaluated on the model *)
Example C15_roundtrip_ex :
  ((forall m, validate sanK semverK restK m = Some m -> mergeK empty_meta (encK m) = Some m) /\
   (forall m, has_bom (encK m) = false) /\
   (forall l, lock_decK (lock_encK l) = Some (Some l)) /\
   (forall l, has_bom (lock_encK l) = false)) /\
  (wf_chart parseK jsonK sanK semverK restK c_ok /\ no_bom c_ok) /\
  exists es, save encK lock_encK jsonK sanK semverK restK c_ok = Some es /\ fits 1000 100 es /\
    exists c', load_archive mergeK lock_decK parseK untarK sanK semverK restK 1000 100 1 (mkTS false es false) = inr c'
               /\ chart_eqb c_ok c' = true.
Proof. exact roundtrip_example. Qed.
Print Assumptions C15_roundtrip_ex.

(* ---------- round trip with the whole dependency tree ---------- *)
(* wf_tree: every chart of the tree is well-formed on its own (as above), the names of its
   dependencies are usable as directory names (not starting with '_' or '.', no .tgz
   extension) and strictly increasing (the order LoadFiles returns them in since fix 14399c3).
   Then Save succeeds, and if the archive fits the limits and the loader's nesting fuel
   covers the depth, loading yields the same tree: same content at every node, the same
   dependencies in the same order. *)
Theorem C15_roundtrip_rec :
  forall (md_enc : meta -> string) (lock_enc : lockv -> string) (json_valid : string -> bool)
         (sanitize : meta -> meta) (is_semver : string -> bool) (rest_valid : meta -> bool)
         (md_merge : meta -> string -> option meta) (lock_dec : string -> option (option lockv))
         (parse_values : string -> option val) (untar : string -> tstream) (maxt maxf : Z),
  (forall m, validate sanitize is_semver rest_valid m = Some m -> md_merge empty_meta (md_enc m) = Some m) ->
  (forall m, has_bom (md_enc m) = false) ->
  (forall l, lock_dec (lock_enc l) = Some (Some l)) ->
  (forall l, has_bom (lock_enc l) = false) ->
  forall c : chart,
  wf_tree parse_values json_valid sanitize is_semver rest_valid c -> nobom_tree c ->
  exists es, save md_enc lock_enc json_valid sanitize is_semver rest_valid c = Some es /\
    (fits maxt maxf es -> forall fuel, (depth c <= fuel)%nat -> exists c',
       load_archive md_merge lock_dec parse_values untar sanitize is_semver rest_valid maxt maxf fuel
                    (mkTS false es false) = inr c' /\
       same_tree c c').
Proof. exact roundtrip_tree. Qed.
Print Assumptions C15_roundtrip_rec.

(* a codec instance that accepts every chart name, and a tree of depth 3 (top -> alpha ->
   inner, top -> zeta) with a lock, values, templates and .prov files inside subcharts *)
Example C15_roundtrip_rec_ex :
  ((forall m, validate sanK semverK restT m = Some m -> mergeT empty_meta (encT m) = Some m) /\
   (forall m, has_bom (encT m) = false) /\
   (forall l, lock_decK (lock_encK l) = Some (Some l)) /\
   (forall l, has_bom (lock_encK l) = false)) /\
  (wf_tree parseK jsonK sanK semverK restT treeT /\ nobom_tree treeT /\ depth treeT = 3%nat) /\
  exists es, save encT lock_encK jsonK sanK semverK restT treeT = Some es /\ fits 1000 100 es /\
    exists c', load_archive mergeT lock_decK parseK untarK sanK semverK restT 1000 100 3 (mkTS false es false) = inr c'
               /\ chart_eqb treeT c' = true /\ List.length (c_deps c') = 2%nat.
Proof. exact roundtrip_rec_example. Qed.
Print Assumptions C15_roundtrip_rec_ex.

(* K4 (known finding): both loaders strip a leading BOM from every file.  On the faithful
   model: a well-formed chart with one binary file EF BB BF 'a' 'b' 'c' is saved, loads, and
   the file comes back as 'a' 'b' 'c'. *)
Theorem C15_bom_refuted :
  exists c es c',
    wf_chart parseK jsonK sanK semverK restK c /\
    save encK lock_encK jsonK sanK semverK restK c = Some es /\ fits 1000 100 es /\
    load_archive mergeK lock_decK parseK untarK sanK semverK restK 1000 100 1 (mkTS false es false) = inr c' /\
    c_files c = [mkFile "bin/blob" (utf8bom ++ "abc")] /\ c_files c' = [mkFile "bin/blob" "abc"].
Proof. exact bom_refuted. Qed.
Print Assumptions C15_bom_refuted.

(* ---------- ignore rules ---------- *)
(* For every ignore predicate and every directory walk: loading with the rules equals
   loading, without rules, the walk from which the ignored files (ignored themselves or below
   an ignored directory) have been removed; and no file of the loaded chart — Raw, templates,
   files: everything Save writes from — is an ignored one. *)
Theorem C15_ignored_absent :
  forall (md_merge : meta -> string -> option meta) (lock_dec : string -> option (option lockv))
         (parse_values : string -> option val) (untar : string -> tstream)
         (sanitize : meta -> meta) (is_semver : string -> bool) (rest_valid : meta -> bool)
         (maxt maxf : Z) (ignored : string -> bool -> bool) (fuel : nat) (walk : list file),
  load_dir_walk md_merge lock_dec parse_values untar sanitize is_semver rest_valid maxt maxf ignored fuel walk =
  load_dir_walk md_merge lock_dec parse_values untar sanitize is_semver rest_valid maxt maxf (fun _ _ => false) fuel
                (filter (fun f => negb (eff_ignored ignored (f_name f))) walk) /\
  forall c, load_dir_walk md_merge lock_dec parse_values untar sanitize is_semver rest_valid maxt maxf ignored fuel walk = inr c ->
    Forall (fun f => eff_ignored ignored (f_name f) = false) (c_raw c) /\
    (forall f, In f (c_templates c) \/ In f (c_files c) -> eff_ignored ignored (f_name f) = false).
Proof. exact ignored_absent. Qed.
Print Assumptions C15_ignored_absent.

(* the per-file size check of the directory loader uses the operator read from directory.go, and
   it is the same predicate as the archive loader's (both from the source, by the translator):
   a file of exactly the limit is accepted by both *)
Theorem C15_size_checks_agree :
  forall a b : Z,
  cmp_of op_dir_file_vs_limit a b = dir_file_over_limit a b /\
  cmp_of op_entry_vs_file_limit a b = entry_over_file_limit a b /\
  dir_file_over_limit a b = entry_over_file_limit a b.
Proof. exact size_checks_agree. Qed.
Print Assumptions C15_size_checks_agree.

(* ---------- directory loader = archive loader ---------- *)
(* The same file set (clean relative names, in the order of the directory walk), once read by
   LoadDir under an ignore predicate and once packed below a base directory and read by
   LoadArchive without the ignored files: the two results are equal — the same chart or the
   same error, at every nesting depth of subcharts — provided the archive fits the limits and
   at least one file is kept. *)
Theorem C15_dir_archive_agree :
  forall (md_merge : meta -> string -> option meta) (lock_dec : string -> option (option lockv))
         (parse_values : string -> option val) (untar : string -> tstream)
         (sanitize : meta -> meta) (is_semver : string -> bool) (rest_valid : meta -> bool)
         (maxt maxf : Z) (ignored : string -> bool -> bool) (fuel : nat) (base : string) (walk : list file),
  wf_cname base = true ->
  Forall (fun f => wf_fname (f_name f) = true) walk ->
  let kept := filter (fun f => negb (eff_ignored ignored (f_name f))) walk in
  let es := map (fun f => tar_entry (base ++ "/" ++ f_name f) (f_data f)) kept in
  fits maxt maxf es -> kept <> [] ->
  load_archive md_merge lock_dec parse_values untar sanitize is_semver rest_valid maxt maxf fuel (mkTS false es false) =
  load_dir_walk md_merge lock_dec parse_values untar sanitize is_semver rest_valid maxt maxf ignored fuel walk.
Proof. exact dir_archive_agree. Qed.
Print Assumptions C15_dir_archive_agree.

Example C15_dir_archive_agree_ex :
  wf_cname "k4" = true /\ Forall (fun f => wf_fname (f_name f) = true) walkK /\
  fits 1000 100 (map (fun f => tar_entry ("k4" ++ "/" ++ f_name f) (f_data f)) (kept ignK walkK)) /\
  kept ignK walkK <> [] /\
  exists c, load_dir_walk mergeK lock_decK parseK untarK sanK semverK restK 1000 100 ignK 1 walkK = inr c /\
            c_templates c = [mkFile "templates/a.yaml" "a: 1"] /\ c_files c = [mkFile ".helmignore" "README.md"; mkFile "notes.txt" (utf8bom ++ "x")].
Proof. exact agree_example. Qed.
Print Assumptions C15_dir_archive_agree_ex.

(* ---------- invalid charts are not packaged ---------- *)
(* Save (hence `helm package`, `helm dependency update` of file:// dependencies) refuses a chart
   whose (sanitised) name is not its own base name or whose version is not a semantic version *)
Theorem C15_invalid_not_packaged :
  forall (md_enc : meta -> string) (lock_enc : lockv -> string) (json_valid : string -> bool)
         (sanitize : meta -> meta) (is_semver : string -> bool) (rest_valid : meta -> bool) (c : chart),
  String.eqb (path_base (m_name (sanitize (c_meta c)))) (m_name (sanitize (c_meta c))) = false \/
  is_semver (m_version (sanitize (c_meta c))) = false ->
  save md_enc lock_enc json_valid sanitize is_semver rest_valid c = None.
Proof. exact invalid_not_saved. Qed.
Print Assumptions C15_invalid_not_packaged.

(* ... at every depth: if a dependency (or a dependency of a dependency, ...) has a name that is
   not its own base name — "../evil", "sub/dir" — nothing is packaged: writeTarContents checks
   the name of every chart it writes, not only the root's *)
Theorem C15_invalid_dependency_not_packaged :
  forall (md_enc : meta -> string) (lock_enc : lockv -> string) (json_valid : string -> bool)
         (sanitize : meta -> meta) (is_semver : string -> bool) (rest_valid : meta -> bool) (c d : chart),
  In d (c_deps c) -> bad_name_in d ->
  save md_enc lock_enc json_valid sanitize is_semver rest_valid c = None.
Proof. exact bad_dependency_not_saved. Qed.
Print Assumptions C15_invalid_dependency_not_packaged.

Example C15_invalid_dependency_not_packaged_ex :
  bad_name_in (Chart (metaT "mid") None [] None None [] [] [leafT "../../up" [mkFile "f" "f"]]) /\
  save encT lock_encK jsonK sanK semverK restT badT = None.
Proof. exact badT_not_saved. Qed.
Print Assumptions C15_invalid_dependency_not_packaged_ex.

(* action.Package.Run with an optional --version override *)
Theorem C15_invalid_not_packaged_action :
  forall (md_enc : meta -> string) (lock_enc : lockv -> string) (json_valid : string -> bool)
         (sanitize : meta -> meta) (is_semver : string -> bool) (rest_valid : meta -> bool)
         (dep_names : meta -> list string) (ver : string) (c : chart),
  let m := if String.eqb ver "" then c_meta c else set_version (c_meta c) ver in
  is_semver (m_version m) = false \/
  String.eqb (path_base (m_name (sanitize m))) (m_name (sanitize m)) = false \/
  is_semver (m_version (sanitize m)) = false ->
  package md_enc lock_enc json_valid sanitize is_semver rest_valid dep_names ver c = None.
Proof. exact invalid_not_packaged. Qed.
Print Assumptions C15_invalid_not_packaged_action.

Example C15_invalid_not_packaged_ex :
  String.eqb (path_base "charts/evil") "charts/evil" = false /\ String.eqb (path_base "good") "good" = true /\
  String.eqb (path_base "../x") "../x" = false /\ String.eqb (path_base "a/") "a/" = false.
Proof. exact base_examples. Qed.
Print Assumptions C15_invalid_not_packaged_ex.

(* ---------- filepath.Match, as a function (Chart/Match.v), and what .helmignore excludes ---------- *)
(* the model of filepath.Match runs its loops on fuel; the fuel never runs out: every query is
   answered matched / not matched / ErrBadPattern *)
Theorem C15_match_total :
  forall pattern name : string,
  gmatch pattern name = MYes \/ gmatch pattern name = MNo \/ gmatch pattern name = MBad.
Proof. exact gmatch_total. Qed.
Print Assumptions C15_match_total.

(* a pattern without the metacharacters * ? [ \ matches exactly itself; '*' matches exactly the
   names without a separator; '*' followed by such a literal matches exactly the names that end
   in the literal after a separator-free stem (and is never malformed); '?' matches exactly one
   rune that is not the separator *)
Theorem C15_match_characterised :
  (forall p n, is_plain p = true -> gmatch p n = if String.eqb p n then MYes else MNo) /\
  (forall n, gmatch "*" n = if contains_char slash n then MNo else MYes) /\
  (forall lit n, is_plain lit = true -> lit <> "" ->
     (gmatch ("*" ++ lit) n = MYes <-> exists x, n = x ++ lit /\ contains_char slash x = false) /\
     (gmatch ("*" ++ lit) n = MYes \/ gmatch ("*" ++ lit) n = MNo)) /\
  (forall n, gmatch "?" n = MYes <->
     exists a t, n = String a t /\ a <> slash /\ sdrop (snd (decode_rune n)) n = "").
Proof. exact (conj gmatch_literal (conj gmatch_star (conj gmatch_star_lit gmatch_question))). Qed.
Print Assumptions C15_match_characterised.

(* ErrBadPattern: a malformed first chunk is reported for every name (this is what parseRule's
   probe filepath.Match(rule, "abc") relies on) -- the documented malformed patterns --, but a
   malformed later chunk only when the scan reaches it: the probe accepts "x*[" *)
Theorem C15_match_bad_pattern :
  (forall p star chunk rest, scan_chunk p = (star, chunk, rest) -> match_chunk chunk "" = KBad ->
     forall n, gmatch p n = MBad) /\
  (forall n, gmatch "[" n = MBad /\ gmatch "[a" n = MBad /\ gmatch "[a-" n = MBad /\ gmatch "[]" n = MBad /\
     gmatch "[]a]" n = MBad /\ gmatch "[-a]" n = MBad /\ gmatch "[a-]" n = MBad /\ gmatch "a\" n = MBad /\
     gmatch "[\" n = MBad /\ gmatch "*[" n = MBad /\ gmatch "[^" n = MBad /\ gmatch "[^]" n = MBad) /\
  (gmatch_err "x*[" = false /\ gmatch "x*[" "xy" = MBad /\ gmatch "x*[" "abc" = MNo).
Proof. exact (conj first_chunk_bad (conj gmatch_bad_examples probe_misses_malformed)). Qed.
Print Assumptions C15_match_bad_pattern.

Example C15_match_ex :
  gmatch "[a-c]" "b" = MYes /\ gmatch "[a-c]" "d" = MNo /\ gmatch "[^a-c]" "d" = MYes /\ gmatch "[^a-c]" "b" = MNo /\
  gmatch "[\]]" "]" = MYes /\ gmatch "[\-]" "-" = MYes /\ gmatch "[a-c]*" "bxyz" = MYes /\ gmatch "[a-c]*" "b/x" = MNo /\
  gmatch "[/]" "/" = MYes /\ gmatch "[^a]" "/" = MYes /\ gmatch "?" "/" = MNo /\ gmatch "*" "a/b" = MNo /\
  gmatch "a*/b" "axx/b" = MYes /\ gmatch "\*" "*" = MYes /\ gmatch "\*" "a" = MNo /\ gmatch "templates/.?*" "templates/.x" = MYes /\
  gmatch "templates/.?*" "templates/." = MNo.
Proof. exact gmatch_class_examples. Qed.
Print Assumptions C15_match_ex.

(* Files excluded by .helmignore never appear in a packaged archive, from the TEXT of the file and
   with filepath.Match as a function: for the rules Parse+AddDefaults build from the text, `helm
   package` of the directory (LoadDir, Package.Run's checks, Save) gives the result it gives on the
   directory from which the excluded files have been deleted, and so does LoadDir; and if no line is
   a negation, a file is among the deleted ones whenever its last path element is a line that is a
   plain word, or ends in the suffix of a line *suffix, or it lies below a directory named by a
   line word/ . *)
Theorem C15_helmignore_excluded :
  forall (md_enc : meta -> string) (lock_enc : lockv -> string) (json_valid : string -> bool)
         (dep_names : meta -> list string)
         (md_merge : meta -> string -> option meta) (lock_dec : string -> option (option lockv))
         (parse_values : string -> option val) (untar : string -> tstream)
         (sanitize : meta -> meta) (is_semver : string -> bool) (rest_valid : meta -> bool)
         (maxt maxf : Z) (text : string) (ps : list pat) (fuel : nat) (ver : string) (walk : list file),
  parse_ignore gmatch_err (Some text) = Some ps ->
  let ign := rules_ignore gmatch_ok ps in
  let kept := filter (fun f => negb (eff_ignored ign (f_name f))) walk in
  load_dir_walk md_merge lock_dec parse_values untar sanitize is_semver rest_valid maxt maxf ign fuel walk =
  load_dir_walk md_merge lock_dec parse_values untar sanitize is_semver rest_valid maxt maxf (fun _ _ => false) fuel kept /\
  match load_dir_walk md_merge lock_dec parse_values untar sanitize is_semver rest_valid maxt maxf ign fuel walk with
  | inr c => package md_enc lock_enc json_valid sanitize is_semver rest_valid dep_names ver c
  | inl _ => None
  end =
  match load_dir_walk md_merge lock_dec parse_values untar sanitize is_semver rest_valid maxt maxf (fun _ _ => false) fuel kept with
  | inr c => package md_enc lock_enc json_valid sanitize is_semver rest_valid dep_names ver c
  | inl _ => None
  end /\
  (Forall (fun l => String.prefix "!" (trim_space l) = false) (ignore_lines text) ->
   forall f, In f walk -> wf_fname (f_name f) = true ->
     (exists l, In l (ignore_lines text) /\ word_line l /\ path_base (f_name f) = l) \/
     (exists l lit x, In l (ignore_lines text) /\ ext_line lit l /\ path_base (f_name f) = x ++ lit /\ contains_char slash x = false) \/
     (exists l w d, In l (ignore_lines text) /\ dir_line w l /\ In d (ancestors (f_name f)) /\ wf_fname d = true /\ path_base d = w) ->
     ~ In f kept).
Proof. exact helmignore_excluded. Qed.
Print Assumptions C15_helmignore_excluded.

(* a text with a comment, *.bak, a blank line, .git/ and secret.txt: its lines, the three kinds of
   line, and the rules evaluated on paths *)
Example C15_helmignore_excluded_ex :
  ignore_lines ign_text = ["# build output"; "*.bak"; "  "; ".git/"; "secret.txt"] /\
  Forall (fun l => String.prefix "!" (trim_space l) = false) (ignore_lines ign_text) /\
  ext_line ".bak" "*.bak" /\ dir_line ".git" ".git/" /\ word_line "secret.txt" /\
  exists ps, parse_ignore gmatch_err (Some ign_text) = Some ps /\
    rules_ignore gmatch_ok ps "docs/old/notes.bak" false = true /\
    eff_ignored (rules_ignore gmatch_ok ps) ".git/objects/ab/cd" = true /\
    rules_ignore gmatch_ok ps "conf/secret.txt" false = true /\
    rules_ignore gmatch_ok ps "templates/.hidden" false = true /\
    rules_ignore gmatch_ok ps "templates/deployment.yaml" false = false.
Proof. exact ign_text_example. Qed.
Print Assumptions C15_helmignore_excluded_ex.

(* ---------- round trip through an archive, second version (load (save c), both in the model) ---------- *)
(* wf2_tree (Chart/Wf2.v): every chart of the tree has metadata accepted by Validate and already
   sanitised, a name usable as a directory, Values = what the raw values.yaml documents parse to, a
   JSON schema, clean template names under templates/, and Files with clean names outside
   templates/ and outside charts/ except provenance files directly in charts/; apiVersion v2 with no
   reserved name among the files, or apiVersion v1 with the dependencies and the lock kept in
   requirements.yaml / requirements.lock among the files such that LoadFiles' merge of these files
   onto the Chart.yaml metadata (which Save writes without dependencies) gives back the metadata and
   the lock (v1_fold); dependency names usable as directory names and pairwise different, IN ANY
   ORDER.  Then Save succeeds, and if the archive fits the limits and the nesting fuel covers the
   depth, loading it yields the tree with the dependencies of every chart in name order (norm) and
   otherwise the same: metadata, lock, raw and parsed values, schema, templates, files (byte for
   byte, same order, requirements.* and charts/*.prov included) at every node. *)
Theorem C15_save_load_roundtrip :
  forall (md_enc : meta -> string) (lock_enc : lockv -> string) (json_valid : string -> bool)
         (sanitize : meta -> meta) (is_semver : string -> bool) (rest_valid : meta -> bool)
         (md_merge : meta -> string -> option meta) (lock_dec : string -> option (option lockv))
         (parse_values : string -> option val) (untar : string -> tstream) (maxt maxf : Z),
  (forall m, validate sanitize is_semver rest_valid m = Some m -> md_merge empty_meta (md_enc m) = Some m) ->
  (forall m, has_bom (md_enc m) = false) ->
  (forall l, lock_dec (lock_enc l) = Some (Some l)) ->
  (forall l, has_bom (lock_enc l) = false) ->
  forall c : chart,
  wf2_tree md_merge lock_dec parse_values json_valid sanitize is_semver rest_valid c -> nobom_tree c ->
  exists es, save md_enc lock_enc json_valid sanitize is_semver rest_valid c = Some es /\
    (fits maxt maxf es -> forall fuel, (depth c <= fuel)%nat -> exists c',
       load_archive md_merge lock_dec parse_values untar sanitize is_semver rest_valid maxt maxf fuel
                    (mkTS false es false) = inr c' /\
       same_tree (norm c) c').
Proof. exact save_load_roundtrip. Qed.
Print Assumptions C15_save_load_roundtrip.

(* a codec in which requirements.yaml carries the dependencies; a v1 chart "legacy" with
   requirements.yaml, requirements.lock, charts/dep-a-0.1.0.tgz.prov and the dependencies dep-b,
   dep-a (in this order) meets the hypotheses; its round trip on the model: lock and dependency
   metadata are back, the files are back in order, the dependencies come back as dep-a, dep-b *)
Example C15_save_load_roundtrip_ex :
  ((forall m, validate sanK semverK restU m = Some m -> mergeU empty_meta (encU m) = Some m) /\
   (forall m, has_bom (encU m) = false) /\
   (forall l, lock_decK (lock_encK l) = Some (Some l)) /\
   (forall l, has_bom (lock_encK l) = false)) /\
  (wf2_tree mergeU lock_decK parseK jsonK sanK semverK restU c_v1 /\ nobom_tree c_v1 /\ depth c_v1 = 2%nat /\
   map dname (c_deps c_v1) = ["dep-b"; "dep-a"] /\ map dname (c_deps (norm c_v1)) = ["dep-a"; "dep-b"]) /\
  exists es, save encU lock_encK jsonK sanK semverK restU c_v1 = Some es /\ fits 1000 100 es /\
    exists c', load_archive mergeU lock_decK parseK untarK sanK semverK restU 1000 100 2 (mkTS false es false) = inr c'
               /\ chart_eqb (norm c_v1) c' = true /\ c_lock c' = Some "digest" /\
               m_deps (c_meta c') = "[dep-b,dep-a]" /\ map dname (c_deps c') = ["dep-a"; "dep-b"] /\
               map f_name (c_files c') = ["requirements.yaml"; "README.md"; "requirements.lock"; "charts/dep-a-0.1.0.tgz.prov"].
Proof. exact save_load_example. Qed.
Print Assumptions C15_save_load_roundtrip_ex.

(* ---------- LoadFiles does not depend on how the file list interleaves the subcharts ---------- *)
(* Every file has a group (sub_name): None for the files the chart keeps itself (everything not
   below charts/, and provenance files directly in charts/), Some n for the files handed to the
   subchart charts/n.  If two file lists present every group in the same internal order -- however
   the groups are interleaved, e.g. the subcharts in another order, or the parent's files between
   those of a subchart -- LoadFiles gives the same result on both: the same error, or charts that
   agree in metadata, lock, values, schema, templates, files AND dependencies (same charts, same
   order: by name, fix 14399c3); only Raw, which is the input list itself, follows the input. *)
Theorem C15_loadfiles_order_invariant :
  forall (md_merge : meta -> string -> option meta) (lock_dec : string -> option (option lockv))
         (parse_values : string -> option val) (untar : string -> tstream)
         (sanitize : meta -> meta) (is_semver : string -> bool) (rest_valid : meta -> bool)
         (maxt maxf : Z) (fuel : nat) (l1 l2 : list file),
  (forall k : option string,
     filter (fun f => key_eqb (sub_name f) k) l1 = filter (fun f => key_eqb (sub_name f) k) l2) ->
  load_files md_merge lock_dec parse_values untar sanitize is_semver rest_valid maxt maxf fuel l2 =
  match load_files md_merge lock_dec parse_values untar sanitize is_semver rest_valid maxt maxf fuel l1 with
  | inl e => inl e
  | inr c => inr (Chart (c_meta c) (c_lock c) l2 (c_values c) (c_schema c) (c_templates c) (c_files c) (c_deps c))
  end.
Proof. exact order_invariant. Qed.
Print Assumptions C15_loadfiles_order_invariant.

(* two presentations of one tree (subcharts foo, foo-bar, alpha; a provenance file in charts/):
   the groups agree, the lists differ, both load, the dependencies are alpha, foo, foo-bar in both *)
Example C15_loadfiles_order_invariant_ex :
  (forall k, group k order_l1 = group k order_l2) /\
  order_l1 <> order_l2 /\
  exists c1 c2,
    load_files mergeT lock_decK parseK untarK sanK semverK restT 1000 100 3 order_l1 = inr c1 /\
    load_files mergeT lock_decK parseK untarK sanK semverK restT 1000 100 3 order_l2 = inr c2 /\
    map dname (c_deps c1) = ["alpha"; "foo"; "foo-bar"] /\ c_deps c2 = c_deps c1 /\
    map f_name (c_files c1) = ["charts/foo-1.0.0.tgz.prov"].
Proof. exact order_example. Qed.
Print Assumptions C15_loadfiles_order_invariant_ex.

(* ---------- round trip through a directory (load_dir (save_dir c), both in the model) ---------- *)
(* SaveDir (Chart/SaveDir.v) writes Chart.yaml (without dependencies for v1), Chart.lock (v2),
   values.yaml, values.schema.json, the templates and files, and every dependency as an archive
   charts/<name>-<version>.tgz made by Save.  tgz / untar are tar+gzip: reading back an archive of
   regular entries (what Save writes) yields those entries, and an archive does not begin with a BOM.
   For every wf2_tree chart (as in C15_save_load_roundtrip) without BOMs whose written paths do not
   collide (fresh_all: pairwise different, none a directory prefix of another, no NUL; in particular
   at most one values.yaml document) and whose dependency versions contain no '/' and whose dependency
   archives fit the limits: SaveDir succeeds, and for EVERY order in which the directory walk may
   present the written files (any permutation), every ignore predicate that excludes none of them,
   file sizes within the per-file limit and enough nesting fuel, LoadDir yields a chart with the same
   metadata (dependencies of a v1 chart merged back from requirements.yaml), lock, raw and parsed
   values and schema; the templates and the files are exactly the written ones, byte for byte, in the
   order of the walk (a permutation of the original lists); the dependencies are the original
   dependency trees (each with its own dependencies in name order), in the order of their archive
   FILE names -- which is not always the order of their names: foo+x-0.1.0.tgz < foo-0.1.0.tgz. *)
Theorem C15_savedir_load_roundtrip :
  forall (md_enc : meta -> string) (lock_enc : lockv -> string) (json_valid : string -> bool)
         (sanitize : meta -> meta) (is_semver : string -> bool) (rest_valid : meta -> bool)
         (md_merge : meta -> string -> option meta) (lock_dec : string -> option (option lockv))
         (parse_values : string -> option val) (untar : string -> tstream) (tgz : list tentry -> string)
         (maxt maxf : Z),
  (forall m, validate sanitize is_semver rest_valid m = Some m -> md_merge empty_meta (md_enc m) = Some m) ->
  (forall m, has_bom (md_enc m) = false) ->
  (forall l, lock_dec (lock_enc l) = Some (Some l)) ->
  (forall l, has_bom (lock_enc l) = false) ->
  (forall l : list (string * string),
     untar (tgz (map (fun p => tar_entry (fst p) (snd p)) l)) = mkTS false (map (fun p => tar_entry (fst p) (snd p)) l) false) ->
  (forall es, has_bom (tgz es) = false) ->
  forall c : chart,
  wf2_tree md_merge lock_dec parse_values json_valid sanitize is_semver rest_valid c -> nobom_tree c ->
  contains_char nul (dname c) = false ->
  fresh_all [] (map f_name (dir_tree md_enc lock_enc tgz c)) = true ->
  Forall (fun d => contains_char slash (m_version (c_meta d)) = false /\
                   fits maxt maxf (tree_entries (md_enc2 md_enc) lock_enc d)) (c_deps c) ->
  exists tree, save_dir md_enc lock_enc json_valid sanitize is_semver rest_valid tgz c = Some tree /\
    forall (ign : string -> bool -> bool) (fuel : nat) (walk : list file),
      Permutation.Permutation walk tree ->
      Forall (fun f => eff_ignored ign (f_name f) = false /\ (slen (f_data f) <= maxf)%Z) tree ->
      (depth c <= fuel)%nat ->
      exists c', load_dir_walk md_merge lock_dec parse_values untar sanitize is_semver rest_valid maxt maxf ign fuel walk = inr c' /\
        c_meta c' = c_meta c /\ c_lock c' = c_lock c /\ raw_values c' = raw_values c /\
        c_values c' = c_values c /\ c_schema c' = c_schema c /\
        c_templates c' = filter (is_cls KTpl) walk /\ Permutation.Permutation (c_templates c') (c_templates c) /\
        c_files c' = filter is_filecls walk /\ Permutation.Permutation (c_files c') (c_files c) /\
        Forall2 same_tree (map norm (ssort (fname_leb) (c_deps c))) (c_deps c').
Proof. exact savedir_load_roundtrip. Qed.
Print Assumptions C15_savedir_load_roundtrip.

(* the codec of C15_save_load_roundtrip_ex with a toy tar+gzip (length-prefixed names and bodies) meets
   the hypotheses; the v1 chart "legacy" (requirements.yaml, requirements.lock, a provenance file in
   charts/, dependencies dep-b, dep-a) is saved as a directory of nine files; the rules of a directory
   without .helmignore (the built-in templates/.?* only, with filepath.Match as a function) exclude
   none of them; loaded from the walk in name order -- another order than the one written -- the chart
   has its metadata, lock and values back, its files in walk order, and the dependencies dep-a, dep-b *)
Example C15_savedir_load_roundtrip_ex :
  ((forall m, validate sanK semverK restU m = Some m -> mergeU empty_meta (encU m) = Some m) /\
   (forall m, has_bom (encU m) = false) /\
   (forall l, lock_decK (lock_encK l) = Some (Some l)) /\
   (forall l, has_bom (lock_encK l) = false)) /\
  ((forall l : list (string * string),
      untarU (tgzU (map (fun p => tar_entry (fst p) (snd p)) l)) = mkTS false (map (fun p => tar_entry (fst p) (snd p)) l) false) /\
   (forall es, has_bom (tgzU es) = false)) /\
  (wf2_tree mergeU lock_decK parseK jsonK sanK semverK restU c_v1 /\ nobom_tree c_v1 /\ depth c_v1 = 2%nat /\
   map dname (c_deps c_v1) = ["dep-b"; "dep-a"] /\ map dname (c_deps (norm c_v1)) = ["dep-a"; "dep-b"]) /\
  (contains_char nul (dname c_v1) = false /\
   fresh_all [] (map f_name (dir_tree encU lock_encK tgzU c_v1)) = true /\
   Forall (fun d => contains_char slash (m_version (c_meta d)) = false /\ fits 10000 1000 (tree_entries (md_enc2 encU) lock_encK d)) (c_deps c_v1)) /\
  parse_ignore gmatch_err None = Some rules0 /\
  exists tree, save_dir encU lock_encK jsonK sanK semverK restU tgzU c_v1 = Some tree /\
    map f_name tree = ["Chart.yaml"; "values.yaml"; "templates/d.yaml"; "requirements.yaml"; "README.md"; "requirements.lock";
                       "charts/dep-a-0.1.0.tgz.prov"; "charts/dep-b-0.1.0.tgz"; "charts/dep-a-0.1.0.tgz"] /\
    Permutation.Permutation (walk_sort tree) tree /\ walk_sort tree <> tree /\
    Forall (fun f => eff_ignored ign0 (f_name f) = false /\ (slen (f_data f) <= 1000)%Z) tree /\
    exists c', load_dir_walk mergeU lock_decK parseK untarU sanK semverK restU 10000 1000 ign0 2 (walk_sort tree) = inr c' /\
      c_meta c' = c_meta c_v1 /\ c_lock c' = Some "digest" /\ c_values c' = c_values c_v1 /\
      map f_name (c_files c') = ["README.md"; "charts/dep-a-0.1.0.tgz.prov"; "requirements.lock"; "requirements.yaml"] /\
      map dname (c_deps c') = ["dep-a"; "dep-b"].
Proof. exact savedir_example. Qed.
Print Assumptions C15_savedir_load_roundtrip_ex.

(* ---------- subchart directories that are skipped; the "error unpacking" paths ---------- *)
(* files handed to a subchart whose name starts with '_' or '.' (charts/_x/..., charts/.x.tgz) have
   no influence on what LoadFiles returns (Raw apart, which is the input list) *)
Theorem C15_hidden_subcharts_ignored :
  forall (md_merge : meta -> string -> option meta) (lock_dec : string -> option (option lockv))
         (parse_values : string -> option val) (untar : string -> tstream)
         (sanitize : meta -> meta) (is_semver : string -> bool) (rest_valid : meta -> bool)
         (maxt maxf : Z) (fuel : nat) (l : list file),
  load_files md_merge lock_dec parse_values untar sanitize is_semver rest_valid maxt maxf fuel l =
  match load_files md_merge lock_dec parse_values untar sanitize is_semver rest_valid maxt maxf fuel
                   (filter (fun f => negb (hidden_file f)) l) with
  | inl e => inl e
  | inr c => inr (Chart (c_meta c) (c_lock c) l (c_values c) (c_schema c) (c_templates c) (c_files c) (c_deps c))
  end.
Proof. exact hidden_subcharts_ignored. Qed.
Print Assumptions C15_hidden_subcharts_ignored.

(* a packed dependency charts/<n> (n ends in .tgz, does not start with '_' or '.') makes LoadFiles
   fail when the first file of its group is not the archive itself (charts/a.tgz/extra listed
   first), when the archive cannot be read, or when the chart inside does not load *)
Theorem C15_packed_subchart_errors :
  forall (md_merge : meta -> string -> option meta) (lock_dec : string -> option (option lockv))
         (parse_values : string -> option val) (untar : string -> tstream)
         (sanitize : meta -> meta) (is_semver : string -> bool) (rest_valid : meta -> bool)
         (maxt maxf : Z) (fuel : nat) (l : list file) (n : string),
  group (Some n) l <> [] -> hidden n = false -> String.eqb (path_ext n) ".tgz" = true ->
  (match group (Some n) l with
   | f :: _ => charts_rest (f_name f) <> n \/
               (exists e, load_archive_files maxt maxf (untar (f_data f)) = inl e) \/
               (exists afs e, load_archive_files maxt maxf (untar (f_data f)) = inr afs /\
                  load_files md_merge lock_dec parse_values untar sanitize is_semver rest_valid maxt maxf fuel afs = inl e)
   | [] => False
   end) ->
  exists e, load_files md_merge lock_dec parse_values untar sanitize is_semver rest_valid maxt maxf (S fuel) l = inl e.
Proof. exact packed_subchart_errors. Qed.
Print Assumptions C15_packed_subchart_errors.

(* Chart.lock vs requirements.lock: no precedence by name -- in one file list the one that comes
   later in the list decides the lock (in both orders) *)
Theorem C15_lock_last_wins :
  forall (md_merge : meta -> string -> option meta) (lock_dec : string -> option (option lockv))
         (parse_values : string -> option val) (st : lstate) (f g : file) (la lb : option lockv),
  f_name f = "Chart.lock" -> f_name g = "requirements.lock" ->
  lock_dec (f_data f) = Some la -> lock_dec (f_data g) = Some lb ->
  (exists st', load_loop md_merge lock_dec parse_values st [f; g] = inr st' /\ ls_lock st' = lb) /\
  (exists st', load_loop md_merge lock_dec parse_values st [g; f] = inr st' /\ ls_lock st' = la).
Proof. exact lock_last_wins_names. Qed.
Print Assumptions C15_lock_last_wins.

(* ---------- translator: the constants of pkg/ignore/rules.go ---------- *)
(* read from the source on every run (hx gen-tables -> Gen/IgnoreConsts.v), by value (through
   constants, local variables, concatenations, same-package helpers): the rules AddDefaults hands to
   parseRule and the names parseRule probes filepath.Match with are the ones of the model -- the
   model's parse_ignore appends exactly the rules of AddDefaults, and its probe is the probe of the source *)
Theorem C15_ignore_constants :
  (ignore_default_rules = ["templates/.?*"] /\ ignore_match_probes = ["abc"]) /\
  (forall (pe : string -> bool) (text : option string),
     parse_ignore pe text =
     match parse_lines pe (match text with Some t => ignore_lines t | None => [] end),
           map (parse_rule pe) ignore_default_rules with
     | Some ps, [Some (Some d)] => Some (ps ++ [d])%list
     | Some ps, [Some None] => Some ps
     | _, _ => None
     end) /\
  (forall p, gmatch_err p = existsb (fun n => mres_eqb (gmatch p n) MBad) ignore_match_probes).
Proof. exact ignore_constants. Qed.
Print Assumptions C15_ignore_constants.

(* ---------- no .helmignore => exactly the built-in rule applies ---------- *)
(* LoadDir calls AddDefaults whether or not a .helmignore exists (seeded change C15-5 moved it into
   the "file exists" branch): without the file, or with a file of blank lines and comments only, the
   rule set is the single rule templates/.?*; it excludes exactly the paths filepath.Match accepts
   for that pattern -- dotfiles (and dot directories) directly in templates/ -- and nothing else *)
Theorem C15_default_rule_without_helmignore :
  parse_ignore gmatch_err None = Some [default_pat] /\
  (forall text,
     Forall (fun l => String.eqb (trim_space l) "" = true \/ String.prefix "#" (trim_space l) = true) (ignore_lines text) ->
     parse_ignore gmatch_err (Some text) = Some [default_pat]) /\
  (forall n isdir, rules_ignore gmatch_ok [default_pat] n isdir = negb (special_path n) && gmatch_ok "templates/.?*" n) /\
  rules_ignore gmatch_ok [default_pat] "templates/.gitkeep" false = true /\
  rules_ignore gmatch_ok [default_pat] "templates/.DS_Store" false = true /\
  rules_ignore gmatch_ok [default_pat] "templates/.dir" true = true /\
  rules_ignore gmatch_ok [default_pat] "templates/." false = false /\
  rules_ignore gmatch_ok [default_pat] "templates/deployment.yaml" false = false /\
  rules_ignore gmatch_ok [default_pat] "templates/sub/.hidden" false = false /\
  rules_ignore gmatch_ok [default_pat] "charts/sub/templates/.swp" false = false /\
  rules_ignore gmatch_ok [default_pat] ".gitignore" false = false.
Proof. exact default_rule_only. Qed.
Print Assumptions C15_default_rule_without_helmignore.

(* ---------- a .helmignore with a line Helm cannot parse aborts the load ---------- *)
(* parseRule rejects a line that is neither blank nor a comment and contains ** or is malformed for
   filepath.Match (bad_line); Parse returns the error, and LoadDir returns it before anything is walked
   (seeded change C15-8 dropped the whole file instead): whatever valid rules the file has besides,
   nothing is loaded -- and helm package, which starts with LoadDir, packages nothing *)
Theorem C15_malformed_helmignore_aborts :
  forall (md_merge : meta -> string -> option meta) (lock_dec : string -> option (option lockv))
         (parse_values : string -> option val) (untar : string -> tstream)
         (sanitize : meta -> meta) (is_semver : string -> bool) (rest_valid : meta -> bool)
         (maxt maxf : Z) (text l : string) (fuel : nat) (walk : list file),
  In l (ignore_lines text) -> bad_line l = true ->
  parse_ignore gmatch_err (Some text) = None /\
  load_dir_helmignore md_merge lock_dec parse_values untar sanitize is_semver rest_valid maxt maxf (Some text) fuel walk = inl LIgnore.
Proof. exact malformed_helmignore_aborts2. Qed.
Print Assumptions C15_malformed_helmignore_aborts.

Example C15_malformed_helmignore_aborts_ex :
  bad_line "docs/**/*.png" = true /\ bad_line "[z-" = true /\ bad_line "a/**" = true /\ bad_line "[" = true /\
  bad_line "x[]" = true /\ bad_line "abc\" = true /\ bad_line "  [a-  " = true /\
  bad_line "# [z-" = false /\ bad_line "*.bak" = false /\ bad_line "secrets/" = false /\ bad_line "x*[" = false /\
  In "docs/**/*.png" (ignore_lines mixed_text) /\ parse_ignore gmatch_err (Some mixed_text) = None.
Proof. exact bad_line_examples. Qed.
Print Assumptions C15_malformed_helmignore_aborts_ex.

(* C15 — property theorems only: each closed by [exact] of a lemma proved elsewhere. *)
From Coq Require Import List String ZArith.
From Helm Require Import Chart.Paths Chart.Archive Chart.Files Chart.Save Chart.Load.
Import ListNotations.
Local Open Scope string_scope.

(* K4: bytes.TrimPrefix(data, utf8bom) is applied to every file *)
Theorem C15_bom_refuted :
  exists data, trim_bom data <> data.
Proof. exists utf8bom. vm_compute. discriminate. Qed.
Print Assumptions C15_bom_refuted.

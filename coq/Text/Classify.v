(* C08 — classification of rendered documents: releaseutil.SortManifests and
   manifestFile.sort (pkg/release/util/manifest_sorter.go:74-205), and the part of
   action.renderResources (pkg/action/action.go:133-223) that removes NOTES.txt files and
   assembles the manifest text.

   YAML decoding of a document's head (sigs.k8s.io/yaml into SimpleHead) is a Section
   variable [head_of]; [None] is a parse error.  Go maps (files, annotations) are
   association lists with the map's keys; iteration order never matters because the code
   sorts the keys (files) or only looks keys up (annotations). *)
From Coq Require Import List String Ascii Bool Arith ZArith.
From Helm Require Import Common.Assoc Common.SortUniq Text.Split Text.KindSort Gen.Events.
Import ListNotations.
Local Open Scope string_scope.

(* ---- small Go library functions ---------------------------------------------- *)

(* strings.Split(s, sep) for a one-byte separator: always a non-empty list *)
Fixpoint split_on (sep : ascii) (s : string) : string * list string :=
  match s with
  | EmptyString => (EmptyString, [])
  | String c r =>
      let (p, ps) := split_on sep r in
      if Ascii.eqb c sep then (EmptyString, p :: ps) else (String c p, ps)
  end.
Definition split_comma (s : string) : list string := let (p, ps) := split_on "," s in p :: ps.

(* strings.ToLower on ASCII letters (bytes >= 0x80 are left alone: see notes/C08.md) *)
Definition lower_ascii (c : ascii) : ascii :=
  let n := nat_of_ascii c in
  if Nat.leb 65 n && Nat.leb n 90 then ascii_of_nat (n + 32) else c.
Fixpoint to_lower (s : string) : string :=
  match s with
  | EmptyString => EmptyString
  | String c r => String (lower_ascii c) (to_lower r)
  end.

(* strings.ToLower(strings.TrimSpace(x)) *)
Definition norm_token (s : string) : string := to_lower (trim_space s).

(* strconv.Atoi: optional sign, then one or more decimal digits, value within int64;
   anything else is an error, which calculateHookWeight turns into 0 *)
Definition digit_of (c : ascii) : option Z :=
  let n := nat_of_ascii c in
  if Nat.leb 48 n && Nat.leb n 57 then Some (Z.of_nat (n - 48)) else None.
Fixpoint digits_val (s : string) (acc : Z) : option Z :=
  match s with
  | EmptyString => Some acc
  | String c r => match digit_of c with Some d => digits_val r (acc * 10 + d)%Z | None => None end
  end.
Definition atoi_z (s : string) : option Z :=
  let body neg r :=
    match r with
    | EmptyString => None
    | _ => match digits_val r 0 with
           | Some v => let x := if neg : bool then (- v)%Z else v in
                       if (Z.leb (-9223372036854775808) x && Z.leb x 9223372036854775807)%bool
                       then Some x else None
           | None => None
           end
    end in
  match s with
  | String c r => if is_byte 43 c then body false r else if is_byte 45 c then body true r else body false s
  | EmptyString => None
  end.

(* path.Base *)
Fixpoint strip_trailing_slashes_rev (s : string) : string :=
  match s with
  | String c r => if is_byte 47 c then strip_trailing_slashes_rev r else s
  | EmptyString => s
  end.
Fixpoint take_until_slash (s : string) : string :=
  match s with
  | String c r => if is_byte 47 c then EmptyString else String c (take_until_slash r)
  | EmptyString => EmptyString
  end.
Definition path_base (p : string) : string :=
  match p with
  | EmptyString => "."
  | _ => let r := strip_trailing_slashes_rev (srev p) in
         match srev (take_until_slash r) with
         | EmptyString => "/"
         | b => b
         end
  end.

Definition has_prefix (p s : string) : bool := String.prefix p s.
Definition has_suffix (suf s : string) : bool := String.prefix (srev suf) (srev s).

(* ---- documents, heads, results ----------------------------------------------- *)

(* SimpleHead: Metadata is a pointer (nil when the document has no metadata) *)
Record head := mkHead {
  h_version : string;
  h_kind : string;
  h_meta : option (string * list (string * string))     (* name, annotations *)
}.

Record manifest := mkManifest { m_name : string; m_content : string; m_head : head }.

Record hook := mkHook {
  hk_name : string; hk_kind : string; hk_path : string; hk_manifest : string;
  hk_events : list string; hk_weight : Z; hk_delete : list string; hk_outlog : list string
}.

Inductive cls :=
| CGeneric (m : manifest)
| CHook (h : hook)
| CDropped                (* hook annotation naming an unknown event: skipped with a log line *)
| CError.                 (* YAML parse error: SortManifests returns the error *)

(* for _, hookType := range strings.Split(hookTypes, ",") { ...; e, ok := events[..]; if !ok { unknown; break } } *)
Fixpoint parse_events (toks : list string) : option (list string) :=
  match toks with
  | [] => Some []
  | t :: rest =>
      match aget (norm_token t) hook_events with
      | None => None
      | Some e => match parse_events rest with Some es => Some (e :: es) | None => None end
      end
  end.

(* operateAnnotationValues *)
Definition annotation_values (ann : list (string * string)) (key : string) : list string :=
  match aget key ann with
  | Some v => map norm_token (split_comma v)
  | None => []
  end.

Definition hook_weight (ann : list (string * string)) : Z :=
  match aget hook_weight_annotation ann with
  | Some w => match atoi_z w with Some z => z | None => 0%Z end
  | None => 0%Z                                   (* Atoi("") fails *)
  end.

Section Classify.
  Variable head_of : string -> option head.

  (* one iteration of the loop in manifestFile.sort *)
  Definition classify (path doc : string) : cls :=
    match head_of doc with
    | None => CError
    | Some h =>
        match h_meta h with
        | None => CGeneric (mkManifest path doc h)
        | Some (name, ann) =>
            match ann with
            | [] => CGeneric (mkManifest path doc h)           (* hasAnyAnnotation *)
            | _ =>
                match aget hook_annotation ann with
                | None => CGeneric (mkManifest path doc h)
                | Some types =>
                    match parse_events (split_comma types) with
                    | None => CDropped
                    | Some evs =>
                        CHook (mkHook name (h_kind h) path doc evs (hook_weight ann)
                                 (annotation_values ann hook_delete_annotation)
                                 (annotation_values ann hook_output_log_annotation))
                    end
                end
            end
        end
    end.

  (* files that SortManifests looks at, in the order it looks at them *)
  Definition is_partial (path : string) : bool := has_prefix "_" (path_base path).
  Definition is_blank (content : string) : bool := is_empty (trim_space content).
  Definition file_skipped (f : string * string) : bool := is_partial (fst f) || is_blank (snd f).

  Definition sorted_files (files : list (string * string)) : list (string * string) :=
    ssort (by_key String.leb fst) files.                       (* sort.Strings(sortedFilePaths) *)

  (* the (path, document) sequence in processing order *)
  Definition file_docs (f : string * string) : list (string * string) :=
    map (fun d => (fst f, d)) (split_manifests (snd f)).
  Definition all_docs (files : list (string * string)) : list (string * string) :=
    flat_map file_docs (filter (fun f => negb (file_skipped f)) (sorted_files files)).

  (* result accumulation; the first parse error aborts *)
  Fixpoint classify_all (docs : list (string * string)) : option (list hook * list manifest) :=
    match docs with
    | [] => Some ([], [])
    | (p, d) :: t =>
        match classify p d with
        | CError => None
        | c =>
            match classify_all t with
            | None => None
            | Some (hs, gs) =>
                match c with
                | CGeneric m => Some (hs, m :: gs)
                | CHook h => Some (h :: hs, gs)
                | _ => Some (hs, gs)
                end
            end
        end
    end.

  Inductive sort_result :=
  | SortOk (hooks : list hook) (generic : list manifest)
  | SortErr.

  Definition sort_manifests (order : list string) (files : list (string * string)) : sort_result :=
    match classify_all (all_docs files) with
    | None => SortErr
    | Some (hs, gs) =>
        SortOk (sort_by_kind hk_kind order hs) (sort_by_kind (fun m => h_kind (m_head m)) order gs)
    end.

  (* ---- action.renderResources: NOTES removed first, then the manifest text ------- *)
  Definition is_notes (path : string) : bool := has_suffix notes_file_suffix path.

  Definition manifest_text (gs : list manifest) : string :=
    fold_right (fun m acc => "---" ++ String (byte 10) "# Source: " ++ m_name m ++ String (byte 10) (m_content m)
                               ++ String (byte 10) acc) EmptyString gs.

  Inductive render_result :=
  | RenderOk (hooks : list hook) (text : string)
  | RenderErr.

  Definition render_resources (order : list string) (files : list (string * string)) : render_result :=
    match sort_manifests order (filter (fun f => negb (is_notes (fst f))) files) with
    | SortErr => RenderErr
    | SortOk hs gs => RenderOk hs (manifest_text gs)
    end.
End Classify.

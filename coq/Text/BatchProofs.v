(* C08 — the barrier between kind batches holds in every interleaving (Text/Batch.v). *)
From Coq Require Import List String Bool Arith Lia Permutation.
From Helm Require Import Text.Batch.
Import ListNotations.
Local Open Scope string_scope.

(* ---- batch numbers ------------------------------------------------------------ *)
Lemma batches_from_length p b ks : List.length (batches_from p b ks) = List.length ks.
Proof. revert p b. induction ks as [|k t IH]; simpl; intros; auto. Qed.

Lemma batch_ids_length ks : List.length (batch_ids ks) = List.length ks.
Proof. apply batches_from_length. Qed.

Lemma batches_from_ge p b ks i x : nth_error (batches_from p b ks) i = Some x -> b <= x.
Proof.
  revert p b i. induction ks as [|k t IH]; simpl; intros p b i H.
  - destruct i; discriminate.
  - destruct i; simpl in H.
    + inversion H. destruct (String.eqb p k); lia.
    + apply IH in H. destruct (String.eqb p k); lia.
Qed.

Lemma batches_from_mono p b ks i j x y :
  i <= j -> nth_error (batches_from p b ks) i = Some x -> nth_error (batches_from p b ks) j = Some y -> x <= y.
Proof.
  revert p b i j. induction ks as [|k t IH]; simpl; intros p b i j Hij Hi Hj.
  - destruct i; discriminate.
  - destruct i, j; simpl in *; try lia.
    + rewrite Hi in Hj. inversion Hj. lia.
    + inversion Hi; subst. apply batches_from_ge in Hj. lia.
    + eapply IH; [|eauto|eauto]. lia.
Qed.

Lemma batches_from_adj p b ks i a c x y :
  nth_error ks i = Some a -> nth_error ks (S i) = Some c ->
  nth_error (batches_from p b ks) i = Some x -> nth_error (batches_from p b ks) (S i) = Some y ->
  y = if String.eqb a c then x else S x.
Proof.
  revert p b i. induction ks as [|k t IH]; simpl; intros p b i Ha Hc Hx Hy.
  - destruct i; discriminate.
  - destruct i; simpl in *.
    + inversion Ha; subst. inversion Hx; subst. destruct t as [|k2 t2]; [discriminate|].
      simpl in *. inversion Hc; subst. inversion Hy; subst. reflexivity.
    + eapply IH; eauto.
Qed.

(* total versions with defaults, used inside the proofs only *)
Definition kind_at (ks : list string) (j : nat) : string := nth j ks "".
Definition bat (ks : list string) (j : nat) : nat := nth j (batch_ids ks) 0.

Lemma nth_error_nth' {A} (l : list A) i d : i < List.length l -> nth_error l i = Some (nth i l d).
Proof. revert i. induction l; simpl; intros i H; [lia|]. destruct i; simpl; auto. apply IHl. lia. Qed.

Lemma bat_mono ks i j : i <= j -> j < List.length ks -> bat ks i <= bat ks j.
Proof.
  intros Hij Hj. unfold bat, batch_ids.
  eapply batches_from_mono; [exact Hij| |]; apply nth_error_nth'; rewrite batches_from_length; lia.
Qed.

Lemma bat_adj ks i : S i < List.length ks ->
  bat ks (S i) = if String.eqb (kind_at ks i) (kind_at ks (S i)) then bat ks i else S (bat ks i).
Proof.
  intros H. unfold bat, batch_ids, kind_at.
  eapply batches_from_adj; apply nth_error_nth'; rewrite ?batches_from_length; lia.
Qed.

(* ---- worker status predicates -------------------------------------------------- *)
Definition spawned (w : wstate) : bool := match w with WIdle => false | _ => true end.
Definition active (w : wstate) : bool := match w with WReady | WRunning | WSending | WSent => true | _ => false end.
Definition started (w : wstate) : bool := match w with WRunning | WSending | WSent | WDone => true | _ => false end.
Definition ended (w : wstate) : bool := match w with WSending | WSent | WDone => true | _ => false end.
Definition handed (w : wstate) : bool := match w with WSent | WDone => true | _ => false end.
Definition isdone (w : wstate) : bool := match w with WDone => true | _ => false end.

Fixpoint nactive (f : nat -> wstate) (k : nat) : nat :=
  match k with
  | O => 0
  | S k' => (if active (f k') then 1 else 0) + nactive f k'
  end.

Lemma nactive_upd_out f j v k : k <= j -> nactive (upd f j v) k = nactive f k.
Proof.
  induction k; simpl; intros H; auto. unfold upd at 1.
  destruct (Nat.eqb k j) eqn:E; [apply Nat.eqb_eq in E; lia|]. rewrite IHk by lia. reflexivity.
Qed.

Lemma nactive_upd_in f j v k : j < k ->
  nactive (upd f j v) k + (if active (f j) then 1 else 0) = nactive f k + (if active v then 1 else 0).
Proof.
  induction k; simpl; intros H; [lia|]. unfold upd at 1.
  destruct (Nat.eqb k j) eqn:E.
  - apply Nat.eqb_eq in E. subst k. rewrite nactive_upd_out by lia. lia.
  - apply Nat.eqb_neq in E. assert (j < k) by lia. specialize (IHk H0). lia.
Qed.

Lemma nactive_zero f k : nactive f k = 0 -> forall j, j < k -> active (f j) = false.
Proof.
  induction k; simpl; intros H j Hj; [lia|].
  destruct (active (f k)) eqn:E; [lia|].
  destruct (Nat.eq_dec j k); [subst; auto|]. apply IHk; lia.
Qed.

Lemma nactive_pos f k j : j < k -> active (f j) = true -> 1 <= nactive f k.
Proof.
  induction k; simpl; intros Hj Ha; [lia|].
  destruct (Nat.eq_dec j k); [subst; rewrite Ha; lia|]. assert (j < k) by lia. specialize (IHk H Ha). lia.
Qed.

Lemma NoDup_app_snoc {A} (l : list A) x : NoDup l -> ~ In x l -> NoDup (l ++ [x]).
Proof.
  induction l as [|y t IH]; simpl; intros Hn Hx.
  - constructor; auto.
  - inversion Hn; subst. constructor.
    + rewrite in_app_iff. simpl. intros [H|[H|[]]]; auto.
    + apply IH; auto.
Qed.

(* ---- the invariant ------------------------------------------------------------- *)
Section Proofs.
  Variable kinds : list string.
  Variable fails : nat -> bool.
  Let n := List.length kinds.

  Definition pos (b : bpc) : nat :=
    match b with BHead k | BWait k | BAdd k | BGo k => k | BEnd => n end.

  (* the batch that is currently allowed to run *)
  Definition open_batch (b : bpc) : nat :=
    match b with
    | BHead k | BWait k => bat kinds (k - 1)
    | BAdd k | BGo k => bat kinds k
    | BEnd => bat kinds (n - 1)
    end.

  Record Inv (s : state) : Prop := {
    i_pos : pos (bp s) <= n /\ match bp s with BWait k | BAdd k | BGo k => k < n | _ => True end;
    i_spawn : forall j, spawned (ws s j) = true <-> j < pos (bp s);
    i_wg : wg s = nactive (ws s) (pos (bp s)) + match bp s with BGo _ => 1 | _ => 0 end;
    i_prev : match bp s with
             | BHead k | BWait k => 0 < k -> prev_kind s = kind_at kinds (k - 1)
             | BAdd k | BGo k => prev_kind s = kind_at kinds k
             | BEnd => True
             end;
    i_first : match bp s with BHead 0 | BWait 0 => prev_kind s = "" | _ => True end;
    i_open : forall j, j < pos (bp s) -> isdone (ws s j) = false -> bat kinds j = open_batch (bp s);
    i_start : forall j, In (EStart j) (log s) <-> started (ws s j) = true;
    i_end : forall j, In (EEnd j) (log s) <-> ended (ws s j) = true;
    i_nodup : NoDup (log s);
    i_rnodup : NoDup (map fst (recvd s));
    i_recvd : forall j, In j (map fst (recvd s)) <-> handed (ws s j) = true;
    i_res : forall j b, In (j, b) (recvd s) -> b = fails j;
    i_ret : returned s = true -> List.length (recvd s) = n
  }.

  (* every earlier batch has finished whenever a create starts: on the log (newest first) *)
  Definition Barrier (l : list event) : Prop :=
    forall l1 j' l2, l = (l1 ++ EStart j' :: l2)%list ->
      forall j, j < n -> j' < n -> bat kinds j < bat kinds j' -> In (EEnd j) l2.

  Lemma inv_init : Inv (init).
  Proof.
    constructor; simpl; auto.
    all: try (intros j; split; [intros []|discriminate]).
    - split; [lia|exact I].
    - intros j. split; [discriminate|lia].
    - lia.
    - intros j Hj. lia.
    - constructor.
    - constructor.
    - intros j b [].
    - discriminate.
  Qed.

  Ltac updcase j0 j := unfold upd; destruct (Nat.eqb j0 j) eqn:?Ej;
    [apply Nat.eqb_eq in Ej; subst j0|apply Nat.eqb_neq in Ej].

  Lemma inv_step_b s : Inv s -> Inv (step_b kinds s).
  Proof.
    intros I. destruct I. unfold step_b.
    destruct (bp s) as [k|k|k|k|] eqn:Eb; simpl in *.
    - (* BHead k *)
      destruct (nth_error kinds k) as [ck|] eqn:Ek.
      + assert (Hk : k < n) by (apply nth_error_Some; congruence).
        assert (Hck : kind_at kinds k = ck).
        { unfold kind_at. erewrite nth_error_nth' in Ek by exact Hk. inversion Ek. reflexivity. }
        destruct (String.eqb (prev_kind s) ck) eqn:Ep; constructor; simpl; auto; try lia.
        * apply String.eqb_eq in Ep. congruence.
        * (* same kind as the previous resource: the open batch does not change *)
          intros j Hj Hd. rewrite (i_open0 j Hj Hd).
          destruct k as [|k']; [lia|]. replace (S k' - 1) with k' by lia.
          rewrite bat_adj by exact Hk. assert (Hp : prev_kind s = kind_at kinds (S k' - 1)) by (apply i_prev0; lia).
          replace (S k' - 1) with k' in Hp by lia. rewrite <- Hp, Hck, Ep. reflexivity.
      + assert (Hk : n <= k) by (apply nth_error_None; exact Ek).
        assert (k = n) by lia. subst k.
        constructor; simpl; auto; try lia.
    - (* BWait k *)
      destruct (wg s) eqn:Ew; [|constructor; rewrite ?Eb; simpl; auto; rewrite ?Ew; auto].
      destruct (nth_error kinds k) as [ck|] eqn:Ek; [|constructor; rewrite ?Eb; simpl; auto; rewrite ?Ew; auto].
      assert (Hk : k < n) by tauto.
      assert (Hck : kind_at kinds k = ck).
      { unfold kind_at. erewrite nth_error_nth' in Ek by exact Hk. inversion Ek. reflexivity. }
      constructor; simpl; auto; try lia.
      + (* nobody is active: every spawned worker is done, the invariant about the open batch is vacuous *)
        intros j Hj Hd. exfalso.
        assert (Ha : active (ws s j) = false) by (eapply nactive_zero; [|exact Hj]; lia).
        assert (Hs : spawned (ws s j) = true) by (apply i_spawn0; exact Hj).
        destruct (ws s j); simpl in *; discriminate.
    - (* BAdd k *)
      constructor; simpl; auto; try lia.
    - (* BGo k *)
      constructor; simpl; auto; try lia.
      + intros j. updcase j k; simpl.
        * split; intros; [lia|reflexivity].
        * rewrite i_spawn0. lia.
      + unfold upd at 1. rewrite Nat.eqb_refl. simpl. rewrite nactive_upd_out by lia. lia.
      + intros _. rewrite Nat.sub_0_r. exact i_prev0.
      + intros j Hj. rewrite Nat.sub_0_r. updcase j k; simpl; intros Hd; auto.
        apply i_open0; auto. lia.
      + intros j. rewrite i_start0. updcase j k; simpl; [|tauto].
        assert (spawned (ws s k) = true <-> k < k) by apply i_spawn0.
        destruct (ws s k); simpl in *; split; intros; try discriminate; try tauto; exfalso; lia.
      + intros j. rewrite i_end0. updcase j k; simpl; [|tauto].
        assert (spawned (ws s k) = true <-> k < k) by apply i_spawn0.
        destruct (ws s k); simpl in *; split; intros; try discriminate; try tauto; exfalso; lia.
      + intros j. rewrite i_recvd0. updcase j k; simpl; [|tauto].
        assert (spawned (ws s k) = true <-> k < k) by apply i_spawn0.
        destruct (ws s k); simpl in *; split; intros; try discriminate; try tauto; exfalso; lia.
    - constructor; rewrite ?Eb; simpl; auto.
  Qed.

  Lemma inv_step_w s j : Inv s -> Inv (step_w s j).
  Proof.
    intros I. destruct I. unfold step_w.
    destruct (ws s j) eqn:Ew; try (constructor; auto; fail).
    - (* WReady -> WRunning, EStart j logged *)
      assert (Hj : j < pos (bp s)) by (apply i_spawn0; rewrite Ew; reflexivity).
      constructor; simpl; auto.
      + intros j0. updcase j0 j; simpl; [|apply i_spawn0]. split; auto.
      + rewrite i_wg0. f_equal.
        pose proof (nactive_upd_in (ws s) j WRunning _ Hj) as H. rewrite Ew in H. simpl in H. lia.
      + intros j0 Hj0. updcase j0 j; simpl; intros Hd; apply i_open0; auto. now rewrite Ew.
      + intros j0. updcase j0 j; simpl.
        * split; auto.
        * rewrite <- i_start0. split; [intros [H|H]; [congruence|auto]|auto].
      + intros j0. updcase j0 j; simpl.
        * split; [intros [H|H]; [discriminate|]|discriminate]. apply i_end0 in H. rewrite Ew in H. discriminate.
        * rewrite <- i_end0. split; [intros [H|H]; [discriminate|auto]|auto].
      + constructor; auto. intros H. apply i_start0 in H. rewrite Ew in H. discriminate.
      + intros j0. rewrite i_recvd0. updcase j0 j; simpl; [rewrite Ew; simpl|]; tauto.
    - (* WRunning -> WSending, EEnd j logged *)
      assert (Hj : j < pos (bp s)) by (apply i_spawn0; rewrite Ew; reflexivity).
      constructor; simpl; auto.
      + intros j0. updcase j0 j; simpl; [|apply i_spawn0]. split; auto.
      + rewrite i_wg0. f_equal.
        pose proof (nactive_upd_in (ws s) j WSending _ Hj) as H. rewrite Ew in H. simpl in H. lia.
      + intros j0 Hj0. updcase j0 j; simpl; intros Hd; apply i_open0; auto. now rewrite Ew.
      + intros j0. updcase j0 j; simpl.
        * split; auto. intros _. right. apply i_start0. now rewrite Ew.
        * rewrite <- i_start0. split; [intros [H|H]; [discriminate|auto]|auto].
      + intros j0. updcase j0 j; simpl.
        * split; auto.
        * rewrite <- i_end0. split; [intros [H|H]; [congruence|auto]|auto].
      + constructor; auto. intros H. apply i_end0 in H. rewrite Ew in H. discriminate.
      + intros j0. rewrite i_recvd0. updcase j0 j; simpl; [rewrite Ew; simpl|]; tauto.
    - (* WSent -> WDone, wg.Done() *)
      assert (Hj : j < pos (bp s)) by (apply i_spawn0; rewrite Ew; reflexivity).
      constructor; simpl; auto.
      + intros j0. updcase j0 j; simpl; [|apply i_spawn0]. split; auto.
      + rewrite i_wg0.
        pose proof (nactive_upd_in (ws s) j WDone _ Hj) as H. rewrite Ew in H. simpl in H. lia.
      + intros j0 Hj0. updcase j0 j; simpl; intros Hd; [discriminate|]. apply i_open0; auto.
      + intros j0. rewrite i_start0. updcase j0 j; simpl; [rewrite Ew; simpl|]; tauto.
      + intros j0. rewrite i_end0. updcase j0 j; simpl; [rewrite Ew; simpl|]; tauto.
      + intros j0. rewrite i_recvd0. updcase j0 j; simpl; [rewrite Ew; simpl|]; tauto.
  Qed.

  Lemma inv_step_recv s j : Inv s -> Inv (step_recv kinds fails s j).
  Proof.
    intros I. unfold step_recv.
    destruct (ws s j) eqn:Ew; auto.
    destruct (returned s) eqn:Er; auto.
    destruct (Nat.ltb (List.length (recvd s)) (n_infos kinds)) eqn:El; auto.
    destruct I.
    assert (Hj : j < pos (bp s)) by (apply i_spawn0; rewrite Ew; reflexivity).
    constructor; simpl; auto.
    - intros j0. updcase j0 j; simpl; [|apply i_spawn0]. split; auto.
    - rewrite i_wg0. f_equal.
      pose proof (nactive_upd_in (ws s) j WSent _ Hj) as H. rewrite Ew in H. simpl in H. lia.
    - intros j0 Hj0. updcase j0 j; simpl; intros Hd; apply i_open0; auto. now rewrite Ew.
    - intros j0. rewrite i_start0. updcase j0 j; simpl; [rewrite Ew; simpl|]; tauto.
    - intros j0. rewrite i_end0. updcase j0 j; simpl; [rewrite Ew; simpl|]; tauto.
    - rewrite map_app. simpl. apply NoDup_app_snoc; auto.
      intros H. apply i_recvd0 in H. rewrite Ew in H. discriminate.
    - intros j0. rewrite map_app, in_app_iff. simpl. rewrite i_recvd0. updcase j0 j; simpl.
      + split; auto.
      + split; [intros [H|[H|[]]]; [auto|congruence]|auto].
    - intros j0 b H. apply in_app_or in H. destruct H as [H|[H|[]]]; [eauto|]. now inversion H.
    - discriminate.
  Qed.

  Lemma inv_step_p s : Inv s -> Inv (step_p kinds s).
  Proof.
    intros I. unfold step_p.
    destruct (Nat.eqb (List.length (recvd s)) (n_infos kinds)) eqn:E; auto.
    apply Nat.eqb_eq in E. destruct I. constructor; simpl; auto.
  Qed.

  Lemma inv_step s c : Inv s -> Inv (step kinds fails s c).
  Proof.
    destruct c; simpl; [apply inv_step_b|apply inv_step_w|apply inv_step_recv|apply inv_step_p].
  Qed.

  (* an end is logged only after the start of the same create *)
  Definition StartFirst (l : list event) : Prop :=
    forall l1 j l2, l = (l1 ++ EEnd j :: l2)%list -> In (EStart j) l2.

  Lemma cons_split {A} (e : A) l l1 x l2 :
    e :: l = (l1 ++ x :: l2)%list -> (l1 = [] /\ e = x /\ l = l2) \/ (exists l1', l1 = e :: l1' /\ l = (l1' ++ x :: l2)%list).
  Proof.
    destruct l1 as [|y t]; simpl; intros H; inversion H; subst; [left; auto|right; eauto].
  Qed.

  Lemma traces_step s c :
    Inv s -> Barrier (log s) /\ StartFirst (log s) ->
    Barrier (log (step kinds fails s c)) /\ StartFirst (log (step kinds fails s c)).
  Proof.
    intros I [HB HS]. destruct c as [|j|j|]; simpl.
    - (* B does not log *)
      unfold step_b. destruct (bp s); simpl; auto.
      + destruct (nth_error kinds k); [destruct (String.eqb (prev_kind s) s0)|]; simpl; auto.
      + destruct (wg s); auto. destruct (nth_error kinds k); simpl; auto.
    - unfold step_w. destruct (ws s j) eqn:Ew; simpl; auto.
      + (* EStart j: every earlier batch is done *)
        split.
        * intros l1 j' l2 H i Hi Hj' Hlt. apply cons_split in H.
          destruct H as [(-> & He & <-)|(l1' & -> & H)]; [|eapply HB; eauto].
          inversion He; subst j'. destruct I.
          assert (Hjp : j < pos (bp s)) by (apply i_spawn0; rewrite Ew; reflexivity).
          assert (Hjo : bat kinds j = open_batch (bp s)) by (apply i_open0; auto; rewrite Ew; reflexivity).
          assert (Hip : i < pos (bp s)).
          { destruct (Nat.lt_ge_cases i (pos (bp s))) as [|Hge]; auto. exfalso.
            assert (bat kinds j <= bat kinds i) by (apply bat_mono; [lia|exact Hi]). lia. }
          apply i_end0. destruct (isdone (ws s i)) eqn:Ed.
          { destruct (ws s i); simpl in *; try discriminate; reflexivity. }
          exfalso. apply i_open0 in Ed; auto. lia.
        * intros l1 j' l2 H. apply cons_split in H.
          destruct H as [(-> & He & <-)|(l1' & -> & H)]; [discriminate|eapply HS; eauto].
      + split.
        * intros l1 j' l2 H. apply cons_split in H.
          destruct H as [(-> & He & <-)|(l1' & -> & H)]; [discriminate|eapply HB; eauto].
        * intros l1 j' l2 H. apply cons_split in H.
          destruct H as [(-> & He & <-)|(l1' & -> & H)]; [|eapply HS; eauto].
          inversion He; subst j'. destruct I. apply i_start0. rewrite Ew. reflexivity.
    - unfold step_recv. destruct (ws s j); auto. destruct (returned s); auto.
      destruct (Nat.ltb _ _); auto.
    - unfold step_p. destruct (Nat.eqb _ _); auto.
  Qed.

  Lemma run_from_inv sched : forall s,
    Inv s -> Barrier (log s) /\ StartFirst (log s) ->
    Inv (fold_left (step kinds fails) sched s) /\
    Barrier (log (fold_left (step kinds fails) sched s)) /\ StartFirst (log (fold_left (step kinds fails) sched s)).
  Proof.
    induction sched as [|c t IH]; simpl; intros s I T; [tauto|].
    apply IH; [now apply inv_step|now apply traces_step].
  Qed.

  Lemma run_inv sched :
    Inv (run kinds fails sched) /\ Barrier (log (run kinds fails sched)) /\ StartFirst (log (run kinds fails sched)).
  Proof.
    apply run_from_inv; [apply inv_init|].
    split; intros l1 j l2 H; destruct l1; discriminate.
  Qed.

  Lemma nth_error_bat j b : nth_error (batch_ids kinds) j = Some b -> j < n /\ bat kinds j = b.
  Proof.
    intros H. assert (j < n).
    { unfold n. rewrite <- batch_ids_length. apply nth_error_Some. congruence. }
    split; auto. unfold bat. erewrite nth_error_nth' in H by (rewrite batch_ids_length; exact H0).
    now inversion H.
  Qed.

  (* ---- the statements of C08_barrier ------------------------------------------- *)
  Theorem barrier_every_interleaving sched pre j' post :
    trace (run kinds fails sched) = (pre ++ EStart j' :: post)%list ->
    forall j b b', nth_error (batch_ids kinds) j = Some b -> nth_error (batch_ids kinds) j' = Some b' ->
      b < b' -> In (EEnd j) pre.
  Proof.
    intros H j b b' Hb Hb' Hlt. destruct (run_inv sched) as (_ & HB & _).
    apply nth_error_bat in Hb, Hb'. destruct Hb as [Hj <-], Hb' as [Hj' <-].
    unfold trace in H. apply (f_equal (@rev event)) in H. rewrite rev_involutive in H.
    rewrite rev_app_distr in H. simpl in H. rewrite <- app_assoc in H. simpl in H.
    apply in_rev. eapply HB; eauto.
  Qed.

  Theorem start_before_end sched pre j post :
    trace (run kinds fails sched) = (pre ++ EEnd j :: post)%list -> In (EStart j) pre.
  Proof.
    intros H. destruct (run_inv sched) as (_ & _ & HS).
    unfold trace in H. apply (f_equal (@rev event)) in H. rewrite rev_involutive in H.
    rewrite rev_app_distr in H. simpl in H. rewrite <- app_assoc in H. simpl in H.
    apply in_rev. eapply HS; eauto.
  Qed.

  Theorem created_at_most_once sched :
    NoDup (trace (run kinds fails sched)) /\
    forall j, (In (EStart j) (trace (run kinds fails sched)) \/ In (EEnd j) (trace (run kinds fails sched))) -> j < n.
  Proof.
    destruct (run_inv sched) as (I & _ & _). destruct I. split.
    - unfold trace. now apply NoDup_rev.
    - intros j H. unfold trace in H. rewrite <- !in_rev in H.
      assert (Hs : spawned (ws (run kinds fails sched) j) = true).
      { destruct H as [H|H]; [apply i_start0 in H|apply i_end0 in H];
          destruct (ws (run kinds fails sched) j); simpl in *; try discriminate; reflexivity. }
      apply i_spawn0 in Hs. lia.
  Qed.

  Lemma filter_perm {A} (f : A -> bool) l l' : Permutation l l' -> Permutation (filter f l) (filter f l').
  Proof.
    induction 1; simpl; auto.
    - destruct (f x); auto.
    - destruct (f x), (f y); auto. apply perm_swap.
    - etransitivity; eauto.
  Qed.

  Theorem returns_after_all_results sched :
    returned (run kinds fails sched) = true ->
    let s := run kinds fails sched in
    List.length (recvd s) = n /\
    Permutation (map fst (recvd s)) (seq 0 n) /\
    (forall j, j < n -> In (EStart j) (trace s) /\ In (EEnd j) (trace s)) /\
    Permutation (failed s) (filter fails (seq 0 n)).
  Proof.
    intros Hr s. destruct (run_inv sched) as (I & _ & _). fold s in I. destruct I.
    specialize (i_ret0 Hr).
    assert (Hincl : incl (map fst (recvd s)) (seq 0 n)).
    { intros j Hj. apply i_recvd0 in Hj. apply in_seq.
      assert (spawned (ws s j) = true) by (destruct (ws s j); simpl in *; try discriminate; reflexivity).
      apply i_spawn0 in H. lia. }
    assert (Hincl' : incl (seq 0 n) (map fst (recvd s))).
    { apply NoDup_length_incl; auto. rewrite map_length, seq_length. lia. }
    assert (P : Permutation (map fst (recvd s)) (seq 0 n)).
    { apply NoDup_Permutation; auto; [apply seq_NoDup|]. intros x. split; auto. }
    repeat split; auto.
    - unfold trace. rewrite <- in_rev. apply i_start0.
      assert (In j (map fst (recvd s))) by (apply Hincl', in_seq; lia).
      apply i_recvd0 in H0. destruct (ws s j); simpl in *; try discriminate; reflexivity.
    - unfold trace. rewrite <- in_rev. apply i_end0.
      assert (In j (map fst (recvd s))) by (apply Hincl', in_seq; lia).
      apply i_recvd0 in H0. destruct (ws s j); simpl in *; try discriminate; reflexivity.
    - unfold failed.
      assert (E : map fst (filter snd (recvd s)) = filter fails (map fst (recvd s))).
      { clear - i_res0. induction (recvd s) as [|[j b] t IH]; simpl; auto.
        rewrite (i_res0 j b) by now left. simpl in *.
        destruct (fails j); simpl; rewrite IH; auto; intros; apply i_res0; now right. }
      rewrite E. now apply filter_perm.
  Qed.

  (* ---- no deadlock: while perform has not returned, some thread can move ----------- *)
  Lemma find_lt (P : nat -> bool) m : (exists j, j < m /\ P j = true) \/ (forall j, j < m -> P j = false).
  Proof.
    induction m as [|m IH].
    - right. intros j Hj. lia.
    - destruct IH as [(j & Hj & Hp)|Hn].
      + left. exists j. split; [lia|auto].
      + destruct (P m) eqn:E.
        * left. exists m. split; [lia|auto].
        * right. intros j Hj. destruct (Nat.eq_dec j m); [subst; auto|apply Hn; lia].
  Qed.

  Lemma nactive_none f k : (forall j, j < k -> active (f j) = false) -> nactive f k = 0.
  Proof.
    induction k; simpl; intros H; auto. rewrite (H k) by lia. rewrite IHk; auto.
  Qed.

  Lemma recvd_bound s : Inv s -> List.length (recvd s) <= n.
  Proof.
    intros I. destruct I. rewrite <- (map_length fst), <- (seq_length n 0).
    apply NoDup_incl_length; auto. intros j Hj. apply i_recvd0 in Hj. apply in_seq.
    assert (spawned (ws s j) = true) by (destruct (ws s j); simpl in *; try discriminate; reflexivity).
    apply i_spawn0 in H. lia.
  Qed.

  Theorem no_deadlock_inv s : Inv s -> returned s = false -> exists c, step kinds fails s c <> s.
  Proof.
    intros I Hr. pose proof (recvd_bound s I) as Hb. destruct I.
    (* a worker that can move by itself *)
    destruct (find_lt (fun j => match ws s j with WReady | WRunning | WSent => true | _ => false end) n)
      as [(j & Hj & Hp)|Hnone].
    { exists (ChW j). simpl. unfold step_w. intros H.
      apply (f_equal (fun st => ws st j)) in H.
      destruct (ws s j) eqn:E; try discriminate; simpl in H; unfold upd in H; rewrite Nat.eqb_refl in H; congruence. }
    (* a worker waiting to hand over its result *)
    destruct (find_lt (fun j => match ws s j with WSending => true | _ => false end) n)
      as [(j & Hj & Hp)|Hnosend].
    { exists (ChRecv j). simpl. unfold step_recv. intros H.
      destruct (ws s j) eqn:E; try discriminate. rewrite Hr in H.
      assert (Hlt : List.length (recvd s) < n).
      { assert (Hnj : ~ In j (map fst (recvd s))) by (intros Hin; apply i_recvd0 in Hin; rewrite E in Hin; discriminate).
        assert (L : List.length (j :: map fst (recvd s)) <= List.length (seq 0 n)).
        { apply NoDup_incl_length; [constructor; auto|].
          intros x [<-|Hx]; apply in_seq; [lia|].
          apply i_recvd0 in Hx.
          assert (spawned (ws s x) = true) by (destruct (ws s x); simpl in *; try discriminate; reflexivity).
          apply i_spawn0 in H0. lia. }
        simpl in L. rewrite map_length, seq_length in L. lia. }
      unfold n_infos in H. fold n in H. apply Nat.ltb_lt in Hlt. rewrite Hlt in H.
      apply (f_equal (fun st => ws st j)) in H. simpl in H. unfold upd in H. rewrite Nat.eqb_refl in H. congruence. }
    (* every worker is idle or done: batchPerform or perform moves *)
    assert (Hquiet : forall j, j < pos (bp s) -> ws s j = WDone).
    { intros j Hj. assert (Hs : spawned (ws s j) = true) by (apply i_spawn0; exact Hj).
      assert (Hjn : j < n) by lia. specialize (Hnone j Hjn). specialize (Hnosend j Hjn).
      destruct (ws s j); simpl in *; try discriminate; reflexivity. }
    destruct (bp s) as [k|k|k|k|] eqn:Eb.
    - exists ChB. simpl. unfold step_b. rewrite Eb. intros H. apply (f_equal bp) in H. rewrite Eb in H.
      destruct (nth_error kinds k); [destruct (String.eqb (prev_kind s) s0)|]; simpl in H; discriminate.
    - exists ChB. simpl. unfold step_b. rewrite Eb. intros H.
      assert (Hw : wg s = 0).
      { rewrite i_wg0. simpl. rewrite nactive_none; auto.
        intros j Hj. rewrite (Hquiet j) by (simpl; exact Hj). reflexivity. }
      rewrite Hw in H. simpl in i_pos0.
      destruct (nth_error kinds k) eqn:Ek.
      + apply (f_equal bp) in H. rewrite Eb in H. simpl in H. discriminate.
      + apply nth_error_None in Ek. unfold n in i_pos0. lia.
    - exists ChB. simpl. unfold step_b. rewrite Eb. intros H. apply (f_equal bp) in H. rewrite Eb in H. discriminate.
    - exists ChB. simpl. unfold step_b. rewrite Eb. intros H. apply (f_equal bp) in H. rewrite Eb in H. discriminate.
    - (* everything is done and handed over: perform returns *)
      exists ChP. simpl. unfold step_p.
      assert (Hall : List.length (recvd s) = n).
      { apply Nat.le_antisymm; auto.
        rewrite <- (map_length fst), <- (seq_length n 0).
        apply NoDup_incl_length; [apply seq_NoDup|].
        intros j Hj. apply in_seq in Hj. apply i_recvd0. rewrite (Hquiet j); [reflexivity|simpl; lia]. }
      unfold n_infos. fold n. rewrite Hall, Nat.eqb_refl. intros H.
      apply (f_equal returned) in H. simpl in H. congruence.
  Qed.

  Theorem no_deadlock sched :
    returned (run kinds fails sched) = false -> exists c, step kinds fails (run kinds fails sched) c <> run kinds fails sched.
  Proof. apply no_deadlock_inv. apply run_inv. Qed.

  (* every effective step consumes budget: at most 6 per resource for the workers and
     batchPerform together, one for the return *)
  Definition wrank (w : wstate) : nat :=
    match w with WIdle => 5 | WReady => 4 | WRunning => 3 | WSending => 2 | WSent => 1 | WDone => 0 end.
  Fixpoint wsum (f : nat -> wstate) (k : nat) : nat :=
    match k with O => 0 | S k' => wrank (f k') + wsum f k' end.
  Definition brank (b : bpc) : nat :=
    match b with
    | BHead k => 4 * (n - k) + 1
    | BWait k => 4 * (n - k)
    | BAdd k => 4 * (n - k) - 1
    | BGo k => 4 * (n - k) - 2
    | BEnd => 0
    end.
  Definition measure (s : state) : nat :=
    wsum (ws s) n + brank (bp s) + (if returned s then 0 else 1).

  Lemma wsum_upd_out f j v k : k <= j -> wsum (upd f j v) k = wsum f k.
  Proof.
    induction k; simpl; intros H; auto. unfold upd at 1.
    destruct (Nat.eqb k j) eqn:E; [apply Nat.eqb_eq in E; lia|]. rewrite IHk by lia. reflexivity.
  Qed.

  Lemma wsum_upd_in f j v k : j < k -> wsum (upd f j v) k + wrank (f j) = wsum f k + wrank v.
  Proof.
    induction k; simpl; intros H; [lia|]. unfold upd at 1.
    destruct (Nat.eqb k j) eqn:E.
    - apply Nat.eqb_eq in E. subst k. rewrite wsum_upd_out by lia. lia.
    - apply Nat.eqb_neq in E. assert (j < k) by lia. specialize (IHk H0). lia.
  Qed.

  Theorem step_decreases s c : Inv s -> step kinds fails s c <> s -> measure (step kinds fails s c) < measure s.
  Proof.
    intros I Hne. pose proof I as I'. destruct I'. unfold measure.
    destruct c as [|j|j|]; simpl in *.
    - unfold step_b in *. destruct (bp s) as [k|k|k|k|] eqn:Eb; simpl in *.
      + destruct (nth_error kinds k) eqn:Ek.
        * assert (k < n) by (apply nth_error_Some; congruence).
          destruct (String.eqb (prev_kind s) s0); simpl; lia.
        * simpl. lia.
      + destruct (wg s); [|congruence]. destruct (nth_error kinds k); [|congruence]. simpl. lia.
      + simpl. lia.
      + simpl. assert (Hk : k < n) by tauto.
        assert (Hi : ws s k = WIdle).
        { assert (spawned (ws s k) = true <-> k < k) by apply i_spawn0.
          destruct (ws s k); simpl in *; auto; exfalso; assert (k < k) by (apply H; reflexivity); lia. }
        pose proof (wsum_upd_in (ws s) k WReady n Hk) as W. rewrite Hi in W. simpl in W. lia.
      + congruence.
    - unfold step_w in *.
      assert (Hj : spawned (ws s j) = true -> j < n) by (intros H; apply i_spawn0 in H; lia).
      destruct (ws s j) eqn:E; try congruence; simpl;
        pose proof (wsum_upd_in (ws s) j) as W; rewrite E in W; simpl in W, Hj.
      + specialize (W WRunning n (Hj eq_refl)). simpl in W. lia.
      + specialize (W WSending n (Hj eq_refl)). simpl in W. lia.
      + specialize (W WDone n (Hj eq_refl)). simpl in W. lia.
    - unfold step_recv in *.
      destruct (ws s j) eqn:E; try congruence. destruct (returned s) eqn:Er; try congruence.
      destruct (Nat.ltb _ _); try congruence. simpl.
      assert (Hj : j < n) by (assert (spawned (ws s j) = true) by (rewrite E; reflexivity); apply i_spawn0 in H; lia).
      pose proof (wsum_upd_in (ws s) j WSent n Hj) as W. rewrite E in W. simpl in W. lia.
    - unfold step_p in *. destruct (Nat.eqb _ _); [|congruence]. simpl.
      destruct (returned s) eqn:Er; [|lia].
      exfalso. apply Hne. destruct s; simpl in *; subst; reflexivity.
  Qed.

  Lemma run_snoc sched c : run kinds fails (sched ++ [c])%list = step kinds fails (run kinds fails sched) c.
  Proof. unfold run. now rewrite fold_left_app. Qed.

  (* from every reachable state perform can still return, and it does so as soon as the
     scheduler keeps choosing threads that can move *)
  Theorem can_always_return sched : exists sched', returned (run kinds fails (sched ++ sched')%list) = true.
  Proof.
    remember (measure (run kinds fails sched)) as m eqn:Em.
    revert sched Em. induction m as [m IH] using lt_wf_ind. intros sched Em.
    destruct (returned (run kinds fails sched)) eqn:Er.
    - exists []. now rewrite app_nil_r.
    - destruct (no_deadlock sched Er) as [c Hc].
      assert (Hlt : measure (run kinds fails (sched ++ [c])%list) < m).
      { rewrite run_snoc, Em. apply step_decreases; auto. apply run_inv. }
      destruct (IH _ Hlt (sched ++ [c])%list eq_refl) as [sched' Hs].
      exists (c :: sched'). rewrite <- app_assoc in Hs. exact Hs.
  Qed.

  (* number of choices of a schedule that moved a thread *)
  Fixpoint effective (s : state) (sched : list choice) (dec : forall a b : state, {a = b} + {a <> b}) : nat :=
    match sched with
    | [] => 0
    | c :: t => (if dec (step kinds fails s c) s then 0 else 1) + effective (step kinds fails s c) t dec
    end.

  Theorem effective_bounded dec sched s :
    Inv s -> effective s sched dec + measure (fold_left (step kinds fails) sched s) <= measure s.
  Proof.
    revert s. induction sched as [|c t IH]; intros s I; simpl; [lia|].
    specialize (IH _ (inv_step s c I)).
    destruct (dec (step kinds fails s c) s) as [E|E].
    - rewrite E in *. lia.
    - pose proof (step_decreases s c I E). lia.
  Qed.

  Lemma measure_init : measure (init) = 9 * n + 2.
  Proof.
    unfold measure, init. simpl.
    assert (W : forall k, wsum (fun _ => WIdle) k = 5 * k) by (induction k; simpl; lia).
    rewrite W. lia.
  Qed.
End Proofs.

(* C08 — releaseutil.SortManifests / manifestFile.sort (pkg/release/util/manifest_sorter.go:74-236)
   with the lower-casing function as a parameter.

   Text/Classify.v transcribes the same code with [to_lower] (ASCII letters only) in the place
   of strings.ToLower.  Here the function is the Section variable [lower]; the correspondence
   run and the theorems over the whole of renderResources (Text/Full.v) instantiate it with
   [go_to_lower] (Text/Lower.v: strings.ToLower on UTF-8, Unicode case tables regenerated from
   the toolchain).  [sort_manifests_g to_lower] is [sort_manifests] (ClassifyUProofs.v), so
   every statement proved for all [lower] also holds for the first model.

   Everything that does not lower-case is shared with Text/Classify.v: splitting, the head /
   manifest / hook records, strconv.Atoi, path.Base, the file filter and the processing order. *)
From Coq Require Import List String Ascii Bool Arith ZArith.
From Helm Require Import Common.Assoc Common.SortUniq Text.Split Text.KindSort Text.Classify Gen.Events.
Import ListNotations.
Local Open Scope string_scope.

Section ClassifyU.
  Variable lower : string -> string.            (* strings.ToLower *)

  (* strings.ToLower(strings.TrimSpace(x)) *)
  Definition norm_token_g (s : string) : string := lower (trim_space s).

  (* for _, hookType := range strings.Split(hookTypes, ",") { ...; e, ok := events[..]; if !ok { unknown; break } } *)
  Fixpoint parse_events_g (toks : list string) : option (list string) :=
    match toks with
    | [] => Some []
    | t :: rest =>
        match aget (norm_token_g t) hook_events with
        | None => None
        | Some e => match parse_events_g rest with Some es => Some (e :: es) | None => None end
        end
    end.

  (* operateAnnotationValues *)
  Definition annotation_values_g (ann : list (string * string)) (key : string) : list string :=
    match aget key ann with
    | Some v => map norm_token_g (split_comma v)
    | None => []
    end.

  Variable head_of : string -> option head.     (* yaml.Unmarshal into SimpleHead; None = error *)

  (* one iteration of the loop in manifestFile.sort *)
  Definition classify_g (path doc : string) : cls :=
    match head_of doc with
    | None => CError
    | Some h =>
        match h_meta h with
        | None => CGeneric (mkManifest path doc h)
        | Some (name, ann) =>
            match ann with
            | [] => CGeneric (mkManifest path doc h)           (* hasAnyAnnotation *)
            | _ =>
                match aget hook_annotation ann with
                | None => CGeneric (mkManifest path doc h)
                | Some types =>
                    match parse_events_g (split_comma types) with
                    | None => CDropped
                    | Some evs =>
                        CHook (mkHook name (h_kind h) path doc evs (hook_weight ann)
                                 (annotation_values_g ann hook_delete_annotation)
                                 (annotation_values_g ann hook_output_log_annotation))
                    end
                end
            end
        end
    end.

  (* result accumulation; the first parse error aborts *)
  Fixpoint classify_all_g (docs : list (string * string)) : option (list hook * list manifest) :=
    match docs with
    | [] => Some ([], [])
    | (p, d) :: t =>
        match classify_g p d with
        | CError => None
        | c =>
            match classify_all_g t with
            | None => None
            | Some (hs, gs) =>
                match c with
                | CGeneric m => Some (hs, m :: gs)
                | CHook h => Some (h :: hs, gs)
                | _ => Some (hs, gs)
                end
            end
        end
    end.

  Definition sort_manifests_g (order : list string) (files : list (string * string)) : sort_result :=
    match classify_all_g (all_docs files) with
    | None => SortErr
    | Some (hs, gs) =>
        SortOk (sort_by_kind hk_kind order hs) (sort_by_kind (fun m => h_kind (m_head m)) order gs)
    end.
End ClassifyU.

(* filterManifestsToKeep (pkg/action/resource_policy.go): helm.sh/resource-policy: keep after
   TrimSpace + ToLower; "Keep" written with U+212A is a keep for strings.ToLower *)
Definition kept_g (lower : string -> string) (m : manifest) : bool :=
  match h_meta (m_head m) with
  | Some (_, ann) =>
      match aget resource_policy_annotation ann with
      | Some v => String.eqb (norm_token_g lower v) keep_policy
      | None => false
      end
  | None => false
  end.

(* C08 — proofs about the kind order (Text/KindSort.v). *)
From Coq Require Import List String Ascii Bool Arith Lia Permutation Sorted.
From Helm Require Import Common.SortUniq Text.KindSort.
Import ListNotations.
Local Open Scope string_scope.

(* ---- the table lookup ---------------------------------------------------------- *)
Lemma last_index_from_some i o k j :
  last_index_from i o k = Some j -> i <= j /\ nth_error o (j - i) = Some k.
Proof.
  revert i j. induction o as [|x t IH]; simpl; intros i j H; [discriminate|].
  destruct (last_index_from (S i) t k) as [j'|] eqn:E.
  - inversion H; subst j'. apply IH in E. destruct E as [Hle Hn]. split; [lia|].
    replace (j - i) with (S (j - S i)) by lia. exact Hn.
  - destruct (String.eqb x k) eqn:Ex; [|discriminate]. inversion H; subst j.
    apply String.eqb_eq in Ex. subst. split; [lia|]. now rewrite Nat.sub_diag.
Qed.

Lemma last_index_some o k j : last_index o k = Some j -> nth_error o j = Some k.
Proof. intros H. apply last_index_from_some in H. now rewrite Nat.sub_0_r in H. Qed.

Lemma last_index_from_none i o k : last_index_from i o k = None <-> ~ In k o.
Proof.
  revert i. induction o as [|x t IH]; simpl; intros i; [tauto|].
  destruct (last_index_from (S i) t k) eqn:E.
  - split; [discriminate|]. intros H. exfalso. apply H. right.
    destruct (in_dec string_dec k t) as [Hi|Hn]; auto. apply (IH (S i)) in Hn. congruence.
  - apply IH in E. destruct (String.eqb x k) eqn:Ex.
    + apply String.eqb_eq in Ex. split; [discriminate|]. intros H. exfalso. apply H. now left.
    + apply String.eqb_neq in Ex. split; auto. intros _ [H|H]; auto.
Qed.

Lemma last_index_none o k : last_index o k = None <-> ~ In k o.
Proof. apply last_index_from_none. Qed.

Lemma last_index_from_lt i o k j : last_index_from i o k = Some j -> j < i + List.length o.
Proof.
  revert i j. induction o as [|x t IH]; simpl; intros i j H; [discriminate|].
  destruct (last_index_from (S i) t k) eqn:E.
  - inversion H; subst. apply IH in E. lia.
  - destruct (String.eqb x k); inversion H; subst. lia.
Qed.

(* with a duplicate-free table the index is THE position of the kind *)
Lemma last_index_from_app i a k b :
  ~ In k b -> last_index_from i (a ++ k :: b) k = Some (i + List.length a).
Proof.
  revert i. induction a as [|x t IH]; simpl; intros i Hn.
  - apply (last_index_from_none (S i)) in Hn. rewrite Hn, String.eqb_refl. f_equal. lia.
  - rewrite (IH (S i) Hn). f_equal. lia.
Qed.

Lemma last_index_nodup_app a k b :
  NoDup (a ++ k :: b) -> last_index (a ++ k :: b) k = Some (List.length a).
Proof.
  intros Hnd. unfold last_index. rewrite last_index_from_app; auto.
  apply NoDup_remove_2 in Hnd. intros Hb. apply Hnd, in_or_app. now right.
Qed.

(* ---- less / leb / rank --------------------------------------------------------- *)
Lemma kind_leb_rank o a b : kind_leb o a b = rank_leb (kind_rank o a) (kind_rank o b).
Proof.
  unfold kind_leb, less_by_kind, kind_rank.
  destruct (last_index o a) as [i|] eqn:Ea; destruct (last_index o b) as [j|] eqn:Eb; simpl; auto.
  - (* both known: negb (j <? i) = i <=? j *)
    rewrite Nat.ltb_antisym, negb_involutive. reflexivity.
  - (* both unknown *)
    destruct (String.eqb b a) eqn:E.
    + apply String.eqb_eq in E. subst. simpl. unfold String.leb. now rewrite string_compare_refl.
    + rewrite string_ltb_leb, negb_involutive. reflexivity.
Qed.

Lemma rank_leb_total : total rank_leb.
Proof.
  intros [i|x] [j|y]; simpl; auto.
  - rewrite !Nat.leb_le. lia.
  - apply String.leb_total.
Qed.

Lemma rank_leb_trans : trans rank_leb.
Proof.
  intros [i|x] [j|y] [k|z]; simpl; try congruence.
  - rewrite !Nat.leb_le. lia.
  - apply string_leb_trans.
Qed.

Lemma rank_leb_antisym a b : rank_leb a b = true -> rank_leb b a = true -> a = b.
Proof.
  destruct a as [i|x], b as [j|y]; simpl; try congruence.
  - rewrite !Nat.leb_le. intros. f_equal. lia.
  - intros H1 H2. f_equal. now apply String.leb_antisym.
Qed.

Lemma rank_leb_refl a : rank_leb a a = true.
Proof. destruct (rank_leb_total a a); auto. Qed.

Lemma kind_leb_total o : total (kind_leb o).
Proof. intros a b. rewrite !kind_leb_rank. apply rank_leb_total. Qed.

Lemma kind_leb_trans o : trans (kind_leb o).
Proof. intros a b c. rewrite !kind_leb_rank. apply rank_leb_trans. Qed.

(* two kinds have the same rank iff they are the same kind (also when the table has
   repeated names: the rank of a known kind is a position that holds that kind) *)
Lemma kind_rank_inj o a b : kind_rank o a = kind_rank o b -> a = b.
Proof.
  unfold kind_rank.
  destruct (last_index o a) as [i|] eqn:Ea; destruct (last_index o b) as [j|] eqn:Eb; intros H; inversion H; subst; auto.
  apply last_index_some in Ea, Eb. congruence.
Qed.

Lemma kind_tied o a b : tied (kind_leb o) a b = String.eqb a b.
Proof.
  unfold tied. rewrite !kind_leb_rank.
  destruct (String.eqb a b) eqn:E.
  - apply String.eqb_eq in E. subst. now rewrite rank_leb_refl.
  - apply String.eqb_neq in E.
    destruct (rank_leb (kind_rank o a) (kind_rank o b)) eqn:E1; auto.
    destruct (rank_leb (kind_rank o b) (kind_rank o a)) eqn:E2; auto.
    exfalso. apply E. eapply kind_rank_inj, rank_leb_antisym; eauto.
Qed.

Lemma filter_none {A} (f : A -> bool) l : (forall x, In x l -> f x = false) -> filter f l = [].
Proof.
  induction l as [|y t IH]; simpl; intros H; auto.
  rewrite (H y) by now left. apply IH. intros x Hx. apply H. now right.
Qed.

(* ---- the sort ------------------------------------------------------------------ *)
Section SortByKind.
  Context {A : Type}.
  Variable kind_of : A -> string.
  Variable o : list string.

  Let leb := by_key (kind_leb o) kind_of.
  Let rk (x : A) := kind_rank o (kind_of x).
  Definition RankSorted (l : list A) : Prop :=
    StronglySorted (fun a b => rank_leb (kind_rank o (kind_of a)) (kind_rank o (kind_of b)) = true) l.
  Definition same_kind (k : string) (x : A) : bool := String.eqb (kind_of x) k.

  Lemma leb_total : total leb.
  Proof. apply by_key_total, kind_leb_total. Qed.
  Lemma leb_trans : trans leb.
  Proof. apply by_key_trans, kind_leb_trans. Qed.

  Lemma SortedBy_RankSorted l : SortedBy leb l <-> RankSorted l.
  Proof.
    unfold SortedBy, RankSorted, leb, by_key.
    split; intros H; induction H; constructor; auto;
      (eapply Forall_impl; [|eassumption]); intros b Hb; simpl in *;
      [rewrite <- kind_leb_rank|rewrite kind_leb_rank]; exact Hb.
  Qed.

  Lemma filter_tied_same_kind x l : filter (tied leb x) l = filter (same_kind (kind_of x)) l.
  Proof.
    apply filter_ext. intros y. unfold same_kind.
    change (tied leb x y) with (tied (kind_leb o) (kind_of x) (kind_of y)).
    rewrite kind_tied. apply String.eqb_sym.
  Qed.

  Lemma stable_iff l l' :
    (forall k, filter (same_kind k) l' = filter (same_kind k) l) -> StableWrt leb l l'.
  Proof. intros H x. rewrite !filter_tied_same_kind. apply H. Qed.

  Theorem sort_by_kind_perm l : Permutation (sort_by_kind kind_of o l) l.
  Proof. apply ssort_perm. Qed.

  Theorem sort_by_kind_sorted l : RankSorted (sort_by_kind kind_of o l).
  Proof. apply SortedBy_RankSorted, ssort_sorted; [apply leb_total|apply leb_trans]. Qed.

  Theorem sort_by_kind_stable l k :
    filter (same_kind k) (sort_by_kind kind_of o l) = filter (same_kind k) l.
  Proof.
    destruct (filter (same_kind k) l) as [|x t] eqn:E.
    - (* no element of that kind *)
      apply filter_none.
      intros y Hy. apply (Permutation_in _ (sort_by_kind_perm l)) in Hy.
        destruct (same_kind k y) eqn:Ey; auto.
        assert (In y (filter (same_kind k) l)) by (apply filter_In; auto). rewrite E in H. destruct H.
    - assert (Hx : In x (filter (same_kind k) l)) by (rewrite E; now left).
      apply filter_In in Hx. destruct Hx as [_ Hk]. unfold same_kind in Hk. apply String.eqb_eq in Hk. subst k.
      rewrite <- E, <- !filter_tied_same_kind.
      apply (ssort_stable leb leb_total leb_trans).
  Qed.

  Theorem sort_by_kind_unique l l' :
    Permutation l' l -> RankSorted l' ->
    (forall k, filter (same_kind k) l' = filter (same_kind k) l) ->
    l' = sort_by_kind kind_of o l.
  Proof.
    intros P S St. apply (stable_sort_unique leb leb_total leb_trans); auto.
    - now apply SortedBy_RankSorted.
    - now apply stable_iff.
  Qed.

  (* reading of RankSorted: whatever comes earlier has a rank that is not larger *)
  Lemma RankSorted_before l pre a mid b post :
    RankSorted l -> l = (pre ++ a :: mid ++ b :: post)%list ->
    rank_leb (kind_rank o (kind_of a)) (kind_rank o (kind_of b)) = true.
  Proof.
    intros S ->. unfold RankSorted in S.
    induction pre as [|x t IH]; simpl in S.
    - inversion S as [|? ? _ Hall]; subst. rewrite Forall_forall in Hall. apply Hall.
      apply in_or_app. right. now left.
    - inversion S; auto.
  Qed.
End SortByKind.

(* a known kind is never placed after an unknown one *)
Lemma rank_unknown_last o a b :
  rank_leb (kind_rank o a) (kind_rank o b) = true -> ~ In a o -> ~ In b o.
Proof.
  unfold kind_rank. intros H Ha Hb.
  apply last_index_none in Ha. rewrite Ha in H.
  destruct (last_index o b) eqn:Eb; [discriminate|]. apply last_index_none in Eb. tauto.
Qed.

(* position reading for a duplicate-free table *)
Lemma rank_known_order o a b i j :
  nth_error o i = Some a -> nth_error o j = Some b -> NoDup o ->
  rank_leb (kind_rank o a) (kind_rank o b) = Nat.leb i j.
Proof.
  intros Ha Hb Hnd. unfold kind_rank.
  assert (forall k x, nth_error o k = Some x -> last_index o x = Some k) as L.
  { intros k x Hk. apply nth_error_split in Hk. destruct Hk as (l1 & l2 & -> & <-).
    now apply last_index_nodup_app. }
  now rewrite (L _ _ Ha), (L _ _ Hb).
Qed.

(* ---- decidable checks for the regenerated tables -------------------------------- *)
Fixpoint nodupb (l : list string) : bool :=
  match l with
  | [] => true
  | x :: t => negb (existsb (String.eqb x) t) && nodupb t
  end.

Lemma nodupb_NoDup l : nodupb l = true -> NoDup l.
Proof.
  induction l as [|x t IH]; simpl; intros H; constructor; apply andb_true_iff in H; destruct H as [H1 H2]; auto.
  intros Hin. apply negb_true_iff in H1.
  assert (existsb (String.eqb x) t = true) by (apply existsb_exists; exists x; split; auto; apply String.eqb_refl).
  congruence.
Qed.

(* a comes strictly before b in the table (both present) *)
Definition precedes (o : list string) (a b : string) : bool :=
  match last_index o a, last_index o b with
  | Some i, Some j => Nat.ltb i j
  | _, _ => false
  end.

Lemma precedes_rank o a b : precedes o a b = true ->
  rank_leb (kind_rank o a) (kind_rank o b) = true /\ rank_leb (kind_rank o b) (kind_rank o a) = false.
Proof.
  unfold precedes, kind_rank. destruct (last_index o a), (last_index o b); try discriminate.
  simpl. rewrite Nat.ltb_lt, Nat.leb_le, Nat.leb_gt. lia.
Qed.

Definition same_members (a b : list string) : bool :=
  forallb (fun k => existsb (String.eqb k) b) a && forallb (fun k => existsb (String.eqb k) a) b.

Lemma same_members_spec a b : same_members a b = true -> forall k, In k a <-> In k b.
Proof.
  unfold same_members. rewrite andb_true_iff, !forallb_forall. intros [H1 H2] k.
  split; intros H; [apply H1 in H|apply H2 in H]; apply existsb_exists in H;
    destruct H as (x & Hx & E); apply String.eqb_eq in E; now subst.
Qed.

Lemma unknown_after_known o k : ~ In k o -> forall known, In known o ->
  rank_leb (kind_rank o known) (kind_rank o k) = true /\ rank_leb (kind_rank o k) (kind_rank o known) = false.
Proof.
  intros Hk known Hkn. unfold kind_rank.
  apply last_index_none in Hk. rewrite Hk.
  destruct (last_index o known) eqn:E; [simpl; auto|].
  apply last_index_none in E. contradiction.
Qed.

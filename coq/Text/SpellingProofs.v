(* C08 — which annotation tokens name a known hook event for the real code, i.e. up to Go's
   strings.ToLower (Text/Lower.v) after strings.TrimSpace: exactly the spellings of the keys of
   the regenerated event table in which every letter may be upper case and, beside that, 'i'
   may be U+0130 and 'k' may be U+212A (the runes unicode.ToLower maps into ASCII). *)
From Coq Require Import List String Ascii Bool Arith NArith.
From Helm Require Import Common.Assoc Text.Split Text.Classify Text.ClassifyU Text.ClassifyUProofs
  Text.Lower Text.LowerProofs Gen.Events Gen.UnicodeLower.
Import ListNotations.
Local Open Scope string_scope.

Lemma amem_In {V} k (l : list (string * V)) : amem k l = true <-> In k (map fst l).
Proof.
  unfold amem. induction l as [|[k' v] t IH]; simpl.
  - split; [discriminate|tauto].
  - destruct (String.eqb k k') eqn:E.
    + apply String.eqb_eq in E. subst. split; auto.
    + rewrite IH. split; auto. intros [H|H]; auto. subst. now rewrite String.eqb_refl in E.
Qed.

Lemma event_names_lower : forallb lower_name (map fst hook_events) = true.
Proof. vm_compute. reflexivity. Qed.

Theorem known_event_spellings tok :
  known_event_g go_to_lower tok = true <->
  exists e, In e (map fst hook_events) /\ spells e (trim_space tok) = true.
Proof.
  unfold known_event_g, norm_token_g. rewrite amem_In. split.
  - intros H. exists (go_to_lower (trim_space tok)). split; auto.
    apply go_to_lower_spells; auto.
    pose proof event_names_lower as L. rewrite forallb_forall in L. auto.
  - intros (e & He & Hs).
    pose proof event_names_lower as L. rewrite forallb_forall in L.
    apply (go_to_lower_spells e _ (L e He)) in Hs. now rewrite Hs.
Qed.

(* on ASCII tokens strings.ToLower is the byte-wise lower-casing of the first model *)
Theorem norm_token_ascii tok :
  all_ascii (trim_space tok) = true -> norm_token_g go_to_lower tok = norm_token tok.
Proof. intros H. unfold norm_token_g, norm_token. now apply go_to_lower_ascii. Qed.

(* C08 — proofs about the model of strings.ToLower (Text/Lower.v):
     - the ASCII fast path and the strings.Map path of strings.ToLower agree, and on ASCII text
       it is the byte-wise lower-casing the first version of the model used ([to_lower]);
     - the only runes >= 128 that unicode.ToLower maps below 128 are those listed in the
       regenerated table [lower_into_ascii] (proved from the case-range table);
     - for a lower-case ASCII name e: go_to_lower s = e  iff  s spells e, every byte c of e
       being written as c, as its ASCII capital, or as the UTF-8 form of a rune of that table
       (today: U+0130 for 'i', U+212A for 'k'). *)
From Coq Require Import List String Ascii Bool Arith NArith ZArith Lia.
From Helm Require Import Text.Split Text.Classify Text.Lower Gen.UnicodeLower.
Import ListNotations.
Local Open Scope string_scope.
Local Open Scope N_scope.

Fixpoint drop (n : nat) (s : string) : string :=
  match n, s with
  | O, _ => s
  | S k, String _ r => drop k r
  | S _, EmptyString => EmptyString
  end.

Lemma map_runes_skip f : forall s k, map_runes f s k = map_runes f (drop k s) 0.
Proof.
  induction s as [|c r IH]; intros [|k]; simpl; auto.
Qed.

Definition ml (s : string) : string := map_runes unicode_to_lower s 0.

Lemma ml_step b0 r :
  ml (String b0 r) = (encode_rune (unicode_to_lower (fst (decode_at b0 r))) ++ ml (drop (Nat.pred (snd (decode_at b0 r))) r))%string.
Proof.
  unfold ml. simpl. destruct (decode_at b0 r) as [x w]. simpl. now rewrite map_runes_skip.
Qed.

Lemma chr_bN c : chr (bN c) = c.
Proof. apply ascii_N_embedding. Qed.

Lemma bN_lt_256 c : bN c < 256.
Proof. apply N_ascii_bounded. Qed.

Lemma bN_inj a b : bN a = bN b -> a = b.
Proof. intros H. rewrite <- (chr_bN a), <- (chr_bN b). now rewrite H. Qed.

(* ---- ASCII ----------------------------------------------------------------------- *)
Lemma ascii_lower_rune c :
  bN c < 128 -> encode_rune (unicode_to_lower (bN c)) = String (lower_ascii c) "".
Proof.
  destruct c as [[] [] [] [] [] [] [] []]; intros H; try (vm_compute in H; discriminate H); vm_compute; reflexivity.
Qed.

Lemma decode_ascii b0 r : bN b0 < 128 -> decode_at b0 r = (bN b0, 1%nat).
Proof. intros H. unfold decode_at. apply N.ltb_lt in H. now rewrite H. Qed.

Lemma ml_ascii_head c r : bN c < 128 -> ml (String c r) = String (lower_ascii c) (ml r).
Proof.
  intros H. rewrite ml_step, (decode_ascii _ _ H). simpl. now rewrite (ascii_lower_rune _ H).
Qed.

(* both paths of strings.ToLower compute the same function *)
Theorem lower_paths_agree s : all_ascii s = true -> ml s = to_lower s.
Proof.
  induction s as [|c r IH]; simpl; intros H; auto.
  apply andb_true_iff in H. destruct H as [Hc Hr]. apply N.ltb_lt in Hc.
  rewrite (ml_ascii_head _ _ Hc), (IH Hr). reflexivity.
Qed.

Theorem go_to_lower_is_map s : go_to_lower s = ml s.
Proof.
  unfold go_to_lower. destruct (all_ascii s) eqn:E; auto. symmetry. now apply lower_paths_agree.
Qed.

Theorem go_to_lower_ascii s : all_ascii s = true -> go_to_lower s = to_lower s.
Proof. unfold go_to_lower. now intros ->. Qed.

(* ---- which runes lower-case into ASCII -------------------------------------------- *)
Definition range_ok (e : N * N * option Z) : bool :=
  match e with
  | (lo, hi, d) =>
      (hi <? 128) ||
      ((128 <=? lo) &&
       match d with
       | None => true
       | Some z => (128 <=? Z.of_N lo + z)%Z ||
                   ((lo =? hi) && existsb (fun p => (fst p =? lo) && (snd p =? Z.to_N (Z.of_N lo + z))) lower_into_ascii)
       end)
  end.

Opaque lower_into_ascii.
Lemma lookup_lower_ascii_image t :
  forallb range_ok t = true ->
  forall r, 128 <= r -> lookup_lower t r < 128 -> In (r, lookup_lower t r) lower_into_ascii.
Proof.
  induction t as [|[[lo hi] d] t IH]; simpl; intros Hok r Hr Hlt; [lia|].
  apply andb_true_iff in Hok. destruct Hok as [Hk Hok].
  destruct (in_range lo hi r) eqn:Ein; [|now apply IH].
  unfold in_range in Ein. apply andb_true_iff in Ein. destruct Ein as [E1 E2].
  apply N.leb_le in E1, E2.
  apply orb_true_iff in Hk. destruct Hk as [Hk|Hk]; [apply N.ltb_lt in Hk; lia|].
  apply andb_true_iff in Hk. destruct Hk as [Hlo Hk]. apply N.leb_le in Hlo.
  destruct d as [z|]; [|lia].
  apply orb_true_iff in Hk. destruct Hk as [Hk|Hk].
  - apply Z.leb_le in Hk. lia.
  - apply andb_true_iff in Hk. destruct Hk as [Heq Hex]. apply N.eqb_eq in Heq.
    assert (r = lo) by lia. subst r.
    apply existsb_exists in Hex. destruct Hex as ([a b] & Hin & Hab). simpl in Hab.
    apply andb_true_iff in Hab. destruct Hab as [Ha Hb]. apply N.eqb_eq in Ha, Hb. subst. exact Hin.
Qed.

Transparent lower_into_ascii.
Lemma case_ranges_ok : forallb range_ok case_ranges = true.
Proof. vm_compute. reflexivity. Qed.

Theorem lower_into_ascii_complete r :
  128 <= r -> unicode_to_lower r < 128 -> In (r, unicode_to_lower r) lower_into_ascii.
Proof.
  intros Hr. unfold unicode_to_lower.
  destruct (r <=? 127) eqn:E; [apply N.leb_le in E; lia|].
  apply lookup_lower_ascii_image; auto using case_ranges_ok.
Qed.

Theorem lower_into_ascii_sound : forallb (fun p => (128 <=? fst p) && (unicode_to_lower (fst p) =? snd p) && (snd p <? 128)) lower_into_ascii = true.
Proof. vm_compute. reflexivity. Qed.

(* ---- facts about encode / decode ---------------------------------------------------- *)
Lemma encode_nonempty r : encode_rune r <> "".
Proof.
  unfold encode_rune.
  destruct (r <? 128); [discriminate|]. destruct (r <? 2048); [discriminate|].
  destruct (in_range 55296 57343 r || (1114111 <? r)); [discriminate|]. destruct (r <? 65536); discriminate.
Qed.

Lemma bN_chr n : n < 256 -> bN (chr n) = n.
Proof. intros H. apply N_ascii_embedding. exact H. Qed.

(* the first byte of an encoding is below 128 only for a rune below 128 *)
Lemma encode_head_ascii r c rest :
  encode_rune r = String c rest -> bN c < 128 -> r < 128 /\ c = chr r /\ rest = "".
Proof.
  unfold encode_rune. intros H Hc.
  destruct (r <? 128) eqn:E1.
  { apply N.ltb_lt in E1. injection H as H1 H2. auto. }
  exfalso. apply N.ltb_ge in E1.
  destruct (r <? 2048) eqn:E2.
  { apply N.ltb_lt in E2.
    assert (Hq : r / 64 < 32) by (apply N.div_lt_upper_bound; lia).
    remember (r / 64) as q. remember (192 + q) as n0. injection H as H1 H2. rewrite <- H1 in Hc.
    rewrite bN_chr in Hc; lia. }
  destruct (in_range 55296 57343 r || (1114111 <? r)) eqn:E3.
  { injection H as H1 H2. rewrite <- H1 in Hc. vm_compute in Hc. discriminate Hc. }
  apply orb_false_iff in E3. destruct E3 as [_ E3]. apply N.ltb_ge in E3.
  destruct (r <? 65536) eqn:E4.
  { apply N.ltb_lt in E4.
    assert (Hq : r / 4096 < 16) by (apply N.div_lt_upper_bound; lia).
    remember (r / 4096) as q. remember (224 + q) as n0. injection H as H1 H2. rewrite <- H1 in Hc.
    rewrite bN_chr in Hc; lia. }
  apply N.ltb_ge in E4.
  assert (Hq : r / 262144 < 5) by (apply N.div_lt_upper_bound; lia).
  remember (r / 262144) as q. remember (240 + q) as n0. injection H as H1 H2. rewrite <- H1 in Hc.
  rewrite bN_chr in Hc; lia.
Qed.

Inductive decoded (b0 : ascii) (r : string) : N -> nat -> Prop :=
| DecAscii : bN b0 < 128 -> decoded b0 r (bN b0) 1%nat
| DecError : 128 <= bN b0 -> decoded b0 r rune_error 1%nat
| Dec2 b1 r1 : r = String b1 r1 -> 194 <= bN b0 <= 223 -> 128 <= bN b1 <= 191 ->
    decoded b0 r ((bN b0 - 192) * 64 + (bN b1 - 128)) 2%nat
| Dec3 b1 b2 r2 : r = String b1 (String b2 r2) -> 224 <= bN b0 <= 239 -> 128 <= bN b1 <= 191 -> 128 <= bN b2 <= 191 ->
    (bN b0 = 224 -> 160 <= bN b1) ->
    decoded b0 r ((bN b0 - 224) * 4096 + (bN b1 - 128) * 64 + (bN b2 - 128)) 3%nat
| Dec4 b1 b2 b3 r3 : r = String b1 (String b2 (String b3 r3)) -> 240 <= bN b0 <= 244 ->
    128 <= bN b1 <= 191 -> 128 <= bN b2 <= 191 -> 128 <= bN b3 <= 191 -> (bN b0 = 240 -> 144 <= bN b1) ->
    decoded b0 r ((bN b0 - 240) * 262144 + (bN b1 - 128) * 4096 + (bN b2 - 128) * 64 + (bN b3 - 128)) 4%nat.

Ltac range_facts :=
  repeat match goal with
         | H : in_range _ _ _ = true |- _ => unfold in_range in H; apply andb_true_iff in H; destruct H
         | H : is_cont _ = true |- _ => unfold is_cont in H
         | H : (_ && _)%bool = true |- _ => apply andb_true_iff in H; destruct H
         | H : (_ <=? _) = true |- _ => apply N.leb_le in H
         | H : (_ <? _) = true |- _ => apply N.ltb_lt in H
         | H : (_ <? _) = false |- _ => apply N.ltb_ge in H
         | H : (_ =? _) = true |- _ => apply N.eqb_eq in H
         | H : (_ =? _) = false |- _ => apply N.eqb_neq in H
         end.

Lemma decode_at_cases b0 r : decoded b0 r (fst (decode_at b0 r)) (snd (decode_at b0 r)).
Proof.
  unfold decode_at.
  destruct (bN b0 <? 128) eqn:E0; [simpl; constructor; now apply N.ltb_lt|].
  apply N.ltb_ge in E0.
  destruct (in_range 194 223 (bN b0)) eqn:E2.
  { destruct r as [|b1 r1]; [simpl; now constructor|].
    destruct (is_cont b1) eqn:C1; [|simpl; now constructor].
    simpl. range_facts. eapply Dec2; eauto. }
  destruct (in_range 224 239 (bN b0)) eqn:E3.
  { destruct r as [|b1 [|b2 r2]]; try (simpl; now constructor).
    match goal with |- context [if ?c then _ else _] => destruct c eqn:C end; [|simpl; now constructor].
    simpl. range_facts.
    eapply Dec3; eauto.
    - destruct (bN b0 =? 224); destruct (bN b0 =? 237); lia.
    - intros Heq. rewrite Heq in *. simpl in *. lia. }
  destruct (in_range 240 244 (bN b0)) eqn:E4.
  { destruct r as [|b1 [|b2 [|b3 r3]]]; try (simpl; now constructor).
    match goal with |- context [if ?c then _ else _] => destruct c eqn:C end; [|simpl; now constructor].
    simpl. range_facts.
    eapply Dec4; eauto.
    - destruct (bN b0 =? 240); destruct (bN b0 =? 244); lia.
    - intros Heq. rewrite Heq in *. simpl in *. lia. }
  simpl. now constructor.
Qed.

(* ---- spellings ------------------------------------------------------------------------ *)
Definition is_upper (c : ascii) : bool := in_range 65 90 (bN c).
Definition upper_ascii (c : ascii) : ascii := if in_range 97 122 (bN c) then chr (bN c - 32) else c.

(* the ways one byte of a lower-case ASCII name can be written *)
Definition variants (c : ascii) : list string :=
  String c "" :: String (upper_ascii c) "" ::
  map (fun p => encode_rune (fst p)) (filter (fun p => snd p =? bN c) lower_into_ascii).

Arguments variants : simpl never.

Fixpoint spells (e s : string) : bool :=
  match e with
  | EmptyString => is_empty s
  | String c e' => existsb (fun v => String.prefix v s && spells e' (drop (String.length v) s)) (variants c)
  end.

Fixpoint lower_name (e : string) : bool :=
  match e with
  | EmptyString => true
  | String c r => (bN c <? 128) && negb (is_upper c) && lower_name r
  end.

Lemma prefix_split v : forall s, String.prefix v s = true -> s = (v ++ drop (String.length v) s)%string.
Proof.
  induction v as [|a v IH]; intros s H; [reflexivity|].
  destruct s as [|b s]; [simpl in H; discriminate H|]. simpl in H.
  destruct (ascii_dec a b) as [->|]; [|discriminate]. simpl. f_equal. auto.
Qed.

Lemma prefix_app v s : String.prefix v (v ++ s) = true.
Proof.
  induction v as [|a v IH]; [destruct s; reflexivity|]. simpl. destruct (ascii_dec a a); [auto|congruence].
Qed.

Lemma drop_app v s : drop (String.length v) (v ++ s) = s.
Proof. induction v; simpl; auto. Qed.

Lemma lower_upper c : bN c < 128 -> is_upper c = false -> lower_ascii (upper_ascii c) = c /\ lower_ascii c = c /\ bN (upper_ascii c) < 128.
Proof.
  destruct c as [[] [] [] [] [] [] [] []]; intros H1 H2;
    try (vm_compute in H1; discriminate H1); try (vm_compute in H2; discriminate H2); vm_compute; auto.
Qed.

(* the concrete runes of the table today; if the toolchain's Unicode tables ever add one,
   this (and the obligation C08_lower_into_ascii in Props/C08.v) is reported *)
Lemma lower_into_ascii_now : lower_into_ascii = [(304, 105); (8490, 107)].
Proof. reflexivity. Qed.

Lemma ml_304 rest : ml (String (chr 196) (String (chr 176) rest)) = String (chr 105) (ml rest).
Proof. rewrite ml_step. vm_compute (decode_at _ _). simpl. reflexivity. Qed.

Lemma ml_8490 rest : ml (String (chr 226) (String (chr 132) (String (chr 170) rest))) = String (chr 107) (ml rest).
Proof. rewrite ml_step. vm_compute (decode_at _ _). simpl. reflexivity. Qed.

Lemma variant_lowers c v rest :
  bN c < 128 -> is_upper c = false -> In v (variants c) -> ml (v ++ rest) = String c (ml rest).
Proof.
  intros Hc Hu Hin. destruct (lower_upper c Hc Hu) as (L1 & L2 & L3).
  unfold variants in Hin. destruct Hin as [<-|[<-|Hin]].
  - simpl. rewrite (ml_ascii_head _ _ Hc). now rewrite L2.
  - simpl. rewrite (ml_ascii_head _ _ L3). now rewrite L1.
  - rewrite lower_into_ascii_now in Hin. cbv [filter snd] in Hin.
    destruct (105 =? bN c) eqn:E1; destruct (107 =? bN c) eqn:E2; cbv [map fst In] in Hin;
      repeat match goal with H : _ \/ _ |- _ => destruct H | H : False |- _ => destruct H end; subst v;
      range_facts; try lia.
    + assert (c = chr 105) as -> by (apply bN_inj; rewrite bN_chr; lia). apply ml_304.
    + assert (c = chr 107) as -> by (apply bN_inj; rewrite bN_chr; lia). apply ml_8490.
Qed.

Lemma spells_sound : forall e s, lower_name e = true -> spells e s = true -> ml s = e.
Proof.
  induction e as [|c e IH]; cbn [spells lower_name]; intros s Hn Hs.
  - destruct s; [reflexivity|discriminate].
  - apply andb_true_iff in Hn. destruct Hn as [Hn He]. apply andb_true_iff in Hn. destruct Hn as [Hc Hu].
    apply N.ltb_lt in Hc. apply negb_true_iff in Hu.
    apply existsb_exists in Hs. destruct Hs as (v & Hv & Hs).
    apply andb_true_iff in Hs. destruct Hs as [Hp Hs].
    rewrite (prefix_split _ _ Hp). rewrite (variant_lowers c v _ Hc Hu Hv). f_equal. now apply IH.
Qed.

Lemma app_eq_cons_ascii (a : string) b c e :
  a <> "" -> (a ++ b)%string = String c e -> exists a', a = String c a' /\ (a' ++ b)%string = e.
Proof. destruct a as [|x a']; [congruence|]. simpl. intros _ H. inversion H; subst. eauto. Qed.

Lemma spells_complete : forall e s, lower_name e = true -> ml s = e -> spells e s = true.
Proof.
  induction e as [|c e IH]; cbn [spells lower_name]; intros s Hn Hs.
  - destruct s as [|b0 r]; [reflexivity|]. exfalso. rewrite ml_step in Hs.
    destruct (encode_rune (unicode_to_lower (fst (decode_at b0 r)))) eqn:E; [now apply encode_nonempty in E|discriminate].
  - apply andb_true_iff in Hn. destruct Hn as [Hn He]. apply andb_true_iff in Hn. destruct Hn as [Hc Hu].
    apply N.ltb_lt in Hc. apply negb_true_iff in Hu.
    destruct s as [|b0 r]; [discriminate|].
    rewrite ml_step in Hs.
    apply app_eq_cons_ascii in Hs; [|apply encode_nonempty].
    destruct Hs as (a' & Henc & Hrest).
    destruct (encode_head_ascii _ _ _ Henc Hc) as (Hlt & Hcc & ->). simpl in Hrest.
    pose proof (decode_at_cases b0 r) as D.
    remember (fst (decode_at b0 r)) as x eqn:Heqx. remember (snd (decode_at b0 r)) as w eqn:Heqw. clear Heqx Heqw.
    apply existsb_exists.
    assert (Hspell : spells e (drop (Nat.pred w) r) = true) by (apply IH; auto).
    assert (Hlow : unicode_to_lower x = bN c) by (rewrite Hcc; rewrite bN_chr; lia).
    destruct (N.ltb_spec x 128) as [Hx|Hx].
    + (* an ASCII byte: c itself or its capital *)
      assert (w = 1%nat /\ x = bN b0) as [Hw Hb].
      { inversion D; try lia; auto; unfold rune_error in *; lia. }
      rewrite Hw in Hspell. simpl in Hspell.
      unfold unicode_to_lower in Hlow. destruct (x <=? 127) eqn:E7; [|apply N.leb_gt in E7; lia].
      destruct (in_range 65 90 x) eqn:Eup.
      * exists (String (upper_ascii c) ""). split; [unfold variants; simpl; auto|].
        range_facts.
        assert (upper_ascii c = b0) as ->.
        { unfold upper_ascii. assert (in_range 97 122 (bN c) = true) as -> by (unfold in_range; apply andb_true_iff; split; apply N.leb_le; lia).
          apply bN_inj. rewrite bN_chr; lia. }
        simpl. destruct (ascii_dec b0 b0); [|congruence]. destruct r; exact Hspell.
      * exists (String c ""). split; [unfold variants; simpl; auto|].
        assert (c = b0) as -> by (apply bN_inj; lia).
        simpl. destruct (ascii_dec b0 b0); [|congruence]. destruct r; exact Hspell.
    + (* a rune >= 128 that lower-cases into ASCII: one of the table *)
      assert (Hin : In (x, unicode_to_lower x) lower_into_ascii) by (apply lower_into_ascii_complete; lia).
      exists (encode_rune x). split.
      { unfold variants. right. right. apply in_map_iff. exists (x, unicode_to_lower x). split; auto.
        apply filter_In. split; auto. simpl. apply N.eqb_eq. exact Hlow. }
      rewrite lower_into_ascii_now in Hin. simpl in Hin.
      destruct Hin as [Hin|[Hin|[]]]; inversion Hin as [[Hx' Hl']]; clear Hin.
      * (* U+0130 = C4 B0 *)
        inversion D as [?|?|b1 r1 Hr H0 H1 Hxe Hwe|b1 b2 r2 Hr H0 H1 H2 H3 Hxe Hwe|b1 b2 b3 r3 Hr H0 H1 H2 H3 H4 Hxe Hwe];
          try (unfold rune_error in *; lia).
        assert (bN b0 = 196 /\ bN b1 = 176) as [B0 B1] by lia.
        assert (b0 = chr 196) as -> by (apply bN_inj; rewrite bN_chr; lia).
        assert (b1 = chr 176) as -> by (apply bN_inj; rewrite bN_chr; lia).
        clear Hxe. subst x w r. simpl in Hspell.
        vm_compute (encode_rune 304).
        change (String.prefix _ _) with (String.prefix (String (chr 196) (String (chr 176) "")) (String (chr 196) (String (chr 176) r1))).
        pose proof (prefix_app (String (chr 196) (String (chr 176) "")) r1) as P. cbn [append] in P. rewrite P. simpl. exact Hspell.
      * (* U+212A = E2 84 AA *)
        inversion D as [?|?|b1 r1 Hr H0 H1 Hxe Hwe|b1 b2 r2 Hr H0 H1 H2 H3 Hxe Hwe|b1 b2 b3 r3 Hr H0 H1 H2 H3 H4 Hxe Hwe];
          try (unfold rune_error in *; lia).
        assert (bN b0 = 226 /\ bN b1 = 132 /\ bN b2 = 170) as (B0 & B1 & B2) by lia.
        assert (b0 = chr 226) as -> by (apply bN_inj; rewrite bN_chr; lia).
        assert (b1 = chr 132) as -> by (apply bN_inj; rewrite bN_chr; lia).
        assert (b2 = chr 170) as -> by (apply bN_inj; rewrite bN_chr; lia).
        clear Hxe. subst x w r. simpl in Hspell.
        vm_compute (encode_rune 8490).
        change (String.prefix _ _) with (String.prefix (String (chr 226) (String (chr 132) (String (chr 170) ""))) (String (chr 226) (String (chr 132) (String (chr 170) r2)))).
        pose proof (prefix_app (String (chr 226) (String (chr 132) (String (chr 170) ""))) r2) as P. cbn [append] in P. rewrite P. simpl. exact Hspell.
Qed.

(* strings.ToLower(s) is the lower-case ASCII name e exactly when s spells e *)
Theorem go_to_lower_spells e s : lower_name e = true -> (go_to_lower s = e <-> spells e s = true).
Proof.
  intros He. rewrite go_to_lower_is_map. split; [now apply spells_complete|now apply spells_sound].
Qed.

Theorem case_ranges_sorted : ranges_sorted case_ranges = true.
Proof. vm_compute. reflexivity. Qed.

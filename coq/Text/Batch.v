(* C08 — the per-kind barrier: kube.perform (pkg/kube/wait.go:223-241) and
   kube.batchPerform (pkg/kube/client.go:571-586) as a transition system.

     func perform(infos, fn) error {                 func batchPerform(infos, fn, errs) {
       if len(infos) == 0 { return ErrNoObjectsVisited }   var kind string
       errs := make(chan error)                            var wg sync.WaitGroup
       go batchPerform(infos, fn, errs)                    for _, info := range infos {
       for range infos {                                     currentKind := info...Kind
         err := <-errs                                       if kind != currentKind { wg.Wait(); kind = currentKind }
         if err != nil { result = append(result, err) }      wg.Add(1)
       }                                                     go func(i) { errs <- fn(i); wg.Done() }(info)
       return result                                       }
     }                                                   }

   Threads: P (perform's receive loop), B (batchPerform), one worker per resource.
   A schedule is ANY list of choices; a choice whose thread cannot move (blocked in
   wg.Wait, blocked on the unbuffered channel, not yet started, finished) leaves the state
   unchanged, so quantifying over all lists of choices covers every interleaving.
   [fn] is not atomic: its start and its end are separate steps, logged as events. *)
From Coq Require Import List String Bool Arith.
Import ListNotations.
Local Open Scope string_scope.

Inductive wstate :=
| WIdle        (* goroutine not started yet *)
| WReady       (* started, fn not called yet *)
| WRunning     (* inside fn(i) *)
| WSending     (* fn returned; blocked in  errs <- result *)
| WSent        (* the receiver took the value; wg.Done() pending *)
| WDone.

Inductive bpc :=
| BHead (k : nat)     (* top of the loop body for infos[k]: the kind test *)
| BWait (k : nat)     (* inside wg.Wait() *)
| BAdd (k : nat)      (* wg.Add(1) *)
| BGo (k : nat)       (* the go statement *)
| BEnd.

Inductive event := EStart (j : nat) | EEnd (j : nat).

Inductive choice :=
| ChB                 (* batchPerform moves *)
| ChW (j : nat)       (* worker j moves by itself: call fn, return from fn, wg.Done *)
| ChRecv (j : nat)    (* rendezvous on errs: worker j sends, perform receives *)
| ChP.                (* perform leaves the receive loop and returns *)

Record state := mkState {
  bp : bpc;
  prev_kind : string;              (* var kind string *)
  wg : nat;                        (* WaitGroup counter *)
  ws : nat -> wstate;
  recvd : list (nat * bool);       (* what perform has received so far: worker, err != nil *)
  returned : bool;
  log : list event                 (* newest first *)
}.

Definition upd (f : nat -> wstate) (j : nat) (v : wstate) : nat -> wstate :=
  fun i => if Nat.eqb i j then v else f i.

Section Sys.
  Variable kinds : list string.     (* Kind of infos[0], infos[1], ... *)
  Variable fails : nat -> bool.     (* does fn(infos[j]) return an error *)

  Definition n_infos : nat := List.length kinds.

  Definition init : state :=
    mkState (BHead 0) "" 0 (fun _ => WIdle) [] false [].

  Definition step_b (s : state) : state :=
    match bp s with
    | BHead k =>
        match nth_error kinds k with
        | None => mkState BEnd (prev_kind s) (wg s) (ws s) (recvd s) (returned s) (log s)
        | Some ck =>
            if String.eqb (prev_kind s) ck
            then mkState (BAdd k) (prev_kind s) (wg s) (ws s) (recvd s) (returned s) (log s)
            else mkState (BWait k) (prev_kind s) (wg s) (ws s) (recvd s) (returned s) (log s)
        end
    | BWait k =>
        match wg s, nth_error kinds k with
        | O, Some ck => mkState (BAdd k) ck (wg s) (ws s) (recvd s) (returned s) (log s)
        | _, _ => s                                         (* blocked *)
        end
    | BAdd k => mkState (BGo k) (prev_kind s) (S (wg s)) (ws s) (recvd s) (returned s) (log s)
    | BGo k => mkState (BHead (S k)) (prev_kind s) (wg s) (upd (ws s) k WReady) (recvd s) (returned s) (log s)
    | BEnd => s
    end.

  Definition step_w (s : state) (j : nat) : state :=
    match ws s j with
    | WReady => mkState (bp s) (prev_kind s) (wg s) (upd (ws s) j WRunning) (recvd s) (returned s) (EStart j :: log s)
    | WRunning => mkState (bp s) (prev_kind s) (wg s) (upd (ws s) j WSending) (recvd s) (returned s) (EEnd j :: log s)
    | WSent => mkState (bp s) (prev_kind s) (Nat.pred (wg s)) (upd (ws s) j WDone) (recvd s) (returned s) (log s)
    | _ => s
    end.

  Definition step_recv (s : state) (j : nat) : state :=
    match ws s j with
    | WSending =>
        if returned s then s
        else if Nat.ltb (List.length (recvd s)) n_infos
             then mkState (bp s) (prev_kind s) (wg s) (upd (ws s) j WSent) (recvd s ++ [(j, fails j)]) (returned s) (log s)
             else s
    | _ => s
    end.

  Definition step_p (s : state) : state :=
    if Nat.eqb (List.length (recvd s)) n_infos
    then mkState (bp s) (prev_kind s) (wg s) (ws s) (recvd s) true (log s)
    else s.

  Definition step (s : state) (c : choice) : state :=
    match c with
    | ChB => step_b s
    | ChW j => step_w s j
    | ChRecv j => step_recv s j
    | ChP => step_p s
    end.

  Definition run (sched : list choice) : state := fold_left step sched init.

  (* chronological trace of fn starts / ends *)
  Definition trace (s : state) : list event := rev (log s).

  (* perform's return value: the workers whose error was appended *)
  Definition failed (s : state) : list nat := map fst (filter snd (recvd s)).
End Sys.

(* perform as a whole: the empty list is refused before anything is started *)
Inductive perform_outcome := PNoObjectsVisited | PState (s : state).
Definition perform (kinds : list string) (fails : nat -> bool) (sched : list choice) : perform_outcome :=
  match kinds with
  | [] => PNoObjectsVisited
  | _ => PState (run kinds fails sched)
  end.

(* batch number of every resource: a new batch starts where the Kind differs from the
   previous resource's Kind (the variable starts as "") *)
Fixpoint batches_from (prev : string) (b : nat) (ks : list string) : list nat :=
  match ks with
  | [] => []
  | k :: t => let b' := if String.eqb prev k then b else S b in b' :: batches_from k b' t
  end.
Definition batch_ids (ks : list string) : list nat := batches_from "" 0 ks.

(* ---- replaying an observed event sequence (correspondence run) ------------------ *)
(* Internal moves (B, receive, Done, return) are not observable; they only ever enable
   further moves, so they are taken eagerly before each observed event. *)
Section Replay.
  Variable kinds : list string.
  Variable fails : nat -> bool.

  Definition internal_round (s : state) : state :=
    let s1 := step_b kinds s in
    fold_left (fun st j =>
                 match ws st j with
                 | WSending => step_recv kinds fails st j
                 | WSent => step_w st j
                 | _ => st
                 end) (seq 0 (List.length kinds)) s1.

  Fixpoint saturate (fuel : nat) (s : state) : state :=
    match fuel with
    | O => s
    | S f => saturate f (internal_round s)
    end.

  Definition sat (s : state) : state := saturate (6 * List.length kinds + 6) s.

  Fixpoint replay (s : state) (evs : list event) : option state :=
    match evs with
    | [] => Some (step_p kinds (sat s))
    | EStart j :: t =>
        let s' := sat s in
        match ws s' j with WReady => replay (step_w s' j) t | _ => None end
    | EEnd j :: t =>
        let s' := sat s in
        match ws s' j with WRunning => replay (step_w s' j) t | _ => None end
    end.

  (* the observed sequence is a complete run of the model: every event possible when it
     happened, and perform has returned at the end *)
  Definition admissible (evs : list event) : bool :=
    match replay (init) evs with
    | Some s => returned s
    | None => false
    end.
End Replay.

(* C08 — uninstall deletes in the uninstall kind order (Text/Uninstall.v). *)
From Coq Require Import List String Ascii Bool Arith Permutation Sorted.
From Helm Require Import Common.Assoc Common.SortUniq Text.Split Text.KindSort Text.KindSortProofs
  Text.Classify Text.ClassifyProofs Text.Uninstall Gen.Events.
Import ListNotations.
Local Open Scope string_scope.

Lemma StronglySorted_filter' {A} (R : A -> A -> Prop) (f : A -> bool) l :
  StronglySorted R l -> StronglySorted R (filter f l).
Proof.
  induction 1 as [|a l Hs IH Hall]; simpl; [constructor|].
  destruct (f a); auto. constructor; auto.
  rewrite Forall_forall in *. intros x Hx. apply filter_In in Hx. apply Hall. tauto.
Qed.

Lemma filter_split_perm {A} (f : A -> bool) l :
  Permutation (filter (fun x => negb (f x)) l ++ filter f l) l.
Proof.
  induction l as [|a t IH]; simpl; auto.
  destruct (f a); simpl.
  - symmetry. apply Permutation_cons_app. symmetry. exact IH.
  - now constructor.
Qed.

Section UninstallProofs.
  Variable head_of : string -> option head.

  Theorem delete_order_spec order manifest del keep :
    delete_order head_of order manifest = DeleteOrder del keep ->
    exists gs0,
      (* the resource documents of the stored manifest, in the order SortManifests visits them *)
      map gdoc gs0 = filter (is_generic head_of) (all_docs (split_map manifest)) /\
      (* deleted ++ kept is a rearrangement of them; kept = exactly the resource-policy: keep ones *)
      Permutation (del ++ keep) gs0 /\
      (forall m, In m del -> kept m = false) /\ (forall m, In m keep -> kept m = true) /\
      (* the deletions are issued sorted by rank in the given kind table, and both lists are
         the kind sort of the input with the other part removed *)
      StronglySorted (fun a b => rank_leb (kind_rank order (h_kind (m_head a))) (kind_rank order (h_kind (m_head b))) = true) del /\
      del = filter (fun m => negb (kept m)) (sort_by_kind (fun m => h_kind (m_head m)) order gs0) /\
      keep = filter kept (sort_by_kind (fun m => h_kind (m_head m)) order gs0).
  Proof.
    unfold delete_order. intros H.
    destruct (sort_manifests head_of order (split_map manifest)) as [hs gs|] eqn:E; [|discriminate].
    inversion H; subst. clear H.
    destruct (sort_manifests_order _ _ _ _ _ E) as (hs0 & gs0 & Hg & _ & -> & _).
    exists gs0. repeat split; auto.
    - rewrite filter_split_perm. apply sort_by_kind_perm.
    - intros m Hm. apply filter_In in Hm. destruct Hm as [_ Hm]. now apply negb_true_iff in Hm.
    - intros m Hm. apply filter_In in Hm. tauto.
    - apply StronglySorted_filter'. apply (sort_by_kind_sorted (fun m => h_kind (m_head m)) order gs0).
  Qed.
End UninstallProofs.

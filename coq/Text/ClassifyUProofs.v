(* C08 — proofs about the classification of documents for ANY lower-casing function
   (Text/ClassifyU.v); a port of Text/ClassifyProofs.v with [lower] as a Section variable, plus
   the agreement with the first model: [sort_manifests_g to_lower = sort_manifests]. *)
From Coq Require Import List String Ascii Bool Arith ZArith Lia Permutation Sorted.
From Helm Require Import Common.Assoc Common.SortUniq Text.Split Text.KindSort Text.KindSortProofs
  Text.Classify Text.ClassifyProofs Text.ClassifyU Gen.Events.
Import ListNotations.
Local Open Scope string_scope.

Local Opaque hook_events hook_annotation hook_weight_annotation hook_delete_annotation
  hook_output_log_annotation notes_file_suffix.

Section PartitionU.
  Variable lower : string -> string.

  (* a token of the annotation names a known event (after TrimSpace + ToLower) *)
  Definition known_event_g (tok : string) : bool := amem (norm_token_g lower tok) hook_events.
  Definition all_known_g (types : string) : bool := forallb known_event_g (split_comma types).

Lemma parse_events_known_g toks :
  (exists evs, parse_events_g lower toks = Some evs) <-> forallb known_event_g toks = true.
Proof.
  induction toks as [|t r IH]; simpl.
  - split; eauto.
  - unfold known_event_g at 1, amem. destruct (aget (norm_token_g lower t) hook_events) as [e|]; simpl.
    + rewrite <- IH. split.
      * intros [evs H]. destruct (parse_events_g lower r) as [es|]; [exists es; reflexivity|discriminate H].
      * intros [evs H]. rewrite H. eauto.
    + split; [intros [evs H]; discriminate H|intros H; discriminate H].
Qed.

Lemma parse_events_length_g toks evs : parse_events_g lower toks = Some evs -> List.length evs = List.length toks.
Proof.
  revert evs. induction toks as [|t r IH]; simpl; intros evs H.
  - now inversion H.
  - destruct (aget (norm_token_g lower t) hook_events); [|discriminate].
    destruct (parse_events_g lower r) eqn:E; [|discriminate]. inversion H; subst. simpl. f_equal. auto.
Qed.

  Variable head_of : string -> option head.

  Definition place_of_g (doc : string) : place :=
    match head_of doc with
    | None => PError
    | Some h =>
        match hook_ann h with
        | None => PGeneric
        | Some types => if all_known_g types then PHook else PDropped
        end
    end.

  Definition is_generic_g (pd : string * string) : bool := match place_of_g (snd pd) with PGeneric => true | _ => false end.
  Definition is_hook_g (pd : string * string) : bool := match place_of_g (snd pd) with PHook => true | _ => false end.
  Definition is_dropped_g (pd : string * string) : bool := match place_of_g (snd pd) with PDropped => true | _ => false end.

  (* what one loop iteration does, in terms of the specification *)
  Lemma classify_spec_g p d :
    match classify_g lower head_of p d with
    | CGeneric m => place_of_g d = PGeneric /\ gdoc m = (p, d) /\ head_of d = Some (m_head m)
    | CHook h => place_of_g d = PHook /\ hdoc h = (p, d) /\
                 exists hd name ann types, head_of d = Some hd /\ h_meta hd = Some (name, ann) /\
                   aget hook_annotation ann = Some types /\
                   hk_name h = name /\ hk_kind h = h_kind hd /\
                   parse_events_g lower (split_comma types) = Some (hk_events h) /\
                   hk_weight h = hook_weight ann /\
                   hk_delete h = annotation_values_g lower ann hook_delete_annotation /\
                   hk_outlog h = annotation_values_g lower ann hook_output_log_annotation
    | CDropped => place_of_g d = PDropped
    | CError => place_of_g d = PError
    end.
  Proof.
    unfold classify_g, place_of_g, hook_ann.
    destruct (head_of d) as [h|]; auto.
    destruct (h_meta h) as [[name ann]|] eqn:Em; [|simpl; auto].
    destruct ann as [|a ann']; [simpl; auto|].
    remember (a :: ann') as an.
    destruct (aget hook_annotation an) as [types|] eqn:Ea; [|simpl; auto].
    unfold all_known_g.
    destruct (parse_events_g lower (split_comma types)) as [evs|] eqn:Ep.
    - assert (forallb known_event_g (split_comma types) = true) as -> by (apply parse_events_known_g; eauto).
      simpl. repeat split; auto. exists h, name, an, types. repeat split; auto.
    - destruct (forallb known_event_g (split_comma types)) eqn:Ef; auto.
      apply parse_events_known_g in Ef. destruct Ef as [evs Ef]. congruence.
  Qed.

  Lemma classify_all_spec_g docs hs gs :
    classify_all_g lower head_of docs = Some (hs, gs) ->
    map gdoc gs = filter is_generic_g docs /\
    map hdoc hs = filter is_hook_g docs /\
    Forall (fun pd => place_of_g (snd pd) <> PError) docs.
  Proof.
    revert hs gs. induction docs as [|[p d] t IH]; simpl; intros hs gs H.
    - inversion H; subst. auto.
    - pose proof (classify_spec_g p d) as Hc.
      unfold is_generic_g, is_hook_g. simpl.
      destruct (classify_g lower head_of p d) as [m|h| |]; try discriminate;
        destruct (classify_all_g lower head_of t) as [[hs' gs']|]; try discriminate;
        inversion H; subst; destruct (IH _ _ eq_refl) as (Hg & Hh & Hf).
      + destruct Hc as (Hp & Hd & _). rewrite Hp. simpl. rewrite Hd, Hg. repeat split; auto.
        constructor; auto. simpl. congruence.
      + destruct Hc as (Hp & Hd & _). rewrite Hp. simpl. rewrite Hd, Hh. repeat split; auto.
        constructor; auto. simpl. congruence.
      + rewrite Hc. repeat split; auto. constructor; auto. simpl. congruence.
  Qed.

  Lemma classify_all_complete_g docs :
    Forall (fun pd => place_of_g (snd pd) <> PError) docs -> exists hs gs, classify_all_g lower head_of docs = Some (hs, gs).
  Proof.
    induction 1 as [|[p d] t Hd _ IH]; simpl; eauto.
    destruct IH as (hs & gs & ->). pose proof (classify_spec_g p d) as Hc. simpl in Hd.
    destruct (classify_g lower head_of p d); eauto. congruence.
  Qed.

  Lemma three_way_g docs :
    Forall (fun pd => place_of_g (snd pd) <> PError) docs ->
    Permutation docs (filter is_generic_g docs ++ filter is_hook_g docs ++ filter is_dropped_g docs).
  Proof.
    induction 1 as [|pd t Hd _ IH]; simpl; auto.
    unfold is_generic_g at 1, is_hook_g at 1, is_dropped_g at 1.
    destruct (place_of_g (snd pd)); try congruence; simpl.
    - now constructor.
    - apply Permutation_cons_app. exact IH.
    - rewrite app_assoc. apply Permutation_cons_app. rewrite <- app_assoc. exact IH.
  Qed.

  (* the documents looked at do not depend on the iteration order of the Go map *)
  Lemma all_docs_perm_g files :
    Permutation (all_docs files) (flat_map file_docs (filter (fun f => negb (file_skipped f)) files)).
  Proof.
    unfold all_docs, sorted_files. apply perm_flat_map, perm_filter, ssort_perm.
  Qed.

  Lemma all_docs_path_g files p d :
    In (p, d) (all_docs files) -> exists c, In (p, c) files /\ is_partial p = false /\ is_blank c = false /\ In d (split_manifests c).
  Proof.
    intros H. apply (Permutation_in _ (all_docs_perm_g files)) in H.
    apply in_flat_map in H. destruct H as ([p' c] & Hf & Hd).
    apply filter_In in Hf. destruct Hf as [Hf Hs].
    unfold file_docs in Hd. simpl in Hd. apply in_map_iff in Hd. destruct Hd as (d' & Heq & Hd').
    inversion Heq; subst. exists c. unfold file_skipped in Hs. simpl in Hs.
    apply negb_true_iff, orb_false_iff in Hs. tauto.
  Qed.

  Theorem sort_manifests_partition_g order files hs gs :
    sort_manifests_g lower head_of order files = SortOk hs gs ->
    let docs := all_docs files in
    Permutation (map gdoc gs) (filter is_generic_g docs) /\
    Permutation (map hdoc hs) (filter is_hook_g docs) /\
    Permutation docs (map gdoc gs ++ map hdoc hs ++ filter is_dropped_g docs) /\
    (forall pd, In pd docs -> place_of_g (snd pd) <> PError).
  Proof.
    intros H docs. unfold sort_manifests_g in H.
    destruct (classify_all_g lower head_of (all_docs files)) as [[hs0 gs0]|] eqn:E; [|discriminate].
    inversion H; subst. apply classify_all_spec_g in E. destruct E as (Hg & Hh & Hf).
    fold docs in Hg, Hh, Hf.
    assert (Pg : Permutation (map gdoc (sort_by_kind (fun m => h_kind (m_head m)) order gs0)) (filter is_generic_g docs)).
    { rewrite <- Hg. apply Permutation_map, sort_by_kind_perm. }
    assert (Ph : Permutation (map hdoc (sort_by_kind hk_kind order hs0)) (filter is_hook_g docs)).
    { rewrite <- Hh. apply Permutation_map, sort_by_kind_perm. }
    repeat split; auto.
    - rewrite Pg, Ph. now apply three_way_g.
    - rewrite Forall_forall in Hf. auto.
  Qed.

  (* the same, stated on the file map itself (any listing order of the Go map) *)
  Theorem sort_manifests_partition_files_g order files hs gs :
    sort_manifests_g lower head_of order files = SortOk hs gs ->
    let docs := flat_map file_docs (filter (fun f => negb (file_skipped f)) files) in
    Permutation docs (map gdoc gs ++ map hdoc hs ++ filter is_dropped_g docs) /\
    Permutation (map gdoc gs) (filter is_generic_g docs) /\
    Permutation (map hdoc hs) (filter is_hook_g docs) /\
    (forall pd, In pd docs -> place_of_g (snd pd) <> PError).
  Proof.
    intros H docs. destruct (sort_manifests_partition_g _ _ _ _ H) as (Pg & Ph & Pd & Hf).
    pose proof (all_docs_perm_g files) as P. fold docs in P.
    repeat split.
    - rewrite <- P at 1. rewrite Pd. repeat apply Permutation_app_head. now apply perm_filter.
    - rewrite Pg. now apply perm_filter.
    - rewrite Ph. now apply perm_filter.
    - intros pd Hpd. apply Hf. eapply Permutation_in; [symmetry; exact P|exact Hpd].
  Qed.

  (* a document is a hook iff it carries the annotation with known events only, it is in the
     manifest iff it has no hook annotation, and it is in neither iff an event is unknown *)
  Theorem placed_iff_g order files hs gs :
    sort_manifests_g lower head_of order files = SortOk hs gs ->
    forall p d, In (p, d) (flat_map file_docs (filter (fun f => negb (file_skipped f)) files)) ->
      (In (p, d) (map hdoc hs) <-> exists h types, head_of d = Some h /\ hook_ann h = Some types /\ all_known_g types = true) /\
      (In (p, d) (map gdoc gs) <-> exists h, head_of d = Some h /\ hook_ann h = None) /\
      (~ In (p, d) (map hdoc hs ++ map gdoc gs) <-> exists h types, head_of d = Some h /\ hook_ann h = Some types /\ all_known_g types = false).
  Proof.
    intros H p d Hin. destruct (sort_manifests_partition_files_g _ _ _ _ H) as (_ & Pg & Ph & Hf).
    specialize (Hf _ Hin). simpl in Hf.
    assert (Hh : In (p, d) (map hdoc hs) <-> is_hook_g (p, d) = true).
    { split; intros Hx.
      - apply (Permutation_in _ Ph), filter_In in Hx. tauto.
      - apply (Permutation_in _ (Permutation_sym Ph)), filter_In. auto. }
    assert (Hg : In (p, d) (map gdoc gs) <-> is_generic_g (p, d) = true).
    { split; intros Hx.
      - apply (Permutation_in _ Pg), filter_In in Hx. tauto.
      - apply (Permutation_in _ (Permutation_sym Pg)), filter_In. auto. }
    rewrite in_app_iff, Hh, Hg. unfold is_hook_g, is_generic_g, place_of_g in *. simpl in *.
    destruct (head_of d) as [h|]; [|congruence].
    clear Hf.
    assert (X1 : forall P : Prop, (P <-> true = true) <-> P) by (intros; split; [intros [_ HH]; auto|tauto]).
    assert (X2 : forall P : Prop, (P <-> false = true) <-> ~ P) by (intros; split; [intros [HH _] HP; apply HH in HP; discriminate|intros HH; split; [tauto|discriminate]]).
    destruct (hook_ann h) as [types|] eqn:Eh; [destruct (all_known_g types) eqn:Ea|].
    - split; [|split].
      + split; eauto.
      + split; [discriminate|]. intros (h0 & E0 & E1). inversion E0; subst. congruence.
      + split; [intros Hn; exfalso; apply Hn; auto|].
        intros (h0 & t0 & E0 & E1 & E2). inversion E0; subst. congruence.
    - split; [|split].
      + split; [discriminate|]. intros (h0 & t0 & E0 & E1 & E2). inversion E0; subst. congruence.
      + split; [discriminate|]. intros (h0 & E0 & E1). inversion E0; subst. congruence.
      + split; eauto. intros _ [?|?]; discriminate.
    - split; [|split].
      + split; [discriminate|]. intros (h0 & t0 & E0 & E1 & E2). inversion E0; subst. congruence.
      + split; eauto.
      + split; [intros Hn; exfalso; apply Hn; auto|].
        intros (h0 & t0 & E0 & E1 & E2). inversion E0; subst. congruence.
  Qed.

  (* the result lists are the kind sort of the documents in processing order *)
  Theorem sort_manifests_order_g order files hs gs :
    sort_manifests_g lower head_of order files = SortOk hs gs ->
    exists hs0 gs0,
      map gdoc gs0 = filter is_generic_g (all_docs files) /\
      map hdoc hs0 = filter is_hook_g (all_docs files) /\
      gs = sort_by_kind (fun m => h_kind (m_head m)) order gs0 /\
      hs = sort_by_kind hk_kind order hs0.
  Proof.
    unfold sort_manifests_g. intros H.
    destruct (classify_all_g lower head_of (all_docs files)) as [[hs0 gs0]|] eqn:E; [|discriminate].
    inversion H; subst. apply classify_all_spec_g in E. destruct E as (Hg & Hh & _).
    exists hs0, gs0. auto.
  Qed.

  Theorem sort_manifests_ok_iff_g order files :
    (exists hs gs, sort_manifests_g lower head_of order files = SortOk hs gs) <->
    (forall pd, In pd (all_docs files) -> place_of_g (snd pd) <> PError).
  Proof.
    unfold sort_manifests_g. split.
    - intros (hs & gs & H).
      destruct (classify_all_g lower head_of (all_docs files)) as [[hs0 gs0]|] eqn:E; [|discriminate].
      apply classify_all_spec_g in E. destruct E as (_ & _ & Hf). rewrite Forall_forall in Hf. auto.
    - intros H. destruct (classify_all_complete_g (all_docs files)) as (hs & gs & ->); eauto.
      rewrite Forall_forall. auto.
  Qed.

  (* every placed document keeps its text and its head; hooks carry what the annotations say *)
  Theorem sort_manifests_contents_g order files hs gs :
    sort_manifests_g lower head_of order files = SortOk hs gs ->
    (forall m, In m gs -> In (gdoc m) (all_docs files) /\ head_of (m_content m) = Some (m_head m) /\
                          hook_ann (m_head m) = None) /\
    (forall h, In h hs -> In (hdoc h) (all_docs files) /\
       exists hd name ann types, head_of (hk_manifest h) = Some hd /\ h_meta hd = Some (name, ann) /\
         aget hook_annotation ann = Some types /\ all_known_g types = true /\
         hk_name h = name /\ hk_kind h = h_kind hd /\
         parse_events_g lower (split_comma types) = Some (hk_events h) /\
         hk_weight h = hook_weight ann /\
         hk_delete h = annotation_values_g lower ann hook_delete_annotation /\
         hk_outlog h = annotation_values_g lower ann hook_output_log_annotation).
  Proof.
    unfold sort_manifests_g. intros H.
    destruct (classify_all_g lower head_of (all_docs files)) as [[hs0 gs0]|] eqn:E; [|discriminate].
    inversion H; subst. clear H.
    assert (G : forall docs hs1 gs1, classify_all_g lower head_of docs = Some (hs1, gs1) ->
              (forall m, In m gs1 -> In (gdoc m) docs /\ head_of (m_content m) = Some (m_head m) /\ hook_ann (m_head m) = None) /\
              (forall h, In h hs1 -> In (hdoc h) docs /\
                 exists hd name ann types, head_of (hk_manifest h) = Some hd /\ h_meta hd = Some (name, ann) /\
                 aget hook_annotation ann = Some types /\ all_known_g types = true /\
                 hk_name h = name /\ hk_kind h = h_kind hd /\
                 parse_events_g lower (split_comma types) = Some (hk_events h) /\
                 hk_weight h = hook_weight ann /\
                 hk_delete h = annotation_values_g lower ann hook_delete_annotation /\
                 hk_outlog h = annotation_values_g lower ann hook_output_log_annotation)).
    { induction docs as [|[p d] t IH]; simpl; intros hs1 gs1 H1.
      - inversion H1; subst. split; intros ? [].
      - pose proof (classify_spec_g p d) as Hc.
        destruct (classify_g lower head_of p d) as [m|h| |] eqn:Ec; try discriminate;
          destruct (classify_all_g lower head_of t) as [[hs' gs']|]; try discriminate;
          inversion H1; subst; destruct (IH _ _ eq_refl) as [Hg Hh]; split.
        + intros m' [<-|Hm].
          * destruct Hc as (Hp & Hd & Hh0). split; [left; congruence|].
            assert (m_content m = d) by (unfold gdoc in Hd; congruence). subst d. split; auto.
            unfold place_of_g in Hp. rewrite Hh0 in Hp. destruct (hook_ann (m_head m)); auto.
            destruct (all_known_g s); discriminate.
          * destruct (Hg _ Hm) as (? & ? & ?). auto.
        + intros h Hh'. destruct (Hh _ Hh') as [? ?]. auto.
        + intros m Hm. destruct (Hg _ Hm) as (? & ? & ?). auto.
        + intros h' [<-|Hh'].
          * destruct Hc as (Hp & Hd & hd & name & ann & types & H1' & H2 & H3 & H4 & H5 & H6 & H7 & H8 & H9).
            split; [left; congruence|].
            assert (hk_manifest h = d) by (unfold hdoc in Hd; congruence). subst d.
            exists hd, name, ann, types. repeat split; auto.
            apply parse_events_known_g. eauto.
          * destruct (Hh _ Hh') as [? ?]. auto.
        + intros m Hm. destruct (Hg _ Hm) as (? & ? & ?). auto.
        + intros h Hh'. destruct (Hh _ Hh') as [? ?]. auto. }
    destruct (G _ _ _ E) as [Hg Hh]. split.
    - intros m Hm. apply Hg. eapply Permutation_in; [apply sort_by_kind_perm|exact Hm].
    - intros h Hh'. apply Hh. eapply Permutation_in; [apply sort_by_kind_perm|exact Hh'].
  Qed.

  (* partials and blank files never contribute; in renderResources neither does NOTES.txt *)
  Theorem never_applied_g order files hs gs :
    sort_manifests_g lower head_of order files = SortOk hs gs ->
    forall p d, In (p, d) (map gdoc gs ++ map hdoc hs) ->
      is_partial p = false /\ exists c, In (p, c) files /\ is_blank c = false /\ In d (split_manifests c).
  Proof.
    intros H p d Hin. destruct (sort_manifests_contents_g _ _ _ _ H) as [Hg Hh].
    assert (In (p, d) (all_docs files)).
    { apply in_app_or in Hin. destruct Hin as [Hi|Hi]; apply in_map_iff in Hi; destruct Hi as (x & Hx & Hi).
      - rewrite <- Hx. now apply Hg.
      - rewrite <- Hx. now apply Hh. }
    apply all_docs_path_g in H0. destruct H0 as (c & ? & ? & ? & ?). eauto.
  Qed.

End PartitionU.

(* ---- the first model is the instance lower := to_lower (the definitions are convertible) ---- *)
Lemma parse_events_g_to_lower toks : parse_events_g to_lower toks = parse_events toks.
Proof. reflexivity. Qed.

Lemma classify_g_to_lower head_of p d : classify_g to_lower head_of p d = classify head_of p d.
Proof. reflexivity. Qed.

Theorem sort_manifests_g_to_lower head_of order files :
  sort_manifests_g to_lower head_of order files = sort_manifests head_of order files.
Proof. reflexivity. Qed.

(* C08 — ordering by kind: pkg/release/util/kind_sorter.go.

   lessByKind (kind_sorter.go:136-162) is transcribed literally as [less_by_kind]; the
   map built from the order table keeps the LAST index of a repeated name ([last_index]).
   sortManifestsByKind / sortHooksByKind call sort.SliceStable with that [less]; the model
   is THE stable sort ([Common.SortUniq.ssort], insertion sort) with
   [leb a b := negb (less b a)] — by [stable_sort_unique] every stable sorting algorithm
   computes the same list, so nothing about Go's algorithm (insertion blocks + SymMerge)
   has to be modelled beyond "sorted, stable permutation". *)
From Coq Require Import List String Ascii Bool Arith.
From Helm Require Import Common.SortUniq.
Import ListNotations.
Local Open Scope string_scope.

(* ordering[k] = v for v, k := range o : the last occurrence wins *)
Fixpoint last_index_from (i : nat) (o : list string) (k : string) : option nat :=
  match o with
  | [] => None
  | x :: t =>
      match last_index_from (S i) t k with
      | Some j => Some j
      | None => if String.eqb x k then Some i else None
      end
  end.
Definition last_index := last_index_from 0.

Definition less_by_kind (o : list string) (kindA kindB : string) : bool :=
  match last_index o kindA, last_index o kindB with
  | None, None =>
      (* both unknown: alphabetically by kind; same kind: first < second is 0 < 0 *)
      if String.eqb kindA kindB then false else String.ltb kindA kindB
  | None, Some _ => false            (* unknown kind is last *)
  | Some _, None => true
  | Some first, Some second => Nat.ltb first second
  end.

Definition kind_leb (o : list string) (a b : string) : bool := negb (less_by_kind o b a).

Section Sort.
  Context {A : Type}.
  Variable kind_of : A -> string.
  (* sort.SliceStable(l, func(i, j) { return lessByKind(.., kind l[i], kind l[j], o) }) *)
  Definition sort_by_kind (o : list string) (l : list A) : list A :=
    ssort (by_key (kind_leb o) kind_of) l.
End Sort.

(* the rank reading of the same order, used in the statements *)
Inductive rank := RKnown (i : nat) | RUnknown (kind : string).

Definition kind_rank (o : list string) (k : string) : rank :=
  match last_index o k with Some i => RKnown i | None => RUnknown k end.

Definition rank_leb (a b : rank) : bool :=
  match a, b with
  | RKnown i, RKnown j => Nat.leb i j
  | RKnown _, RUnknown _ => true
  | RUnknown _, RKnown _ => false
  | RUnknown x, RUnknown y => String.leb x y
  end.

(* C08 — what the rows of Gen/C08Render.v (call sites of renderResources, writeToFile,
   CRDObjects with their path conditions; the evaluated isDryRun; the reachability conditions of
   the hide-secret guard) have to satisfy, stated against the MODEL's conditions (Text/Full.v):
   the conditions are compared by truth table over the atoms ([bequiv], Text/Cond.v), formats
   as sets, rows are selected by what they emit (format and arguments relative to the loop
   element), never by their position or by the text of a condition.

   Atoms: $argN = parameter N of the function, $elem = the element of the enclosing range
   loop, $recv = the receiver.  renderResources(ch 0, values 1, releaseName 2, outputDir 3,
   subNotes 4, useReleaseName 5, includeCrds 6, pr 7, interactWithRemote 8, enableDNS 9,
   hideSecret 10); writeToFile(outputDir 0, name 1, data 2, appendData 3). *)
From Coq Require Import List String Ascii Bool Arith.
From Helm Require Import Text.Split Text.Classify Text.Cond Text.Full.
Import ListNotations.
Local Open Scope string_scope.

Definition A_out_empty : string := "$arg3 == """"".
Definition A_sub : string := "$arg4".
Definition A_inc : string := "$arg6".
Definition A_pr_nil : string := "$arg7 == nil".
Definition A_hide : string := "$arg10".
Definition A_kind : string := "$elem.Head.Kind == ""Secret""".
Definition A_ver : string := "$elem.Head.Version == ""v1""".
Definition A_suffix : string := "strings.HasSuffix($elem, ""NOTES.txt"")".
Definition A_main : string := "$elem == path.Join($arg0.Name(), ""templates"", ""NOTES.txt"")".

(* ---- the model's conditions ------------------------------------------------------------------ *)
Definition hidden_spec : bexp := band [BAtom A_out_empty; BAtom A_hide; BAtom A_kind; BAtom A_ver].
Definition plain_spec : bexp := BAnd (BAtom A_out_empty) (BNot (band [BAtom A_hide; BAtom A_kind; BAtom A_ver])).
Definition file_spec : bexp := BNot (BAtom A_out_empty).
Definition crd_buffer_spec : bexp := BAnd (BAtom A_inc) (BAtom A_out_empty).
Definition crd_file_spec : bexp := BAnd (BAtom A_inc) (BNot (BAtom A_out_empty)).
Definition notes_spec : bexp := BAnd (BAtom A_suffix) (BOr (BAtom A_sub) (BAtom A_main)).
Definition notes_delete_spec : bexp := BAtom A_suffix.
Definition post_render_spec : bexp := BNot (BAtom A_pr_nil).

Definition env_render (out_empty sub inc pr_nil hide kind ver suffix main : bool) (a : string) : bool :=
  if String.eqb a A_out_empty then out_empty else if String.eqb a A_sub then sub else if String.eqb a A_inc then inc
  else if String.eqb a A_pr_nil then pr_nil else if String.eqb a A_hide then hide else if String.eqb a A_kind then kind
  else if String.eqb a A_ver then ver else if String.eqb a A_suffix then suffix else if String.eqb a A_main then main else false.

(* the specifications say what the model does: which entry render_full writes for a manifest,
   which NOTES files are selected / removed *)
Lemma specs_reflect_model (o : opts) (m : manifest) (k : string) :
  let env := env_render (is_empty (o_output_dir o)) (o_sub_notes o) (o_include_crds o) false (o_hide_secret o)
               (String.eqb (h_kind (m_head m)) "Secret") (String.eqb (h_version (m_head m)) "v1")
               (is_notes k) (String.eqb k (main_notes_key o)) in
  beval env hidden_spec = Some (is_empty (o_output_dir o) && (o_hide_secret o && is_secret_v1 (m_head m))) /\
  beval env plain_spec = Some (is_empty (o_output_dir o) && negb (o_hide_secret o && is_secret_v1 (m_head m))) /\
  beval env file_spec = Some (negb (is_empty (o_output_dir o))) /\
  beval env crd_buffer_spec = Some (o_include_crds o && is_empty (o_output_dir o)) /\
  beval env notes_spec = Some (notes_selected o k) /\
  beval env notes_delete_spec = Some (is_notes k).
Proof.
  unfold notes_selected, is_secret_v1.
  destruct (is_empty (o_output_dir o)), (o_sub_notes o), (o_include_crds o), (o_hide_secret o),
    (String.eqb (h_kind (m_head m)) "Secret"), (String.eqb (h_version (m_head m)) "v1"), (is_notes k),
    (String.eqb k (main_notes_key o)); vm_compute; repeat split; reflexivity.
Qed.

(* ---- string helpers ------------------------------------------------------------------------------ *)
Definition ends_with (suf s : string) : bool := has_suffix suf s.
Definition nth_arg (i : nat) (r : row) : string := nth i (r_args r) "<none>".
Definition starts_with_quote (s : string) : bool := match s with String c _ => is_byte 34 c | _ => false end.

Definition fmt_source : string := source_entry "%s" "%s".
Definition fmt_hidden : string := hidden_entry "%s".

Definition is_fprintf (r : row) : bool := ends_with "Fprintf" (r_callee r).
Definition is_write_to_file (r : row) : bool := String.eqb (r_callee r) "writeToFile".

(* the rows chosen by [sel] exist and together are reached exactly under [spec] *)
Definition called_iff (rows : list row) (sel : row -> bool) (spec : bexp) : bool :=
  existsb sel rows && bequiv (bor (map r_cond (filter sel rows))) spec.

(* ---- renderResources ------------------------------------------------------------------------------- *)
Definition sel_hidden (r : row) : bool :=
  is_fprintf r && String.eqb (r_fmt r) fmt_hidden && list_str_eqb (r_args r) ["$elem.Name"].
Definition sel_plain (r : row) : bool :=
  is_fprintf r && String.eqb (r_fmt r) fmt_source && list_str_eqb (r_args r) ["$elem.Name"; "$elem.Content"].
Definition sel_crd (r : row) : bool :=
  is_fprintf r && String.eqb (r_fmt r) fmt_source && list_str_eqb (r_args r) ["$elem.Filename"; "string($elem.File.Data[:])"].
(* the debugging blob: Fprintf(b, source format, name, text of that name) over the names *)
Definition sel_blob (r : row) : bool :=
  is_fprintf r && String.eqb (r_fmt r) fmt_source && String.eqb (nth_arg 0 r) "$elem" && Nat.eqb (List.length (r_args r)) 2.
Definition blob_ok (r : row) : bool :=
  bimplies (r_cond r) (BNot (BAtom ("strings.TrimSpace(" ++ nth_arg 1 r ++ ") == """""))) && bsat (r_cond r).

Definition sel_file (r : row) : bool :=
  is_write_to_file r && String.eqb (nth_arg 1 r) "$elem.Name" && String.eqb (nth_arg 2 r) "$elem.Content"
  && ends_with "[$elem.Name]" (nth_arg 3 r).                       (* append iff fileWritten[m.Name] *)
Definition sel_crd_file (r : row) : bool :=
  is_write_to_file r && String.eqb (nth_arg 0 r) "$arg3" && String.eqb (nth_arg 1 r) "$elem.Filename"
  && String.eqb (nth_arg 2 r) "string($elem.File.Data[:])" && ends_with "[$elem.Filename]" (nth_arg 3 r).

Definition sel_notes (r : row) : bool := ends_with ".WriteString" (r_callee r).
Definition sel_delete (r : row) : bool := String.eqb (r_callee r) "delete" && String.eqb (nth_arg 1 r) "$elem".
Definition sel_post (r : row) : bool := String.eqb (r_callee r) "$arg7.Run".

Definition render_rows_ok (rows : list row) : bool :=
  (* the formats, as a set, are the two entry forms of the model *)
  same_set (map r_fmt (filter is_fprintf rows)) [fmt_source; fmt_hidden] &&
  (* every buffer / file write is one of the known shapes *)
  forallb (fun r => negb (is_fprintf r) || sel_hidden r || sel_plain r || sel_crd r || sel_blob r) rows &&
  forallb (fun r => negb (is_write_to_file r) || sel_file r || sel_crd_file r) rows &&
  (* and happens exactly when the model says *)
  called_iff rows sel_hidden hidden_spec &&
  called_iff rows sel_plain plain_spec &&
  called_iff rows sel_file file_spec &&
  called_iff rows sel_crd crd_buffer_spec &&
  called_iff rows sel_crd_file crd_file_spec &&
  existsb sel_blob rows && forallb (fun r => negb (sel_blob r) || blob_ok r) rows &&
  (* NOTES: text appended iff selected, key deleted iff it has the suffix *)
  forallb (fun r => negb (sel_notes r) || bequiv (r_cond r) notes_spec) rows &&
  existsb (fun r => sel_notes r && negb (starts_with_quote (nth_arg 0 r))) rows &&
  called_iff rows sel_delete notes_delete_spec &&
  (* the post-renderer runs iff it is not nil *)
  called_iff rows sel_post post_render_spec.

(* the comparison of the NOTES keys: fewer slashes first, then by name *)
Definition A_cnt_eq : string := "(strings.Count($slice[$p0], ""/"")) == (strings.Count($slice[$p1], ""/""))".
Definition A_cnt_lt : string := "(strings.Count($slice[$p0], ""/"")) < (strings.Count($slice[$p1], ""/""))".
Definition A_key_lt : string := "$slice[$p0] < $slice[$p1]".
Definition notes_less_spec : bexp :=
  BOr (BAnd (BNot (BAtom A_cnt_eq)) (BAtom A_cnt_lt)) (BAnd (BAtom A_cnt_eq) (BAtom A_key_lt)).

(* [notes_leb a b] of the model is "not less b a" for this less *)
Lemma notes_less_reflects_model a b :
  beval (fun x => if String.eqb x A_cnt_eq then Nat.eqb (count_slash b) (count_slash a)
                  else if String.eqb x A_cnt_lt then Nat.ltb (count_slash b) (count_slash a)
                  else if String.eqb x A_key_lt then String.ltb b a else false) notes_less_spec
  = Some (if Nat.eqb (count_slash b) (count_slash a) then String.ltb b a else Nat.ltb (count_slash b) (count_slash a)).
Proof.
  destruct (Nat.eqb (count_slash b) (count_slash a)), (Nat.ltb (count_slash b) (count_slash a)), (String.ltb b a);
    vm_compute; reflexivity.
Qed.

(* ---- writeToFile / createOrOpenFile ------------------------------------------------------------------ *)
Definition write_path : string := "(strings.Join([]string{$arg0, $arg1}, string(filepath.Separator)))".
Definition write_rows_ok (rows : list row) : bool :=
  same_set (map r_fmt (filter is_fprintf rows)) [fmt_source] &&
  called_iff rows (fun r => is_fprintf r && list_str_eqb (r_args r) ["$arg1"; "$arg2"]) BTrue &&
  forallb (fun r => negb (is_fprintf r) || list_str_eqb (r_args r) ["$arg1"; "$arg2"]) rows &&
  (* appended when appendData, created (truncated) otherwise; the same path either way *)
  called_iff rows (fun r => String.eqb (r_callee r) "os.OpenFile" && String.eqb (nth_arg 0 r) write_path
                            && String.eqb (nth_arg 1 r) "os.O_APPEND|os.O_WRONLY") (BAtom "$arg3") &&
  called_iff rows (fun r => String.eqb (r_callee r) "os.Create" && String.eqb (nth_arg 0 r) write_path) (BNot (BAtom "$arg3")) &&
  forallb (fun r => is_fprintf r || String.eqb (r_callee r) "os.OpenFile" || String.eqb (r_callee r) "os.Create"
                    && String.eqb (nth_arg 0 r) write_path) rows.

(* ---- Chart.CRDObjects ---------------------------------------------------------------------------------- *)
Definition ext_atom (e : string) : bexp := BAtom ("strings.EqualFold(filepath.Ext($elem.Name), """ ++ e ++ """)").
Definition crd_spec : bexp :=
  BAnd (BAtom "strings.HasPrefix($elem.Name, ""crds/"")") (bor (map ext_atom manifest_exts)).
Definition crd_rows_ok (rows : list row) : bool :=
  existsb (fun r => String.eqb (r_callee r) "append" && bequiv (r_cond r) crd_spec) rows &&
  forallb (fun r => bequiv (r_cond r) crd_spec || bequiv (r_cond r) BTrue) rows.

(* ---- the hide-secret guard -------------------------------------------------------------------------------- *)
Definition A_dry : string := "$recv.DryRun".
Definition A_opt (v : string) : string := "$recv.DryRunOption == """ ++ v ++ """".
Definition A_hs : string := "$recv.HideSecret".
Definition dry_spec : bexp := bor [BAtom A_dry; BAtom (A_opt "client"); BAtom (A_opt "server"); BAtom (A_opt "true")].
(* renderResources is reached unless the guard rejects; the release is applied only without a dry run *)
Definition render_reach_spec : bexp := BNot (BAnd (BNot dry_spec) (BAtom A_hs)).
Definition apply_reach_spec : bexp := BAnd render_reach_spec (BNot dry_spec).

Definition env_flags (f : run_flags) (a : string) : bool :=
  if String.eqb a A_dry then rf_dry_run f else if String.eqb a A_hs then rf_hide_secret f
  else if String.eqb a (A_opt "client") then String.eqb (rf_dry_run_option f) "client"
  else if String.eqb a (A_opt "server") then String.eqb (rf_dry_run_option f) "server"
  else if String.eqb a (A_opt "true") then String.eqb (rf_dry_run_option f) "true" else false.

Lemma guard_specs_reflect_model (f : run_flags) (m : string) :
  beval (env_flags f) dry_spec = Some (is_dry_run f) /\
  beval (env_flags f) render_reach_spec = Some (negb (negb (is_dry_run f) && rf_hide_secret f)) /\
  beval (env_flags f) apply_reach_spec = Some (match applied f m with Some _ => true | None => false end).
Proof.
  destruct f as [d o h]. unfold applied, is_dry_run, env_flags. cbn [rf_dry_run rf_dry_run_option rf_hide_secret].
  generalize (String.eqb o "client") (String.eqb o "server") (String.eqb o "true"). intros c s t.
  destruct d, h, c, s, t; vm_compute; repeat split; reflexivity.
Qed.

(* what install / upgrade pass for releaseName .. pr and for hideSecret *)
Definition passed (args : list string) : list string := (skipn 2 (firstn 8 args) ++ [nth 10 args "<none>"])%list.

(* C08 — Configuration.renderResources (pkg/action/action.go:133-242) after the engine call,
   whole: NOTES.txt extraction, SortManifests, the debugging blob on a parse error, the CRD
   section (includeCrds), --hide-secret, the --output-dir file writing path (writeToFile /
   createOrOpenFile, pkg/action/install.go:628-658), the post-renderer hand-off; and
   Chart.CRDObjects / hasManifestExtension (pkg/chart/v2/chart.go:153-173).

     input   files : the map the template engine returned (path -> text)
             crds  : ch.CRDObjects() as (Filename, data), see [chart_crds]
             o     : the arguments (chart name, release name, outputDir, subNotes,
                     useReleaseName, includeCrds, hideSecret)
             pr    : the post-renderer, [None] = nil; [f b = None] = pr.Run returned an error
     output  hooks, the buffer b (Release.Manifest), the notes, the files written

   The YAML library ([head_of]) and strings.ToLower ([lower]) are Section variables; the
   file system is a map from path strings to contents (os.Create truncates, O_APPEND appends,
   opening a missing file for append fails); two different path strings are different files.
   Definitions only; proofs in Text/FullProofs.v. *)
From Coq Require Import List String Ascii Bool Arith ZArith.
From Helm Require Import Common.Assoc Common.SortUniq Text.Split Text.KindSort Text.Classify Text.ClassifyU
  Text.Lower Gen.Events Gen.KindOrder.
From Helm Require Chart.Paths.
Import ListNotations.
Local Open Scope string_scope.

Definition nl : string := String (byte 10) "".

(* fmt.Fprintf(b, "---\n# Source: %s\n%s\n", name, content) *)
Definition source_entry (name content : string) : string :=
  "---" ++ nl ++ "# Source: " ++ name ++ nl ++ content ++ nl.

Definition hidden_marker : string := "# HIDDEN: The Secret output has been suppressed".

(* fmt.Fprintf(b, "---\n# Source: %s\n# HIDDEN: The Secret output has been suppressed\n", m.Name) *)
Definition hidden_entry (name : string) : string :=
  "---" ++ nl ++ "# Source: " ++ name ++ nl ++ hidden_marker ++ nl.

Definition concat_str (l : list string) : string := fold_right append "" l.

(* ---- path.Join / filepath.Join (slash platform) ---------------------------------------- *)
Fixpoint join_buf (buf : string) (elems : list string) : string :=
  match elems with
  | [] => buf
  | e :: t =>
      if negb (is_empty buf) || negb (is_empty e)
      then join_buf ((if is_empty buf then buf else buf ++ "/") ++ e) t
      else join_buf buf t
  end.

Definition path_join_go (elems : list string) : string :=
  if forallb is_empty elems then "" else Paths.path_clean (join_buf "" elems).

(* ---- Chart.CRDObjects -------------------------------------------------------------------- *)
(* a chart as CRDObjects sees it: Name(), Files (name, data) in order, Dependencies() in order *)
Inductive chart := Chart (name : string) (files : list (string * string)) (deps : list chart).
Definition chart_name (c : chart) : string := match c with Chart n _ _ => n end.

(* filepath.Ext: from the last '.' of the last path element *)
Fixpoint ext_rev (r acc : string) : string :=
  match r with
  | EmptyString => EmptyString
  | String c t =>
      if is_byte 46 c then String c acc
      else if is_byte 47 c then EmptyString
      else ext_rev t (String c acc)
  end.
Definition file_ext (p : string) : string := ext_rev (srev p) "".

Definition crds_prefix : string := "crds/".
Definition manifest_exts : list string := [".yaml"; ".yml"; ".json"].

(* hasManifestExtension: strings.EqualFold(filepath.Ext(fname), ".yaml") || ".yml" || ".json" *)
Definition has_manifest_ext (p : string) : bool :=
  existsb (fun x => equal_fold_ascii (file_ext p) 0 x) manifest_exts.

Definition is_crd_file (f : string * string) : bool :=
  has_prefix crds_prefix (fst f) && has_manifest_ext (fst f).

(* [full] = ch.ChartFullPath(): Name() for the root, parent's path + "/charts/" + Name() below *)
Fixpoint crd_objects (full : string) (c : chart) : list (string * string) :=
  match c with
  | Chart _ files deps =>
      (map (fun f => (path_join_go [full; fst f], snd f)) (filter is_crd_file files)
       ++ (fix go (ds : list chart) : list (string * string) :=
             match ds with
             | [] => []
             | d :: t => crd_objects (full ++ "/charts/" ++ chart_name d) d ++ go t
             end) deps)%list
  end.
Definition chart_crds (c : chart) : list (string * string) := crd_objects (chart_name c) c.

(* ---- arguments --------------------------------------------------------------------------- *)
Record opts := mkOpts {
  o_chart_name : string;
  o_release_name : string;
  o_output_dir : string;
  o_sub_notes : bool;
  o_use_release_name : bool;
  o_include_crds : bool;
  o_hide_secret : bool
}.

(* ---- NOTES.txt --------------------------------------------------------------------------- *)
Fixpoint count_slash (s : string) : nat :=
  match s with
  | EmptyString => O
  | String c r => if is_byte 47 c then S (count_slash r) else count_slash r
  end.

(* not (less b a) for  less(i,j) := ci != cj ? ci < cj : keys[i] < keys[j] *)
Definition notes_leb (a b : string) : bool :=
  if Nat.eqb (count_slash a) (count_slash b) then String.leb a b else Nat.ltb (count_slash a) (count_slash b).

(* the keys of a map are distinct, so the comparison is a total order on them and sort.Slice
   has one possible result *)
Definition notes_order (files : list (string * string)) : list (string * string) :=
  ssort (by_key notes_leb fst) files.

Definition main_notes_key (o : opts) : string := path_join_go [o_chart_name o; "templates"; notes_file_suffix].

Definition notes_selected (o : opts) (k : string) : bool :=
  is_notes k && (o_sub_notes o || String.eqb k (main_notes_key o)).

Fixpoint notes_text (o : opts) (fs : list (string * string)) (buf : string) : string :=
  match fs with
  | [] => buf
  | (k, v) :: t =>
      if notes_selected o k
      then notes_text o t ((if is_empty buf then buf else buf ++ nl) ++ v)
      else notes_text o t buf
  end.

(* ---- the file system of --output-dir ------------------------------------------------------ *)
(* writeToFile(outputDir, name, data, appendData) *)
Definition write_to_file (fs : list (string * string)) (dir name data : string) (append : bool)
  : option (list (string * string)) :=
  let p := dir ++ "/" ++ name in
  if append then
    match aget p fs with
    | Some old => Some (aset p (old ++ source_entry name data) fs)
    | None => None                                   (* os.OpenFile(O_APPEND|O_WRONLY) on a missing file *)
    end
  else Some (aset p (source_entry name data) fs).   (* os.Create: created or truncated *)

(* one loop over (name, data) items; [written] = the keys of fileWritten *)
Fixpoint write_all (dir : string) (items : list (string * string)) (st : list (string * string) * list string)
  : option (list (string * string) * list string) :=
  match items with
  | [] => Some st
  | (name, data) :: t =>
      match write_to_file (fst st) dir name data (existsb (String.eqb name) (snd st)) with
      | None => None
      | Some fs' => write_all dir t (fs', name :: snd st)
      end
  end.

Definition new_dir (o : opts) : string :=
  if o_use_release_name o then path_join_go [o_output_dir o; o_release_name o] else o_output_dir o.

(* ---- --hide-secret ------------------------------------------------------------------------ *)
(* hideSecret && m.Head.Kind == "Secret" && m.Head.Version == "v1" *)
Definition is_secret_v1 (h : head) : bool := String.eqb (h_kind h) "Secret" && String.eqb (h_version h) "v1".

Definition doc_entry (hide : bool) (m : manifest) : string :=
  if hide && is_secret_v1 (m_head m) then hidden_entry (m_name m) else source_entry (m_name m) (m_content m).

Definition crd_entry (c : string * string) : string := source_entry (fst c) (snd c).

(* what is written to b when outputDir == "" *)
Definition buffer_text (hide : bool) (crds : list (string * string)) (gs : list manifest) : string :=
  concat_str (map crd_entry crds ++ map (doc_entry hide) gs).

Inductive full_result :=
| FullSortErr (blob : string)            (* SortManifests failed: b = the rendered files, for debugging *)
| FullWriteErr                           (* writeToFile failed *)
| FullPostErr (hooks : list hook) (notes : string) (written : list (string * string))
| FullOk (hooks : list hook) (manifest : string) (notes : string) (written : list (string * string)).

Section Full.
  Variable head_of : string -> option head.
  Variable lower : string -> string.

  Definition without_notes (files : list (string * string)) : list (string * string) :=
    filter (fun f => negb (is_notes (fst f))) files.

  (* the blob returned with a parse error: files in name order, blank ones skipped *)
  Definition debug_blob (files : list (string * string)) : string :=
    concat_str (map (fun f => source_entry (fst f) (snd f))
                  (filter (fun f => negb (is_blank (snd f))) (sorted_files files))).

  Definition manifest_items (gs : list manifest) : list (string * string) :=
    map (fun m => (m_name m, m_content m)) gs.

  Definition render_full (o : opts) (crds : list (string * string)) (pr : option (string -> option string))
             (files : list (string * string)) : full_result :=
    let notes := notes_text o (notes_order files) "" in
    let files' := without_notes files in
    match sort_manifests_g lower head_of install_order files' with
    | SortErr => FullSortErr (debug_blob files')
    | SortOk hs gs =>
        let crds' := if o_include_crds o then crds else [] in
        let emitted :=
          if is_empty (o_output_dir o) then Some (buffer_text (o_hide_secret o) crds' gs, [])
          else
            match write_all (o_output_dir o) crds' ([], []) with
            | None => None
            | Some st =>
                match write_all (new_dir o) (manifest_items gs) st with
                | None => None
                | Some st' => Some ("", fst st')
                end
            end in
        match emitted with
        | None => FullWriteErr
        | Some (b, written) =>
            match pr with
            | None => FullOk hs b notes written
            | Some f =>
                match f b with
                | Some b' => FullOk hs b' notes written
                | None => FullPostErr hs notes written
                end
            end
        end
    end.
End Full.

(* ---- the guard of Install.RunWithContext / Upgrade.prepareUpgrade -------------------------- *)
Record run_flags := mkRunFlags { rf_dry_run : bool; rf_dry_run_option : string; rf_hide_secret : bool }.

(* isDryRun: i.DryRun || i.DryRunOption == "client" || == "server" || == "true" *)
Definition is_dry_run (f : run_flags) : bool :=
  rf_dry_run f || String.eqb (rf_dry_run_option f) "client" || String.eqb (rf_dry_run_option f) "server"
  || String.eqb (rf_dry_run_option f) "true".

(* the part of RunWithContext that matters for which manifest can be applied:
     if !i.isDryRun() && i.HideSecret { return error }
     ... rel.Manifest = renderResources(..., i.HideSecret) ...
     if i.isDryRun() { return rel }                    // "Bail out here if it is a dry run"
     ... create / store / performInstall(rel.Manifest)
   [applied f m]: the manifest handed on to the cluster, if any, when renderResources
   (called with hideSecret = rf_hide_secret f) produced m *)
Definition applied (f : run_flags) (m : string) : option string :=
  if negb (is_dry_run f) && rf_hide_secret f then None
  else if is_dry_run f then None
  else Some m.

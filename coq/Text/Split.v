(* C08 — document splitting: releaseutil.SplitManifests (pkg/release/util/manifest.go:39-61).

     var sep = regexp.MustCompile("(?:^|\\s*\n)---\\s*")
     bigFileTmp := strings.TrimSpace(bigFile)
     docs := sep.Split(bigFileTmp, -1)
     for _, d := range docs { if d == "" { continue }; d = strings.TrimSpace(d); res["manifest-<count>"] = d; count++ }

   Strings are byte strings (Coq [string] = list of [ascii] = list of bytes).

   Two different notions of white space are involved and both are modelled as they are:
   * RE2's [\s] is exactly  \t \n \f \r and space   (NOT \v)            -> [is_re_space]
   * strings.TrimSpace strips Unicode White_Space runes, i.e. the six ASCII ones
     \t \n \v \f \r space and, in UTF-8, U+0085 U+00A0 U+1680 U+2000..U+200A U+2028 U+2029
     U+202F U+205F U+3000                                                -> [trim_space]

   regexp.Split under Go's leftmost-first semantics: scanning left to right, the first
   position at which the expression matches wins; [^] matches only at offset 0 of the
   text (no (?m)); at a position p the second alternative matches iff the text from p is
   w ++ "\n---" ++ ... with w a run of [\s] characters — such a w is unique for p because
   the character after "\n" is '-' — and the match is extended by the maximal run of [\s]
   after the dashes (greedy, nothing follows in the expression).  Matching resumes at the
   end of the previous match.  Split returns every piece between matches including empty
   ones and always the piece after the last match (regexp.go: the test there is
   [end != len(s)] with [end] the START of the last match). *)
From Coq Require Import List String Ascii Bool Arith.
Import ListNotations.
Local Open Scope string_scope.

Definition byte (n : nat) : ascii := ascii_of_nat n.
Definition is_byte (n : nat) (c : ascii) : bool := Nat.eqb (nat_of_ascii c) n.

(* RE2 \s : [\t\n\f\r ] *)
Definition is_re_space (c : ascii) : bool :=
  let n := nat_of_ascii c in
  Nat.eqb n 9 || Nat.eqb n 10 || Nat.eqb n 12 || Nat.eqb n 13 || Nat.eqb n 32.

(* ASCII part of unicode.IsSpace: \t \n \v \f \r space *)
Definition is_ascii_space (c : ascii) : bool :=
  let n := nat_of_ascii c in
  (Nat.leb 9 n && Nat.leb n 13) || Nat.eqb n 32.

(* two-byte white-space runes: U+0085 = C2 85, U+00A0 = C2 A0 *)
Definition is_space2 (c1 c2 : ascii) : bool :=
  is_byte 194 c1 && (is_byte 133 c2 || is_byte 160 c2).

(* three-byte white-space runes:
   U+1680 = E1 9A 80; U+2000..U+200A = E2 80 80..8A; U+2028/2029 = E2 80 A8/A9;
   U+202F = E2 80 AF; U+205F = E2 81 9F; U+3000 = E3 80 80 *)
Definition is_space3 (c1 c2 c3 : ascii) : bool :=
  let n3 := nat_of_ascii c3 in
  (is_byte 225 c1 && is_byte 154 c2 && is_byte 128 c3)
  || (is_byte 226 c1 && is_byte 128 c2 &&
        ((Nat.leb 128 n3 && Nat.leb n3 138) || Nat.eqb n3 168 || Nat.eqb n3 169 || Nat.eqb n3 175))
  || (is_byte 226 c1 && is_byte 129 c2 && is_byte 159 c3)
  || (is_byte 227 c1 && is_byte 128 c2 && is_byte 128 c3).

Definition is_empty (s : string) : bool := match s with EmptyString => true | _ => false end.

Fixpoint srev_app (s acc : string) : string :=
  match s with
  | EmptyString => acc
  | String c r => srev_app r (String c acc)
  end.
Definition srev (s : string) : string := srev_app s EmptyString.

(* strings.TrimLeftFunc(s, unicode.IsSpace): decode runes from the front *)
Fixpoint trim_left (s : string) : string :=
  match s with
  | EmptyString => s
  | String c1 r1 =>
      if is_ascii_space c1 then trim_left r1
      else match r1 with
           | EmptyString => s
           | String c2 r2 =>
               if is_space2 c1 c2 then trim_left r2
               else match r2 with
                    | EmptyString => s
                    | String c3 r3 => if is_space3 c1 c2 c3 then trim_left r3 else s
                    end
           end
  end.

(* the same on the reversed string (bytes of a rune appear last-first): this is
   DecodeLastRune, which walks back to the nearest start byte — C2/E1/E2/E3 are start
   bytes, so the pattern match is exact also inside invalid UTF-8 *)
Fixpoint trim_left_rev (s : string) : string :=
  match s with
  | EmptyString => s
  | String c1 r1 =>
      if is_ascii_space c1 then trim_left_rev r1
      else match r1 with
           | EmptyString => s
           | String c2 r2 =>
               if is_space2 c2 c1 then trim_left_rev r2
               else match r2 with
                    | EmptyString => s
                    | String c3 r3 => if is_space3 c3 c2 c1 then trim_left_rev r3 else s
                    end
           end
  end.

Definition trim_right (s : string) : string := srev (trim_left_rev (srev s)).

(* strings.TrimSpace *)
Definition trim_space (s : string) : string := trim_right (trim_left s).

(* ---- the separator ------------------------------------------------------------ *)

Definition dashes3 (s : string) : option string :=
  match s with
  | String a (String b (String c r)) =>
      if is_byte 45 a && is_byte 45 b && is_byte 45 c then Some r else None
  | _ => None
  end.

(* length of the maximal run of \s at the head *)
Fixpoint re_space_run (s : string) : nat :=
  match s with
  | String c r => if is_re_space c then S (re_space_run r) else 0
  | EmptyString => 0
  end.

(* [sep_len s] = Some n  iff  \s*\n---\s*  matches at the head of s, n = length of the match *)
Fixpoint sep_len (s : string) : option nat :=
  match s with
  | EmptyString => None
  | String c r =>
      match (if is_byte 10 c then dashes3 r else None) with
      | Some r' => Some (4 + re_space_run r')
      | None => if is_re_space c then option_map S (sep_len r) else None
      end
  end.

(* ^---\s*  at offset 0 *)
Definition sep_len_bot (s : string) : option nat :=
  match dashes3 s with
  | Some r' => Some (3 + re_space_run r')
  | None => None
  end.

(* pieces of the text from the current position: (piece being read, later pieces);
   [skip] = characters still inside the match found earlier *)
Fixpoint pieces (s : string) (skip : nat) : string * list string :=
  match s with
  | EmptyString => (EmptyString, [])
  | String c r =>
      match skip with
      | S k => pieces r k
      | O =>
          match sep_len s with
          | Some n => (EmptyString, let (p, ps) := pieces r (Nat.pred n) in p :: ps)
          | None => let (p, ps) := pieces r 0 in (String c p, ps)
          end
      end
  end.

(* sep.Split(s, -1) *)
Definition re_split (s : string) : list string :=
  match sep_len_bot s with
  | Some n => EmptyString :: (let (p, ps) := pieces s n in p :: ps)
  | None => let (p, ps) := pieces s 0 in p :: ps
  end.

(* SplitManifests; the map key "manifest-<count>" is the position in the result list
   (the consumer orders the keys numerically: BySplitManifestsOrder parses the number,
   so manifest-10 comes after manifest-2) *)
Definition split_manifests (big : string) : list string :=
  map trim_space (filter (fun d => negb (is_empty d)) (re_split (trim_space big))).

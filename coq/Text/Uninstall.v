(* C08 — the order in which an uninstall deletes: Uninstall.deleteRelease
   (pkg/action/uninstall.go:199-235) and filterManifestsToKeep (pkg/action/resource_policy.go).

     manifests := releaseutil.SplitManifests(rel.Manifest)            // "manifest-N" -> document
     _, files, err := releaseutil.SortManifests(manifests, nil, releaseutil.UninstallOrder)
     filesToKeep, filesToDelete := filterManifestsToKeep(files)
     for _, file := range filesToDelete { builder.WriteString("\n---\n" + file.Content) }
     resources := KubeClient.Build(builder); KubeClient.Delete(resources)   // perform/batchPerform: Text/Batch.v

   The stored manifest is split again and the pieces become the "files" of SortManifests under
   the keys manifest-0, manifest-1, ...; SortManifests visits its keys in STRING order, so the
   processing order of the documents is manifest-0, manifest-1, manifest-10, manifest-11,
   manifest-2, ... — this only matters for the order of documents of the same kind. *)
From Coq Require Import List String Ascii Bool Arith.
From Helm Require Import Common.Assoc Common.Strs Text.Split Text.KindSort Text.Classify Gen.Events.
Import ListNotations.
Local Open Scope string_scope.

Fixpoint numbered_from (i : nat) (docs : list string) : list (string * string) :=
  match docs with
  | [] => []
  | d :: t => ("manifest-" ++ show_nat i, d) :: numbered_from (S i) t
  end.

(* the map returned by SplitManifests *)
Definition split_map (manifest : string) : list (string * string) := numbered_from 0 (split_manifests manifest).

(* filterManifestsToKeep: helm.sh/resource-policy: keep (TrimSpace + ToLower) *)
Definition kept (m : manifest) : bool :=
  match h_meta (m_head m) with
  | Some (_, ann) =>
      match aget resource_policy_annotation ann with
      | Some v => String.eqb (norm_token v) keep_policy
      | None => false
      end
  | None => false
  end.

Section Uninstall.
  Variable head_of : string -> option head.

  Inductive delete_result :=
  | DeleteOrder (to_delete : list manifest) (to_keep : list manifest)
  | DeleteCorrupted.                      (* "corrupted release record" *)

  Definition delete_order (order : list string) (manifest : string) : delete_result :=
    match sort_manifests head_of order (split_map manifest) with
    | SortErr => DeleteCorrupted
    | SortOk _ gs => DeleteOrder (filter (fun m => negb (kept m)) gs) (filter kept gs)
    end.

  (* the stream handed to KubeClient.Build *)
  Definition delete_stream (ms : list manifest) : string :=
    fold_right (fun m acc => String (byte 10) ("---" ++ String (byte 10) (m_content m ++ acc))) EmptyString ms.
End Uninstall.

(* C08 — boolean expressions over named atoms: the form in which the translator
   (harness/cmd/hx/gentables_c08_render.go) prints the conditions it reads out of /repo
   (path conditions of calls, values of boolean functions by symbolic evaluation), so that the
   obligations compare them with the model's conditions by TRUTH TABLE over all assignments of
   the atoms (a finite domain), not by their text: `a && b` against nested ifs, reordered
   conjuncts, De Morgan forms, an || chain against a switch or early returns all give
   equivalent expressions.  [BUnknown] is what the translator emits for something it could not
   read; it is equivalent to nothing. *)
From Coq Require Import List String Bool.
Import ListNotations.
Local Open Scope string_scope.

Inductive bexp :=
| BTrue | BFalse
| BAtom (a : string)
| BNot (e : bexp)
| BAnd (a b : bexp)
| BOr (a b : bexp)
| BUnknown (what : string).

Fixpoint beval (env : string -> bool) (e : bexp) : option bool :=
  match e with
  | BTrue => Some true
  | BFalse => Some false
  | BAtom a => Some (env a)
  | BNot x => option_map negb (beval env x)
  | BAnd x y => match beval env x, beval env y with Some p, Some q => Some (p && q) | _, _ => None end
  | BOr x y => match beval env x, beval env y with Some p, Some q => Some (p || q) | _, _ => None end
  | BUnknown _ => None
  end.

Fixpoint atoms (e : bexp) : list string :=
  match e with
  | BAtom a => [a]
  | BNot x => atoms x
  | BAnd x y | BOr x y => (atoms x ++ atoms y)%list
  | _ => []
  end.

Fixpoint dedup (l : list string) : list string :=
  match l with
  | [] => []
  | x :: t => if existsb (String.eqb x) t then dedup t else x :: dedup t
  end.

(* all assignments of a list of atoms: the atoms of the sublist that are true *)
Fixpoint assignments (l : list string) : list (list string) :=
  match l with
  | [] => [[]]
  | x :: t => let r := assignments t in (map (cons x) r ++ r)%list
  end.

Definition env_of (trues : list string) (a : string) : bool := existsb (String.eqb a) trues.

Definition same_value (a b : option bool) : bool :=
  match a, b with Some p, Some q => Bool.eqb p q | _, _ => false end.

(* equal on every assignment of the atoms of both (and both readable) *)
Definition bequiv (e1 e2 : bexp) : bool :=
  forallb (fun t => same_value (beval (env_of t) e1) (beval (env_of t) e2))
          (assignments (dedup (atoms e1 ++ atoms e2))).

(* e1 true implies e2 true, on every assignment *)
Definition bimplies (e1 e2 : bexp) : bool :=
  forallb (fun t => match beval (env_of t) e1, beval (env_of t) e2 with
                    | Some p, Some q => implb p q | _, _ => false end)
          (assignments (dedup (atoms e1 ++ atoms e2))).

Definition bsat (e : bexp) : bool :=
  existsb (fun t => match beval (env_of t) e with Some true => true | _ => false end) (assignments (dedup (atoms e))).

Definition band (l : list bexp) : bexp := fold_right BAnd BTrue l.
Definition bor (l : list bexp) : bexp := fold_right BOr BFalse l.

(* rows printed by the translator: a call site (callee, resolved format string or "", the
   arguments after the format in canonical form) with the condition under which it is reached *)
Record row := mkRow { r_callee : string; r_fmt : string; r_args : list string; r_cond : bexp }.

Definition list_str_eqb (a b : list string) : bool :=
  Nat.eqb (List.length a) (List.length b) && forallb (fun p => String.eqb (fst p) (snd p)) (combine a b).

Definition row_is (callee fmt : string) (args : list string) (r : row) : bool :=
  String.eqb (r_callee r) callee && String.eqb (r_fmt r) fmt && list_str_eqb (r_args r) args.

(* the disjunction of the conditions of the rows of one call shape: when that call happens *)
Definition when_called (rows : list row) (callee fmt : string) (args : list string) : bexp :=
  bor (map r_cond (filter (row_is callee fmt args) rows)).

Definition called_somewhere (rows : list row) (callee fmt : string) (args : list string) : bool :=
  existsb (row_is callee fmt args) rows.

(* sets of strings *)
Definition subset (a b : list string) : bool := forallb (fun x => existsb (String.eqb x) b) a.
Definition same_set (a b : list string) : bool := subset a b && subset b a.

(* C08 — the split/join law for Text/Split.v (stretch B of DESIGN.md section 9).

   A stream   lead ++ d1 ++ (w1 "\n---" w2) ++ d2 ++ ... ++ dn ++ trail   of documents that are
   non-empty, trimmed and contain no line starting with "---", separated by a marker line
   with arbitrary RE2 white space around it, is split into exactly d1 ... dn. *)
From Coq Require Import List String Ascii Bool Arith Lia.
From Helm Require Import Text.Split.
Import ListNotations.
Local Open Scope string_scope.

(* ---- strings -------------------------------------------------------------------- *)
Lemma app_nil_r' s : s ++ "" = s.
Proof. induction s; simpl; congruence. Qed.

Lemma app_assoc' a b c : (a ++ b) ++ c = a ++ b ++ c.
Proof. induction a; simpl; congruence. Qed.

Lemma length_app a b : String.length (a ++ b) = String.length a + String.length b.
Proof. induction a; simpl; auto. Qed.

Lemma srev_app_spec s acc : srev_app s acc = srev_app s "" ++ acc.
Proof.
  revert acc. induction s as [|c r IH]; simpl; intros acc; auto.
  rewrite (IH (String c acc)), (IH (String c "")), app_assoc'. reflexivity.
Qed.

Lemma srev_cons c r : srev (String c r) = srev r ++ String c "".
Proof. unfold srev. simpl. apply srev_app_spec. Qed.

Lemma srev_append a b : srev (a ++ b) = srev b ++ srev a.
Proof.
  induction a as [|c r IH]; simpl.
  - now rewrite app_nil_r'.
  - rewrite !srev_cons, IH, app_assoc'. reflexivity.
Qed.

Lemma srev_involutive s : srev (srev s) = s.
Proof.
  induction s as [|c r IH]; auto.
  rewrite srev_cons, srev_append, IH. reflexivity.
Qed.

Lemma srev_length s : String.length (srev s) = String.length s.
Proof.
  induction s as [|c r IH]; auto. rewrite srev_cons, length_app, IH. simpl. lia.
Qed.

(* ---- white space ---------------------------------------------------------------- *)
Fixpoint re_space_str (w : string) : bool :=
  match w with
  | EmptyString => true
  | String c r => is_re_space c && re_space_str r
  end.

Lemma re_space_ascii c : is_re_space c = true -> is_ascii_space c = true.
Proof.
  unfold is_re_space, is_ascii_space. intros H.
  repeat (apply orb_true_iff in H; destruct H as [H|H]); apply Nat.eqb_eq in H; rewrite H; reflexivity.
Qed.

Lemma re_space_str_app a b : re_space_str (a ++ b) = re_space_str a && re_space_str b.
Proof. induction a; simpl; auto. rewrite IHa. now rewrite andb_assoc. Qed.

Lemma re_space_str_srev w : re_space_str (srev w) = re_space_str w.
Proof.
  induction w as [|c r IH]; auto.
  rewrite srev_cons, re_space_str_app, IH. simpl. rewrite andb_true_r. apply andb_comm.
Qed.

Lemma trim_left_ws w s : re_space_str w = true -> trim_left (w ++ s) = trim_left s.
Proof.
  induction w as [|c r IH]; simpl; intros H; auto.
  apply andb_true_iff in H. destruct H as [Hc Hr]. now rewrite (re_space_ascii _ Hc), IH.
Qed.

Lemma trim_left_rev_ws w s : re_space_str w = true -> trim_left_rev (w ++ s) = trim_left_rev s.
Proof.
  induction w as [|c r IH]; simpl; intros H; auto.
  apply andb_true_iff in H. destruct H as [Hc Hr]. now rewrite (re_space_ascii _ Hc), IH.
Qed.

Lemma trim_right_ws s w : re_space_str w = true -> trim_right (s ++ w) = trim_right s.
Proof.
  intros H. unfold trim_right. rewrite srev_append, trim_left_rev_ws; auto.
  now rewrite re_space_str_srev.
Qed.

(* the trimmed text is a suffix / prefix *)
Lemma trim_left_suffix s : exists p, s = p ++ trim_left s.
Proof.
  assert (G : forall n s, String.length s <= n -> exists p, s = p ++ trim_left s).
  { induction n as [|n IH]; intros s0 Hn.
    - destruct s0; simpl in *; [exists ""; auto|lia].
    - destruct s0 as [|c1 r1]; [exists ""; auto|]. simpl in Hn. simpl.
      destruct (is_ascii_space c1).
      { destruct (IH r1 ltac:(lia)) as [p Hp]. exists (String c1 p). cbn [append]. f_equal. exact Hp. }
      destruct r1 as [|c2 r2]; [exists ""; auto|].
      destruct (is_space2 c1 c2).
      { simpl in Hn. destruct (IH r2 ltac:(lia)) as [p Hp]. exists (String c1 (String c2 p)). cbn [append]. do 2 f_equal. exact Hp. }
      destruct r2 as [|c3 r3]; [exists ""; auto|].
      destruct (is_space3 c1 c2 c3); [|exists ""; auto].
      simpl in Hn. destruct (IH r3 ltac:(lia)) as [p Hp]. exists (String c1 (String c2 (String c3 p))). cbn [append]. do 3 f_equal. exact Hp. }
  eauto.
Qed.

Lemma trim_left_length s : String.length (trim_left s) <= String.length s.
Proof. destruct (trim_left_suffix s) as [p Hp]. rewrite Hp at 2. rewrite length_app. lia. Qed.

(* a trimmed, non-empty text begins and ends with a byte that is not RE2 white space *)
Definition first_not_space (d : string) : Prop :=
  match d with String c _ => is_re_space c = false | EmptyString => False end.

Lemma trimmed_first d : d <> "" -> trim_left d = d -> first_not_space d.
Proof.
  destruct d as [|c r]; [congruence|]. intros _ H. simpl.
  destruct (is_re_space c) eqn:E; auto. apply re_space_ascii in E. simpl in H. rewrite E in H.
  pose proof (trim_left_length r) as L. rewrite H in L. simpl in L. lia.
Qed.

Lemma trim_left_rev_length s : String.length (trim_left_rev s) <= String.length s.
Proof.
  assert (G : forall n s, String.length s <= n -> String.length (trim_left_rev s) <= String.length s).
  { induction n as [|n IH]; intros s0 Hn.
    - destruct s0; simpl in *; lia.
    - destruct s0 as [|c1 r1]; [simpl; lia|]. simpl in Hn. simpl.
      destruct (is_ascii_space c1); [specialize (IH r1 ltac:(lia)); lia|].
      destruct r1 as [|c2 r2]; [simpl; lia|].
      destruct (is_space2 c2 c1); [simpl in Hn; specialize (IH r2 ltac:(lia)); simpl; lia|].
      destruct r2 as [|c3 r3]; [simpl; lia|].
      destruct (is_space3 c3 c2 c1); [|simpl; lia].
      simpl in Hn. specialize (IH r3 ltac:(lia)). simpl. lia. }
  eauto.
Qed.

Definition last_not_space (d : string) : Prop := first_not_space (srev d).

Lemma trimmed_last d : d <> "" -> trim_right d = d -> last_not_space d.
Proof.
  intros Hne H. unfold last_not_space, trim_right in *.
  assert (E : trim_left_rev (srev d) = srev d).
  { rewrite <- H at 2. now rewrite srev_involutive. }
  destruct (srev d) as [|c r] eqn:Er.
  - apply (f_equal srev) in Er. rewrite srev_involutive in Er. simpl in Er. exfalso. auto.
  - simpl. destruct (is_re_space c) eqn:Ec; auto. apply re_space_ascii in Ec. simpl in E. rewrite Ec in E.
    pose proof (trim_left_rev_length r) as L. rewrite E in L. simpl in L. lia.
Qed.

(* ---- documents without a separator line ------------------------------------------ *)
Definition is_some {A} (o : option A) : bool := match o with Some _ => true | None => false end.

(* some line other than the first starts with "---" *)
Fixpoint has_sep (s : string) : bool :=
  match s with
  | EmptyString => false
  | String c r => (is_byte 10 c && is_some (dashes3 r)) || has_sep r
  end.

(* the last byte exists and is not RE2 white space *)
Fixpoint last_ok (x : string) : bool :=
  match x with
  | EmptyString => false
  | String c EmptyString => negb (is_re_space c)
  | String _ r => last_ok r
  end.

Lemma first_not_space_app a b : a <> "" -> first_not_space (a ++ b) <-> first_not_space a.
Proof. destruct a; [congruence|]. simpl. tauto. Qed.

Lemma srev_nonempty s : s <> "" -> srev s <> "".
Proof.
  intros H E. apply (f_equal String.length) in E. rewrite srev_length in E.
  destruct s; simpl in *; [congruence|lia].
Qed.

Lemma last_not_space_ok d : last_not_space d -> last_ok d = true.
Proof.
  unfold last_not_space. induction d as [|c r IH]; simpl; [tauto|].
  rewrite srev_cons. destruct r as [|c2 r2].
  - simpl. intros ->. reflexivity.
  - intros H. apply first_not_space_app in H; [|apply srev_nonempty; discriminate]. auto.
Qed.

Definition not_dash_first (R : string) : Prop :=
  match R with String c _ => is_byte 45 c = false | EmptyString => True end.

Lemma dashes3_app_none x R :
  dashes3 x = None -> not_dash_first R -> x <> "" -> last_ok x = true \/ True ->
  dashes3 (x ++ R) = None \/ False.
Proof.
  intros Hx HR Hne _. left.
  destruct x as [|a [|b [|c r]]]; simpl in *; try congruence.
  - destruct R as [|r1 [|r2 R']]; simpl; auto.
    destruct (is_byte 45 a); simpl; auto. simpl in HR. rewrite HR. simpl. auto.
  - destruct R as [|r1 R']; simpl; auto.
    destruct (is_byte 45 a); simpl; auto. destruct (is_byte 45 b); simpl; auto. simpl in HR. now rewrite HR.
  - destruct (is_byte 45 a && is_byte 45 b && is_byte 45 c); [discriminate|reflexivity].
Qed.

(* inside a document no separator match starts (Lemma B) *)
Lemma sep_len_inside x R :
  x <> "" -> has_sep x = false -> last_ok x = true -> not_dash_first R ->
  sep_len (x ++ R) = None.
Proof.
  induction x as [|c x' IH]; [congruence|]. intros _ Hs Hl HR.
  simpl in Hs. apply orb_false_iff in Hs. destruct Hs as [Hs1 Hs2].
  cbn [append sep_len].
  assert (Hd : (if is_byte 10 c then dashes3 (x' ++ R) else None) = None).
  { destruct (is_byte 10 c) eqn:Ec; auto. simpl in Hs1.
    destruct x' as [|c2 x''].
    - (* x = "\n": its last byte is white space *)
      simpl in Hl. unfold is_re_space in Hl. unfold is_byte in Ec. apply Nat.eqb_eq in Ec. rewrite Ec in Hl. discriminate.
    - destruct (dashes3 (String c2 x'')) eqn:Ed; [discriminate|].
      destruct (dashes3_app_none (String c2 x'') R Ed HR ltac:(discriminate) ltac:(auto)) as [H|[]]. exact H. }
  rewrite Hd. destruct (is_re_space c) eqn:Er; auto.
  destruct x' as [|c2 x''].
  - simpl in Hl. rewrite Er in Hl. discriminate.
  - rewrite IH; auto. discriminate.
Qed.

(* reading a document up to its end (Lemma A) *)
Lemma pieces_doc x R :
  has_sep x = false -> (x = "" \/ last_ok x = true) -> not_dash_first R ->
  pieces (x ++ R) 0 = (let (p, ps) := pieces R 0 in (x ++ p, ps)).
Proof.
  induction x as [|c x' IH]; intros Hs Hl HR.
  - simpl. destruct (pieces R 0). reflexivity.
  - destruct Hl as [Hl|Hl]; [discriminate|].
    assert (E : sep_len (String c x' ++ R) = None) by (apply sep_len_inside; auto; discriminate).
    cbn [append pieces] in *. rewrite E.
    simpl in Hs. apply orb_false_iff in Hs. destruct Hs as [_ Hs2].
    rewrite IH; auto.
    + destruct (pieces R 0). reflexivity.
    + destruct x' as [|c2 x'']; [left; auto|right; exact Hl].
Qed.

(* the separator (Lemma C) *)
Lemma re_space_run_ws w Y : re_space_str w = true -> re_space_run (w ++ Y) = String.length w + re_space_run Y.
Proof.
  induction w as [|c r IH]; simpl; intros H; auto.
  apply andb_true_iff in H. destruct H as [Hc Hr]. rewrite Hc, IH; auto.
Qed.

Lemma re_space_run_doc d Y : first_not_space d -> re_space_run (d ++ Y) = 0.
Proof. destruct d; simpl; [tauto|]. intros ->. reflexivity. Qed.

Definition marker : string := String (byte 10) "---".

Lemma dashes3_ws_marker w Y : re_space_str w = true -> dashes3 (w ++ marker ++ Y) = None.
Proof.
  destruct w as [|c r]; simpl; intros H.
  - reflexivity.
  - apply andb_true_iff in H. destruct H as [Hc _].
    destruct r as [|c2 [|c3 r3]]; simpl; auto;
      assert (is_byte 45 c = false) as ->
        by (unfold is_re_space in Hc; unfold is_byte; destruct (Nat.eqb (nat_of_ascii c) 45) eqn:E; auto;
            apply Nat.eqb_eq in E; rewrite E in Hc; discriminate); reflexivity.
Qed.

Lemma sep_len_sep w1 Y :
  re_space_str w1 = true -> sep_len (w1 ++ marker ++ Y) = Some (String.length w1 + (4 + re_space_run Y)).
Proof.
  induction w1 as [|c r IH]; intros H.
  - reflexivity.
  - simpl in H. apply andb_true_iff in H. destruct H as [Hc Hr].
    cbn [append sep_len]. rewrite (dashes3_ws_marker r Y Hr).
    assert ((if is_byte 10 c then @None string else None) = None) as -> by (destruct (is_byte 10 c); reflexivity).
    rewrite Hc, IH; auto.
Qed.

(* skipping the rest of a match (Lemma D) *)
Lemma pieces_skip x Y : pieces (x ++ Y) (String.length x) = pieces Y 0.
Proof. induction x as [|c r IH]; simpl; auto. Qed.

(* ---- the body of a stream ---------------------------------------------------------- *)
(* a separator is  w1 ++ "\n---" ++ w2  with w1, w2 runs of RE2 white space *)
Record sepdoc := mkSepDoc { sd_w1 : string; sd_w2 : string; sd_doc : string }.

Definition doc_ok (d : string) : Prop :=
  d <> "" /\ trim_left d = d /\ trim_right d = d /\ dashes3 d = None /\ has_sep d = false.

Definition sepdoc_ok (x : sepdoc) : Prop :=
  re_space_str (sd_w1 x) = true /\ re_space_str (sd_w2 x) = true /\ doc_ok (sd_doc x).

Fixpoint tail_text (rest : list sepdoc) : string :=
  match rest with
  | [] => EmptyString
  | x :: t => sd_w1 x ++ marker ++ sd_w2 x ++ sd_doc x ++ tail_text t
  end.

Lemma tail_not_dash rest : Forall sepdoc_ok rest -> not_dash_first (tail_text rest).
Proof.
  destruct 1 as [|x t (H1 & _ & _) _]; simpl; auto.
  destruct (sd_w1 x) as [|c r]; simpl; [reflexivity|].
  simpl in H1. apply andb_true_iff in H1. destruct H1 as [Hc _].
  unfold is_re_space in Hc. unfold is_byte. destruct (Nat.eqb (nat_of_ascii c) 45) eqn:E; auto.
  apply Nat.eqb_eq in E. rewrite E in Hc. discriminate.
Qed.

Lemma doc_ok_facts d : doc_ok d -> first_not_space d /\ last_ok d = true.
Proof.
  intros (Hne & Hl & Hr & _ & _). split.
  - now apply trimmed_first.
  - now apply last_not_space_ok, trimmed_last.
Qed.

Lemma body_pieces rest : forall d,
  doc_ok d -> Forall sepdoc_ok rest ->
  pieces (d ++ tail_text rest) 0 = (d, map sd_doc rest).
Proof.
  induction rest as [|x t IH]; intros d Hd Hrest.
  - simpl. rewrite app_nil_r'.
    destruct (doc_ok_facts d Hd) as [_ Hl]. destruct Hd as (_ & _ & _ & _ & Hs).
    pose proof (pieces_doc d "" Hs (or_intror Hl) I) as P. rewrite app_nil_r' in P. rewrite P. simpl.
    now rewrite app_nil_r'.
  - destruct (doc_ok_facts d Hd) as [_ Hl]. pose proof Hd as (_ & _ & _ & _ & Hs).
    rewrite (pieces_doc d _ Hs (or_intror Hl) (tail_not_dash _ Hrest)).
    inversion Hrest as [|? ? (H1 & H2 & Hdx) Ht]; subst.
    destruct (doc_ok_facts _ Hdx) as [Hf _].
    (* the separator match *)
    assert (E : sep_len (tail_text (x :: t)) =
                Some (String.length (sd_w1 x) + (4 + String.length (sd_w2 x)))).
    { cbn [tail_text]. rewrite sep_len_sep by exact H1. rewrite re_space_run_ws by exact H2.
      rewrite re_space_run_doc by exact Hf. do 3 f_equal. lia. }
    remember (tail_text (x :: t)) as R eqn:ER.
    destruct R as [|c r].
    { simpl in E. discriminate. }
    cbn [pieces]. rewrite E.
    (* what follows the first byte of the separator *)
    assert (Er : r = (match sd_w1 x ++ marker ++ sd_w2 x with String _ s' => s' | EmptyString => EmptyString end)
                       ++ sd_doc x ++ tail_text t
               /\ String.length (match sd_w1 x ++ marker ++ sd_w2 x with String _ s' => s' | EmptyString => EmptyString end)
                  = Nat.pred (String.length (sd_w1 x) + (4 + String.length (sd_w2 x)))).
    { cbn [tail_text] in ER.
      assert (L : String.length (sd_w1 x ++ marker ++ sd_w2 x) = String.length (sd_w1 x) + (4 + String.length (sd_w2 x))).
      { rewrite !length_app. reflexivity. }
      destruct (sd_w1 x ++ marker ++ sd_w2 x) as [|c0 s'] eqn:Es.
      - simpl in L. lia.
      - assert (ER' : String c r = (String c0 s') ++ sd_doc x ++ tail_text t) by (rewrite <- Es, ER, !app_assoc'; reflexivity).
        simpl in ER'. inversion ER'. split; auto. simpl in L. lia. }
    destruct Er as [-> Hlen]. rewrite <- Hlen, pieces_skip, (IH _ Hdx Ht).
    now rewrite app_nil_r'.
Qed.

(* ---- TrimSpace on the whole stream -------------------------------------------------- *)
Definition hi (c : ascii) : bool := Nat.leb 128 (nat_of_ascii c).

Definition low_first (Y : string) : Prop :=
  match Y with String c _ => hi c = false | EmptyString => True end.

Lemma is_byte_hi n c : is_byte n c = true -> 128 <= n -> hi c = true.
Proof. unfold is_byte, hi. intros H Hn. apply Nat.eqb_eq in H. rewrite H. now apply Nat.leb_le. Qed.

Lemma is_space2_hi a b : is_space2 a b = true -> hi a = true /\ hi b = true.
Proof.
  unfold is_space2. intros H. apply andb_true_iff in H. destruct H as [Ha Hb].
  split; [eapply is_byte_hi; eauto; lia|].
  apply orb_true_iff in Hb. destruct Hb as [Hb|Hb]; eapply is_byte_hi; eauto; lia.
Qed.

Lemma is_space3_hi a b c : is_space3 a b c = true -> hi a = true /\ hi b = true /\ hi c = true.
Proof.
  unfold is_space3. intros H.
  repeat (apply orb_true_iff in H; destruct H as [H|H]);
    repeat (apply andb_true_iff in H; let H' := fresh in destruct H as [H H']);
    repeat match goal with
           | H : _ && _ = true |- _ => apply andb_true_iff in H; let H' := fresh in destruct H as [H H']
           end;
    repeat split;
    try (eapply is_byte_hi; [eassumption|lia]).
  all: unfold hi; apply Nat.leb_le.
  all: repeat match goal with
              | H : _ || _ = true |- _ => apply orb_true_iff in H; destruct H as [H|H]
              | H : _ && _ = true |- _ => apply andb_true_iff in H; let H' := fresh in destruct H as [H H']
              end;
       repeat match goal with
              | H : Nat.eqb _ _ = true |- _ => apply Nat.eqb_eq in H
              | H : Nat.leb _ _ = true |- _ => apply Nat.leb_le in H
              end; lia.
Qed.

Lemma re_space_low c : is_re_space c = true -> hi c = false.
Proof.
  unfold is_re_space, hi. intros H.
  repeat (apply orb_true_iff in H; destruct H as [H|H]); apply Nat.eqb_eq in H; rewrite H; reflexivity.
Qed.

Lemma trim_left_doc d Y : d <> "" -> trim_left d = d -> low_first Y -> trim_left (d ++ Y) = d ++ Y.
Proof.
  intros Hne Ht HY.
  destruct d as [|c1 r1]; [congruence|].
  assert (E1 : is_ascii_space c1 = false).
  { destruct (is_ascii_space c1) eqn:E; auto. simpl in Ht. rewrite E in Ht.
    pose proof (trim_left_length r1) as L. rewrite Ht in L. simpl in L. lia. }
  destruct r1 as [|c2 r2].
  - (* one byte: whatever follows is low *)
    cbn [append trim_left]. rewrite E1. destruct Y as [|y1 Y1]; auto.
    simpl in HY. destruct (is_space2 c1 y1) eqn:E2; [apply is_space2_hi in E2; destruct E2; congruence|].
    destruct Y1 as [|y2 Y2]; auto.
    destruct (is_space3 c1 y1 y2) eqn:E3; [apply is_space3_hi in E3; destruct E3 as (_ & ? & _); congruence|auto].
  - assert (E2 : is_space2 c1 c2 = false).
    { destruct (is_space2 c1 c2) eqn:E; auto. simpl in Ht. rewrite E1, E in Ht.
      pose proof (trim_left_length r2) as L. rewrite Ht in L. simpl in L. lia. }
    destruct r2 as [|c3 r3].
    + cbn [append trim_left]. rewrite E1, E2. destruct Y as [|y1 Y1]; auto.
      simpl in HY. destruct (is_space3 c1 c2 y1) eqn:E3; [apply is_space3_hi in E3; destruct E3 as (_ & _ & ?); congruence|auto].
    + assert (E3 : is_space3 c1 c2 c3 = false).
      { destruct (is_space3 c1 c2 c3) eqn:E; auto. simpl in Ht. rewrite E1, E2, E in Ht.
        pose proof (trim_left_length r3) as L. rewrite Ht in L. simpl in L. lia. }
      cbn [append trim_left]. now rewrite E1, E2, E3.
Qed.

Lemma trim_left_rev_doc d Y : d <> "" -> trim_left_rev d = d -> low_first Y -> trim_left_rev (d ++ Y) = d ++ Y.
Proof.
  intros Hne Ht HY.
  destruct d as [|c1 r1]; [congruence|].
  assert (E1 : is_ascii_space c1 = false).
  { destruct (is_ascii_space c1) eqn:E; auto. simpl in Ht. rewrite E in Ht.
    pose proof (trim_left_rev_length r1) as L. rewrite Ht in L. simpl in L. lia. }
  destruct r1 as [|c2 r2].
  - cbn [append trim_left_rev]. rewrite E1. destruct Y as [|y1 Y1]; auto.
    simpl in HY. destruct (is_space2 y1 c1) eqn:E2; [apply is_space2_hi in E2; destruct E2; congruence|].
    destruct Y1 as [|y2 Y2]; auto.
    destruct (is_space3 y2 y1 c1) eqn:E3; [apply is_space3_hi in E3; destruct E3 as (_ & ? & _); congruence|auto].
  - assert (E2 : is_space2 c2 c1 = false).
    { destruct (is_space2 c2 c1) eqn:E; auto. simpl in Ht. rewrite E1, E in Ht.
      pose proof (trim_left_rev_length r2) as L. rewrite Ht in L. simpl in L. lia. }
    destruct r2 as [|c3 r3].
    + cbn [append trim_left_rev]. rewrite E1, E2. destruct Y as [|y1 Y1]; auto.
      simpl in HY. destruct (is_space3 y1 c2 c1) eqn:E3; [apply is_space3_hi in E3; destruct E3 as (? & _ & _); congruence|auto].
    + assert (E3 : is_space3 c3 c2 c1 = false).
      { destruct (is_space3 c3 c2 c1) eqn:E; auto. simpl in Ht. rewrite E1, E2, E in Ht.
        pose proof (trim_left_rev_length r3) as L. rewrite Ht in L. simpl in L. lia. }
      cbn [append trim_left_rev]. now rewrite E1, E2, E3.
Qed.

Definition low_last (A : string) : Prop := low_first (srev A).

Lemma trim_right_doc A d : d <> "" -> trim_right d = d -> low_last A -> trim_right (A ++ d) = A ++ d.
Proof.
  intros Hne Ht HA. unfold trim_right in *.
  assert (E : trim_left_rev (srev d) = srev d).
  { rewrite <- Ht at 2. now rewrite srev_involutive. }
  rewrite srev_append, trim_left_rev_doc; auto.
  - now rewrite <- srev_append, srev_involutive.
  - now apply srev_nonempty.
Qed.

Lemma low_last_app A B : B <> "" -> low_last B -> low_last (A ++ B).
Proof.
  unfold low_last. intros Hne H. rewrite srev_append.
  pose proof (srev_nonempty B Hne) as Hn. destruct (srev B); [congruence|exact H].
Qed.

Lemma low_last_ws_marker w2 : re_space_str w2 = true -> low_last (marker ++ w2).
Proof.
  intros H. destruct w2 as [|c r] eqn:E.
  - reflexivity.
  - rewrite <- E in *. apply low_last_app; [subst; discriminate|].
    unfold low_last. rewrite <- re_space_str_srev in H.
    pose proof (srev_nonempty w2 ltac:(subst; discriminate)) as Hn.
    destruct (srev w2) as [|c' r']; [congruence|]. simpl in *.
    apply andb_true_iff in H. destruct H as [Hc _]. now apply re_space_low.
Qed.

Lemma trim_right_body rest : forall P d,
  doc_ok d -> Forall sepdoc_ok rest -> low_last P ->
  trim_right (P ++ d ++ tail_text rest) = P ++ d ++ tail_text rest.
Proof.
  induction rest as [|x t IH]; intros P d Hd Hrest HP.
  - simpl. rewrite app_nil_r'. destruct Hd as (Hne & _ & Hr & _). now apply trim_right_doc.
  - inversion Hrest as [|? ? (H1 & H2 & Hdx) Ht]; subst.
    cbn [tail_text].
    replace (P ++ d ++ sd_w1 x ++ marker ++ sd_w2 x ++ sd_doc x ++ tail_text t)
      with ((P ++ d ++ sd_w1 x ++ marker ++ sd_w2 x) ++ sd_doc x ++ tail_text t)
      by (rewrite !app_assoc'; reflexivity).
    apply IH; auto.
    rewrite <- !app_assoc'. rewrite app_assoc'. apply low_last_app.
    + destruct (sd_w2 x); discriminate.
    + now apply low_last_ws_marker.
Qed.

Lemma low_first_tail rest trail :
  Forall sepdoc_ok rest -> re_space_str trail = true -> low_first (tail_text rest ++ trail).
Proof.
  intros Hrest Htr. destruct Hrest as [|x t (H1 & _ & _) _].
  - simpl. destruct trail as [|c r]; simpl; auto. simpl in Htr. apply andb_true_iff in Htr.
    destruct Htr as [Hc _]. now apply re_space_low.
  - cbn [tail_text]. destruct (sd_w1 x) as [|c r]; simpl; [reflexivity|].
    simpl in H1. apply andb_true_iff in H1. destruct H1 as [Hc _]. now apply re_space_low.
Qed.

(* ---- the law ------------------------------------------------------------------------- *)
(* lead: white space, optionally followed by a "---" line *)
Definition lead_text (lw : string) (lm : option string) : string :=
  lw ++ match lm with Some w0 => "---" ++ w0 | None => EmptyString end.

Definition lead_ok (lw : string) (lm : option string) : Prop :=
  re_space_str lw = true /\ match lm with Some w0 => re_space_str w0 = true | None => True end.

Lemma trim_space_doc d : doc_ok d -> trim_space d = d.
Proof. intros (_ & Hl & Hr & _). unfold trim_space. now rewrite Hl. Qed.

Lemma filter_docs rest :
  Forall sepdoc_ok rest ->
  map trim_space (filter (fun d => negb (is_empty d)) (map sd_doc rest)) = map sd_doc rest.
Proof.
  induction 1 as [|x t (_ & _ & Hd) _ IH]; simpl; auto.
  pose proof Hd as (Hne & _). destruct (sd_doc x) eqn:E; [congruence|]. simpl.
  rewrite IH. f_equal. rewrite <- E in *. now apply trim_space_doc.
Qed.

Theorem split_join lw lm d rest trail :
  lead_ok lw lm -> doc_ok d -> Forall sepdoc_ok rest -> re_space_str trail = true ->
  split_manifests (lead_text lw lm ++ d ++ tail_text rest ++ trail) = d :: map sd_doc rest.
Proof.
  intros [Hlw Hlm] Hd Hrest Htr. unfold split_manifests, lead_text.
  pose proof Hd as (Hne & Hl & Hr & Hd3 & Hs).
  destruct (doc_ok_facts d Hd) as [Hf _].
  (* TrimSpace of the whole stream *)
  assert (T : trim_space ((lw ++ match lm with Some w0 => "---" ++ w0 | None => "" end) ++ d ++ tail_text rest ++ trail)
              = match lm with Some w0 => "---" ++ w0 | None => "" end ++ d ++ tail_text rest).
  { unfold trim_space. rewrite app_assoc', trim_left_ws by exact Hlw.
    assert (TL : trim_left (match lm with Some w0 => "---" ++ w0 | None => "" end ++ d ++ tail_text rest ++ trail)
                 = match lm with Some w0 => "---" ++ w0 | None => "" end ++ d ++ tail_text rest ++ trail).
    { destruct lm as [w0|].
      - cbn [append]. destruct (String "-" (w0 ++ d ++ tail_text rest ++ trail)) eqn:E; [discriminate|].
        inversion E; subst. reflexivity.
      - cbn [append]. apply trim_left_doc; auto. now apply low_first_tail. }
    rewrite TL.
    replace (match lm with Some w0 => "---" ++ w0 | None => "" end ++ d ++ tail_text rest ++ trail)
      with ((match lm with Some w0 => "---" ++ w0 | None => "" end ++ d ++ tail_text rest) ++ trail)
      by (rewrite !app_assoc'; reflexivity).
    rewrite trim_right_ws by exact Htr.
    apply trim_right_body; auto.
    destruct lm as [w0|]; [|reflexivity].
    destruct w0 as [|c r] eqn:E; [reflexivity|]. rewrite <- E in *.
    apply low_last_app; [subst; discriminate|].
    unfold low_last. rewrite <- re_space_str_srev in Hlm.
    pose proof (srev_nonempty w0 ltac:(subst; discriminate)) as Hn.
    destruct (srev w0) as [|c' r']; [congruence|]. simpl in *.
    apply andb_true_iff in Hlm. destruct Hlm as [Hc _]. now apply re_space_low. }
  rewrite T. clear T.
  destruct lm as [w0|].
  - (* leading marker: ^---\s* matches, the first piece is empty and is skipped *)
    unfold re_split.
    assert (E : sep_len_bot (("---" ++ w0) ++ d ++ tail_text rest) = Some (3 + String.length w0)).
    { unfold sep_len_bot. cbn [append dashes3].
      change (is_byte 45 "-") with true. cbn [andb].
      rewrite re_space_run_ws by exact Hlm. rewrite re_space_run_doc by exact Hf. f_equal. lia. }
    rewrite E.
    replace (3 + String.length w0) with (String.length ("---" ++ w0)) by (rewrite length_app; reflexivity).
    rewrite pieces_skip, body_pieces by auto.
    cbn [filter is_empty negb map]. destruct d as [|c r] eqn:Ed; [congruence|]. rewrite <- Ed in *.
    cbn [filter]. replace (negb (is_empty d)) with true by (subst; reflexivity).
    cbn [map]. rewrite trim_space_doc by exact Hd. f_equal. now apply filter_docs.
  - cbn [append]. unfold re_split.
    assert (E : sep_len_bot (d ++ tail_text rest) = None).
    { unfold sep_len_bot.
      destruct (dashes3_app_none d (tail_text rest) Hd3 (tail_not_dash _ Hrest) Hne (or_intror I)) as [->|[]]. reflexivity. }
    rewrite E, body_pieces by auto.
    destruct d as [|c r] eqn:Ed; [congruence|]. rewrite <- Ed in *.
    cbn [filter]. replace (negb (is_empty d)) with true by (subst; reflexivity).
    cbn [map]. rewrite trim_space_doc by exact Hd. f_equal. now apply filter_docs.
Qed.

(* nothing but white space and an optional marker: no document *)
Theorem split_blank lw lm trail :
  lead_ok lw lm -> re_space_str trail = true -> split_manifests (lead_text lw lm ++ trail) = [].
Proof.
  intros [Hlw Hlm] Htr. unfold split_manifests, lead_text, trim_space.
  rewrite app_assoc', trim_left_ws by exact Hlw.
  destruct lm as [w0|].
  - assert (TL : trim_left (("---" ++ w0) ++ trail) = "---" ++ (w0 ++ trail)).
    { rewrite app_assoc'. reflexivity. }
    rewrite TL.
    assert (Hw : re_space_str (w0 ++ trail) = true) by (rewrite re_space_str_app, Hlm, Htr; reflexivity).
    rewrite trim_right_ws by exact Hw. reflexivity.
  - cbn [append].
    assert (TL : trim_left trail = "").
    { rewrite <- (app_nil_r' trail). rewrite trim_left_ws by exact Htr. reflexivity. }
    rewrite TL. reflexivity.
Qed.

(* "trimmed" in one equation: TrimSpace leaves the document alone *)
Lemma trim_right_length s : String.length (trim_right s) <= String.length s.
Proof.
  unfold trim_right. rewrite srev_length. pose proof (trim_left_rev_length (srev s)) as L.
  now rewrite srev_length in L.
Qed.

Lemma trim_space_fixed d : trim_space d = d <-> trim_left d = d /\ trim_right d = d.
Proof.
  split.
  - intros H. unfold trim_space in H.
    destruct (trim_left_suffix d) as [p Hp].
    pose proof (trim_right_length (trim_left d)) as L1. rewrite H in L1.
    assert (L2 : String.length d = String.length p + String.length (trim_left d))
      by (rewrite Hp at 1; apply length_app).
    assert (p = "") by (destruct p; [reflexivity|simpl in L2; lia]). subst p.
    simpl in Hp. rewrite <- Hp in H. split; congruence.
  - intros [Hl Hr]. unfold trim_space. congruence.
Qed.

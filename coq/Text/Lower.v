(* C08 — Go's strings.ToLower on UTF-8 text, and strings.EqualFold against an ASCII string.

   manifestFile.sort, operateAnnotationValues (pkg/release/util/manifest_sorter.go) and
   filterManifestsToKeep (pkg/action/resource_policy.go) compare annotation tokens after
   strings.ToLower(strings.TrimSpace(x)).  strings.ToLower is not ASCII-only:

     func ToLower(s string) string {
         isASCII, hasUpper := true, false
         for i := 0; i < len(s); i++ { c := s[i]; if c >= utf8.RuneSelf { isASCII = false; break }; ... }
         if isASCII { if !hasUpper { return s }; ...lower the bytes A-Z... }
         return Map(unicode.ToLower, s)
     }

   strings.Map ranges over the string (utf8 decoding: an invalid byte is RuneError of width
   1), maps every rune and writes the UTF-8 encoding of the result (an invalid byte therefore
   comes out as EF BF BD).  unicode.ToLower binary-searches unicode.CaseRanges; that table is
   regenerated from the Go toolchain on every run (Gen/UnicodeLower.v).  Two non-ASCII runes
   lower-case INTO ASCII: U+0130 (I with dot above) -> 'i' and U+212A (KELVIN SIGN) -> 'k', so
   "pre-İnstall" and "post-rollbacK" are known events for the real code, and for this model.

   Definitions only; proofs in Text/LowerProofs.v. *)
From Coq Require Import List String Ascii Bool Arith NArith ZArith.
From Helm Require Import Text.Split Text.Classify Gen.UnicodeLower.
Import ListNotations.
Local Open Scope string_scope.
Local Open Scope N_scope.

Definition bN (c : ascii) : N := N_of_ascii c.
Definition in_range (lo hi n : N) : bool := (lo <=? n) && (n <=? hi).
Definition is_cont (c : ascii) : bool := in_range 128 191 (bN c).

Definition rune_error : N := 65533.

(* utf8.DecodeRuneInString on a non-empty string [String b0 r]: the rune and its width in
   bytes; (RuneError, 1) for a byte that does not start a well-formed sequence (bad lead byte,
   missing or bad continuation bytes, overlong forms, surrogates, above U+10FFFF) *)
Definition decode_at (b0 : ascii) (r : string) : N * nat :=
  let n0 := bN b0 in
  if n0 <? 128 then (n0, 1%nat)
  else if in_range 194 223 n0 then
    match r with
    | String b1 _ => if is_cont b1 then ((n0 - 192) * 64 + (bN b1 - 128), 2%nat) else (rune_error, 1%nat)
    | _ => (rune_error, 1%nat)
    end
  else if in_range 224 239 n0 then
    match r with
    | String b1 (String b2 _) =>
        let lo1 := if n0 =? 224 then 160 else 128 in
        let hi1 := if n0 =? 237 then 159 else 191 in
        if in_range lo1 hi1 (bN b1) && is_cont b2
        then ((n0 - 224) * 4096 + (bN b1 - 128) * 64 + (bN b2 - 128), 3%nat) else (rune_error, 1%nat)
    | _ => (rune_error, 1%nat)
    end
  else if in_range 240 244 n0 then
    match r with
    | String b1 (String b2 (String b3 _)) =>
        let lo1 := if n0 =? 240 then 144 else 128 in
        let hi1 := if n0 =? 244 then 143 else 191 in
        if in_range lo1 hi1 (bN b1) && is_cont b2 && is_cont b3
        then ((n0 - 240) * 262144 + (bN b1 - 128) * 4096 + (bN b2 - 128) * 64 + (bN b3 - 128), 4%nat)
        else (rune_error, 1%nat)
    | _ => (rune_error, 1%nat)
    end
  else (rune_error, 1%nat).

Definition chr (n : N) : ascii := ascii_of_N n.

(* utf8.AppendRune *)
Definition encode_rune (r : N) : string :=
  if r <? 128 then String (chr r) ""
  else if r <? 2048 then String (chr (192 + r / 64)) (String (chr (128 + r mod 64)) "")
  else if in_range 55296 57343 r || (1114111 <? r) then String (chr 239) (String (chr 191) (String (chr 189) ""))
  else if r <? 65536 then
    String (chr (224 + r / 4096)) (String (chr (128 + (r / 64) mod 64)) (String (chr (128 + r mod 64)) ""))
  else
    String (chr (240 + r / 262144)) (String (chr (128 + (r / 4096) mod 64))
      (String (chr (128 + (r / 64) mod 64)) (String (chr (128 + r mod 64)) ""))).

(* the loop of strings.Map: [skip] bytes belong to the rune decoded before *)
Fixpoint map_runes (f : N -> N) (s : string) (skip : nat) : string :=
  match s with
  | EmptyString => EmptyString
  | String b0 r =>
      match skip with
      | S k => map_runes f r k
      | O => let (x, w) := decode_at b0 r in (encode_rune (f x) ++ map_runes f r (Nat.pred w))%string
      end
  end.

(* unicode.to(LowerCase, r, CaseRanges): the ranges are sorted and disjoint (obligation
   [case_ranges_sorted] in Props/C08.v), so the binary search finds the first range that
   contains r *)
Fixpoint lookup_lower (t : list (N * N * option Z)) (r : N) : N :=
  match t with
  | [] => r
  | (lo, hi, d) :: t' =>
      if in_range lo hi r then
        match d with
        | None => lo + (2 * ((r - lo) / 2) + 1)                (* Lo + ((r-Lo)&^1 | 1) *)
        | Some z => Z.to_N (Z.of_N r + z)
        end
      else lookup_lower t' r
  end.

(* unicode.ToLower *)
Definition unicode_to_lower (r : N) : N :=
  if r <=? 127 then (if in_range 65 90 r then r + 32 else r) else lookup_lower case_ranges r.

Fixpoint all_ascii (s : string) : bool :=
  match s with
  | EmptyString => true
  | String c r => (bN c <? 128) && all_ascii r
  end.

(* strings.ToLower *)
Definition go_to_lower (s : string) : string :=
  if all_ascii s then to_lower s else map_runes unicode_to_lower s 0.

(* ---- strings.EqualFold(s, t) for an ASCII t (chart.hasManifestExtension) -------------- *)
(* one rune of s against one byte of t: equal, ASCII letters differing in case, or a
   non-ASCII member of the unicode.SimpleFold orbit of the ASCII rune (table
   ascii_fold_extras: U+212A with k/K, U+017F with s/S) *)
Definition fold_match (sr tc : N) : bool :=
  (sr =? tc) ||
  (if sr <? 128
   then in_range 65 90 (N.min sr tc) && (N.max sr tc =? N.min sr tc + 32)
   else existsb (fun p => (fst p =? sr) && (snd p =? tc)) ascii_fold_extras).

Fixpoint equal_fold_ascii (s : string) (skip : nat) (t : string) : bool :=
  match s with
  | EmptyString => is_empty t
  | String b0 r =>
      match skip with
      | S k => equal_fold_ascii r k t
      | O =>
          match t with
          | EmptyString => false
          | String tc t' =>
              let (x, w) := decode_at b0 r in
              fold_match x (bN tc) && equal_fold_ascii r (Nat.pred w) t'
          end
      end
  end.

(* the table is sorted by Lo with disjoint ranges (what the binary search relies on) *)
Fixpoint ranges_sorted (t : list (N * N * option Z)) : bool :=
  match t with
  | (lo, hi, _) :: (((lo', _, _) :: _) as t') => (lo <=? hi) && (hi <? lo') && ranges_sorted t'
  | [(lo, hi, _)] => lo <=? hi
  | [] => true
  end.

(* C08 — Uninstall.deleteRelease / filterManifestsToKeep (Text/Uninstall.v) with the
   lower-casing function as a parameter: [delete_order_g to_lower = delete_order]; the
   correspondence run uses [delete_order_g go_to_lower] (strings.ToLower: " Keep " spelled with
   U+212A KELVIN SIGN is a keep policy for the real code). *)
From Coq Require Import List String Ascii Bool Arith Permutation Sorted.
From Helm Require Import Common.Assoc Common.SortUniq Common.Strs Text.Split Text.KindSort Text.KindSortProofs
  Text.Classify Text.ClassifyProofs Text.ClassifyU Text.ClassifyUProofs Text.Uninstall Text.UninstallProofs Gen.Events.
Import ListNotations.
Local Open Scope string_scope.

Section UninstallU.
  Variable lower : string -> string.
  Variable head_of : string -> option head.

  Definition delete_order_g (order : list string) (manifest : string) : delete_result :=
    match sort_manifests_g lower head_of order (split_map manifest) with
    | SortErr => DeleteCorrupted
    | SortOk _ gs => DeleteOrder (filter (fun m => negb (kept_g lower m)) gs) (filter (kept_g lower) gs)
    end.

  Theorem delete_order_spec_g order manifest del keep :
    delete_order_g order manifest = DeleteOrder del keep ->
    exists gs0,
      map gdoc gs0 = filter (is_generic_g lower head_of) (all_docs (split_map manifest)) /\
      Permutation (del ++ keep) gs0 /\
      (forall m, In m del -> kept_g lower m = false) /\ (forall m, In m keep -> kept_g lower m = true) /\
      StronglySorted (fun a b => rank_leb (kind_rank order (h_kind (m_head a))) (kind_rank order (h_kind (m_head b))) = true) del /\
      del = filter (fun m => negb (kept_g lower m)) (sort_by_kind (fun m => h_kind (m_head m)) order gs0) /\
      keep = filter (kept_g lower) (sort_by_kind (fun m => h_kind (m_head m)) order gs0).
  Proof.
    unfold delete_order_g. intros H.
    destruct (sort_manifests_g lower head_of order (split_map manifest)) as [hs gs|] eqn:E; [|discriminate].
    inversion H; subst. clear H.
    destruct (sort_manifests_order_g _ _ _ _ _ _ E) as (hs0 & gs0 & Hg & _ & -> & _).
    exists gs0. repeat split; auto.
    - rewrite filter_split_perm. apply sort_by_kind_perm.
    - intros m Hm. apply filter_In in Hm. destruct Hm as [_ Hm]. now apply negb_true_iff in Hm.
    - intros m Hm. apply filter_In in Hm. tauto.
    - apply StronglySorted_filter'. apply (sort_by_kind_sorted (fun m => h_kind (m_head m)) order gs0).
  Qed.
End UninstallU.

Theorem delete_order_g_to_lower head_of order manifest :
  delete_order_g to_lower head_of order manifest = delete_order head_of order manifest.
Proof. reflexivity. Qed.

(* C08 — proofs about the whole of renderResources (Text/Full.v), for every YAML head parser,
   every lower-casing function, every post-renderer and all template output maps. *)
From Coq Require Import List String Ascii Bool Arith ZArith Lia Permutation Sorted.
From Helm Require Import Common.Assoc Common.SortUniq Text.Split Text.KindSort Text.KindSortProofs
  Text.Classify Text.ClassifyProofs Text.ClassifyU Text.ClassifyUProofs Text.Lower Text.Full Gen.Events Gen.KindOrder.
Import ListNotations.
Local Open Scope string_scope.

Local Opaque hook_events hook_annotation hook_weight_annotation hook_delete_annotation
  hook_output_log_annotation notes_file_suffix install_order.

(* ---- strings ---------------------------------------------------------------------------- *)
Lemma append_assoc (a b c : string) : ((a ++ b) ++ c = a ++ (b ++ c))%string.
Proof. induction a; simpl; congruence. Qed.

Lemma append_nil_r (a : string) : (a ++ "")%string = a.
Proof. induction a; simpl; congruence. Qed.

Lemma append_inj_l (a b c : string) : (a ++ b = a ++ c)%string -> b = c.
Proof. induction a; simpl; intros H; auto. inversion H; auto. Qed.

Lemma concat_str_app l1 l2 : concat_str (l1 ++ l2) = (concat_str l1 ++ concat_str l2)%string.
Proof. induction l1; simpl; auto. now rewrite IHl1, append_assoc. Qed.

Lemma filter_filter {A} (f g : A -> bool) l : filter f (filter g l) = filter (fun x => g x && f x) l.
Proof.
  induction l as [|a t IH]; simpl; auto.
  destruct (g a); simpl; [destruct (f a); simpl; congruence|auto].
Qed.

(* ---- entries ------------------------------------------------------------------------------ *)
(* without --hide-secret every manifest is printed under its source header, unaltered: the
   buffer is the manifest text of the first model *)
Lemma source_entry_app n c acc :
  (source_entry n c ++ acc)%string =
  "---" ++ String (byte 10) "# Source: " ++ n ++ String (byte 10) c ++ String (byte 10) acc.
Proof. unfold source_entry, nl. rewrite !append_assoc. simpl. rewrite ?append_assoc. reflexivity. Qed.

Lemma doc_entries_plain gs : concat_str (map (doc_entry false) gs) = manifest_text gs.
Proof.
  induction gs as [|m t IH]; [reflexivity|].
  change (concat_str (map (doc_entry false) (m :: t)))
    with (source_entry (m_name m) (m_content m) ++ concat_str (map (doc_entry false) t))%string.
  rewrite IH, source_entry_app. reflexivity.
Qed.

(* --hide-secret alters exactly the documents whose head says kind "Secret", apiVersion "v1"
   (both compared case-sensitively), and replaces the text by the marker line *)
Lemma doc_entry_spec hide m :
  doc_entry hide m =
    if hide && (String.eqb (h_kind (m_head m)) "Secret" && String.eqb (h_version (m_head m)) "v1")
    then hidden_entry (m_name m) else source_entry (m_name m) (m_content m).
Proof. reflexivity. Qed.

Lemma doc_entry_unaltered hide m :
  hide = false \/ h_kind (m_head m) <> "Secret" \/ h_version (m_head m) <> "v1" ->
  doc_entry hide m = source_entry (m_name m) (m_content m).
Proof.
  unfold doc_entry, is_secret_v1. intros [->|[H|H]]; auto.
  - apply String.eqb_neq in H. rewrite H. now rewrite andb_false_r.
  - apply String.eqb_neq in H. rewrite H. now rewrite !andb_false_r.
Qed.

Section FullProofs.
  Variable head_of : string -> option head.
  Variable lower : string -> string.

  Notation render := (render_full head_of lower).

  (* ---- the post-renderer ------------------------------------------------------------------ *)
  (* for ANY renderer f: it is handed exactly the buffer of the run without a renderer (CRDs and
     manifests, no hooks, "" with an output directory); the release manifest is exactly what it
     returns; hooks, notes and written files do not depend on it *)
  Theorem render_full_post o crds f files :
    render o crds (Some f) files =
    match render o crds None files with
    | FullOk hs b notes w =>
        match f b with Some b' => FullOk hs b' notes w | None => FullPostErr hs notes w end
    | r => r
    end.
  Proof.
    unfold render_full.
    destruct (sort_manifests_g lower head_of install_order (without_notes files)) as [hs gs|]; auto.
    match goal with |- context [match ?e with Some _ => _ | None => FullWriteErr end] => destruct e as [[b w]|] end; auto.
  Qed.

  Corollary render_full_identity o crds files :
    render o crds (Some (fun b => Some b)) files = render o crds None files.
  Proof.
    rewrite render_full_post. destruct (render o crds None files); auto.
  Qed.

  Lemma render_full_none_not_posterr o crds files hs n w : render o crds None files <> FullPostErr hs n w.
  Proof.
    unfold render_full.
    destruct (sort_manifests_g lower head_of install_order (without_notes files)); [|discriminate].
    match goal with |- context [match ?e with Some _ => _ | None => FullWriteErr end] => destruct e as [[b w']|] end; discriminate.
  Qed.

  (* ---- the buffer (no output directory) ---------------------------------------------------- *)
  Theorem render_full_stream o crds files hs b notes w :
    o_output_dir o = "" ->
    render o crds None files = FullOk hs b notes w ->
    w = [] /\
    notes = notes_text o (notes_order files) "" /\
    exists gs, sort_manifests_g lower head_of install_order (without_notes files) = SortOk hs gs /\
      b = concat_str (map crd_entry (if o_include_crds o then crds else []) ++ map (doc_entry (o_hide_secret o)) gs).
  Proof.
    unfold render_full. intros Ho H. rewrite Ho in H. simpl in H.
    destruct (sort_manifests_g lower head_of install_order (without_notes files)) as [hs' gs|]; [|discriminate].
    inversion H; subst. repeat split; auto. exists gs. auto.
  Qed.

  (* the partition over the whole pipeline: every document of the non-NOTES, non-partial,
     non-blank template files is in exactly one of manifest / hooks / dropped; the buffer is the
     CRD files (only with includeCrds) followed by the manifests, one entry each, in kind order *)
  Theorem full_partition o crds files hs b notes w :
    o_output_dir o = "" ->
    render o crds None files = FullOk hs b notes w ->
    let docs := flat_map file_docs
                  (filter (fun f => negb (is_notes (fst f)) && negb (is_partial (fst f) || is_blank (snd f))) files) in
    exists gs,
      Permutation docs (map gdoc gs ++ map hdoc hs ++ filter (is_dropped_g lower head_of) docs) /\
      Permutation (map gdoc gs) (filter (is_generic_g lower head_of) docs) /\
      Permutation (map hdoc hs) (filter (is_hook_g lower head_of) docs) /\
      (forall pd, In pd docs -> place_of_g lower head_of (snd pd) <> PError) /\
      (forall p d, In (p, d) (map gdoc gs ++ map hdoc hs) -> is_notes p = false /\ is_partial p = false) /\
      b = concat_str (map crd_entry (if o_include_crds o then crds else []) ++ map (doc_entry (o_hide_secret o)) gs) /\
      (o_hide_secret o = false ->
       b = (concat_str (map crd_entry (if o_include_crds o then crds else [])) ++ manifest_text gs)%string).
  Proof.
    intros Ho H docs. destruct (render_full_stream _ _ _ _ _ _ _ Ho H) as (_ & _ & gs & Hs & Hb).
    exists gs.
    destruct (sort_manifests_partition_files_g lower head_of _ _ _ _ Hs) as (P1 & P2 & P3 & P4).
    unfold without_notes in P1, P2, P3, P4. rewrite filter_filter in P1, P2, P3, P4.
    unfold file_skipped in P1, P2, P3, P4. fold docs in P1, P2, P3, P4.
    split; [exact P1|]. split; [exact P2|]. split; [exact P3|]. split; [exact P4|].
    split; [|split; [exact Hb|]].
    - intros p d Hpd. destruct (never_applied_g lower head_of _ _ _ _ Hs p d Hpd) as (Hpart & c & Hc & _).
      apply filter_In in Hc. simpl in Hc. destruct Hc as [_ Hc]. apply negb_true_iff in Hc. auto.
    - intros Hh. rewrite Hb, Hh, concat_str_app, doc_entries_plain. reflexivity.
  Qed.

  (* ---- the output directory ------------------------------------------------------------------ *)
  Definition named (n : string) (it : string * string) : bool := String.eqb n (fst it).

  (* what one file holds: the entries of the items of that name, in order *)
  Definition content_of (items : list (string * string)) (n : string) : string :=
    concat_str (map (fun it => source_entry (fst it) (snd it)) (filter (named n) items)).

  Definition winv (dir : string) (done : list (string * string)) (st : list (string * string) * list string) : Prop :=
    (forall n, existsb (String.eqb n) (snd st) = existsb (named n) done) /\
    (forall n, aget (dir ++ "/" ++ n) (fst st) = if existsb (named n) done then Some (content_of done n) else None) /\
    (forall p, aget p (fst st) <> None -> exists n, p = dir ++ "/" ++ n).

  Lemma existsb_snoc {A} (f : A -> bool) l x : existsb f (l ++ [x]) = existsb f l || f x.
  Proof. rewrite existsb_app. simpl. now rewrite orb_false_r. Qed.

  Lemma content_of_snoc done it n :
    content_of (done ++ [it]) n =
      (content_of done n ++ (if named n it then source_entry (fst it) (snd it) else ""))%string.
  Proof.
    unfold content_of. rewrite filter_app, map_app, concat_str_app. simpl.
    destruct (named n it); simpl; auto. now rewrite append_nil_r.
  Qed.

  Lemma path_inj dir a b : dir ++ "/" ++ a = dir ++ "/" ++ b -> a = b.
  Proof. intros H. apply append_inj_l in H. simpl in H. now inversion H. Qed.

  Lemma write_all_inv dir items : forall done st,
    winv dir done st -> exists st', write_all dir items st = Some st' /\ winv dir (done ++ items) st'.
  Proof.
    induction items as [|[name data] t IH]; intros done [fs written] Inv.
    - exists (fs, written). rewrite app_nil_r. auto.
    - destruct Inv as (Ia & Ib & Ic). simpl in Ia, Ib, Ic. simpl.
      unfold write_to_file. simpl. rewrite (Ia name). pose proof (Ib name) as Hn.
      assert (Step : forall fs', (forall n, aget (dir ++ "/" ++ n) fs' =
                  if existsb (named n) (done ++ [(name, data)]) then Some (content_of (done ++ [(name, data)]) n) else None) ->
                (forall p, aget p fs' <> None -> exists n, p = dir ++ "/" ++ n) ->
                exists st', write_all dir t (fs', name :: written) = Some st' /\ winv dir (done ++ (name, data) :: t) st').
      { intros fs' Hb Hc.
        replace (done ++ (name, data) :: t)%list with ((done ++ [(name, data)]) ++ t)%list by (rewrite <- app_assoc; reflexivity).
        apply IH. repeat split; simpl; auto.
        intros n. rewrite existsb_snoc, (Ia n). unfold named at 2. simpl. apply orb_comm. }
      destruct (existsb (named name) done) eqn:Eex.
      + (* appended to the file written before *)
        rewrite Hn. apply Step.
        * intros n. rewrite existsb_snoc, content_of_snoc. unfold named at 2 3. simpl.
          destruct (String.eqb n name) eqn:En.
          -- apply String.eqb_eq in En. subst n. rewrite Eex. simpl. now rewrite aget_aset_eq.
          -- rewrite orb_false_r, append_nil_r. rewrite aget_aset_neq; auto.
             intros Heq. apply path_inj in Heq. subst n. now rewrite String.eqb_refl in En.
        * intros p Hp. destruct (String.eqb (dir ++ "/" ++ name) p) eqn:Ep.
          -- apply String.eqb_eq in Ep. eauto.
          -- apply Ic. rewrite aget_aset_neq in Hp; auto. intros Heq. subst p. now rewrite String.eqb_refl in Ep.
      + (* created *)
        apply Step.
        * intros n. rewrite existsb_snoc, content_of_snoc. unfold named at 2 3. simpl.
          destruct (String.eqb n name) eqn:En.
          -- apply String.eqb_eq in En. subst n. rewrite Eex. simpl. rewrite aget_aset_eq.
             unfold content_of. rewrite filter_none; [reflexivity|].
             intros x Hx. destruct (named name x) eqn:Enx; auto.
             assert (existsb (named name) done = true) by (apply existsb_exists; eauto). congruence.
          -- rewrite orb_false_r, append_nil_r. rewrite aget_aset_neq; auto.
             intros Heq. apply path_inj in Heq. subst n. now rewrite String.eqb_refl in En.
        * intros p Hp. destruct (String.eqb (dir ++ "/" ++ name) p) eqn:Ep.
          -- apply String.eqb_eq in Ep. eauto.
          -- apply Ic. rewrite aget_aset_neq in Hp; auto. intros Heq. subst p. now rewrite String.eqb_refl in Ep.
  Qed.

  Lemma winv_init dir : winv dir [] ([], []).
  Proof. repeat split; simpl; auto. intros p Hp. congruence. Qed.

  Lemma write_all_app dir a b st :
    write_all dir (a ++ b) st = match write_all dir a st with Some st' => write_all dir b st' | None => None end.
  Proof.
    revert st. induction a as [|[n d] t IH]; intros st; simpl; auto.
    destruct (write_to_file (fst st) dir n d (existsb (String.eqb n) (snd st))); auto.
  Qed.

  (* with --output-dir: nothing is written to the buffer; every name (template path or CRD
     Filename) gets one file holding, under a "# Source" header each, the CRD data / the manifest
     documents of that name in the order of the kind-sorted manifest list, in full (--hide-secret
     has no effect here); no other file is written; writing cannot fail.  Hypothesis: CRD files
     and manifests go to the same directory (no UseReleaseName, or no CRDs) *)
  Theorem render_full_output_dir o crds files hs b notes w :
    is_empty (o_output_dir o) = false ->
    (o_use_release_name o = false \/ (if o_include_crds o then crds else []) = []) ->
    render o crds None files = FullOk hs b notes w ->
    b = "" /\
    exists gs, sort_manifests_g lower head_of install_order (without_notes files) = SortOk hs gs /\
      let items := ((if o_include_crds o then crds else []) ++ manifest_items gs)%list in
      (forall n, aget (new_dir o ++ "/" ++ n) w =
                 if existsb (named n) items then Some (content_of items n) else None) /\
      (forall p, aget p w <> None -> exists n, p = new_dir o ++ "/" ++ n).
  Proof.
    unfold render_full. intros Ho Hdir H. rewrite Ho in H.
    destruct (sort_manifests_g lower head_of install_order (without_notes files)) as [hs' gs|]; [|discriminate].
    set (crds' := if o_include_crds o then crds else []) in *.
    assert (Hw : exists st', match write_all (o_output_dir o) crds' ([], []) with
                             | Some st => write_all (new_dir o) (manifest_items gs) st
                             | None => None end = Some st' /\ winv (new_dir o) (crds' ++ manifest_items gs) st').
    { destruct Hdir as [Hu|Hc].
      - assert (new_dir o = o_output_dir o) as -> by (unfold new_dir; now rewrite Hu).
        rewrite <- write_all_app. apply (write_all_inv _ _ [] _ (winv_init _)).
      - rewrite Hc. simpl. apply (write_all_inv _ _ [] _ (winv_init _)). }
    destruct Hw as (st' & Hw & (_ & Ib & Ic)).
    destruct (write_all (o_output_dir o) crds' ([], [])) as [st|]; [|discriminate].
    rewrite Hw in H. inversion H; subst. split; auto. exists gs. auto.
  Qed.

  Theorem render_full_no_write_error o crds pr files :
    (o_use_release_name o = false \/ (if o_include_crds o then crds else []) = []) ->
    render o crds pr files <> FullWriteErr.
  Proof.
    intros Hdir. unfold render_full.
    destruct (sort_manifests_g lower head_of install_order (without_notes files)) as [hs' gs|]; [|discriminate].
    destruct (is_empty (o_output_dir o)).
    { destruct pr as [f|]; [destruct (f _)|]; discriminate. }
    set (crds' := if o_include_crds o then crds else []) in *.
    assert (Hw : exists st', match write_all (o_output_dir o) crds' ([], []) with
                             | Some st => write_all (new_dir o) (manifest_items gs) st
                             | None => None end = Some st').
    { destruct Hdir as [Hu|Hc].
      - assert (new_dir o = o_output_dir o) as -> by (unfold new_dir; now rewrite Hu).
        rewrite <- write_all_app. destruct (write_all_inv (o_output_dir o) (crds' ++ manifest_items gs) [] _ (winv_init _)) as (st' & -> & _). eauto.
      - rewrite Hc. simpl. destruct (write_all_inv (new_dir o) (manifest_items gs) [] _ (winv_init _)) as (st' & -> & _). eauto. }
    destruct Hw as (st' & Hw).
    destruct (write_all (o_output_dir o) crds' ([], [])) as [st|]; [|discriminate].
    rewrite Hw. destruct pr as [f|]; [destruct (f _)|]; discriminate.
  Qed.

  (* the file of one template: its manifests, each under its header, never hidden *)
  Lemma content_of_manifests gs n :
    content_of (manifest_items gs) n =
    concat_str (map (fun m => source_entry (m_name m) (m_content m)) (filter (fun m => String.eqb n (m_name m)) gs)).
  Proof.
    unfold content_of, manifest_items. induction gs as [|m t IH]; simpl; auto.
    unfold named at 1. simpl. destruct (String.eqb n (m_name m)); simpl; congruence.
  Qed.

  (* ---- NOTES.txt --------------------------------------------------------------------------------- *)
  Definition join_notes (l : list string) (buf : string) : string :=
    fold_left (fun b v => ((if is_empty b then b else b ++ nl) ++ v)%string) l buf.

  (* Info.Notes is made of the texts of the selected NOTES.txt files only, in the order
     (number of slashes, then name) *)
  Theorem notes_text_spec o fs buf :
    notes_text o fs buf = join_notes (map snd (filter (fun f => notes_selected o (fst f)) fs)) buf.
  Proof.
    revert buf. induction fs as [|[k v] t IH]; intros buf; simpl; auto.
    destruct (notes_selected o k); simpl; auto.
  Qed.

  Theorem notes_order_perm files : Permutation (notes_order files) files.
  Proof. apply ssort_perm. Qed.

  Theorem notes_only_from_notes_files o files :
    (forall f, In f files -> is_notes (fst f) = false) -> notes_text o (notes_order files) "" = "".
  Proof.
    intros H. rewrite notes_text_spec.
    rewrite filter_none; [reflexivity|].
    intros f Hf. apply (Permutation_in _ (notes_order_perm files)) in Hf.
    unfold notes_selected. now rewrite (H f Hf).
  Qed.
End FullProofs.

(* ---- the order in which NOTES.txt files are joined --------------------------------------------- *)
Lemma notes_leb_total : total notes_leb.
Proof.
  intros a b. unfold notes_leb. rewrite (Nat.eqb_sym (count_slash b)).
  destruct (Nat.eqb (count_slash a) (count_slash b)) eqn:E.
  - apply string_leb_total'.
  - apply Nat.eqb_neq in E. rewrite !Nat.ltb_lt. lia.
Qed.

Lemma notes_leb_trans : trans notes_leb.
Proof.
  intros a b c. unfold notes_leb.
  destruct (Nat.eqb (count_slash a) (count_slash b)) eqn:E1;
    destruct (Nat.eqb (count_slash b) (count_slash c)) eqn:E2;
    destruct (Nat.eqb (count_slash a) (count_slash c)) eqn:E3;
    rewrite ?Nat.eqb_eq, ?Nat.eqb_neq, ?Nat.ltb_lt in *; try lia; intros H1 H2;
    rewrite ?Nat.ltb_lt in *; try lia.
  eapply string_leb_trans; eauto.
Qed.

Lemma notes_leb_antisym a b : notes_leb a b = true -> notes_leb b a = true -> a = b.
Proof.
  unfold notes_leb. rewrite (Nat.eqb_sym (count_slash b)).
  destruct (Nat.eqb (count_slash a) (count_slash b)) eqn:E.
  - apply string_leb_antisym.
  - rewrite !Nat.ltb_lt. lia.
Qed.

(* files with fewer slashes first, then by name; with distinct keys (a Go map) this is the only
   sorted arrangement, so sort.Slice (not stable) has one possible result *)
Theorem notes_order_sorted files :
  StronglySorted (fun a b => notes_leb (fst a) (fst b) = true) (notes_order files).
Proof.
  apply (ssort_sorted (by_key notes_leb fst)).
  - apply by_key_total, notes_leb_total.
  - apply by_key_trans, notes_leb_trans.
Qed.

Theorem notes_order_unique files l :
  NoDup (map fst files) -> Permutation l files ->
  StronglySorted (fun a b => notes_leb (fst a) (fst b) = true) l -> l = notes_order files.
Proof.
  intros Hnd P S. unfold notes_order.
  apply sorted_antisym_unique with (leb := by_key notes_leb (@fst string string)); auto.
  - apply by_key_total, notes_leb_total.
  - intros [k1 v1] [k2 v2] H1 H2 L1 L2. unfold by_key in L1, L2. simpl in *.
    assert (k1 = k2) by (apply notes_leb_antisym; auto). subst k2.
    apply (Permutation_in _ P) in H1, H2.
    assert (Hnd' : NoDup (akeys files)) by exact Hnd.
    pose proof (In_aget _ _ _ Hnd' H1) as G1. pose proof (In_aget _ _ _ Hnd' H2) as G2. congruence.
  - apply (ssort_sorted (by_key notes_leb fst)); [apply by_key_total, notes_leb_total|apply by_key_trans, notes_leb_trans].
  - rewrite P. symmetry. apply ssort_perm.
Qed.

(* ---- --hide-secret cannot reach what is applied ----------------------------------------------- *)
(* the guard at the head of Install.RunWithContext / Upgrade.prepareUpgrade and the dry-run
   return after rendering: a manifest is handed on only when HideSecret is off *)
Theorem applied_not_hidden f m m' : applied f m = Some m' -> rf_hide_secret f = false /\ is_dry_run f = false /\ m' = m.
Proof.
  unfold applied. destruct (is_dry_run f), (rf_hide_secret f); simpl; intros H; try discriminate.
  inversion H. auto.
Qed.

Theorem hide_secret_needs_dry_run f :
  rf_hide_secret f = true -> (negb (is_dry_run f) && rf_hide_secret f = false <-> is_dry_run f = true).
Proof. intros ->. destruct (is_dry_run f); simpl; split; auto; discriminate. Qed.

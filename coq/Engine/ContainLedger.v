(* C03 — the ledger semantics of a run without storage faults and without crash, for EVERY
   cluster behaviour: cluster calls answer anything and leave the ledger alone, storage
   effects act on the ledger as the driver does.  [lrun p l l' a] abstracts Seq.run. *)
From Coq Require Import List String Bool Arith ZArith Lia.
From Helm Require Import Common.Assoc Engine.Types Engine.Eff Engine.Ops Engine.Cluster Engine.Seq
  Engine.SeqProofs.
Import ListNotations.
Local Open Scope prog_scope.

Definition nofault : sfaults := mkSF None None.

Section LRun.
  Variable dresp : forall e : eff, resp e.

  Definition sled (e : eff) (l : list release) : list release := fst (fst (storage_apply dresp e l)).
  Definition sresp (e : eff) (l : list release) : resp e := snd (fst (storage_apply dresp e l)).

  Inductive lrun {A : Type} : prog A -> list release -> list release -> A -> Prop :=
  | LRet a l : lrun (Ret a) l l a
  | LClu e k r l l' a : is_cluster_call e = true -> lrun (k r) l l' a -> lrun (Eff e k) l l' a
  | LSto e k l l' a : is_cluster_call e = false ->
                      lrun (k (sresp e l)) (sled e l) l' a -> lrun (Eff e k) l l' a.

  Lemma lrun_inv {A} (p : prog A) l l' a :
    lrun p l l' a ->
    match p with
    | Ret a' => l' = l /\ a = a'
    | Eff e k =>
        (is_cluster_call e = true /\ exists r, lrun (k r) l l' a)
        \/ (is_cluster_call e = false /\ lrun (k (sresp e l)) (sled e l) l' a)
    end.
  Proof. intros H. destruct H; eauto. Qed.

  Lemma lrun_ret_inv {A} (a b : A) l l' : lrun (Ret a) l l' b -> l' = l /\ b = a.
  Proof. intros H. exact (lrun_inv _ _ _ _ H). Qed.

  Lemma lrun_bind_inv {A B} (p : prog A) (f : A -> prog B) :
    forall l l' b, lrun (bind p f) l l' b -> exists l1 a, lrun p l l1 a /\ lrun (f a) l1 l' b.
  Proof.
    induction p as [a|e k IH]; simpl; intros l l' b H.
    - exists l, a. split; auto. constructor.
    - apply lrun_inv in H. destruct H as [[Hc [r H]]|[Hc H]].
      + apply IH in H. destruct H as (l1 & a & H1 & H2). exists l1, a. split; auto.
        eapply LClu; eauto.
      + apply IH in H. destruct H as (l1 & a & H1 & H2). exists l1, a. split; auto.
        now apply LSto.
  Qed.

  (* a storage effect: deterministic *)
  Lemma lrun_storage_inv {A} e (k : resp e -> prog A) l l' a :
    is_cluster_call e = false -> lrun (Eff e k) l l' a -> lrun (k (sresp e l)) (sled e l) l' a.
  Proof.
    intros Hc H. apply lrun_inv in H. destruct H as [[Hc' _]|[_ H]]; [congruence|exact H].
  Qed.

  (* a cluster call: any answer, ledger unchanged *)
  Lemma lrun_cluster_inv {A} e (k : resp e -> prog A) l l' a :
    is_cluster_call e = true -> lrun (Eff e k) l l' a -> exists r, lrun (k r) l l' a.
  Proof.
    intros Hc H. apply lrun_inv in H. destruct H as [[_ H]|[Hc' _]]; [exact H|congruence].
  Qed.

  (* ---- Seq.run refines lrun ---- *)
  Section Refine.
    Variable K : Type.
    Variable kh : forall e : eff, K -> K * resp e * list kev.

    Lemma run_lrun {A} (p : prog A) :
      forall (s s' : rstate K) a,
        dead s = false -> run K kh dresp nofault p s = (s', a) ->
        lrun p (led s) (led s') a /\ dead s' = false.
    Proof.
      induction p as [x|e k IH]; intros s s' a Hd H; simpl in H.
      - inversion H; subst. split; auto. constructor.
      - destruct (step K kh dresp nofault e s) as [s1 r] eqn:Es.
        unfold step in Es. simpl crash in Es. simpl wfail in Es. unfold eq_opt in Es.
        rewrite andb_false_r in Es. rewrite Hd in Es.
        destruct (is_cluster_call e) eqn:Hc.
        + destruct (kh e (ks s)) as [[k' r'] evs]. inversion Es; subst. clear Es.
          eapply IH in H; [|reflexivity]. destruct H as [Hl Hd']. split; auto.
          eapply LClu; eauto.
        + destruct (is_storage_write e) eqn:Hw.
          * destruct (storage_apply dresp e (led s)) as [[l1 r1] evs] eqn:Ea. inversion Es; subst. clear Es.
            eapply IH in H; [|reflexivity]. destruct H as [Hl Hd']. split; auto.
            apply LSto; auto. unfold sresp, sled. rewrite Ea. exact Hl.
          * destruct (storage_apply dresp e (led s)) as [[l1 r1] evs] eqn:Ea. inversion Es; subst. clear Es.
            destruct (IH _ _ s' a Hd H) as [Hl Hd']. split; auto.
            apply LSto; auto. unfold sresp, sled. rewrite Ea. simpl.
            assert (l1 = led s1).
            { destruct e; simpl in *; try discriminate; inversion Ea; auto. }
            subst l1. exact Hl.
    Qed.
  End Refine.

  (* ---- sub-programs ---- *)
  Definition upd (x : release) (l : list release) : list release :=
    if has_rev (rev x) l then replace_rev x l else l.

  Lemma lrun_supdate_inv {A} x (k : serr -> prog A) l l' a :
    lrun (Eff (SUpdate x) k) l l' a ->
    lrun (k (if has_rev (rev x) l then SOk else SNotFound)) (upd x l) l' a.
  Proof.
    intros H. apply lrun_storage_inv in H; [|reflexivity].
    unfold sresp, sled, upd in *. simpl in H. destruct (has_rev (rev x) l); exact H.
  Qed.

  Lemma lrun_record_release x l l' u : lrun (record_release x) l l' u -> l' = upd x l.
  Proof.
    unfold record_release. intros H. apply lrun_supdate_inv in H.
    apply lrun_ret_inv in H. tauto.
  Qed.

  Lemma lrun_shistory_inv {A} (k : list release -> prog A) l l' a :
    lrun (Eff SHistory k) l l' a -> lrun (k l) l l' a.
  Proof. intros H. apply lrun_storage_inv in H; [exact H|reflexivity]. Qed.

  Lemma lrun_sdeployed_inv {A} (k : list release -> prog A) l l' a :
    lrun (Eff SDeployedAll k) l l' a ->
    lrun (k (filter (fun r => status_eqb (st r) SDeployed) l)) l l' a.
  Proof. intros H. apply lrun_storage_inv in H; [exact H|reflexivity]. Qed.

  Lemma lrun_sget_inv {A} v (k : option release -> prog A) l l' a :
    lrun (Eff (SGet v) k) l l' a -> lrun (k (find (fun r => Nat.eqb (rev r) v) l)) l l' a.
  Proof. intros H. apply lrun_storage_inv in H; [exact H|reflexivity]. Qed.

  Lemma lrun_screate_inv {A} x (k : serr -> prog A) l l' a :
    lrun (Eff (SCreate x) k) l l' a ->
    (has_rev (rev x) l = true /\ lrun (k SExists) l l' a)
    \/ (has_rev (rev x) l = false /\ lrun (k SOk) (l ++ [x])%list l' a).
  Proof.
    intros H. apply lrun_storage_inv in H; [|reflexivity].
    unfold sresp, sled in H. simpl in H. destruct (has_rev (rev x) l); auto.
  Qed.

  Lemma lrun_sdelete_inv {A} v (k : serr -> prog A) l l' a :
    lrun (Eff (SDelete v) k) l l' a ->
    lrun (k (if has_rev v l then SOk else SNotFound)) (if has_rev v l then remove_rev v l else l) l' a.
  Proof.
    intros H. apply lrun_storage_inv in H; [|reflexivity].
    unfold sresp, sled in H. simpl in H. destruct (has_rev v l); exact H.
  Qed.

  (* the ledger only loses entries *)
  Definition sub (l1 l : list release) : Prop := forall x, In x l1 -> In x l.

  Lemma sub_refl l : sub l l. Proof. intros x; auto. Qed.
  Lemma sub_trans a b c : sub a b -> sub b c -> sub a c. Proof. unfold sub. auto. Qed.
  Lemma sub_remove v l : sub (remove_rev v l) l.
  Proof. intros x H. unfold remove_rev in H. apply filter_In in H. tauto. Qed.

  Lemma lrun_delete_all vs : forall l l' r, lrun (delete_all vs) l l' r ->
    sub l' l /\ forall x, In x l -> ~ In (rev x) vs -> In x l'.
  Proof.
    induction vs as [|v t IH]; simpl; intros l l' r H.
    - apply lrun_ret_inv in H. destruct H as [-> _]. split; [apply sub_refl|auto].
    - apply lrun_sdelete_inv in H. apply lrun_bind_inv in H. destruct H as (l1 & rest & H1 & H2).
      destruct (IH _ _ _ H1) as [S1 K1].
      assert (l' = l1) by (destruct (if has_rev v l then SOk else SNotFound); apply lrun_ret_inv in H2; tauto).
      subst l1. split.
      + eapply sub_trans; [exact S1|]. destruct (has_rev v l); [apply sub_remove|apply sub_refl].
      + intros x Hx Hn. apply K1; [|tauto].
        destruct (has_rev v l); auto. unfold remove_rev. apply filter_In. split; auto.
        apply negb_true_iff. apply Nat.eqb_neq. intros E. apply Hn. now left.
  Qed.
End LRun.

Arguments lrun {dresp A} p l l' a.

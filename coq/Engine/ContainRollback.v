(* C03 (stretch) — the effect of a rollback on the ledger in closed form, for every cluster
   behaviour (no storage fault, no crash, no history limit): either no revision is created, or
   the new revision is a copy of the target revision and ends failed (three shapes) or
   deployed (after superseding every deployed revision). *)
From Coq Require Import List String Bool Arith ZArith Lia.
From Helm Require Import Common.Assoc Engine.Types Engine.Eff Engine.Ops Engine.Cluster Engine.Seq
  Engine.SeqProofs Engine.HooksProofsTrace Engine.HooksProofsGate Engine.ContainLedger Engine.ContainProofs
  Engine.ContainAtomic.
Import ListNotations.
Local Open Scope prog_scope.

Section Rollback.
  Variable dresp : forall e : eff, resp e.
  Notation lrun := (@lrun dresp).
  Variable rn ns : string.

  Ltac lbind H l1 a H1 := apply lrun_bind_inv in H; destruct H as (l1 & a & H1 & H).
  Ltac lret H := apply lrun_ret_inv in H; destruct H as [? ?]; subst.
  Ltac lclu H r := apply lrun_cluster_inv in H; [destruct H as [r H]|reflexivity].
  Ltac case_if H := match type of H with ContainLedger.lrun (if ?c then _ else _) _ _ _ => destruct c eqn:? end.
  Ltac lrec H :=
    first [ apply lrun_supdate_inv in H; cbv beta in H
          | let l3 := fresh "l" in let x := fresh "x" in let Hr := fresh "Hr" in
            lbind H l3 x Hr; apply lrun_record_release in Hr; subst l3 ].

  (* a ledger on which re-recording rl changes nothing *)
  Lemma lrun_rec_stable {A} rl (p : prog A) : only (rec_only rl) p ->
    forall l l' a, upd rl l = l -> lrun p l l' a -> l' = l.
  Proof.
    induction p as [x|e k IH]; simpl; intros Ho l l' a Hs H.
    - apply lrun_ret_inv in H. tauto.
    - destruct Ho as [He Hk]. apply lrun_inv in H. destruct H as [[Hc [r H]]|[Hc H]].
      + eapply IH; eauto.
      + assert (E : sled dresp e l = l).
        { unfold sled. destruct e; simpl in *; try contradiction; try discriminate; auto.
          subst. unfold upd in Hs. destruct (has_rev (rev rl) l); simpl; auto. }
        rewrite E in H. eapply IH; eauto.
  Qed.

  Lemma replace_rev_absent x l : has_rev (rev x) l = false -> replace_rev x l = l.
  Proof.
    unfold has_rev, replace_rev. induction l as [|y t IH]; simpl; auto.
    intros H. apply orb_false_iff in H. destruct H as [H1 H2]. rewrite H1. f_equal. auto.
  Qed.

  Lemma upd_last_stable x l1 : has_rev (rev x) l1 = false -> upd x (l1 ++ [x]) = (l1 ++ [x])%list.
  Proof.
    intros Hh. unfold upd.
    assert (E : has_rev (rev x) (l1 ++ [x]) = true).
    { unfold has_rev. rewrite existsb_app. simpl. rewrite Nat.eqb_refl. now rewrite orb_true_r. }
    rewrite E. unfold replace_rev. rewrite map_app. simpl. rewrite Nat.eqb_refl.
    f_equal. now apply replace_rev_absent.
  Qed.

  Lemma hooks_stable fl rl ev l l' b : upd rl l = l -> lrun (run_hooks fl rl ev) l l' b -> l' = l.
  Proof. intros Hs H. eapply lrun_rec_stable; [apply run_hooks_rec|exact Hs|exact H]. Qed.

  (* supersede_all: every listed release is re-recorded superseded, in order *)
  Definition supersede (ds : list release) (l : list release) : list release :=
    fold_left (fun acc d => upd (with_status d SSuperseded) acc) ds l.

  Lemma lrun_supersede_all : forall ds l l' u, lrun (supersede_all ds) l l' u -> l' = supersede ds l.
  Proof.
    induction ds as [|d t IH]; simpl; intros l l' u H.
    - apply lrun_ret_inv in H. tauto.
    - lrec H. now apply IH in H.
  Qed.

  Definition tgt_of (cur pr : release) : release :=
    mkRelease (S (rev cur)) SPendingRollback (chart_id pr) (config_id pr) (manifest pr) (hooks pr).

  (* closed form *)
  Theorem rollback_ledger fl l l' out :
    f_dry_run fl = false -> f_max_history fl = 0 ->
    lrun (rollback rn ns fl) l l' out ->
    (l' = l /\ out <> OOk)
    \/
    exists cur pr,
      max_rev_of l = Some cur /\
      find (fun r => Nat.eqb (rev r) (match f_version fl with 0 => rev cur - 1 | v => v end)) l = Some pr /\
      has_rev (S (rev cur)) l = false /\
      let tgt := tgt_of cur pr in
      let l2 := (l ++ [tgt])%list in
      ((out = OErr EOtherErr /\
        (l' = upd (with_status tgt SFailed) l2
         \/ l' = upd (with_status tgt SFailed) (upd (with_status cur SSuperseded) l2)
         \/ l' = upd (with_status tgt SFailed) (upd cur l2)))
       \/
       (out = OOk /\
        l' = upd (with_status tgt SDeployed)
                 (supersede (filter (fun r => status_eqb (st r) SDeployed) l2) l2))).
  Proof.
    intros Hdry Hmh H. unfold rollback in H. rewrite Hdry, Hmh in H.
    cbv beta iota zeta in H.
    apply lrun_shistory_inv in H.
    destruct (max_rev_of l) as [cur|] eqn:Hcur.
    2:{ lret H. left. split; auto. discriminate. }
    apply lrun_shistory_inv in H.
    case_if H.
    { lret H. left. split; auto. discriminate. }
    apply lrun_sget_inv in H.
    match type of H with ContainLedger.lrun (match ?x with _ => _ end) _ _ _ => destruct x as [pr|] eqn:Hpr end.
    2:{ lret H. left. split; auto. discriminate. }
    lbind H ld e He.
    unfold storage_create, perform in He. apply lrun_screate_inv in He.
    destruct He as [[Hh He]|[Hh He]]; lret He.
    { lret H. left. split; auto. discriminate. }
    right. exists cur, pr. split; auto. split; auto. split; auto.
    fold (tgt_of cur pr) in *. set (tgt := tgt_of cur pr) in *. cbv zeta.
    set (l2 := (l ++ [tgt])%list) in *.
    assert (Hs : upd tgt l2 = l2) by (apply upd_last_stable; exact Hh).
    lbind H l3 pre Hpre. apply (hooks_stable _ _ _ _ _ _ Hs) in Hpre. subst l3.
    destruct pre; cbv beta iota delta [negb] in H.
    2:{ left. lrec H. lret H. split; auto. }
    lclu H u.
    destruct (fst u); cbv beta iota in H.
    2:{ left. lrec H. lrec H.
        assert (l' = upd (with_status tgt SFailed) (upd (with_status cur SSuperseded) l2) /\ out = OErr EOtherErr) as [-> ->].
        { case_if H.
          - unfold perform in H. simpl in H. lclu H d. lret H. auto.
          - lret H. auto. }
        split; auto. }
    lclu H w.
    destruct w; cbv beta iota in H.
    2:{ left. lrec H. lrec H. lret H. split; auto. }
    lbind H l4 post Hpost. apply (hooks_stable _ _ _ _ _ _ Hs) in Hpost. subst l4.
    destruct post; cbv beta iota in H.
    2:{ left. lrec H. lret H. split; auto. }
    right.
    apply lrun_sdeployed_inv in H.
    lbind H l5 x Hsup. apply lrun_supersede_all in Hsup. subst l5.
    apply lrun_supdate_inv in H.
    assert (Hh2 : has_rev (rev (with_status tgt SDeployed))
                          (supersede (filter (fun r => status_eqb (st r) SDeployed) l2) l2) = true).
    { assert (G : forall ds l0, revs (supersede ds l0) = revs l0).
      { induction ds as [|d t IH]; simpl; intros l0; auto. rewrite IH. apply revs_upd. }
      erewrite (has_rev_same_revs _ _ l2); [|apply G].
      unfold l2, has_rev. rewrite existsb_app. simpl. rewrite Nat.eqb_refl. now rewrite orb_true_r. }
    rewrite Hh2 in H. lret H. split; auto.
  Qed.
End Rollback.

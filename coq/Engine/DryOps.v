(* C06 — the SECOND, richer model of the four release operations, for the dry-run property only.

   Engine/Ops.v (shared by a dozen proof files and two translators) abstracts from everything
   that is not release bookkeeping.  The dry-run property talks about exactly those other
   things: "whatever the chart contains (hooks, CRDs, namespace creation, post-renderer) and
   whatever other flags are set".  This file transcribes the entry points

     Install.RunWithContext   pkg/action/install.go:237-424   (installCRDs :161-222)
     Upgrade.RunWithContext   pkg/action/upgrade.go:153-191   (prepareUpgrade :202-312,
                                                               performUpgrade :314-395)
     Rollback.Run             pkg/action/rollback.go:60-96
     Uninstall.Run            pkg/action/uninstall.go:59-76
     Configuration.renderResources / getCapabilities   pkg/action/action.go:94-242, 252-291
     existingResourceConflict / requireAdoption        pkg/action/validate.go:40-92
     newTemplateCmd (flag plumbing)                    pkg/cmd/template.go:87-96, install.go:306

   statement by statement, as they are, over a richer effect alphabet [xeff]: the shared
   alphabet [Eff.eff] tagged with WHERE the effect goes (the configured storage / cluster, or
   the throw-away memory store and printing client that ClientOnly swaps in), plus the
   reachability check, discovery, Build, the per-object GETs of the ownership pre-flight, the
   `lookup` reads of the template engine, the post-renderer process, --output-dir files, CRD
   creation + wait + cache invalidation, and namespace creation.

   What follows the dry-run bail-out (the part of each operation that really installs) is the
   text of Engine/Ops.v: [install_tail] / [upgrade_tail] are the tails of [Ops.install] /
   [Ops.upgrade] ([install_split], [upgrade_split] in DryOpsProofs.v: by reflexivity), rollback
   and uninstall are [Ops.rollback] / [Ops.uninstall] behind the reachability check.

   Options are modelled BY GO FIELD NAME ([fb fl "CreateNamespace"]): every boolean field of the
   action structs, and four pseudo-options for non-boolean fields that are only tested for
   presence: "PostRenderer" (non-nil), "OutputDir" (non-empty), "SystemLabels" (Labels contains
   a reserved label), "Wait" (WaitStrategy other than hook-only; read by no branch here). *)
From Coq Require Import List String Bool Arith ZArith.
From Helm Require Import Common.Assoc Engine.Types Engine.Eff Engine.Ops Engine.DryRun.
Import ListNotations.
Local Open Scope string_scope.

(* ------------------------------------------------------------------ *)
(* options, chart, configuration                                        *)

Record xflags := mkXF {
  xf_on : list string;        (* the boolean options that are set *)
  xf_opt : string;            (* DryRunOption (install, upgrade) *)
  xf_max_history : nat;       (* upgrade, rollback *)
  xf_version : nat }.         (* rollback target, 0 = previous *)

Definition fb (fl : xflags) (n : string) : bool := existsb (String.eqb n) (xf_on fl).

Definition fset (n : string) (b : bool) (l : list string) : list string :=
  if b then n :: l else filter (fun m => negb (String.eqb n m)) l.

(* the template engine running the chart's templates: every `lookup` call, and whether the
   rendering (and the sorting of the rendered files into hooks and manifests) succeeds.
   The continuation makes the rest of the rendering depend on what a lookup found. *)
Inductive rscript :=
| RDone (ok : bool)
| RLookup (k : bool -> rscript).

Record xchart := mkXC {
  xc_cid : nat; xc_vid : nat;
  xc_mani : list res;             (* rendered manifest, in install order, before post-rendering *)
  xc_hooks : list hook;
  xc_crds : list (list res);      (* the files of crds/ in the order of Chart.CRDObjects (subcharts after
                                     the parent) and the objects in each *)
  xc_render : rscript;
  xc_deps_ok : bool;              (* chartutil.ProcessDependencies *)
  xc_values_ok : bool;            (* ToRenderValuesWithSchemaValidation *)
  xc_kube_ok : bool;              (* Chart.yaml kubeVersion against the capabilities *)
  xc_reuse_ok : bool }.           (* Upgrade.reuseValues *)

Record xcfg := mkXG {
  xg_getter : bool;               (* Configuration.RESTClientGetter is set *)
  xg_caps : bool }.               (* Configuration.Capabilities is set before the operation *)

(* ------------------------------------------------------------------ *)
(* effects                                                              *)

Inductive target := TReal | TPriv.

Inductive bwhat := BManifest | BCurrent | BCrd (i : nat) | BNamespace.

Inductive cresp := CCreated | CExists | CFailed.
Inductive gresp := GNotFound | GFail | GFound (live : fields).

Inductive xeff : Type :=
| XE (t : target) (e : eff)                 (* an effect of the shared alphabet *)
| XReach                                    (* KubeClient.IsReachable *)
| XCaps                                     (* getCapabilities with nothing cached: Invalidate, ServerVersion, groups and resources *)
| XBuild (t : target) (w : bwhat) (validate : bool) (n : nat)   (* KubeClient.Build of n documents *)
| XGetObj (r : res)                         (* resource.Helper.Get of one object (ownership pre-flight) *)
| XLookup                                   (* one `lookup` of a template, engine built from the REST config *)
| XPostRender (m : list res)                (* PostRenderer.Run: a local process *)
| XWriteFile                                (* --output-dir: a local file *)
| XGetWaiter (t : target)                   (* KubeClient.GetWaiter: local, can refuse the strategy *)
| XCrdCreate (i : nat) (objs : list res)    (* KubeClient.Create of the objects of one crds/ file *)
| XCrdWait (objs : list res)                (* waiter.Wait on the created CRDs *)
| XDiscInvalidate                           (* discovery cache invalidation + ServerGroups *)
| XMapperReset                              (* ToRESTMapper + Reset *)
| XNsCreate (t : target).                   (* KubeClient.Create of the release namespace *)

Definition xresp (e : xeff) : Type :=
  match e with
  | XE _ e => resp e
  | XReach | XCaps | XBuild _ _ _ _ | XLookup | XWriteFile | XGetWaiter _ | XCrdWait _
  | XDiscInvalidate | XMapperReset => bool
  | XGetObj _ => gresp
  | XPostRender _ => option (list res)
  | XCrdCreate _ _ | XNsCreate _ => cresp
  end.

(* creating / updating / patching / deleting request to the configured cluster *)
Definition x_cluster_mut (e : xeff) : bool :=
  match e with
  | XE TReal e => is_cluster_mutation e
  | XCrdCreate _ _ | XNsCreate TReal => true
  | _ => false
  end.

(* write to the configured release storage *)
Definition x_store_write (e : xeff) : bool :=
  match e with XE TReal e => is_storage_write e | _ => false end.

(* any effect that reaches the configured cluster (reads, watches and discovery included) *)
Definition x_cluster (e : xeff) : bool :=
  match e with
  | XE TReal e => is_cluster_call e
  | XReach | XCaps | XBuild TReal _ _ _ | XGetObj _ | XLookup
  | XCrdCreate _ _ | XCrdWait _ | XDiscInvalidate | XMapperReset | XNsCreate TReal => true
  | _ => false
  end.

(* any effect on the configured release storage *)
Definition x_store (e : xeff) : bool :=
  match e with
  | XE TReal e => negb (is_cluster_call e)
  | _ => false
  end.

Inductive xprog (A : Type) : Type :=
| XRet (a : A)
| XEff (e : xeff) (k : xresp e -> xprog A).
Arguments XRet {A} a.
Arguments XEff {A} e k.

Fixpoint xbind {A B} (p : xprog A) (f : A -> xprog B) : xprog B :=
  match p with
  | XRet a => f a
  | XEff e k => XEff e (fun r => xbind (k r) f)
  end.

Definition xperform (e : xeff) : xprog (xresp e) := XEff e (fun r => XRet r).

(* a program of the shared alphabet, run against the configured or the throw-away back ends *)
Fixpoint xlift {A} (t : target) (p : prog A) : xprog A :=
  match p with
  | Ret a => XRet a
  | Eff e k => XEff (XE t e) (fun r => xlift t (k r))
  end.

Inductive xoutcome := XO (o : outcome) | XPanic.

(* ------------------------------------------------------------------ *)
(* the tails of Ops.install / Ops.upgrade (after the dry-run bail-out)    *)

Definition flags_of (dry : bool) (fl : xflags) : flags :=
  mkFlags (fb fl "Atomic") (fb fl "CleanupOnFail") (fb fl "KeepHistory") (fb fl "Replace")
          (xf_max_history fl) (fb fl "DisableHooks") dry (fb fl "ClientOnly")
          (fb fl "TakeOwnership") (xf_version fl).

Section Tails.
  Variable rn ns : string.
  Local Open Scope prog_scope.

  (* install.go:403-423 and performInstall / failRelease: the text of Ops.install *)
  Definition install_tail (fl : flags) (rel0 : release) (resources adopted : list res) : prog outcome :=
    rr <- (if f_replace fl then
             h <- perform SHistory ;;
             match max_rev_of h with
             | None => Ret (Some rel0)
             | Some last =>
                 let rel1 := with_rev rel0 (S (rev last)) in
                 if status_eqb (st last) SFailed then Ret (Some rel1)
                 else e <- perform (SUpdate (with_status last SSuperseded)) ;;
                      match e with SOk => Ret (Some rel1) | _ => Ret None end
             end
           else Ret (Some rel0)) ;;
    match rr with
    | None => Ret (OErr EOtherErr)
    | Some rel =>
        e <- storage_create rel 0 ;;
        match e with
        | SExists => Ret (OErr EExistsRev)
        | SNotFound | SFail => Ret (OErr EOtherErr)
        | SOk =>
            pre <- run_hooks fl rel PreInstall ;;
            if negb pre then install_fail fl rel else
            ok <- match resources with
                  | [] => Ret true
                  | _ => match adopted with
                         | [] => perform (KCreate resources)
                         | _ => u <- perform (KUpdate adopted resources) ;; Ret (fst u)
                         end
                  end ;;
            if negb ok then install_fail fl rel else
            w <- perform (KWait resources) ;;
            if negb w then install_fail fl rel else
            post <- run_hooks fl rel PostInstall ;;
            if negb post then install_fail fl rel else
            record_release (with_status rel SDeployed) ;;; Ret OOk
        end
    end.

  (* upgrade.go:379-394, releasingUpgrade, failRelease, RunWithContext:183-188: the text of Ops.upgrade *)
  Definition upgrade_tail (fl : flags) (up current : release) (curres target : list res) : prog outcome :=
    e <- storage_create up (f_max_history fl) ;;
    match e with
    | SExists => Ret (OErr EExistsRev)
    | SNotFound | SFail => Ret (OErr EOtherErr)
    | SOk =>
        pre <- run_hooks fl up PreUpgrade ;;
        if negb pre then upgrade_fail rn ns fl up [] else
        u <- perform (KUpdate curres target) ;;
        if negb (fst u) then record_release current ;;; upgrade_fail rn ns fl up (snd u) else
        w <- perform (KWait target) ;;
        if negb w then record_release current ;;; upgrade_fail rn ns fl up (snd u) else
        post <- run_hooks fl up PostUpgrade ;;
        if negb post then upgrade_fail rn ns fl up (snd u) else
        record_release (with_status current SSuperseded) ;;;
        e2 <- perform (SUpdate (with_status up SDeployed)) ;;
        match e2 with SOk => Ret OOk | _ => Ret (OErr EOtherErr) end
    end.
End Tails.

Declare Scope xprog_scope.
Delimit Scope xprog_scope with xprog.
Notation "x <- p ;; q" := (xbind p (fun x => q)) (at level 61, p at next level, right associativity) : xprog_scope.
Local Open Scope xprog_scope.

Definition is_nil {A} (l : list A) : bool := match l with [] => true | _ => false end.

Definition xerr : xoutcome := XO (OErr EOtherErr).

(* ------------------------------------------------------------------ *)
(* the pieces shared by install and upgrade                              *)

(* action.go:252-291: the cached capabilities, or discovery; a configuration with neither
   capabilities nor a RESTClientGetter dereferences nil *)
Inductive capres := CapOk | CapErr | CapPanic.

Definition get_caps (g : xcfg) (have : bool) : xprog capres :=
  if have then XRet CapOk
  else if negb (xg_getter g) then XRet CapPanic
  else ok <- xperform XCaps ;; XRet (if ok then CapOk else CapErr).

(* engine.Render: `lookup` reaches the cluster only when the engine was built from the REST
   config (action.go:115-127); otherwise it is the placeholder of funcs.go that finds nothing *)
Fixpoint run_script (remote : bool) (s : rscript) : xprog bool :=
  match s with
  | RDone ok => XRet ok
  | RLookup k =>
      if remote then f <- xperform XLookup ;; run_script remote (k f)
      else run_script remote (k false)
  end.

Fixpoint write_files (n : nat) : xprog bool :=
  match n with
  | 0 => XRet true
  | S m => ok <- xperform XWriteFile ;; if ok then write_files m else XRet false
  end.

Inductive rres := RFail | RPanic | ROk (m : list res).

(* action.go:94-242 *)
Definition x_render (g : xcfg) (fl : xflags) (have_caps remote include_crds outdir : bool) (c : xchart)
  : xprog rres :=
  cp <- get_caps g have_caps ;;
  match cp with
  | CapPanic => XRet RPanic
  | CapErr => XRet RFail
  | CapOk =>
      if negb (xc_kube_ok c) then XRet RFail else
      ok <- run_script (remote && xg_getter g) (xc_render c) ;;
      if negb ok then XRet RFail else
      w1 <- (if include_crds && outdir then write_files (List.length (xc_crds c)) else XRet true) ;;
      if negb w1 then XRet RFail else
      w2 <- (if outdir then write_files (List.length (xc_mani c)) else XRet true) ;;
      if negb w2 then XRet RFail else
      (* :212 HideSecret: a v1 Secret is replaced by a comment in the aggregated document *)
      let shown := if fb fl "HideSecret"
                   then filter (fun r => negb (String.eqb (r_kind r) "Secret")) (xc_mani c)
                   else xc_mani c in
      let buf := if outdir then []
                 else ((if include_crds then List.concat (xc_crds c) else []) ++ shown)%list in
      if fb fl "PostRenderer" then
        r <- xperform (XPostRender buf) ;;
        match r with None => XRet RFail | Some m => XRet (ROk m) end
      else XRet (ROk buf)
  end.

Section XOps.
  Variable rn ns : string.

  (* validate.go:40-92: one GET per resource, in order; stops at the first error or foreign owner *)
  Fixpoint x_existing (take : bool) (rs acc : list res) : xprog (option (list res)) :=
    match rs with
    | [] => XRet (Some acc)
    | r :: t =>
        g <- xperform (XGetObj r) ;;
        match g with
        | GNotFound => x_existing take t acc
        | GFail => XRet None
        | GFound live =>
            if take || owned_by rn ns live then x_existing take t (acc ++ [r])%list
            else XRet None
        end
    end.

  (* install.go:161-222 *)
  Inductive crdres := CrdOk | CrdErr | CrdPanic.

  Fixpoint crd_loop (i : nat) (crds : list (list res)) (total : list res) : xprog (option (list res)) :=
    match crds with
    | [] => XRet (Some total)
    | objs :: t =>
        b <- xperform (XBuild TReal (BCrd i) false (List.length objs)) ;;
        if negb b then XRet None else
        c <- xperform (XCrdCreate i objs) ;;
        match c with
        | CExists => crd_loop (S i) t total
        | CFailed => XRet None
        | CCreated => crd_loop (S i) t (total ++ objs)%list
        end
    end.

  Definition install_crds (g : xcfg) (crds : list (list res)) : xprog crdres :=
    r <- crd_loop 0 crds [] ;;
    match r with
    | None => XRet CrdErr
    | Some total =>
        if is_nil total then XRet CrdOk else
        gw <- xperform (XGetWaiter TReal) ;;
        if negb gw then XRet CrdErr else
        w <- xperform (XCrdWait total) ;;
        if negb w then XRet CrdErr else
        if negb (xg_getter g) then XRet CrdPanic else
        (* :198-208 Invalidate; ServerGroups - its answer is dropped *)
        _d <- (if xg_caps g then xperform XDiscInvalidate else XRet true) ;;
        m <- xperform XMapperReset ;;
        XRet (if m then CrdOk else CrdErr)
    end.

  (* DryRunOption values with which rendering talks to the cluster (install.go:263, upgrade.go:276) *)
  Definition interact_with_remote (dry : bool) (opt : string) : bool :=
    negb dry || String.eqb opt "server" || String.eqb opt "none" || String.eqb opt "false".

  (* ---------------- install.go:237-424 ---------------- *)
  Definition x_install (g : xcfg) (fl : xflags) (c : xchart) : xprog xoutcome :=
    let dry := is_dry_run (fb fl "DryRun") (xf_opt fl) in
    let co := fb fl "ClientOnly" in
    (* :239 *)
    reach <- (if negb co then xperform XReach else XRet true) ;;
    if negb reach then XRet xerr else
    (* :247 *)
    if negb dry && fb fl "HideSecret" then XRet xerr else
    (* :252 availableName (:546-568) *)
    avail <- (if dry then XRet true
              else h <- xperform (XE TReal SHistory) ;;
                   match max_rev_of h with
                   | None => XRet true
                   | Some last =>
                       XRet (fb fl "Replace" && (status_eqb (st last) SUninstalled || status_eqb (st last) SFailed))
                   end) ;;
    if negb avail then XRet (XO (OErr ENameInUse)) else
    (* :257 *)
    if negb (xc_deps_ok c) then XRet xerr else
    (* :262 *)
    let remote := interact_with_remote dry (xf_opt fl) in
    (* :269 *)
    crd <- (if negb co && negb (fb fl "SkipCRDs") && negb (is_nil (xc_crds c))
            then (if dry then XRet CrdOk else install_crds g (xc_crds c))
            else XRet CrdOk) ;;
    match crd with
    | CrdErr => XRet xerr
    | CrdPanic => XRet XPanic
    | CrdOk =>
        (* :278 the throw-away capabilities, printing client and memory store *)
        let t := if co then TPriv else TReal in
        let have := co || xg_caps g in
        (* :301 *)
        cp <- get_caps g have ;;
        match cp with
        | CapPanic => XRet XPanic
        | CapErr => XRet xerr
        | CapOk =>
            (* :307 *)
            let is_up := fb fl "IsUpgrade" && dry in
            (* :315 *)
            if negb (xc_values_ok c) then XRet xerr else
            (* :320 *)
            if fb fl "SystemLabels" then XRet xerr else
            (* :327 *)
            r <- x_render g fl true remote (fb fl "IncludeCRDs") (fb fl "OutputDir") c ;;
            match r with
            | RPanic => XRet XPanic
            | RFail => XRet xerr
            | ROk mani =>
                (* :343; the printing client builds nothing *)
                b <- xperform (XBuild t BManifest (negb (fb fl "DisableOpenAPIValidation")) (List.length mani)) ;;
                if negb b then XRet xerr else
                let resources := if co then [] else stamp_all rn ns mani in
                (* :360 *)
                adopt <- (if negb co && negb is_up && negb (is_nil resources)
                          then x_existing (fb fl "TakeOwnership") resources []
                          else XRet (Some [])) ;;
                match adopt with
                | None => XRet (XO (OErr EConflict))
                | Some adopted =>
                    (* :372 *)
                    if dry then XRet (XO OOk) else
                    (* :377 *)
                    nsr <- (if fb fl "CreateNamespace" then
                              nb <- xperform (XBuild t BNamespace true 1) ;;
                              if negb nb then XRet false else
                              cr <- xperform (XNsCreate t) ;;
                              XRet (match cr with CFailed => false | _ => true end)
                            else XRet true) ;;
                    if negb nsr then XRet xerr else
                    (* :404-423 *)
                    let rel0 := mkRelease 1 SPendingInstall (xc_cid c) (xc_vid c) mani (xc_hooks c) in
                    o <- xlift t (install_tail (flags_of dry fl) rel0 resources adopted) ;;
                    XRet (XO o)
                end
            end
        end
    end.

  (* ---------------- upgrade.go:153-395 ---------------- *)
  Definition x_upgrade (g : xcfg) (fl : xflags) (c : xchart) : xprog xoutcome :=
    let dry := is_dry_run (fb fl "DryRun") (xf_opt fl) in
    (* :154 *)
    reach <- xperform XReach ;;
    if negb reach then XRet xerr else
    (* prepareUpgrade :208 *)
    if negb dry && fb fl "HideSecret" then XRet xerr else
    (* :213 *)
    h <- xperform (XE TReal SHistory) ;;
    match max_rev_of h with
    | None => XRet (XO (OErr ENoDeployed))
    | Some last =>
        (* :223 *)
        if is_pending (st last) then XRet (XO (OErr EPending)) else
        (* :228-242 *)
        cur <- (if status_eqb (st last) SDeployed then XRet (Some last)
                else ds <- xperform (XE TReal SDeployedAll) ;;
                     match max_rev_of ds with
                     | Some d => XRet (Some d)
                     | None => if status_eqb (st last) SFailed || status_eqb (st last) SSuperseded
                               then XRet (Some last) else XRet None
                     end) ;;
        match cur with
        | None => XRet (XO (OErr ENoDeployed))
        | Some current =>
            (* :245, :250 *)
            if negb (xc_reuse_ok c) then XRet xerr else
            if negb (xc_deps_ok c) then XRet xerr else
            (* :265 *)
            cp <- get_caps g (xg_caps g) ;;
            match cp with
            | CapPanic => XRet XPanic
            | CapErr => XRet xerr
            | CapOk =>
                (* :269 *)
                if negb (xc_values_ok c) then XRet xerr else
                (* :275 *)
                let remote := interact_with_remote dry (xf_opt fl) in
                (* :280 *)
                r <- x_render g fl true remote false false c ;;
                match r with
                | RPanic => XRet XPanic
                | RFail => XRet xerr
                | ROk mani =>
                    (* :285 *)
                    if fb fl "SystemLabels" then XRet xerr else
                    let up := mkRelease (S (rev last)) SPendingUpgrade (xc_cid c) (xc_vid c) mani (xc_hooks c) in
                    let validate := negb (fb fl "DisableOpenAPIValidation") in
                    (* :310 validateManifest *)
                    v <- xperform (XBuild TReal BManifest validate (List.length mani)) ;;
                    if negb v then XRet xerr else
                    (* performUpgrade :315, :326 *)
                    b1 <- xperform (XBuild TReal BCurrent false (List.length (manifest current))) ;;
                    if negb b1 then XRet xerr else
                    b2 <- xperform (XBuild TReal BManifest validate (List.length mani)) ;;
                    if negb b2 then XRet xerr else
                    let target := stamp_all rn ns mani in
                    let tobecreated := filter (fun r => negb (in_keys (rkey r) (manifest current))) target in
                    (* :351 *)
                    adopt <- x_existing (fb fl "TakeOwnership") tobecreated [] ;;
                    match adopt with
                    | None => XRet (XO (OErr EConflict))
                    | Some adopted =>
                        let curres := (manifest current ++ adopted)%list in
                        (* :369; RunWithContext :183 *)
                        if dry then XRet (XO OOk) else
                        o <- xlift TReal (upgrade_tail rn ns (flags_of dry fl) up current curres target) ;;
                        XRet (XO o)
                    end
                end
            end
        end
    end.

  (* ---------------- rollback.go:60-96 ---------------- *)
  Definition x_rollback (fl : xflags) : xprog xoutcome :=
    reach <- xperform XReach ;;
    if negb reach then XRet xerr else
    o <- xlift TReal (rollback rn ns (flags_of (fb fl "DryRun") fl)) ;;
    XRet (XO o).

  (* ---------------- uninstall.go:59-88 ---------------- *)
  Definition x_uninstall (fl : xflags) : xprog xoutcome :=
    reach <- xperform XReach ;;
    if negb reach then XRet xerr else
    gw <- xperform (XGetWaiter TReal) ;;
    if negb gw then XRet xerr else
    o <- xlift TReal (uninstall (flags_of (fb fl "DryRun") fl)) ;;
    (* :82-88 a real run with IgnoreNotFound answers "no such release" with success *)
    XRet (XO (if fb fl "IgnoreNotFound" && negb (fb fl "DryRun") && outcome_eqb o (OErr ENotFoundRel) then OOk else o)).

  (* ---------------- helm template: pkg/cmd/template.go:87-96, install.go:306 ---------------- *)
  Definition dry_opt_allowed (s : string) : bool :=
    existsb (String.eqb s) ["false"; "true"; "none"; "client"; "server"].

  Definition template_flags (validate include_crds : bool) (cli : xflags) : xflags :=
    mkXF (fset "IncludeCRDs" include_crds
            (fset "ClientOnly" (negb validate)
               (fset "Replace" true
                  (fset "DryRun" true (xf_on cli)))))
         (if String.eqb (xf_opt cli) "" then "true" else xf_opt cli)
         (xf_max_history cli) (xf_version cli).

  Definition x_template (g : xcfg) (validate include_crds : bool) (cli : xflags) (c : xchart) : xprog xoutcome :=
    let fl := template_flags validate include_crds cli in
    if dry_opt_allowed (xf_opt fl) then x_install g fl c else XRet xerr.

  (* ---------------- the command layer: pkg/cmd/{install,upgrade,rollback,uninstall}.go ----------------
     --dry-run as it arrives: None = flag absent; Some None = the bare flag; Some (Some v) =
     --dry-run=v.  install / upgrade: a string flag whose bare form means "client" (NoOptDefVal),
     an empty value becomes "none", validateDryRunOptionFlag refuses everything outside its list
     BEFORE the action runs; upgrade --install first asks the history (History.Run: reachability
     check, one query) and installs when there is no release or the last one is uninstalled.
     rollback / uninstall: a boolean flag parsed by strconv.ParseBool. *)
  Inductive cmdkind := CInstall | CUpgrade | CUpgradeInstall | CRollback | CUninstall.

  Definition dry_arg := option (option string).

  Definition cmd_string_opt (a : dry_arg) : string :=
    match a with None => "" | Some None => "client" | Some (Some v) => v end.

  Definition cmd_default_opt (s : string) : string := if String.eqb s "" then "none" else s.

  Definition str_in (s : string) (l : list string) : bool := existsb (String.eqb s) l.

  Definition parse_bool (s : string) : option bool :=
    if str_in s ["1"; "t"; "T"; "TRUE"; "true"; "True"] then Some true
    else if str_in s ["0"; "f"; "F"; "FALSE"; "false"; "False"] then Some false
    else None.

  Definition cmd_bool_opt (a : dry_arg) : option bool :=
    match a with None => Some false | Some None => Some true | Some (Some v) => parse_bool v end.

  Definition with_opt (fl : xflags) (opt : string) : xflags :=
    mkXF (xf_on fl) opt (xf_max_history fl) (xf_version fl).

  Definition with_flag (fl : xflags) (n : string) (b : bool) : xflags :=
    mkXF (fset n b (xf_on fl)) (xf_opt fl) (xf_max_history fl) (xf_version fl).

  Definition x_cmd (g : xcfg) (k : cmdkind) (a : dry_arg) (fl : xflags) (c : xchart) : xprog xoutcome :=
    let opt := cmd_default_opt (cmd_string_opt a) in
    match k with
    | CInstall => if dry_opt_allowed opt then x_install g (with_opt fl opt) c else XRet xerr
    | CUpgrade => if dry_opt_allowed opt then x_upgrade g (with_opt fl opt) c else XRet xerr
    | CUpgradeInstall =>
        reach <- xperform XReach ;;
        if negb reach then XRet xerr else
        h <- xperform (XE TReal SHistory) ;;
        let unin := match h with [] => false | _ => status_eqb (st (List.last h (mkRelease 0 SUnknown 0 0 [] []))) SUninstalled end in
        if is_nil h || unin then
          (if dry_opt_allowed opt then x_install g (with_flag (with_opt fl opt) "Replace" unin) c else XRet xerr)
        else
          (if dry_opt_allowed opt then x_upgrade g (with_opt fl opt) c else XRet xerr)
    | CRollback => match cmd_bool_opt a with
                   | None => XRet xerr
                   | Some b => x_rollback (with_flag fl "DryRun" b)
                   end
    | CUninstall => match cmd_bool_opt a with
                    | None => XRet xerr
                    | Some b => x_uninstall (with_flag fl "DryRun" b)
                    end
    end.

  (* is the command line a dry-run REQUEST: the flag is there and its value is not one of the
     documented ways to say "no" (none, false - the empty value is none; for the boolean flag
     the spellings ParseBool reads as false) *)
  Definition cmd_dry_request (k : cmdkind) (a : dry_arg) : bool :=
    match k with
    | CInstall | CUpgrade | CUpgradeInstall =>
        match a with
        | None => false
        | Some _ => negb (str_in (cmd_default_opt (cmd_string_opt a)) ["none"; "false"])
        end
    | CRollback | CUninstall =>
        match a with
        | None => false
        | Some None => true
        | Some (Some v) => match parse_bool v with Some false => false | _ => true end
        end
    end.

  (* the four operations and template *)
  Inductive xop :=
  | XInstall (g : xcfg) (fl : xflags) (c : xchart)
  | XUpgrade (g : xcfg) (fl : xflags) (c : xchart)
  | XRollback (fl : xflags)
  | XUninstall (fl : xflags)
  | XTemplate (g : xcfg) (validate include_crds : bool) (cli : xflags) (c : xchart)
  | XCmd (g : xcfg) (k : cmdkind) (a : dry_arg) (fl : xflags) (c : xchart).

  Definition xop_prog (o : xop) : xprog xoutcome :=
    match o with
    | XInstall g fl c => x_install g fl c
    | XUpgrade g fl c => x_upgrade g fl c
    | XRollback fl => x_rollback fl
    | XUninstall fl => x_uninstall fl
    | XTemplate g v i cli c => x_template g v i cli c
    | XCmd g k a fl c => x_cmd g k a fl c
    end.

  (* is the operation a dry run, as the Go code decides *)
  Definition xop_dry (o : xop) : bool :=
    match o with
    | XInstall _ fl _ | XUpgrade _ fl _ => is_dry_run (fb fl "DryRun") (xf_opt fl)
    | XRollback fl | XUninstall fl => fb fl "DryRun"
    | XTemplate _ _ _ _ _ => true
    | XCmd _ k a _ _ => cmd_dry_request k a
    end.
End XOps.

(* ------------------------------------------------------------------ *)
(* running a program under a handler: the emitted effects, in order      *)
Section XRun.
  Variable S : Type.
  Variable h : forall e : xeff, S -> S * xresp e.

  Fixpoint xrun {A} (p : xprog A) (s : S) : list xeff * S * A :=
    match p with
    | XRet a => ([], s, a)
    | XEff e k =>
        let '(s', r) := h e s in
        let '(tr, s'', a) := xrun (k r) s' in
        (e :: tr, s'', a)
    end.

  Definition xtrace {A} (p : xprog A) (s : S) : list xeff := fst (fst (xrun p s)).
End XRun.

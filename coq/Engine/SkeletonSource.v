(* The skeleton extracted from /repo on this run (Gen/ActionSkeleton.v) against the expected
   one: the per-run obligations.  Recompiled whenever the translator output changes.

   1. [source_normal_form]: the entry points have the same NORMAL FORM (Engine/SkeletonNorm.v)
      in both tables.  Syntactic after normalisation, hence sensitive to every change of the
      order, presence or guarding of an effectful call -- also to the ones the model cannot
      tell apart by kinds -- and insensitive to which function an effect sits in, to the
      orientation of a branch, to early return versus else.
   2. The model theorems are proved again, by computation, against the source table itself
      (Engine/SkeletonSourceProofs.v), so they do not depend on 1. *)
From Coq Require Import List String Bool Arith.
From Helm Require Import Engine.Skeleton Engine.SkeletonExpected Engine.SkeletonNorm Gen.ActionSkeleton.
Import ListNotations.
Local Open Scope string_scope.

Lemma source_normal_form : norm_roots skeleton = norm_roots expected.
Proof. vm_compute. reflexivity. Qed.

(* the resolved source table, in normal form *)
Definition rskeleton : rtable := Eval vm_compute in resolve_table skeleton.

Lemma rskeleton_is : rskeleton = resolve_table skeleton.
Proof. vm_compute. reflexivity. Qed.

(* nothing the translator could not classify is reachable from an entry point, every call
   resolves, the inlining depth was enough *)
Lemma expected_roots_live : forallb (fun p => live (snd p)) (norm_roots expected) = true.
Proof. vm_compute. reflexivity. Qed.

Lemma source_roots_live : forallb (fun p => live (snd p)) (norm_roots skeleton) = true.
Proof. rewrite source_normal_form. exact expected_roots_live. Qed.

Lemma map_pair_eq {A B} (f g : A -> B) (l : list A) :
  map (fun e => (e, f e)) l = map (fun e => (e, g e)) l -> forall e, In e l -> f e = g e.
Proof.
  induction l as [|a l IH]; cbn; intros H e He; [contradiction|].
  inversion H. destruct He as [<-|He]; [assumption|]. now apply IH.
Qed.

Lemma source_root_normal_form : forall e, In e roots -> norm_root skeleton e = norm_root expected e.
Proof. exact (map_pair_eq (norm_root skeleton) (norm_root expected) roots source_normal_form). Qed.

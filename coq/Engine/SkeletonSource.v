(* The skeleton extracted from /repo on this run (Gen/ActionSkeleton.v) against the expected
   one: the per-run obligations.  Recompiled whenever the translator output changes.

   1. [source_obligation]: EITHER the entry points have the same NORMAL FORM in both tables
      (Engine/SkeletonNorm.v; the fast path: syntactic after normalisation, so every change of
      the order, presence or guarding of an effectful call is seen, and a behaviour-preserving
      rewrite of the catalogue is not), OR -- evaluated only when the normal forms differ --
      the regenerated table passes the SEMANTIC obligations [semantic_ok]: the model follows it
      under the finer path language of Engine/SkeletonFine.v (runs of (kind, answered-an-error)
      pairs; failure-free on the whole scenario space, every single failure on the smaller
      one), and it has no call site, beyond the ones the expected table has, that no probe run
      needs and nothing excuses (Engine/SkeletonFineCover.v).
   2. The kinds-level model theorems are proved again, by computation, against the source table
      itself (Engine/SkeletonSourceProofs.v), whichever way 1 went. *)
From Coq Require Import List String Bool Arith.
From Helm Require Import Engine.Skeleton Engine.SkeletonExpected Engine.SkeletonNorm Engine.SkeletonNormProofs
                         Engine.SkeletonFine Engine.SkeletonFineCover Gen.ActionSkeleton.
Import ListNotations.
Local Open Scope string_scope.

Fixpoint roots_eqb (a b : list (string * nsk)) : bool :=
  match a, b with
  | [], [] => true
  | (n, x) :: a', (m, y) :: b' => String.eqb n m && nsk_eqb x y && roots_eqb a' b'
  | _, _ => false
  end.

Lemma roots_eqb_eq : forall a b, roots_eqb a b = true -> a = b.
Proof.
  induction a as [|[n x] a IH]; destruct b as [|[m y] b]; cbn; intro H; try discriminate; try reflexivity.
  apply andb_prop in H. destruct H as [H H3]. apply andb_prop in H. destruct H as [H1 H2].
  apply String.eqb_eq in H1. apply nsk_eqb_eq in H2. subst. f_equal. now apply IH.
Qed.

Lemma ite_or (b c : bool) : (if b then true else c) = true -> b = true \/ c = true.
Proof. destruct b; auto. Qed.

(* the obligation: the second alternative is evaluated only when the first fails *)
Lemma source_obligation :
  (if roots_eqb (norm_roots skeleton) (norm_roots expected) then true else semantic_ok skeleton) = true.
Proof. vm_cast_no_check (eq_refl true). Qed.

Lemma source_normal_form_or_semantic :
  norm_roots skeleton = norm_roots expected \/ semantic_ok skeleton = true.
Proof.
  destruct (ite_or (roots_eqb (norm_roots skeleton) (norm_roots expected)) (semantic_ok skeleton) source_obligation)
    as [H|H]; [left|right; exact H].
  exact (roots_eqb_eq (norm_roots skeleton) (norm_roots expected) H).
Qed.

(* the resolved source table, in normal form *)
Definition rskeleton : rtable := Eval vm_compute in resolve_table skeleton.

Lemma rskeleton_is : rskeleton = resolve_table skeleton.
Proof. vm_compute. reflexivity. Qed.

(* nothing the translator could not classify is reachable from an entry point, every call
   resolves, the inlining depth was enough *)
Lemma expected_roots_live : forallb (fun p => live (snd p)) (norm_roots expected) = true.
Proof. vm_compute. reflexivity. Qed.

Lemma source_roots_live : forallb (fun p => live (snd p)) (norm_roots skeleton) = true.
Proof. vm_compute. reflexivity. Qed.

Lemma map_pair_eq {A B} (f g : A -> B) (l : list A) :
  map (fun e => (e, f e)) l = map (fun e => (e, g e)) l -> forall e, In e l -> f e = g e.
Proof.
  induction l as [|a l IH]; cbn; intros H e He; [contradiction|].
  inversion H. destruct He as [<-|He]; [assumption|]. now apply IH.
Qed.

(* for any table: equal normal forms of the roots, root by root *)
Lemma root_normal_form (t1 t2 : table) :
  norm_roots t1 = norm_roots t2 -> forall e, In e roots -> norm_root t1 e = norm_root t2 e.
Proof. intro H. exact (map_pair_eq (norm_root t1) (norm_root t2) roots H). Qed.

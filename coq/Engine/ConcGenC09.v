(* C09 — obligation over the translator table coq/Gen/PendingC09.v (regenerated from
   pkg/release/v1/status.go on every run): the statuses for which Helm's Status.IsPending
   answers true are exactly the model's [is_pending] — the "lock" of the protocol. *)
From Coq Require Import List String Bool.
From Helm Require Import Engine.Types Gen.PendingC09.
Import ListNotations.

Lemma pending_table_ok :
  forall s : status, is_pending s = existsb (String.eqb (status_str s)) c09_pending_values.
Proof. intros s. destruct s; reflexivity. Qed.

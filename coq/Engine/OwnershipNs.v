(* C07 — more than one namespace.
   A manifest resource names a namespace (metadata.namespace; none = the release namespace).
   The object store, the operations and every C07 theorem are stated over opaque keys
   [rkey r = r_kind r ++ "/" ++ r_name r]; a namespaced resource enters that model with its kind
   spelled <namespace>/Kind when it lives outside the release namespace (so its key reads
   <namespace>/Kind/name — also the key of the simulated API server and of the harness).
   This file proves the spelling injective — two resources have the same key iff they have the
   same (namespace, kind, name) — and draws the consequences: the ownership check is per
   (namespace, kind, name); a same-named object of another release in another namespace is not a
   conflict and is never touched. *)
From Coq Require Import List String Ascii Bool Arith Lia.
From Helm Require Import Common.Assoc Engine.Types Engine.Eff Engine.Ops Engine.Cluster Engine.Seq
                         Engine.DryRun Engine.Ownership Engine.OwnershipProofs Engine.OwnershipFrame
                         Engine.OwnershipOnlyIf.
Import ListNotations.
Local Open Scope string_scope.

Record nres := mkNRes { n_ns : string; n_kind : string; n_name : string; n_fields : fields }.

Section Ns.
  Variable dns : string.            (* the release namespace: where resources without one go *)

  Definition eff_ns (r : nres) : string := if String.eqb (n_ns r) "" then dns else n_ns r.

  Definition model_kind (r : nres) : string :=
    if String.eqb (eff_ns r) dns then n_kind r else eff_ns r ++ "/" ++ n_kind r.

  Definition flat_res (r : nres) : res := mkRes (model_kind r) (n_name r) (n_fields r).

  Definition nkey (r : nres) : string := rkey (flat_res r).

  Definition ident (r : nres) : string * string * string := (eff_ns r, n_kind r, n_name r).
End Ns.

(* Kubernetes names, kinds and namespaces contain no '/' *)
Fixpoint no_slash (s : string) : bool :=
  match s with
  | EmptyString => true
  | String c t => negb (Ascii.eqb c "/"%char) && no_slash t
  end.

Definition wf_nres (r : nres) : Prop :=
  no_slash (n_ns r) = true /\ no_slash (n_kind r) = true /\ no_slash (n_name r) = true.

Lemma append_assoc3 a b c : (a ++ b) ++ c = a ++ (b ++ c).
Proof. induction a as [|x t IH]; simpl; auto. now rewrite IH. Qed.

Lemma no_slash_app a b : no_slash (a ++ "/" ++ b) = false.
Proof.
  induction a as [|x t IH]; [reflexivity|].
  change (String x t ++ "/" ++ b) with (String x (t ++ "/" ++ b)). cbn [no_slash].
  rewrite IH. apply andb_false_r.
Qed.

(* splitting at the first '/' is unambiguous *)
Lemma split_slash a : forall a' b b',
  no_slash a = true -> no_slash a' = true -> a ++ "/" ++ b = a' ++ "/" ++ b' -> a = a' /\ b = b'.
Proof.
  induction a as [|x t IH]; intros a' b b' Ha Ha' H.
  - destruct a' as [|y u]; simpl in H.
    + inversion H. auto.
    + inversion H; subst. simpl in Ha'. discriminate.
  - destruct a' as [|y u]; simpl in H.
    + inversion H; subst. simpl in Ha. discriminate.
    + inversion H; subst. simpl in Ha, Ha'.
      apply andb_true_iff in Ha. apply andb_true_iff in Ha'.
      destruct (IH u b b') as [-> ->]; tauto.
Qed.

Section NsProofs.
  Variable dns : string.
  Hypothesis dns_ok : no_slash dns = true.

  Lemma eff_ns_no_slash r : wf_nres r -> no_slash (eff_ns dns r) = true.
  Proof. intros (H & _ & _). unfold eff_ns. now destruct (String.eqb (n_ns r) ""). Qed.

  (* same key  <->  same (namespace, kind, name) *)
  Theorem nkey_injective r1 r2 :
    wf_nres r1 -> wf_nres r2 -> nkey dns r1 = nkey dns r2 -> ident dns r1 = ident dns r2.
  Proof.
    intros W1 W2. pose proof (eff_ns_no_slash r1 W1) as E1. pose proof (eff_ns_no_slash r2 W2) as E2.
    destruct W1 as (_ & K1 & N1). destruct W2 as (_ & K2 & N2).
    unfold nkey, rkey, flat_res, model_kind, ident. cbn [r_kind r_name].
    destruct (String.eqb (eff_ns dns r1) dns) eqn:D1; destruct (String.eqb (eff_ns dns r2) dns) eqn:D2.
    - apply String.eqb_eq in D1, D2. intros H. apply split_slash in H; auto. destruct H as [-> ->]. now rewrite D1, D2.
    - intros H. rewrite append_assoc3 in H. apply split_slash in H; auto. destruct H as [_ H].
      exfalso. rewrite H in N1. rewrite no_slash_app in N1. discriminate.
    - intros H. rewrite append_assoc3 in H. apply split_slash in H; auto. destruct H as [_ H].
      exfalso. rewrite <- H in N2. rewrite no_slash_app in N2. discriminate.
    - intros H. rewrite !append_assoc3 in H. apply split_slash in H; auto. destruct H as [-> H].
      apply split_slash in H; auto. now destruct H as [-> ->].
  Qed.

  Theorem nkey_ident r1 r2 : ident dns r1 = ident dns r2 -> nkey dns r1 = nkey dns r2.
  Proof.
    unfold ident, nkey, rkey, flat_res, model_kind. cbn [r_kind r_name]. intros H. inversion H as [[H1 H2 H3]].
    now rewrite H1, H2, H3.
  Qed.

  Lemma nkey_notin r rs :
    wf_nres r -> Forall wf_nres rs -> (forall x, In x rs -> ident dns x <> ident dns r) ->
    ~ In (nkey dns r) (keys (map (flat_res dns) rs)).
  Proof.
    intros Wr Wrs Hd Hin. unfold keys in Hin. rewrite map_map in Hin. apply in_map_iff in Hin.
    destruct Hin as [x [Hx Hin]]. rewrite Forall_forall in Wrs.
    apply (Hd x Hin). apply nkey_injective; auto.
  Qed.

  (* ---- the ownership check is per (namespace, kind, name) ---- *)

  (* a manifest resource of whatever namespace that exists, at its own (namespace, kind, name),
     un-owned: refused before any mutation (C07_refuse_before_mutation_install on the flattened
     manifest) *)
  Theorem ns_install_refused rn fl cid vid (nm : list nres) hks sf cf w r live :
    f_take_ownership fl = false -> f_client_only fl = false ->
    In r nm -> aget (nkey dns r) (w_objs w) = Some live -> owned_by rn dns live = false ->
    (snd (fst (run_store_op rn dns (mkOp (OpInstall fl cid vid (map (flat_res dns) nm) hks) sf cf) w)) = OErr EConflict \/
     (snd (fst (run_store_op rn dns (mkOp (OpInstall fl cid vid (map (flat_res dns) nm) hks) sf cf) w)) = OErr ENameInUse /\
      f_dry_run fl = false /\ name_available (w_led w) fl = false)) /\
    snd (run_store_op rn dns (mkOp (OpInstall fl cid vid (map (flat_res dns) nm) hks) sf cf) w) = [] /\
    fst (fst (run_store_op rn dns (mkOp (OpInstall fl cid vid (map (flat_res dns) nm) hks) sf cf) w)) = w.
  Proof.
    intros Ht Hc Hin Hl Ho. apply refuse_install; auto.
    exists (flat_res dns r). split; [now apply in_map|]. exists live. auto.
  Qed.

  (* conversely, with no rejected GET: the conflict error means that some resource of the
     manifest exists un-owned at ITS OWN (namespace, kind, name) *)
  Theorem ns_install_conflict_only_own rn fl cid vid (nm : list nres) hks sf cf w :
    (forall key, cf_k cf <> Some (VGet, key)) ->
    snd (fst (run_store_op rn dns (mkOp (OpInstall fl cid vid (map (flat_res dns) nm) hks) sf cf) w)) = OErr EConflict ->
    f_take_ownership fl = false /\
    exists r live, In r nm /\ aget (nkey dns r) (w_objs w) = Some live /\ owned_by rn dns live = false.
  Proof.
    intros Hnf H. apply install_conflict_only_if in H. destruct H as [[key [Hk _]]|[Ht [x [Hx [live [Hl Ho]]]]]].
    - now contradiction (Hnf key).
    - split; auto. apply in_map_iff in Hx. destruct Hx as [r [<- Hr]]. exists r, live. auto.
  Qed.

  (* ---- a same-named object in another namespace ---- *)

  (* an object whose (namespace, kind, name) is that of no resource of the operation's manifest,
     of no hook, and of no stored revision — in particular an object with the kind and name of a
     manifest resource in ANOTHER namespace — is, after install / upgrade (any flags,
     take-ownership included, any fault plan), exactly what it was *)
  Theorem ns_other_object_untouched rn (install_not_upgrade : bool) fl cid vid (nm : list nres) hks sf cf w x :
    wf_nres x -> Forall wf_nres nm ->
    (forall r, In r nm -> ident dns r <> ident dns x) ->
    ~ In (nkey dns x) (hook_keys hks) -> ~ In (nkey dns x) (ledger_keys (w_led w)) ->
    let o := if install_not_upgrade then OpInstall fl cid vid (map (flat_res dns) nm) hks
             else OpUpgrade fl cid vid (map (flat_res dns) nm) hks in
    aget (nkey dns x) (w_objs (fst (fst (run_store_op rn dns (mkOp o sf cf) w)))) = aget (nkey dns x) (w_objs w).
  Proof.
    intros Wx Wnm Hd Hh Hl o. apply outside_release_untouched. simpl.
    intros Hin. apply in_app_iff in Hin. destruct Hin as [Hin|Hin]; [contradiction|].
    assert (Hk : In (nkey dns x) (keys (map (flat_res dns) nm) ++ hook_keys hks)%list)
      by (subst o; destruct install_not_upgrade; exact Hin).
    apply in_app_iff in Hk. destruct Hk as [Hk|Hk]; [|contradiction].
    revert Hk. apply nkey_notin; auto.
  Qed.

  (* ... and it plays no part in the pre-flight check: the look-up of the manifest's resources
     answers the same with and without it *)
  Theorem ns_other_object_not_looked_up rn (nm : list nres) k take x fx :
    wf_nres x -> Forall wf_nres nm -> (forall r, In r nm -> ident dns r <> ident dns x) ->
    snd (k_existing rn dns (set_objs k (aset (nkey dns x) fx (objs k))) (map (flat_res dns) nm) take []) =
    snd (k_existing rn dns k (map (flat_res dns) nm) take []).
  Proof.
    intros Wx Wnm Hd. apply k_existing_other_key. now apply nkey_notin.
  Qed.
End NsProofs.

(* a release whose manifest has the SAME kind and name in two namespaces, and a third namespace
   with a same-named object of another release: the keys are distinct; the foreign object in
   "third" does not stop the install and is not touched; a foreign object in "other" stops it
   with an empty trace; with take-ownership the one in "other" is adopted and "third" still
   untouched; the upgrade that drops the resource of "other" deletes exactly that object *)
Example ns_example :
  let a0 := mkNRes "" "ConfigMap" "a" [("d:k", "v")] in
  let a1 := mkNRes "other" "ConfigMap" "a" [("d:k", "v")] in
  let a2 := mkNRes "third" "ConfigMap" "a" [] in
  let foreign := [("d:k", "live"); (managed_by_key, "Helm"); (rel_name_key, "other-release"); (rel_ns_key, "third")] in
  let fl t := mkFlags false false false false 0 false false false t 0 in
  let inst t w := run_store_op "rel" "default" (mkOp (OpInstall (fl t) 1 1 (map (flat_res "default") [a0; a1]) []) (mkSF None None) (mkCF None None false)) w in
  let w3 := mkW [] [(nkey "default" a2, foreign)] in
  let w13 := mkW [] [(nkey "default" a1, foreign); (nkey "default" a2, foreign)] in
  map (nkey "default") [a0; a1; a2] = ["ConfigMap/a"; "other/ConfigMap/a"; "third/ConfigMap/a"] /\
  snd (fst (inst false w3)) = OOk /\
  aget "third/ConfigMap/a" (w_objs (fst (fst (inst false w3)))) = Some foreign /\
  snd (fst (inst false w13)) = OErr EConflict /\ snd (inst false w13) = [] /\
  snd (fst (inst true w13)) = OOk /\
  aget "third/ConfigMap/a" (w_objs (fst (fst (inst true w13)))) = Some foreign /\
  (match aget "other/ConfigMap/a" (w_objs (fst (fst (inst true w13)))) with
   | Some f => owned_by "rel" "default" f | None => false end) = true /\
  trace_deletes (snd (run_store_op "rel" "default"
                        (mkOp (OpUpgrade (fl false) 2 1 (map (flat_res "default") [a0]) []) (mkSF None None) (mkCF None None false))
                        (fst (fst (inst false w3))))) = ["other/ConfigMap/a"].
Proof. vm_compute. repeat split; reflexivity. Qed.

(* C02, round 4 — a richer object domain for "the cluster matches the manifest".

   An object is a field tree: scalars, nested maps, ATOMIC lists (replaced as a whole) and
   KEYED lists (lists of maps whose elements are identified by the value of a merge key, as
   containers by name, ports by containerPort, env by name in the built-in types).  A keyed
   list is held as the list of (merge-key value, element) pairs in list order; a map as the
   list of (field name, value) pairs (order immaterial).  Scalars carry their JSON text, so
   the string "3" and the number 3 differ.

   What kube.Client.updateResource/createPatch (pkg/kube/client.go:610-713) do to ONE live
   object, for the four ways the code has of updating it:
     strategic   built-in kinds: strategicpatch.CreateThreeWayMergePatch(original = old manifest,
                 modified = new manifest, current = live, overwrite) sent as a strategic merge
                 patch and applied by the server                                         [s3]
     json2       unstructured / custom kinds through Client.Update: the two-way JSON merge patch
                 jsonpatch.CreateMergePatch(old manifest, new manifest), applied on the live
                 object by the server as RFC 7386                                         [j2]
     json3       unstructured kinds through Client.UpdateThreeWayMerge (install --take-ownership):
                 jsonmergepatch.CreateThreeWayJSONMergePatch(old, new, live)               [j3]
     force       helper.Replace: the object is PUT                                         [the target]
   The patch libraries are third-party; their semantics on this domain are DEFINED here
   independently (s3 directly as the three-way result, the JSON paths as diff + apply the way
   the libraries compute them) and compared with the real libraries behind the real
   kube.Client on every run (Run/RunC02.v, harness/cmd/hx/c02_obj*.go).

   Definitions only; proofs in Engine/Merge3Proofs.v. *)
From Coq Require Import List String Bool Arith.
From Helm Require Import Common.Assoc.
Import ListNotations.

Inductive tree :=
| TS (s : string)                       (* scalar: its JSON text *)
| TM (m : list (string * tree))         (* map *)
| TA (l : list tree)                    (* atomic list *)
| TK (l : list (string * tree)).        (* keyed list: (merge-key value, element without the key field) *)

(* ---- navigation: a path names map fields and keyed-list elements ---- *)
Fixpoint tget (p : list string) (t : tree) : option tree :=
  match p with
  | [] => Some t
  | k :: r =>
      match t with
      | TM m | TK m => match aget k m with Some c => tget r c | None => None end
      | _ => None
      end
  end.

Definition otget (p : list string) (o : option tree) : option tree :=
  match o with Some t => tget p t | None => None end.

(* the entries of [x] when it is a container of the same kind as the target container *)
Definition kidsM (x : option tree) : list (string * tree) :=
  match x with Some (TM m) => m | _ => [] end.
Definition kidsK (x : option tree) : list (string * tree) :=
  match x with Some (TK m) => m | _ => [] end.

(* live entries named by neither manifest *)
Definition foreign (om tm lm : list (string * tree)) : list (string * tree) :=
  filter (fun kv => negb (amem (fst kv) tm) && negb (amem (fst kv) om)) lm.

(* ---- a quirk of the strategic-merge library, kept as it is ----
   When the live keyed list lacks an element the target names, the server APPENDS the patch element as
   it stands (mergeSliceWithoutSpecialElements: "original = append(original, v)") without removing the
   directives nested in it (the map path does remove them: removeDirectives).  The patch element is the
   target's element merged over the DELETIONS original -> target, so every keyed list nested in it still
   holds a {"$patch": "delete", <mergeKey>: v} entry per element the target dropped; the server's decode
   into the Go type drops the unknown "$patch" field and what stays is an element made of its merge key
   alone.  Such ghosts stand after the target's elements, in the order of diffListsOfMaps (sorted by the
   text of the key).  Nested nulls and $setElementOrder entries vanish in the same decode. *)
Definition key_leb (a b : string) : bool :=
  match String.compare a b with Gt => false | _ => true end.

Fixpoint kinsert (x : string * tree) (l : list (string * tree)) : list (string * tree) :=
  match l with
  | [] => [x]
  | y :: r => if key_leb (fst x) (fst y) then x :: l else y :: kinsert x r
  end.
Definition ksort (l : list (string * tree)) : list (string * tree) := fold_right kinsert [] l.

Fixpoint ghost (o : option tree) (t : tree) {struct t} : tree :=
  match t with
  | TM tm =>
      let om := kidsM o in
      TM ((fix go (x : list (string * tree)) : list (string * tree) :=
             match x with [] => [] | (k, tv) :: r => (k, ghost (aget k om) tv) :: go r end) tm)
  | TK tk =>
      let ok := kidsK o in
      TK ((fix go (x : list (string * tree)) : list (string * tree) :=
             match x with [] => [] | (k, tv) :: r => (k, ghost (aget k ok) tv) :: go r end) tk
          ++ map (fun kv => (fst kv, TM [])) (ksort (filter (fun kv => negb (amem (fst kv) tk)) ok)))
  | _ => t
  end.

(* ---- strategic three-way merge: the object the server holds after the patch computed from
   (original o, target t, live l) has been applied to l.
   Level by level (a map, or a keyed list with the merge key in the role of the field name):
     an entry of the target   -> merged recursively with the live entry (or taken whole when the
                                 live object has none, or when the live value is of another kind);
                                 the original contributes deletions only where it is a container
                                 of the same kind as the target's
     an entry of the original that the target dropped -> removed ("k: null" / "$patch: delete"),
                                 whatever the live object holds there
     any other live entry     -> kept
   (a keyed-list element the live list lacks: taken with the ghosts described above).
   Scalars and atomic lists are the target's.  Keyed lists come out as: the target's elements in
   the target's order ($setElementOrder), then the kept live-only elements in live order (the
   library interleaves the two groups; Run/RunC02.v compares the two subsequences). *)
Fixpoint s3 (o : option tree) (t : tree) (l : option tree) {struct t} : tree :=
  match t with
  | TM tm =>
      match l with
      | Some (TM lm) =>
          let om := kidsM o in
          TM ((fix go (x : list (string * tree)) : list (string * tree) :=
                 match x with
                 | [] => []
                 | (k, tv) :: r => (k, s3 (aget k om) tv (aget k lm)) :: go r
                 end) tm ++ foreign om tm lm)
      | _ => t
      end
  | TK tk =>
      match l with
      | Some (TK lk) =>
          let ok := kidsK o in
          TK ((fix go (x : list (string * tree)) : list (string * tree) :=
                 match x with
                 | [] => []
                 | (k, tv) :: r =>
                     (k, match aget k lk with
                         | Some lv => s3 (aget k ok) tv (Some lv)
                         | None => ghost (aget k ok) tv        (* appended as it stands *)
                         end) :: go r
                 end) tk ++ foreign ok tk lk)
      | _ => t
      end
  | _ => t
  end.

(* the same level function, named (equal to the local fixes above by s3_TM / s3_TK) *)
Fixpoint s3_level (om lm : list (string * tree)) (x : list (string * tree)) : list (string * tree) :=
  match x with
  | [] => []
  | (k, tv) :: r => (k, s3 (aget k om) tv (aget k lm)) :: s3_level om lm r
  end.

Fixpoint s3_klevel (ok lk : list (string * tree)) (x : list (string * tree)) : list (string * tree) :=
  match x with
  | [] => []
  | (k, tv) :: r =>
      (k, match aget k lk with
          | Some lv => s3 (aget k ok) tv (Some lv)
          | None => ghost (aget k ok) tv
          end) :: s3_klevel ok lk r
  end.

(* ---- equality of values as reflect.DeepEqual / matchesValue see it: maps unordered ---- *)
Fixpoint teqv (a b : tree) {struct a} : bool :=
  match a, b with
  | TS x, TS y => String.eqb x y
  | TM x, TM y =>
      (fix sub (l : list (string * tree)) : bool :=
         match l with
         | [] => true
         | (k, v) :: r => match aget k y with Some w => teqv v w | None => false end && sub r
         end) x && Nat.eqb (List.length x) (List.length y)
  | TA x, TA y =>
      (fix all2 (l : list tree) (m : list tree) : bool :=
         match l, m with
         | [], [] => true
         | v :: r, w :: s => teqv v w && all2 r s
         | _, _ => false
         end) x y
  | TK x, TK y =>
      (fix all2 (l : list (string * tree)) (m : list (string * tree)) : bool :=
         match l, m with
         | [], [] => true
         | (k, v) :: r, (k', w) :: s => String.eqb k k' && teqv v w && all2 r s
         | _, _ => false
         end) x y
  | _, _ => false
  end.

(* ---- JSON merge patches (RFC 7386): null deletes, maps merge, everything else replaces ---- *)
Inductive ptree :=
| PNull
| PLeaf (t : tree)                      (* a value that is not a JSON object *)
| PMap (m : list (string * ptree)).

(* a document as a patch: JSON objects are indistinguishable from patches of their entries *)
Fixpoint embed (t : tree) : ptree :=
  match t with
  | TM m => PMap ((fix go (x : list (string * tree)) : list (string * ptree) :=
                     match x with [] => [] | (k, v) :: r => (k, embed v) :: go r end) m)
  | _ => PLeaf t
  end.

(* jsonpatch.CreateMergePatch / getDiff (evanphx/json-patch merge.go) on two objects:
   entries of [b] that [a] lacks or holds with another value (maps: the recursive difference,
   omitted when empty), then a null for every entry of [a] that [b] lacks *)
Fixpoint jdiffT (a : list (string * tree)) (b : tree) {struct b} : list (string * ptree) :=
  match b with
  | TM bm =>
      (fix go (x : list (string * tree)) : list (string * ptree) :=
         match x with
         | [] => []
         | (k, bv) :: r =>
             match aget k a with
             | None => (k, embed bv) :: go r
             | Some av =>
                 match av, bv with
                 | TM am, TM _ =>
                     match jdiffT am bv with
                     | [] => go r
                     | d => (k, PMap d) :: go r
                     end
                 | _, _ => if teqv av bv then go r else (k, embed bv) :: go r
                 end
             end
         end) bm
      ++ map (fun kv => (fst kv, PNull)) (filter (fun kv => negb (amem (fst kv) bm)) a)
  | _ => []
  end.

Definition jdiff (a b : list (string * tree)) : list (string * ptree) := jdiffT a (TM b).

(* jsonpatch.MergePatch (mergeDocs / merge / pruneNulls) applied to a document value *)
Fixpoint japply (cur : option tree) (p : ptree) {struct p} : option tree :=
  match p with
  | PNull => None
  | PLeaf t => Some t
  | PMap pm =>
      let cm := match cur with Some (TM m) => m | _ => [] end in
      Some (TM ((fix go (x : list (string * ptree)) (acc : list (string * tree)) : list (string * tree) :=
                   match x with
                   | [] => acc
                   | (k, pv) :: r =>
                       go r (match japply (aget k acc) pv with
                             | Some v => aset k v acc
                             | None => adel k acc
                             end)
                   end) pm cm))
  end.

Fixpoint japply_level (x : list (string * ptree)) (acc : list (string * tree)) : list (string * tree) :=
  match x with
  | [] => acc
  | (k, pv) :: r =>
      japply_level r (match japply (aget k acc) pv with
                      | Some v => aset k v acc
                      | None => adel k acc
                      end)
  end.

(* json2: Client.Update on an unstructured kind — the patch never looks at the live object *)
Definition j2 (o t l : tree) : tree :=
  match l with
  | TM lm => TM (japply_level (jdiff (kidsM (Some o)) (kidsM (Some t))) lm)
  | _ => l
  end.

(* jsonmergepatch.keepOrDeleteNullInObj: keep only the nulls (deletions) / only the non-nulls *)
Fixpoint keep_nullsP (p : ptree) : list (string * ptree) :=
  match p with
  | PMap m =>
      (fix go (x : list (string * ptree)) : list (string * ptree) :=
         match x with
         | [] => []
         | (k, pv) :: r =>
             match pv with
             | PNull => (k, PNull) :: go r
             | PLeaf _ => go r
             | PMap _ => match keep_nullsP pv with
                         | [] => go r
                         | s => (k, PMap s) :: go r
                         end
             end
         end) m
  | _ => []
  end.
Definition keep_nulls (m : list (string * ptree)) : list (string * ptree) := keep_nullsP (PMap m).

Fixpoint drop_nullsP (p : ptree) : list (string * ptree) :=
  match p with
  | PMap m =>
      (fix go (x : list (string * ptree)) : list (string * ptree) :=
         match x with
         | [] => []
         | (k, pv) :: r =>
             match pv with
             | PNull => go r
             | PLeaf _ => (k, pv) :: go r
             | PMap [] => (k, pv) :: go r                   (* an explicitly empty map is a value *)
             | PMap _ => match drop_nullsP pv with
                         | [] => go r
                         | s => (k, PMap s) :: go r
                         end
             end
         end) m
  | _ => []
  end.
Definition drop_nulls (m : list (string * ptree)) : list (string * ptree) := drop_nullsP (PMap m).

(* jsonpatch.MergePatch(deletePatch, addAndChangePatch): the second document merged INTO the first as
   a patch; the nulls of the first stay (they are the deletions) *)
Fixpoint pmergeP (doc : list (string * ptree)) (p : ptree) {struct p} : list (string * ptree) :=
  match p with
  | PMap pm =>
      (fix go (x : list (string * ptree)) (acc : list (string * ptree)) : list (string * ptree) :=
         match x with
         | [] => acc
         | (k, pv) :: r =>
             go r (match pv with
                   | PNull => adel k acc
                   | PMap _ =>
                       match aget k acc with
                       | Some (PMap dm) => aset k (PMap (pmergeP dm pv)) acc
                       | _ => aset k pv acc
                       end
                   | PLeaf _ => aset k pv acc
                   end)
         end) pm doc
  | _ => doc
  end.
Definition pmerge (doc p : list (string * ptree)) : list (string * ptree) := pmergeP doc (PMap p).

Definition j3_patch (o t l : list (string * tree)) : list (string * ptree) :=
  pmerge (keep_nulls (jdiff o t)) (drop_nulls (jdiff l t)).

Definition j3 (o t l : tree) : tree :=
  match l with
  | TM lm => TM (japply_level (j3_patch (kidsM (Some o)) (kidsM (Some t)) lm) lm)
  | _ => l
  end.

(* ---- the four ways ---- *)
Inductive umode := UStrategic | UJson2 | UJson3 | UForce.

Definition merge_by (m : umode) (o t l : tree) : tree :=
  match m with
  | UStrategic => s3 (Some o) t (Some l)
  | UJson2 => j2 o t l
  | UJson3 => j3 o t l
  | UForce => t
  end.

(* ---- inclusion: every entry of [t] is in [r], recursively; scalars and atomic lists equal ---- *)
Fixpoint tsub (t r : tree) {struct t} : bool :=
  match t with
  | TM tm =>
      match r with
      | TM rm => (fix all (x : list (string * tree)) : bool :=
                    match x with
                    | [] => true
                    | (k, v) :: s => match aget k rm with Some w => tsub v w | None => false end && all s
                    end) tm
      | _ => false
      end
  | TK tk =>
      match r with
      | TK rk => (fix all (x : list (string * tree)) : bool :=
                    match x with
                    | [] => true
                    | (k, v) :: s => match aget k rk with Some w => tsub v w | None => false end && all s
                    end) tk
      | _ => false
      end
  | _ => teqv t r
  end.

(* well-formed: no field name / merge-key value twice, at any depth *)
Fixpoint nodupb (l : list string) : bool :=
  match l with
  | [] => true
  | x :: t => negb (existsb (String.eqb x) t) && nodupb t
  end.

Fixpoint wf_tree (t : tree) : bool :=
  match t with
  | TS _ => true
  | TM m => nodupb (map fst m) &&
            (fix all (x : list (string * tree)) : bool :=
               match x with [] => true | (_, v) :: s => wf_tree v && all s end) m
  | TK m => nodupb (map fst m) &&
            (fix all (x : list (string * tree)) : bool :=
               match x with [] => true | (_, v) :: s => wf_tree v && all s end) m
  | TA l => (fix all (x : list tree) : bool :=
               match x with [] => true | v :: s => wf_tree v && all s end) l
  end.

Definition is_leaf (t : tree) : bool := match t with TS _ | TA _ => true | _ => false end.

(* ---- keyed lists up to the interleaving of the two groups of elements ----
   After a strategic patch the elements the target names stand in the target's order and the others in
   their live order; how the library interleaves the two groups is not modelled.  [canon t x]: every
   keyed list of [x] stably partitioned into (elements the target [t] names at that place) ++ (the others);
   two objects AGREE (for target t) when their canonical forms are equal with maps unordered. *)
Definition child (t : option tree) (k : string) : option tree :=
  match t with
  | Some (TM m) | Some (TK m) => aget k m
  | _ => None
  end.

Fixpoint canon (t : option tree) (x : tree) {struct x} : tree :=
  match x with
  | TM m => TM ((fix go (l : list (string * tree)) : list (string * tree) :=
                   match l with [] => [] | (k, v) :: r => (k, canon (child t k) v) :: go r end) m)
  | TK m =>
      let tk := kidsK t in
      let m' := (fix go (l : list (string * tree)) : list (string * tree) :=
                   match l with [] => [] | (k, v) :: r => (k, canon (child t k) v) :: go r end) m in
      TK (filter (fun kv => amem (fst kv) tk) m' ++ filter (fun kv => negb (amem (fst kv) tk)) m')
  | _ => x
  end.



Definition tagree (t : option tree) (a b : tree) : bool := teqv (canon t a) (canon t b).

(* Generic facts about the interpreter: invariants that every single effect preserves are
   preserved by EVERY program, for every cluster handler, fault plan and crash point. *)
From Coq Require Import List String Bool Arith ZArith Lia.
From Helm Require Import Common.Assoc Engine.Types Engine.Eff Engine.Ops Engine.Cluster Engine.Seq.
Import ListNotations.

Section Generic.
  Variable K : Type.
  Variable kh : forall e : eff, K -> K * resp e * list kev.
  Variable dresp : forall e : eff, resp e.

  Notation rstate := (rstate K).
  Notation step := (step K kh dresp).
  Notation run := (run K kh dresp).

  (* an invariant of the ledger alone *)
  Variable Inv : list release -> Prop.
  Hypothesis Inv_apply : forall (e : eff) l, Inv l -> Inv (fst (fst (storage_apply dresp e l))).

  Lemma step_ledger_cases f e (s : rstate) :
    led (fst (step f e s)) = led s \/ led (fst (step f e s)) = fst (fst (storage_apply dresp e (led s))).
  Proof.
    unfold Seq.step.
    destruct (negb (dead s) && (is_storage_write e || is_cluster_mutation e) && eq_opt (crash f) (nmut s)).
    - (* crash point reached: dead *)
      cbn [dead led].
      destruct (is_storage_write e || is_cluster_call e); simpl.
      + left; reflexivity.
      + destruct (storage_apply dresp e (led s)) as [[? ?] ?]. simpl. left; reflexivity.
    - destruct (dead s) eqn:Hd.
      + destruct (is_storage_write e || is_cluster_call e); simpl.
        * left; reflexivity.
        * destruct (storage_apply dresp e (led s)) as [[? ?] ?]. simpl. left; reflexivity.
      + destruct (is_cluster_call e).
        * destruct (kh e (ks s)) as [[? ?] ?]. simpl. left; reflexivity.
        * destruct (is_storage_write e).
          -- destruct (eq_opt (wfail f) (nwrites s)); simpl.
             ++ left; reflexivity.
             ++ destruct (storage_apply dresp e (led s)) as [[? ?] ?]. simpl. right; reflexivity.
          -- destruct (storage_apply dresp e (led s)) as [[? ?] ?]. simpl. left; reflexivity.
  Qed.

  Lemma step_inv f e (s : rstate) : Inv (led s) -> Inv (led (fst (step f e s))).
  Proof.
    intros H. destruct (step_ledger_cases f e s) as [E|E]; rewrite E; auto.
  Qed.

  Lemma run_inv {A} f (p : prog A) : forall s : rstate, Inv (led s) -> Inv (led (fst (run f p s))).
  Proof.
    induction p as [a|e k IH]; intros s H; simpl; auto.
    destruct (step f e s) as [s' r] eqn:E.
    apply IH. replace s' with (fst (step f e s)) by (rewrite E; reflexivity). now apply step_inv.
  Qed.
End Generic.

(* ---- revisions stay pairwise distinct ---- *)
Definition revs (l : list release) : list nat := map rev l.

Lemma has_rev_false_notin v l : has_rev v l = false -> ~ In v (revs l).
Proof.
  unfold has_rev, revs. intros H Hin. apply in_map_iff in Hin. destruct Hin as [r [Hr Hin]].
  assert (existsb (fun r0 => Nat.eqb (rev r0) v) l = true).
  { apply existsb_exists. exists r. split; auto. subst. apply Nat.eqb_refl. }
  congruence.
Qed.

Lemma revs_replace x l : revs (replace_rev x l) = revs l.
Proof.
  unfold revs, replace_rev. rewrite map_map. apply map_ext_in. intros r _.
  destruct (Nat.eqb (rev r) (rev x)) eqn:E; auto. apply Nat.eqb_eq in E. auto.
Qed.

Lemma NoDup_revs_remove v l : NoDup (revs l) -> NoDup (revs (remove_rev v l)).
Proof.
  unfold revs, remove_rev. induction l as [|r t IH]; simpl; auto.
  intros H. inversion H; subst. destruct (negb (Nat.eqb (rev r) v)); simpl; auto.
  constructor; auto. intros Hin. apply in_map_iff in Hin. destruct Hin as [x [Hx Hin]].
  apply filter_In in Hin. destruct Hin as [Hin _].
  match goal with H : ~ In (rev r) _ |- _ => apply H end. rewrite <- Hx. now apply in_map.
Qed.

Lemma storage_apply_nodup dresp e l :
  NoDup (revs l) -> NoDup (revs (fst (fst (storage_apply dresp e l)))).
Proof.
  intros H. destruct e; simpl; auto.
  - destruct (has_rev (rev r) l) eqn:E; simpl; auto.
    unfold revs. rewrite map_app. simpl.
    apply has_rev_false_notin in E.
    assert (G : forall (xs : list nat) (y : nat), NoDup xs -> ~ In y xs -> NoDup (xs ++ [y])).
    { clear. induction xs as [|x xs IH]; simpl; intros y Hn Hy.
      - constructor; [tauto|constructor].
      - inversion Hn; subst. constructor.
        + rewrite in_app_iff. simpl. intros [Hx|[Hx|[]]]; [tauto|]. subst. apply Hy. now left.
        + apply IH; auto. }
    apply G; auto.
  - destruct (has_rev (rev r) l); simpl; auto. now rewrite revs_replace.
  - destruct (has_rev v l); simpl; auto. now apply NoDup_revs_remove.
Qed.

Theorem run_revisions_unique :
  forall (K : Type) (kh : forall e : eff, K -> K * resp e * list kev) (dresp : forall e, resp e)
         (A : Type) (f : sfaults) (p : prog A) (s : rstate K),
    NoDup (revs (led s)) -> NoDup (revs (led (fst (run K kh dresp f p s)))).
Proof.
  intros. apply run_inv with (Inv := fun l => NoDup (revs l)); auto.
  intros e l Hl. now apply storage_apply_nodup.
Qed.

(* lifted to histories over the object-store cluster, with out-of-band edits *)
Lemma run_store_op_unique rn ns c w :
  NoDup (revs (w_led w)) -> NoDup (revs (w_led (fst (fst (run_store_op rn ns c w))))).
Proof.
  intros H. unfold run_store_op, run_op.
  destruct (run kstate (kube_handle rn ns) dead_resp (oc_sf c) (op_prog rn ns (oc_op c)) _) as [s out] eqn:E.
  simpl.
  pose proof (run_revisions_unique kstate (kube_handle rn ns) dead_resp outcome (oc_sf c)
                (op_prog rn ns (oc_op c))
                (mkR (w_led w) (mkK (w_objs w) (cf_k (oc_cf c)) (cf_h (oc_cf c)) (cf_wait (oc_cf c))) 0 0 false [])) as G.
  simpl in G. specialize (G H). rewrite E in G. exact G.
Qed.

Theorem history_revisions_unique rn ns :
  forall h w, NoDup (revs (w_led w)) ->
    Forall (fun x => NoDup (revs (w_led (fst (fst x))))) (run_history rn ns h w).
Proof.
  induction h as [|st h IH]; intros w H; simpl; [constructor|].
  destruct st as [c|e].
  - destruct (run_store_op rn ns c w) as [[w' out] tr] eqn:E.
    assert (Hw : NoDup (revs (w_led w'))).
    { pose proof (run_store_op_unique rn ns c w H) as G. rewrite E in G. exact G. }
    constructor; auto.
  - assert (Hw : NoDup (revs (w_led (apply_edit w e)))) by (destruct e; exact H).
    constructor; auto.
Qed.

(* C03 — the atomic-upgrade clause with HOOKS ENABLED, with the second disjunct of the K6
   exclusion (the upgrade failed after its deletion phase) and with a history limit.

   Part 1: what a hook run does to the object-store cluster when every hook it runs carries the
   before-hook-creation policy (the default policy) and no DELETE fault or hook fault is
   pending: it fails only by consuming the pending request fault; it never touches the wait
   fault; it changes objects only at the keys of its hooks. *)
From Coq Require Import List String Bool Arith ZArith Lia Permutation.
From Helm Require Import Common.Assoc Engine.Types Engine.Eff Engine.Ops Engine.Cluster Engine.Seq
  Engine.SeqProofs Engine.HooksProofsTrace Engine.HooksProofsGate Engine.ContainLedger Engine.ContainProofs
  Engine.ContainDeployed Engine.ContainCluster Engine.ContainWorld Engine.ContainAtomic Engine.ContainRollback
  Engine.ContainAtomicUp Engine.ContainAtomicReplace Engine.MatchDefs Engine.MatchUpdate Engine.ContainAtomicFull
  Engine.HooksProofsSort Engine.MatchSuccess.
Import ListNotations.
Local Open Scope prog_scope.

(* Client.update never touches the hook fault *)
Lemma kut_hfault : forall tgt k cur created pe muts,
  hfault (fst (fst (fst (fst (k_update_targets k cur tgt created pe muts))))) = hfault k.
Proof.
  induction tgt as [|r t IH]; simpl; intros k cur created pe muts; auto.
  destruct (fault_hits k VGet (rkey r)); auto.
  destruct (aget (rkey r) (objs k)).
  - destruct (find_res (rkey r) cur); auto.
    destruct (patch_needed (r_fields r0) (r_fields r) f); [|apply IH].
    destruct (fault_hits k VPatch (rkey r)); rewrite IH; auto.
  - destruct (fault_hits k VCreate (rkey r)); auto. rewrite IH. auto.
Qed.

Lemma kud_hfault : forall dels k muts, hfault (fst (k_update_deletes k dels muts)) = hfault k.
Proof.
  induction dels as [|r t IH]; simpl; intros k muts; auto.
  destruct (fault_hits k VGet (rkey r)); [rewrite IH; auto|].
  destruct (aget (rkey r) (objs k)); [|apply IH].
  destruct (live_keep f); [apply IH|].
  destruct (fault_hits k VDelete (rkey r)); rewrite IH; auto.
Qed.

Lemma k_update_hfault k cur tgt : hfault (fst (fst (k_update k cur tgt))) = hfault k.
Proof.
  unfold k_update.
  pose proof (kut_hfault tgt k cur [] false []) as H.
  destruct (k_update_targets k cur tgt [] false []) as [[[[k1 hard] pe] cr] m]. simpl in H.
  destruct (hard || pe); simpl; auto.
  pose proof (kud_hfault (filter (fun o => negb (in_keys (rkey o) tgt)) cur) k1 m) as H2.
  destruct (k_update_deletes k1 _ m) as [k2 m2]. simpl in *. congruence.
Qed.

Lemma nodel_none k : kfault k = None -> nodel k.
Proof. unfold nodel. intros ->. exact I. Qed.

(* ---- invariants of the fault plan under every cluster call ---- *)
Section Mono.
  Variable rn ns : string.
  Notation wrun := (wrun rn ns).
  Notation kstate_of := (kstate_of rn ns).

  (* a predicate on cluster states that every cluster call preserves is preserved by every run *)
  Lemma wrun_kinv (P : kstate -> Prop) :
    (forall e k, P k -> P (kstate_of e k)) ->
    forall A (p : prog A) l k l' k' a, wrun p l k l' k' a -> P k -> P k'.
  Proof. intros HP A p l k l' k' a H. induction H; auto. Qed.

  Lemma k_existing_wait : forall rs k take acc, waitfail (fst (k_existing rn ns k rs take acc)) = waitfail k.
  Proof.
    induction rs as [|r t IH]; simpl; intros k take acc; auto.
    destruct (fault_hits k VGet (rkey r)); auto.
    destruct (aget (rkey r) (objs k)); [|apply IH].
    destruct (take || owned_by rn ns f); [apply IH|reflexivity].
  Qed.

  Lemma k_create_wait : forall rs k ok muts, waitfail (fst (fst (k_create k rs ok muts))) = waitfail k.
  Proof.
    induction rs as [|r t IH]; simpl; intros k ok muts; auto.
    destruct (fault_hits k VCreate (rkey r)); [now rewrite IH|].
    destruct (amem (rkey r) (objs k)); now rewrite IH.
  Qed.

  Lemma k_delete_wait : forall rs k ok muts, waitfail (fst (fst (k_delete k rs ok muts))) = waitfail k.
  Proof.
    induction rs as [|r t IH]; simpl; intros k ok muts; auto.
    destruct (fault_hits k VDelete (rkey r)); [now rewrite IH|].
    destruct (amem (rkey r) (objs k)); now rewrite IH.
  Qed.

  (* the wait fault is only ever consumed *)
  Lemma kube_handle_wait e k : waitfail (kstate_of e k) = waitfail k \/ waitfail (kstate_of e k) = false.
  Proof.
    unfold ContainCluster.kstate_of. destruct e; simpl; auto.
    - pose proof (k_existing_wait rs k take []) as H.
      destruct (k_existing rn ns k rs take []) as [k' r]. simpl in *. auto.
    - destruct rs as [|x t]; auto.
      pose proof (k_create_wait (x :: t) k true []) as H.
      destruct (k_create k (x :: t) true []) as [[k' ok] m]. simpl in *. auto.
    - pose proof (k_update_wait k cur tgt) as H.
      destruct (k_update k cur tgt) as [[k' r] m]. simpl in *. auto.
    - destruct rs as [|x t]; auto.
      pose proof (k_delete_wait (x :: t) k true []) as H.
      destruct (k_delete k (x :: t) true []) as [[k' ok] m]. simpl in *. auto.
    - destruct (waitfail k) eqn:E; simpl; auto.
    - destruct (hfault k) as [[n cnt]|]; auto.
      destruct (String.eqb n (h_name h)); auto. destruct cnt; simpl; auto.
  Qed.

  (* calm: no request fault and no wait fault pending *)
  Definition calm (k : kstate) : Prop := kfault k = None /\ waitfail k = false.

  Lemma wrun_calm {A} (p : prog A) l k l' k' a : wrun p l k l' k' a -> calm k -> calm k'.
  Proof.
    apply (wrun_kinv calm). intros e k0 [Hf Hw]. split.
    - destruct (kube_handle_fault rn ns e k0) as [E|E]; congruence.
    - destruct (kube_handle_wait e k0) as [E|E]; congruence.
  Qed.

  Lemma wrun_nofault {A} (p : prog A) l k l' k' a : wrun p l k l' k' a -> kfault k = None -> kfault k' = None.
  Proof.
    apply (wrun_kinv (fun k => kfault k = None)). intros e k0 Hf.
    destruct (kube_handle_fault rn ns e k0) as [E|E]; congruence.
  Qed.

  Lemma wrun_nowait {A} (p : prog A) l k l' k' a : wrun p l k l' k' a -> waitfail k = false -> waitfail k' = false.
  Proof.
    apply (wrun_kinv (fun k => waitfail k = false)). intros e k0 Hw.
    destruct (kube_handle_wait e k0) as [E|E]; congruence.
  Qed.

  (* the hook fault is only ever consumed: once none is pending, none ever is *)
  Lemma k_existing_hf : forall rs k take acc, hfault (fst (k_existing rn ns k rs take acc)) = hfault k.
  Proof.
    induction rs as [|r t IH]; simpl; intros k take acc; auto.
    destruct (fault_hits k VGet (rkey r)); auto.
    destruct (aget (rkey r) (objs k)); [|apply IH].
    destruct (take || owned_by rn ns f); [apply IH|reflexivity].
  Qed.

  Lemma k_create_hf : forall rs k ok muts, hfault (fst (fst (k_create k rs ok muts))) = hfault k.
  Proof.
    induction rs as [|r t IH]; simpl; intros k ok muts; auto.
    destruct (fault_hits k VCreate (rkey r)); [now rewrite IH|].
    destruct (amem (rkey r) (objs k)); now rewrite IH.
  Qed.

  Lemma k_delete_hf : forall rs k ok muts, hfault (fst (fst (k_delete k rs ok muts))) = hfault k.
  Proof.
    induction rs as [|r t IH]; simpl; intros k ok muts; auto.
    destruct (fault_hits k VDelete (rkey r)); [now rewrite IH|].
    destruct (amem (rkey r) (objs k)); now rewrite IH.
  Qed.

  Lemma kube_handle_nohf e k : hfault k = None -> hfault (kstate_of e k) = None.
  Proof.
    intros Hh. unfold ContainCluster.kstate_of. destruct e; simpl; auto.
    - pose proof (k_existing_hf rs k take []) as H.
      destruct (k_existing rn ns k rs take []) as [k' r]. simpl in *. congruence.
    - destruct rs as [|x t]; auto.
      pose proof (k_create_hf (x :: t) k true []) as H.
      destruct (k_create k (x :: t) true []) as [[k' ok] m]. simpl in *. congruence.
    - pose proof (k_update_hfault k cur tgt) as H.
      destruct (k_update k cur tgt) as [[k' r] m]. simpl in *. congruence.
    - destruct rs as [|x t]; auto.
      pose proof (k_delete_hf (x :: t) k true []) as H.
      destruct (k_delete k (x :: t) true []) as [[k' ok] m]. simpl in *. congruence.
    - destruct (waitfail k) eqn:E; simpl; auto.
    - rewrite Hh. simpl. exact Hh.
  Qed.

  Lemma wrun_nohf {A} (p : prog A) l k l' k' a : wrun p l k l' k' a -> hfault k = None -> hfault k' = None.
  Proof. apply (wrun_kinv (fun k => hfault k = None)). intros e k0. apply kube_handle_nohf. Qed.
End Mono.

(* ---- hook runs in the object store ---- *)
Definition crd_kind : string := "CustomResourceDefinition"%string.

(* a hook that is deleted before it is created again: the default policy *)
Definition good_hook (h : hook) : Prop :=
  has_policy h BeforeHookCreation = true /\ String.eqb (h_kind h) crd_kind = false.

Definition hkey (h : hook) : string := rkey (h_res h).

(* what hook-related calls may do to the cluster: the hook and wait faults stay, the request
   fault is at most consumed, objects change only at the listed keys *)
Definition hook_rel (keys : list string) (k k' : kstate) : Prop :=
  hfault k' = hfault k /\ waitfail k' = waitfail k /\ fault_le k' k /\
  forall key, ~ In key keys -> aget key (objs k') = aget key (objs k).

Lemma hook_rel_refl keys k : hook_rel keys k k.
Proof. repeat split; auto. apply fault_le_refl. Qed.

Lemma hook_rel_trans keys a b c : hook_rel keys a b -> hook_rel keys b c -> hook_rel keys a c.
Proof.
  intros (H1 & H2 & H3 & H4) (G1 & G2 & G3 & G4). repeat split; try congruence.
  - eapply fault_le_trans; eauto.
  - intros key Hk. rewrite G4, H4; auto.
Qed.

Lemma hook_rel_mono keys keys' k k' : (forall x, In x keys -> In x keys') -> hook_rel keys k k' -> hook_rel keys' k k'.
Proof. intros Hs (H1 & H2 & H3 & H4). repeat split; auto. Qed.

Lemma hook_rel_nodel keys k k' : hook_rel keys k k' -> nodel k -> nodel k'.
Proof. intros (_ & _ & H & _). now apply nodel_le. Qed.

Section Hooks.
  Variable rn ns : string.
  Notation wrun := (wrun rn ns).
  Notation kstate_of := (kstate_of rn ns).
  Notation kresp_of := (kresp_of rn ns).

  Ltac wbind H l1 k1 a H1 := apply wrun_bind_inv in H; destruct H as (l1 & k1 & a & H1 & H).
  Ltac wret H := apply wrun_ret_inv in H; destruct H as (? & ? & ?); subst.
  Ltac wsto H := apply wrun_storage_inv in H; [|reflexivity].
  Ltac wclu H := apply wrun_cluster_inv in H; [|reflexivity].

  (* deleting one resource when no DELETE fault is pending *)
  Lemma delete_one r k : nodel k ->
    kresp_of (KDelete [r]) k = true /\
    kfault (kstate_of (KDelete [r]) k) = kfault k /\
    hook_rel [rkey r] k (kstate_of (KDelete [r]) k) /\
    amem (rkey r) (objs (kstate_of (KDelete [r]) k)) = false.
  Proof.
    intros Hn. unfold ContainCluster.kresp_of, ContainCluster.kstate_of. cbn [kube_handle k_delete].
    rewrite (nodel_hits _ _ Hn).
    destruct (amem (rkey r) (objs k)) eqn:E; cbn [fst snd].
    - split; auto. split; auto. split.
      + repeat split; auto; [apply fault_le_objs|].
        intros key Hk. cbn [objs set_objs]. apply aget_adel_neq. intros E2. apply Hk. left. exact E2.
      + cbn [objs set_objs]. apply amem_adel_same.
    - split; auto. split; auto. split; [apply hook_rel_refl|exact E].
  Qed.

  Lemma delete_hook_calm h p l k l' k' ok :
    nodel k -> wrun (delete_hook_by_policy h p) l k l' k' ok ->
    ok = true /\ l' = l /\ kfault k' = kfault k /\ hook_rel [hkey h] k k' /\
    (has_policy h p = true -> String.eqb (h_kind h) crd_kind = false -> amem (hkey h) (objs k') = false).
  Proof.
    intros Hn H. unfold delete_hook_by_policy in H. fold crd_kind in H.
    destruct (String.eqb (h_kind h) crd_kind) eqn:Ec.
    { wret H. split; [auto|]. split; [auto|]. split; [auto|]. split; [apply hook_rel_refl|]. intros; discriminate. }
    destruct (has_policy h p) eqn:Ep.
    2:{ wret H. split; [auto|]. split; [auto|]. split; [auto|]. split; [apply hook_rel_refl|]. intros; discriminate. }
    unfold perform in H. cbn [bind] in H. wclu H.
    destruct (delete_one (h_res h) k Hn) as (Er & Ef & Hrel & Ha). rewrite Er in H.
    wclu H. wret H.
    unfold ContainCluster.kstate_of at 1 2 3 4. cbn [kube_handle fst snd].
    repeat split; auto; try apply Hrel.
  Qed.

  Lemma delete_hooks_calm p : forall hs l k l' k' ok,
    nodel k -> wrun (delete_hooks_by_policy hs p) l k l' k' ok ->
    ok = true /\ l' = l /\ kfault k' = kfault k /\ hook_rel (map hkey hs) k k'.
  Proof.
    induction hs as [|h t IH]; intros l k l' k' ok Hn H; simpl in H.
    - wret H. split; [auto|]. split; [auto|]. split; [auto|]. apply hook_rel_refl.
    - wbind H l1 k1 ok1 H1.
      destruct (delete_hook_calm _ _ _ _ _ _ _ Hn H1) as (-> & -> & Ef1 & Hr1 & _).
      assert (Hn1 : nodel k1) by (eapply hook_rel_nodel; eauto).
      destruct (IH _ _ _ _ _ Hn1 H) as (-> & -> & Ef2 & Hr2).
      split; [auto|]. split; [auto|]. split; [congruence|].
      eapply hook_rel_trans.
      + eapply hook_rel_mono; [|exact Hr1]. intros x [<-|[]]. now left.
      + eapply hook_rel_mono; [|exact Hr2]. intros x Hx. now right.
  Qed.

  (* creating one absent resource: fails only by consuming the pending request fault *)
  Lemma create_one r k : amem (rkey r) (objs k) = false ->
    hook_rel [rkey r] k (kstate_of (KCreate [r]) k) /\
    ((kresp_of (KCreate [r]) k = true /\ kfault (kstate_of (KCreate [r]) k) = kfault k)
     \/ (kresp_of (KCreate [r]) k = false /\ kfault k <> None /\ kfault (kstate_of (KCreate [r]) k) = None)).
  Proof.
    intros Ha. unfold ContainCluster.kresp_of, ContainCluster.kstate_of. cbn [kube_handle k_create].
    destruct (fault_hits k VCreate (rkey r)) eqn:Ef; cbn [fst snd].
    - split.
      + split; [auto|]. split; [auto|]. split; [apply fault_le_clear|auto].
      + right. split; auto. split; auto.
        unfold fault_hits in Ef. destruct (kfault k); [discriminate|discriminate].
    - rewrite Ha. cbn [fst snd]. split.
      + split; [auto|]. split; [auto|]. split; [apply fault_le_objs|].
        intros key Hk. cbn [objs set_objs]. apply aget_aset_neq. intros E2. apply Hk. left. exact E2.
      + left. auto.
  Qed.

  Lemma watch_calm ev h k : hfault k = None ->
    kresp_of (KHookWatch ev h) k = true /\ kstate_of (KHookWatch ev h) k = k.
  Proof.
    intros Hh. unfold ContainCluster.kresp_of, ContainCluster.kstate_of. cbn [kube_handle]. rewrite Hh. auto.
  Qed.

  Lemma in_map_rev {A B} (f : A -> B) (l : list A) x : In x (map f (List.rev l)) -> In x (map f l).
  Proof. rewrite map_rev. intros H. now apply in_rev in H. Qed.

  (* the hook loop: with no DELETE fault and no hook fault pending, and every hook still to run
     deleted before its creation, the run fails only by consuming the request fault *)
  Lemma loop_calm rl ev : forall todo done l k l' k' b,
    nodel k -> hfault k = None -> Forall good_hook todo ->
    wrun (exec_hooks_loop rl ev todo done) l k l' k' b ->
    hook_rel (map hkey (todo ++ done)) k k' /\ (b = false -> kfault k <> None /\ kfault k' = None).
  Proof.
    induction todo as [|h t IH]; intros done l k l' k' b Hn Hh Hg H; simpl in H.
    - destruct (delete_hooks_calm _ _ _ _ _ _ _ Hn H) as (-> & _ & _ & Hr). split; [|discriminate].
      eapply hook_rel_mono; [|exact Hr]. intros x Hx. simpl. now apply in_map_rev.
    - inversion Hg as [|? ? [Hpol Hcrd] Hg']; subst.
      wbind H l1 k1 ok1 H1.
      destruct (delete_hook_calm _ _ _ _ _ _ _ Hn H1) as (-> & -> & Ef1 & Hr1 & Habs).
      specialize (Habs Hpol Hcrd). cbn [negb] in H.
      apply wrun_supdate in H. wclu H.
      destruct (create_one (h_res h) k1 Habs) as [Hr2 Hc].
      assert (Hkeys1 : forall x, In x [hkey h] -> In x (map hkey ((h :: t) ++ done))) by (intros x [<-|[]]; now left).
      destruct Hc as [[Er Ef2]|[Er [Ef2 Ef3]]]; rewrite Er in H; cbn [negb] in H.
      + (* created *)
        set (k2 := kstate_of (KCreate [h_res h]) k1) in *.
        assert (Hr12 : hook_rel (map hkey ((h :: t) ++ done)) k k2).
        { eapply hook_rel_trans; eapply hook_rel_mono; eauto. }
        assert (Hh2 : hfault k2 = None) by (destruct Hr12 as (E & _); congruence).
        wclu H. destruct (watch_calm ev h k2 Hh2) as [Ew Es]. rewrite Ew, Es in H.
        assert (Hn2 : nodel k2) by (eapply hook_rel_nodel; eauto).
        destruct (IH _ _ _ _ _ _ Hn2 Hh2 Hg' H) as [Hr3 Hb].
        split.
        * eapply hook_rel_trans; [exact Hr12|]. eapply hook_rel_mono; [|exact Hr3].
          intros x Hx. rewrite map_app in Hx. apply in_app_or in Hx. simpl. rewrite map_app.
          destruct Hx as [Hx|Hx]; [right; apply in_or_app; now left|].
          rewrite map_app in Hx. apply in_app_or in Hx. destruct Hx as [Hx|[<-|[]]]; [right; apply in_or_app; now right|now left].
        * intros Eb. destruct (Hb Eb) as [G1 G2]. split; auto. congruence.
      + (* the creation was rejected *)
        wret H. split.
        * eapply hook_rel_trans; eapply hook_rel_mono; eauto.
        * intros _. split; [congruence|exact Ef3].
  Qed.

  (* the keys a hook run may touch: none when hooks are disabled *)
  Definition hook_keys (fl : flags) (rl : release) (ev : event) : list string :=
    if f_no_hooks fl then [] else map hkey (hooks_for ev (hooks rl)).

  (* run_hooks: the same, with the disabled case *)
  Lemma run_hooks_calm fl rl ev l k l' k' b :
    nodel k -> hfault k = None ->
    (f_no_hooks fl = true \/ Forall good_hook (hooks_for ev (hooks rl))) ->
    wrun (run_hooks fl rl ev) l k l' k' b ->
    hook_rel (hook_keys fl rl ev) k k' /\ (b = false -> kfault k <> None /\ kfault k' = None).
  Proof.
    intros Hn Hh Hg H. unfold run_hooks in H. unfold hook_keys. destruct (f_no_hooks fl) eqn:En.
    - wret H. split; [apply hook_rel_refl|discriminate].
    - destruct Hg as [Hg|Hg]; [discriminate|].
      unfold exec_hook in H.
      assert (Hperm : forall x, In x (sort_hooks (hooks_for ev (hooks rl))) -> In x (hooks_for ev (hooks rl))).
      { intros x Hx. eapply Permutation_in; [apply sort_hooks_perm|exact Hx]. }
      assert (Hg2 : Forall good_hook (sort_hooks (hooks_for ev (hooks rl)))).
      { apply Forall_forall. intros x Hx. rewrite Forall_forall in Hg. apply Hg. now apply Hperm. }
      destruct (loop_calm _ _ _ _ _ _ _ _ _ Hn Hh Hg2 H) as [Hr Hb]. split; auto.
      eapply hook_rel_mono; [|exact Hr]. intros x Hx. rewrite app_nil_r in Hx.
      apply in_map_iff in Hx. destruct Hx as (y & <- & Hy). apply in_map. now apply Hperm.
  Qed.
End Hooks.

(* ---- Part 2: the automatic rollback from a calm cluster ---- *)
Lemma aget_delete_all_objs key : forall rs o, aget key (delete_all_objs o rs) <> None -> aget key o <> None.
Proof.
  induction rs as [|r t IH]; simpl; intros o H; auto.
  apply IH in H. destruct (String.eqb (rkey r) key) eqn:E.
  - apply String.eqb_eq in E. subst key. now rewrite aget_adel_eq in H.
  - apply String.eqb_neq in E. now rewrite aget_adel_neq in H.
Qed.

Lemma max_rev_of_some l x : In x l -> exists m, max_rev_of l = Some m.
Proof.
  destruct l as [|y t]; [contradiction|]. intros _. simpl.
  destruct (max_rev_of t) as [m|]; [destruct (Nat.ltb (rev m) (rev y))|]; eauto.
Qed.

(* the highest good revision of a ledger is the highest good revision of every part that still holds it *)
Lemma max_good_sub l0 l1 g :
  NoDup (revs l0) -> sub l1 l0 -> In g l1 ->
  max_rev_of (filter isgood l0) = Some g -> max_rev_of (filter isgood l1) = Some g.
Proof.
  intros Hnd Hs Hg Hm.
  assert (Hg0 : In g (filter isgood l0)) by (now apply max_rev_of_in).
  apply filter_In in Hg0. destruct Hg0 as [Hg0 Hgood].
  assert (Hg1 : In g (filter isgood l1)) by (apply filter_In; auto).
  destruct (max_rev_of_some _ _ Hg1) as [m Em]. rewrite Em. f_equal.
  pose proof (max_rev_of_in _ _ Em) as Hm1. apply filter_In in Hm1. destruct Hm1 as [Hm1 Hmg].
  pose proof (max_rev_of_ge _ _ Em _ Hg1) as G1.
  assert (Hm0 : In m (filter isgood l0)) by (apply filter_In; auto).
  pose proof (max_rev_of_ge _ _ Hm _ Hm0) as G2.
  eapply nodup_same_rev; eauto. lia.
Qed.

Lemma lrun_nodup dresp {A} (p : prog A) l l' a :
  @lrun dresp A p l l' a -> NoDup (revs l) -> NoDup (revs l').
Proof.
  intros H. induction H; auto. intros Hn. apply IHlrun. unfold sled. now apply storage_apply_nodup.
Qed.

Lemma nodup_app_l (l : list release) x : NoDup (revs (l ++ [x])) -> NoDup (revs l).
Proof.
  unfold revs. rewrite map_app. generalize (map rev l). clear.
  induction l as [|a t IH]; simpl; intros H; [constructor|].
  inversion H; subst. constructor; [|auto]. intros Hin. apply H2. apply in_or_app. now left.
Qed.

Lemma upd_sub_stable l0 l1 cur up :
  NoDup (revs l0) -> sub l1 l0 -> In cur l0 -> rev cur <> rev up ->
  lupd cur (l1 ++ [up]) = (l1 ++ [up])%list.
Proof.
  intros Hnd Hs Hc Hne. unfold lupd. destruct (has_rev (rev cur) (l1 ++ [up])); auto.
  unfold replace_rev. rewrite <- (map_id (l1 ++ [up])) at 2. apply map_ext_in.
  intros y Hy. destruct (Nat.eqb (rev y) (rev cur)) eqn:E; auto.
  apply Nat.eqb_eq in E. apply in_app_or in Hy. destruct Hy as [Hy|[<-|[]]].
  - symmetry. eapply nodup_same_rev; eauto.
  - congruence.
Qed.

Section Recover.
  Variable rn ns : string.
  Notation wrun := (wrun rn ns).
  Notation calm := calm.

  Ltac wbind H l1 k1 a H1 := apply wrun_bind_inv in H; destruct H as (l1 & k1 & a & H1 & H).
  Ltac wret H := apply wrun_ret_inv in H; destruct H as (? & ? & ?); subst.
  Ltac wsto H := apply wrun_storage_inv in H; [|reflexivity].
  Ltac wclu H := apply wrun_cluster_inv in H; [|reflexivity].
  Ltac case_if H := match type of H with ContainWorld.wrun _ _ (if ?c then _ else _) _ _ _ _ _ => destruct c eqn:? end.

  (* the flags Upgrade.failRelease gives the rollback: everything off, the hook switch inherited *)
  Definition rec_flags (nh : bool) (ver : nat) : flags := mkFlags false false false false 0 nh false false false ver.

  (* K9 excluded: the rollback hooks of the revision rolled back to cannot fail — hooks are
     disabled, or it has none, or no hook fault is pending and each of them is deleted before
     it is created (the default policy) and sits on no key of the two manifests involved *)
  Definition rb_good (pr : release) (curm : list res) : Prop :=
    Forall good_hook (hooks_for PreRollback (hooks pr)) /\ Forall good_hook (hooks_for PostRollback (hooks pr)) /\
    forall h, In h (hooks_for PreRollback (hooks pr) ++ hooks_for PostRollback (hooks pr)) ->
              in_keys (hkey h) (manifest pr) = false /\ in_keys (hkey h) curm = false.

  Definition rb_ok (nh : bool) (pr : release) (curm : list res) (k : kstate) : Prop :=
    nh = true \/ (hooks_for PreRollback (hooks pr) = [] /\ hooks_for PostRollback (hooks pr) = []) \/
    (hfault k = None /\ rb_good pr curm).

  (* one hook run of the recovery, from a calm cluster: it succeeds, the cluster stays calm, and
     objects change only at hook keys *)
  Lemma rec_hooks_step fl' tgt ev l2 k l3 k3 b :
    lupd tgt l2 = l2 -> calm k ->
    (f_no_hooks fl' = true \/ hooks_for ev (hooks tgt) = [] \/
     (hfault k = None /\ Forall good_hook (hooks_for ev (hooks tgt)))) ->
    wrun (run_hooks fl' tgt ev) l2 k l3 k3 b ->
    l3 = l2 /\ b = true /\ calm k3 /\ hfault k3 = hfault k /\
    (forall key, ~ In key (hook_keys fl' tgt ev) -> aget key (objs k3) = aget key (objs k)).
  Proof.
    intros Hs [Hf Hw] Hc H.
    destruct Hc as [E|[E|[Hh Hg]]].
    - rewrite (run_hooks_nothing fl' tgt ev (or_introl E)) in H. wret H. repeat split; auto.
    - rewrite (run_hooks_nothing fl' tgt ev (or_intror E)) in H. wret H. repeat split; auto.
    - destruct (hooks_world_stable rn ns fl' tgt ev l2 k l3 k3 b Hs H) as [-> _].
      destruct (run_hooks_calm rn ns _ _ _ _ _ _ _ _ (nodel_none _ Hf) Hh (or_intror Hg) H) as [(Eh & Ew & Efl & Hfr) Hb].
      assert (Hf3 : kfault k3 = None) by (destruct Efl as [E|E]; congruence).
      split; auto. split.
      { destruct b; auto. destruct (Hb eq_refl) as [G _]. congruence. }
      split; [split; congruence|]. split; auto.
  Qed.

  (* the automatic rollback from a calm cluster.  K6 excluded in its general form: no resource of
     the rollback target is live and unknown to the revision the rollback starts from *)
  Lemma rollback_recovers nh ver l k l' k' out cur pr :
    ver <> 0 -> calm k ->
    max_rev_of l = Some cur -> find (fun r => Nat.eqb (rev r) ver) l = Some pr ->
    has_rev (S (rev cur)) l = false ->
    NoDup (map rkey (manifest pr)) ->
    rb_ok nh pr (manifest cur) k ->
    (forall t, In t (manifest pr) -> aget (rkey t) (objs k) <> None -> in_keys (rkey t) (manifest cur) = true) ->
    wrun (rollback rn ns (rec_flags nh ver)) l k l' k' out ->
    out = OOk /\
    In (with_status (tgt_of cur pr) SDeployed) l' /\
    exists kr k1 cr muts,
      kfault kr = None /\
      k_update kr (manifest cur) (stamp_all rn ns (manifest pr)) = (k1, (true, cr), muts) /\
      forall key, in_keys key (manifest pr) = true \/ in_keys key (manifest cur) = true ->
                  aget key (objs k') = aget key (objs k1).
  Proof.
    intros Hver Hcalm Hmax Hfind Hfresh Hnd Hhk Hk6 H.
    unfold rollback in H. cbn [f_dry_run f_version f_max_history rec_flags f_cleanup] in H.
    cbv beta iota zeta in H.
    wsto H. unfold sresp, sled in H. cbn [storage_apply fst snd] in H. rewrite Hmax in H.
    destruct ver as [|ver']; [congruence|]. set (ver := S ver') in *.
    wsto H. unfold sresp, sled in H. cbn [storage_apply fst snd] in H.
    rewrite (existsb_find_rev ver l) in H by (rewrite Hfind; discriminate). cbn [negb] in H.
    wsto H. unfold sresp, sled in H. cbn [storage_apply fst snd] in H. rewrite Hfind in H.
    fold (tgt_of cur pr) in H. set (tgt := tgt_of cur pr) in *.
    wbind H ld kd e He.
    unfold storage_create, perform in He. wsto He. unfold sresp, sled in He. cbn [storage_apply] in He.
    change (rev tgt) with (S (rev cur)) in He. rewrite Hfresh in He. cbn [fst snd] in He. wret He.
    set (l2 := (l ++ [tgt])%list) in *.
    assert (Hs2 : lupd tgt l2 = l2).
    { apply upd_last_stable. exact Hfresh. }
    (* what the hypothesis on the rollback hooks says for one event, at a state without hook fault *)
    assert (Hev : forall fl' ev kx, f_no_hooks fl' = nh -> ev = PreRollback \/ ev = PostRollback ->
                    (hfault k = None -> hfault kx = None) ->
                    f_no_hooks fl' = true \/ hooks_for ev (hooks tgt) = [] \/
                    (hfault kx = None /\ Forall good_hook (hooks_for ev (hooks tgt)))).
    { intros fl' ev kx Efl Hevs Hhx. change (hooks tgt) with (hooks pr).
      destruct Hhk as [->|[[E1 E2]|[Hh (G1 & G2 & _)]]]; [left; exact Efl| |].
      - right. left. destruct Hevs as [->| ->]; assumption.
      - right. right. split; auto. destruct Hevs as [->| ->]; assumption. }
    (* the keys of the two manifests are no hook keys *)
    assert (Hdis : forall fl' ev key, f_no_hooks fl' = nh -> ev = PreRollback \/ ev = PostRollback ->
                     in_keys key (manifest pr) = true \/ in_keys key (manifest cur) = true ->
                     ~ In key (hook_keys fl' tgt ev)).
    { intros fl' ev key Efl Hevs Hk. unfold hook_keys. rewrite Efl. change (hooks tgt) with (hooks pr).
      destruct Hhk as [->|[[E1 E2]|[_ (_ & _ & Hd)]]]; [intros []| |].
      - destruct nh; [intros []|]. destruct Hevs as [->| ->]; [rewrite E1|rewrite E2]; intros [].
      - destruct nh; [intros []|]. intros Hin. apply in_map_iff in Hin. destruct Hin as (h & <- & Hh).
        assert (Hh' : In h (hooks_for PreRollback (hooks pr) ++ hooks_for PostRollback (hooks pr))).
        { apply in_or_app. destruct Hevs as [->| ->]; auto. }
        destruct (Hd h Hh') as [D1 D2]. destruct Hk as [Hk|Hk]; congruence. }
    (* the pre-rollback hooks *)
    wbind H l3 k1 pre Hpre.
    match type of Hpre with ContainWorld.wrun _ _ (run_hooks ?f _ _) _ _ _ _ _ => set (rfl := f) in * end.
    destruct (rec_hooks_step rfl tgt PreRollback l2 k l3 k1 pre Hs2 Hcalm
                (Hev rfl PreRollback k eq_refl (or_introl eq_refl) (fun E => E)) Hpre)
      as (-> & -> & [Hnf Hwf] & Hh1 & Hfr1).
    cbn [negb] in H. cbv beta iota in H.
    (* the update *)
    wclu H.
    destruct (kh_update rn ns (manifest cur) (stamp_all rn ns (manifest tgt)) k1) as [Er Es].
    rewrite Er, Es in H. clear Er Es.
    change (manifest tgt) with (manifest pr) in H.
    destruct (k_update k1 (manifest cur) (stamp_all rn ns (manifest pr))) as [[k2 [ok cr]] muts] eqn:EU.
    cbn [fst snd] in H.
    assert (Hnd' : NoDup (map rkey (stamp_all rn ns (manifest pr)))).
    { unfold stamp_all. rewrite map_map. simpl. exact Hnd. }
    assert (Hok : ok = true).
    { destruct ok; auto. exfalso.
      pose proof (proj1 (update_fails_iff k1 (manifest cur) _ Hnf Hnd')) as G. rewrite EU in G. simpl in G.
      destruct (G eq_refl) as (t & Ht & Hl & Hf).
      unfold stamp_all in Ht. apply in_map_iff in Ht. destruct Ht as (t0 & <- & Ht0).
      assert (Hl0 : aget (rkey t0) (objs k) <> None).
      { rewrite <- (Hfr1 (rkey t0)); [exact Hl|].
        apply (Hdis rfl PreRollback); auto. left. now apply in_keys_In. }
      apply (in_keys_find_res _ _ (Hk6 t0 Ht0 Hl0)). exact Hf. }
    subst ok. cbn [negb] in H. cbv beta iota in H.
    destruct (k_update_nofault _ _ _ _ _ _ _ Hnf EU) as (Hnf2 & Hh2 & Hw2 & _).
    (* the wait *)
    unfold perform in H. cbn [bind] in H. wclu H.
    destruct (kh_wait rn ns (stamp_all rn ns (manifest pr)) k2) as (Er & Ef & Ew & Eo).
    rewrite Er, Hw2, Hwf in H. cbn [negb] in H. cbv beta iota in H.
    set (k3 := kstate_of rn ns (KWait (stamp_all rn ns (manifest pr))) k2) in *.
    assert (Hh3 : hfault k3 = hfault k2).
    { unfold k3, ContainCluster.kstate_of. cbn [kube_handle]. destruct (waitfail k2); reflexivity. }
    assert (Hc3 : calm k3) by (split; [unfold nofault in Hnf2; congruence|exact Ew]).
    (* the post-rollback hooks *)
    wbind H l4 k4 post Hpost.
    destruct (rec_hooks_step rfl tgt PostRollback l2 k3 l4 k4 post Hs2 Hc3
                (Hev rfl PostRollback k3 eq_refl (or_intror eq_refl) (fun E => ltac:(congruence))) Hpost)
      as (-> & -> & _ & _ & Hfr4).
    cbv beta iota in H.
    (* the records *)
    wsto H. unfold sresp, sled in H. cbn [storage_apply fst snd] in H.
    wbind H l5 k5 u Hs. apply wrun_supersede_all in Hs. destruct Hs as [-> ->].
    wsto H. unfold sresp, sled in H. cbn [storage_apply] in H.
    assert (Hh5 : has_rev (rev (with_status tgt SDeployed))
                          (supersede (filter (fun r => status_eqb (st r) SDeployed) l2) l2) = true).
    { apply has_rev_revs. rewrite revs_supersede. unfold l2, revs. rewrite map_app. apply in_or_app. right. now left. }
    rewrite Hh5 in H. cbn [fst snd] in H. wret H.
    split; auto. split.
    - fold (lupd (with_status tgt SDeployed) (supersede (filter (fun r => status_eqb (st r) SDeployed) l2) l2)).
      pose proof (in_upd_self (with_status tgt SDeployed) _ Hh5) as G. unfold lupd in G. rewrite Hh5 in G. exact G.
    - exists k1, k2, cr, muts. split; [exact Hnf|]. split; auto.
      intros key Hk. rewrite (Hfr4 key) by (apply (Hdis rfl PostRollback); auto). now rewrite Eo.
  Qed.

  (* what the recovery achieves: the new deployed revision, and the update that produced the final
     objects at the keys of the two manifests *)
  Definition restored' (mani : list res) (up g : release) (l' : list release) (k' : kstate) : Prop :=
    In (with_status (tgt_of (with_status up SFailed) g) SDeployed) l' /\
    exists kr k1 cr muts,
      kfault kr = None /\
      k_update kr mani (stamp_all rn ns (manifest g)) = (k1, (true, cr), muts) /\
      forall key, in_keys key (manifest g) = true \/ in_keys key mani = true -> aget key (objs k') = aget key (objs k1).

  (* Upgrade.failRelease with --atomic, from a calm cluster, on a ledger l1 ++ [up] *)
  Lemma upgrade_fail_recovers fl up created l1 g k l' k' out :
    f_atomic fl = true ->
    NoDup (revs l1) -> (forall x, In x l1 -> rev x <> 0) -> (forall x, In x l1 -> rev x < rev up) ->
    max_rev_of (filter isgood l1) = Some g ->
    NoDup (map rkey (manifest g)) ->
    rb_ok (f_no_hooks fl) g (manifest up) k ->
    calm k ->
    (forall t, In t (manifest g) -> aget (rkey t) (objs k) <> None -> in_keys (rkey t) (manifest up) = true) ->
    wrun (upgrade_fail rn ns fl up created) (l1 ++ [up]) k l' k' out ->
    restored' (manifest up) up g l' k'.
  Proof.
    intros Hat Hnd Hnz Hlt Hg HndG Hhk [Hnf Hwf] Hk6 H.
    assert (Hh : has_rev (rev up) l1 = false).
    { destruct (has_rev (rev up) l1) eqn:E; auto. apply has_rev_revs in E.
      unfold revs in E. apply in_map_iff in E. destruct E as (x & Ex & Hx). specialize (Hlt x Hx). lia. }
    unfold upgrade_fail in H. rewrite Hat in H.
    wbind H l2 k2 u Hr. apply wrun_record_release in Hr. destruct Hr as [-> ->].
    rewrite (upd_snoc_status up SFailed l1 Hh) in H.
    set (upF := with_status up SFailed) in *.
    set (l3 := (l1 ++ [upF])%list) in *.
    wbind H l4 k4 cleaned Hc.
    assert (l4 = l3 /\ cleaned = true /\ kfault k4 = None /\ waitfail k4 = false /\ hfault k4 = hfault k /\
            (forall key, aget key (objs k4) <> None -> aget key (objs k) <> None))
      as (-> & -> & Hnf4 & Hwf4 & Hhf4 & Hsub4).
    { case_if Hc.
      - apply andb_true_iff in Heqb. destruct Heqb as [_ Hne].
        assert (Hne' : created <> []) by (destruct created; [discriminate|discriminate]).
        unfold perform in Hc. wclu Hc. wret Hc.
        destruct (kh_delete rn ns created k Hne') as [Er Es]. rewrite Er, Es.
        destruct (k_delete k created true []) as [[kd okd] md] eqn:ED. cbn [fst snd].
        destruct (k_delete_nofault _ _ _ _ _ _ _ Hnf ED) as (Hn' & Hh' & Hw' & -> & Eo).
        repeat split; auto; try congruence.
        intros key Hl. rewrite Eo in Hl. eapply aget_delete_all_objs; eauto.
      - wret Hc. repeat split; auto. }
    clear Hc. cbv beta iota delta [negb] in H.
    wsto H. unfold sresp, sled in H. cbn [storage_apply fst snd] in H.
    assert (Egood : filter (fun r => status_eqb (st r) SSuperseded || status_eqb (st r) SDeployed) l3 = filter isgood l1).
    { unfold l3. rewrite filter_app. simpl. rewrite app_nil_r. reflexivity. }
    rewrite Egood, Hg in H.
    assert (Hgin : In g l1).
    { apply max_rev_of_in in Hg. apply filter_In in Hg. tauto. }
    wbind H l5 k5 r Hroll. wret H.
    fold (rec_flags (f_no_hooks fl) (rev g)) in Hroll.
    assert (Hnd3 : NoDup (revs l3)) by (apply nodup_snoc; auto).
    assert (Hmax3 : max_rev_of l3 = Some upF) by (apply max_rev_of_snoc; exact Hlt).
    assert (Hfind3 : find (fun r => Nat.eqb (rev r) (rev g)) l3 = Some g).
    { apply find_unique_rev; auto. unfold l3. apply in_or_app. now left. }
    assert (Hfresh3 : has_rev (S (rev upF)) l3 = false).
    { destruct (has_rev (S (rev upF)) l3) eqn:E; auto. apply has_rev_revs in E.
      unfold l3, revs in E. rewrite map_app in E. apply in_app_or in E. simpl in E.
      destruct E as [E|[E|[]]]; [|lia].
      apply in_map_iff in E. destruct E as (x & Ex & Hx). specialize (Hlt x Hx). lia. }
    assert (Hk6' : forall t, In t (manifest g) -> aget (rkey t) (objs k4) <> None -> in_keys (rkey t) (manifest upF) = true).
    { intros t Ht Hl. apply Hk6; auto. }
    assert (Hhk4 : rb_ok (f_no_hooks fl) g (manifest upF) k4).
    { destruct Hhk as [E|[E|[E G]]]; [now left|right; now left|right; right]. split; [congruence|exact G]. }
    destruct (rollback_recovers (f_no_hooks fl) (rev g) l3 k4 l5 k5 r upF g (Hnz g Hgin) (conj Hnf4 Hwf4) Hmax3 Hfind3 Hfresh3
                                HndG Hhk4 Hk6' Hroll)
      as (_ & Hin & kr & k1 & cr & muts & Hnfr & EU & Eo).
    split; auto. exists kr, k1, cr, muts. auto.
  Qed.
End Recover.

(* ---- Part 3: the fault plan along the upgrade ---- *)

Section Plan.
  Variable rn ns : string.
  Notation wrun := (wrun rn ns).

  (* the three single-fault plans: the readiness wait | one rejected request that is not a DELETE |
     nothing but (possibly) a failing hook watch *)
  Definition plan_wait (k : kstate) : Prop := kfault k = None /\ hfault k = None /\ waitfail k = true.
  Definition plan_req (k : kstate) : Prop := nodel k /\ hfault k = None /\ waitfail k = false.

  (* along the run: calm, or (the hooks of the upgrade being well-behaved, UH) one of the two plans *)
  Definition inv (UH : Prop) (k : kstate) : Prop := calm k \/ (UH /\ (plan_wait k \/ plan_req k)).

  Lemma inv_hooks (UH : Prop) fl rl ev l k l' k' b :
    (UH -> f_no_hooks fl = true \/ Forall good_hook (hooks_for ev (hooks rl))) ->
    inv UH k -> wrun (run_hooks fl rl ev) l k l' k' b ->
    inv UH k' /\ (b = false -> calm k' /\ waitfail k = false) /\
    ((calm k /\ calm k') \/ (UH /\ hook_rel (hook_keys fl rl ev) k k')).
  Proof.
    intros Hg [Hc|[HU [Hp|Hp]]] H.
    - pose proof (wrun_calm rn ns _ _ _ _ _ _ H Hc) as Hc'. split; [now left|]. split; auto.
      intros _. split; auto. apply Hc.
    - destruct Hp as (Hf & Hh & Hw).
      destruct (run_hooks_calm rn ns _ _ _ _ _ _ _ _ (nodel_none _ Hf) Hh (Hg HU) H) as [Hr Hb].
      destruct Hr as (Eh & Ew & Efl & Hfr).
      assert (Hf' : kfault k' = None) by (destruct Efl as [E|E]; congruence).
      split; [right; split; auto; left; repeat split; congruence|].
      split; [intros Eb; destruct (Hb Eb) as [G _]; congruence|].
      right. split; auto. repeat split; auto.
    - destruct Hp as (Hn & Hh & Hw).
      destruct (run_hooks_calm rn ns _ _ _ _ _ _ _ _ Hn Hh (Hg HU) H) as [Hr Hb].
      pose proof (hook_rel_nodel _ _ _ Hr Hn) as Hn'.
      destruct Hr as (Eh & Ew & Efl & Hfr).
      split; [right; split; auto; right; repeat split; auto; congruence|].
      split; [intros Eb; destruct (Hb Eb) as [_ G]; repeat split; congruence|].
      right. split; auto. repeat split; auto.
  Qed.

  Lemma inv_update (UH : Prop) k cur tgt k' ok cr m :
    NoDup (map rkey tgt) ->
    inv UH k ->
    (calm k \/ forall t, In t tgt -> aget (rkey t) (objs k) <> None -> find_res (rkey t) cur <> None) ->
    k_update k cur tgt = (k', (ok, cr), m) ->
    inv UH k' /\ (ok = false -> calm k' /\ waitfail k = false).
  Proof.
    intros Hnd Hi Hkn EU.
    pose proof (k_update_wait k cur tgt) as Ew. pose proof (k_update_hfault k cur tgt) as Eh.
    pose proof (kube_handle_fault rn ns (KUpdate cur tgt) k) as Efl.
    destruct (kh_update rn ns cur tgt k) as [_ Es]. rewrite Es in Efl. clear Es.
    rewrite EU in Ew, Eh, Efl. cbn [fst snd] in Ew, Eh, Efl.
    assert (Hcalm : calm k -> calm k').
    { intros [Hf Hw]. split; [destruct Efl as [E|E]; congruence|congruence]. }
    destruct Hi as [Hc|[HU Hp]].
    { split; [left; auto|]. intros _. split; auto. apply Hc. }
    destruct Hkn as [Hc|Hkn]; [split; [left; auto|]; intros _; split; auto; apply Hc|].
    destruct Hp as [(Hf & Hh & Hw)|(Hn & Hh & Hw)].
    - assert (Hf' : kfault k' = None) by (destruct Efl as [E|E]; congruence).
      split; [right; split; auto; left; repeat split; congruence|].
      intros ->. destruct (k_update_fail_consumed _ _ _ _ _ _ Hnd Hkn EU) as [_ G]. congruence.
    - split; [right; split; auto; right; repeat split; try congruence; eapply nodel_le; eauto|].
      intros ->. destruct (k_update_fail_consumed _ _ _ _ _ _ Hnd Hkn EU) as [G _]. repeat split; congruence.
  Qed.

  Lemma inv_wait (UH : Prop) rs k :
    inv UH k ->
    (kresp_of rn ns (KWait rs) k = false -> calm (kstate_of rn ns (KWait rs) k)) /\
    (kresp_of rn ns (KWait rs) k = true -> inv UH (kstate_of rn ns (KWait rs) k)).
  Proof.
    intros Hi. destruct (kh_wait rn ns rs k) as (Er & Ef & Ew & Eo).
    assert (Eh : hfault (kstate_of rn ns (KWait rs) k) = hfault k).
    { unfold ContainCluster.kstate_of. cbn [kube_handle]. destruct (waitfail k); reflexivity. }
    rewrite Er. destruct Hi as [[Hf Hw]|[HU [(Hf & Hh & Hw)|(Hn & Hh & Hw)]]].
    - split; intros _; [|left]; split; congruence.
    - rewrite Hw. cbn [negb]. split; [intros _; split; congruence|discriminate].
    - rewrite Hw. cbn [negb]. split; [discriminate|intros _].
      right. split; auto. right. repeat split; try congruence.
      unfold nodel in *. now rewrite Ef.
  Qed.
End Plan.

(* ---- Part 4: the atomic upgrade ---- *)
Lemma max_good_deployed l g :
  NoDup (revs l) -> max_rev_of (filter isgood l) = Some g -> st g = SDeployed ->
  max_rev_of (filter (fun r => status_eqb (st r) SDeployed) l) = Some g.
Proof.
  intros Hnd Hg Hs.
  assert (Hgin : In g (filter isgood l)) by (now apply max_rev_of_in).
  apply filter_In in Hgin. destruct Hgin as [Hgin _].
  assert (Hgd : In g (filter (fun r => status_eqb (st r) SDeployed) l)).
  { apply filter_In. split; auto. now rewrite Hs. }
  destruct (max_rev_of_some _ _ Hgd) as [m Em]. rewrite Em. f_equal.
  pose proof (max_rev_of_in _ _ Em) as Hm. apply filter_In in Hm. destruct Hm as [Hm Hms].
  pose proof (max_rev_of_ge _ _ Em _ Hgd) as G1.
  assert (Hmg : In m (filter isgood l)).
  { apply filter_In. split; auto. unfold isgood. rewrite Hms. apply orb_true_r. }
  pose proof (max_rev_of_ge _ _ Hg _ Hmg) as G2.
  eapply nodup_same_rev; eauto. lia.
Qed.

Section HooksUpgrade.
  Variable rn ns : string.
  Notation wrun := (wrun rn ns).

  Ltac wbind H l1 k1 a H1 := apply wrun_bind_inv in H; destruct H as (l1 & k1 & a & H1 & H).
  Ltac wret H := apply wrun_ret_inv in H; destruct H as (? & ? & ?); subst.
  Ltac wsto H := apply wrun_storage_inv in H; [|reflexivity].
  Ltac wclu H := apply wrun_cluster_inv in H; [|reflexivity].
  Ltac case_if H := match type of H with ContainWorld.wrun _ _ (if ?c then _ else _) _ _ _ _ _ => destruct c eqn:? end.

  (* the hooks of the failed target that run on pre-/post-upgrade carry the before-hook-creation
     policy (the default), and no pre-upgrade hook object sits on a key of the two manifests *)
  Definition up_hooks_ok (fl : flags) (hks : list hook) (mani gm : list res) : Prop :=
    f_no_hooks fl = true \/
    (Forall good_hook (hooks_for PreUpgrade hks) /\ Forall good_hook (hooks_for PostUpgrade hks) /\
     forall h, In h (hooks_for PreUpgrade hks) -> in_keys (hkey h) mani = false /\ in_keys (hkey h) gm = false).

  (* the second disjunct of the K6 exclusion: the only fault is the wait — so the update, with its
     deletion phase, has gone through when the upgrade fails —, g is the deployed revision the
     upgrade started from, and no resource of g that the target omits is protected by keep *)
  Definition k6_after_deletion (mani : list res) (g : release) (k0 : kstate) : Prop :=
    plan_wait k0 /\ st g = SDeployed /\
    (forall r, In r mani -> NoDup (akeys (r_fields r))) /\
    (forall r live, In r (manifest g) -> in_keys (rkey r) mani = false ->
                    aget (rkey r) (objs k0) = Some live -> live_keep live = false).

  Lemma notin_hook_keys (hs : list hook) (rs : list res) key :
    (forall h, In h hs -> in_keys (hkey h) rs = false) -> in_keys key rs = true -> ~ In key (map hkey hs).
  Proof.
    intros Hd Hk Hin. apply in_map_iff in Hin. destruct Hin as (h & <- & Hh). rewrite (Hd h Hh) in Hk. discriminate.
  Qed.

  Theorem atomic_upgrade_hooks_wrun fl cid vid mani hks l0 k0 l' k' c last g :
    f_atomic fl = true -> f_dry_run fl = false ->
    NoDup (revs l0) -> (forall x, In x l0 -> rev x <> 0) ->
    max_rev_of l0 = Some last -> max_rev_of (filter isgood l0) = Some g ->
    (f_max_history fl = 0 \/ st g = SDeployed) ->
    NoDup (map rkey mani) -> NoDup (map rkey (manifest g)) ->
    rb_ok (f_no_hooks fl) g mani k0 ->
    (calm k0 \/ ((plan_wait k0 \/ plan_req k0) /\ up_hooks_ok fl hks mani (manifest g))) ->
    ((forall t, In t (manifest g) -> in_keys (rkey t) mani = true) \/ k6_after_deletion mani g k0) ->
    (exists y, In y l' /\ ~ In (rev y) (revs l0)) ->
    wrun (upgrade rn ns fl cid vid mani hks) l0 k0 l' k' (OErr c) ->
    restored' rn ns mani (mkRelease (S (rev last)) SPendingUpgrade cid vid mani hks) g l' k'.
  Proof.
    intros Hat Hdry Hnd Hnz Hlast Hg Hmh HndM HndG Hrb Hplan Hk6 Hnew H.
    set (UH := up_hooks_ok fl hks mani (manifest g)).
    assert (Hinv0 : inv UH k0).
    { destruct Hplan as [Hc|[Hp HU]]; [now left|right; split; auto]. }
    assert (Hsubref : sub l' l0 -> False).
    { intros Hs. destruct Hnew as (y & Hy & Hn). apply Hn. unfold revs. apply in_map. now apply Hs. }
    assert (Href : l' = l0 -> False) by (intros ->; apply Hsubref, sub_refl).
    assert (Hgin : In g l0).
    { apply max_rev_of_in in Hg. apply filter_In in Hg. tauto. }
    assert (Hggood : isgood g = true).
    { apply max_rev_of_in in Hg. apply filter_In in Hg. tauto. }
    unfold upgrade in H. rewrite Hdry in H. cbv beta iota zeta in H.
    wsto H. unfold sresp, sled in H. cbn [storage_apply fst snd] in H. rewrite Hlast in H.
    case_if H; [wret H; exfalso; auto|].
    wbind H la ka cur Ha.
    assert (la = l0 /\ ka = k0 /\ (forall current, cur = Some current -> In current l0) /\
            (st g = SDeployed -> cur = Some g)) as (-> & -> & Hcur & Hcurg).
    { case_if Ha.
      - wret Ha. repeat split; auto.
        + intros current E. inversion E; subst. now apply max_rev_of_in.
        + intros Hs. f_equal.
          pose proof (max_rev_of_in _ _ Hlast) as Hl.
          assert (Hlg : In last (filter isgood l0)).
          { apply filter_In. split; auto. unfold isgood. rewrite Heqb0. apply orb_true_r. }
          pose proof (max_rev_of_ge _ _ Hg _ Hlg). pose proof (max_rev_of_ge _ _ Hlast _ Hgin).
          eapply nodup_same_rev; eauto. lia.
      - wsto Ha. unfold sresp, sled in Ha. cbn [storage_apply fst snd] in Ha.
        destruct (max_rev_of (filter (fun r => status_eqb (st r) SDeployed) l0)) as [dd|] eqn:Hdd.
        + wret Ha. repeat split; auto.
          * intros current E. inversion E; subst. apply max_rev_of_in in Hdd. apply filter_In in Hdd. tauto.
          * intros Hs. rewrite (max_good_deployed _ _ Hnd Hg Hs) in Hdd. congruence.
        + assert (Hno : st g = SDeployed -> False).
          { intros Hs. rewrite (max_good_deployed _ _ Hnd Hg Hs) in Hdd. discriminate. }
          case_if Ha; wret Ha; repeat split; auto; try (intros current E; inversion E; subst; now apply max_rev_of_in);
            intros Hs; destruct (Hno Hs). }
    clear Ha.
    destruct cur as [current|]; [|wret H; exfalso; auto].
    specialize (Hcur _ eq_refl).
    (* ownership check *)
    unfold perform in H. cbn [bind] in H. wclu H.
    set (tbc := filter (fun r => negb (in_keys (rkey r) (manifest current))) (stamp_all rn ns mani)) in *.
    destruct (kh_existing rn ns tbc (f_take_ownership fl) k0) as [Er Es]. rewrite Er, Es in H. clear Er Es.
    destruct (k_existing rn ns k0 tbc (f_take_ownership fl) []) as [kx [adopted|]] eqn:EK; cbn [fst snd] in H.
    2:{ wret H. exfalso. auto. }
    destruct (k_existing_some rn ns _ _ _ _ _ _ EK) as (-> & _ & Hcomplete).
    (* the revision is stored, after pruning when there is a history limit *)
    set (up := mkRelease (S (rev last)) SPendingUpgrade cid vid mani hks) in *.
    assert (Hlt0 : forall x, In x l0 -> rev x < rev up).
    { intros x Hx. pose proof (max_rev_of_ge _ _ Hlast _ Hx). simpl. lia. }
    assert (Hh0 : has_rev (rev up) l0 = false).
    { destruct (has_rev (rev up) l0) eqn:E; auto. apply has_rev_revs in E.
      unfold revs in E. apply in_map_iff in E. destruct E as (x & Ex & Hx). specialize (Hlt0 x Hx). lia. }
    wbind H ld kd e He.
    assert (kd = k0).
    { destruct (wrun_krun _ _ _ _ _ _ _ _ He) as [tr Hk].
      eapply (krun_storage_only rn ns); [apply storage_create_storage|exact Hk]. }
    subst kd.
    pose proof (wrun_lrun _ _ _ _ _ _ _ _ He) as Hl.
    pose proof (lrun_nodup _ _ _ _ _ Hl Hnd) as Hndd.
    destruct (lrun_storage_create dead_resp _ _ _ _ _ Hl) as [[-> (l1 & S1 & Hh1 & ->)]|[Hne S]].
    2:{ exfalso. apply Hsubref. assert (l' = ld) by (destruct e; try congruence; wret H; auto). now subst. }
    assert (Hg1in : In g l1).
    { destruct Hmh as [E0|Hs].
      - rewrite E0 in He. unfold storage_create, perform in He. wsto He.
        unfold sresp, sled in He. cbn [storage_apply] in He. rewrite Hh0 in He. cbn [fst snd] in He. wret He.
        match goal with E : (l1 ++ [up])%list = (l0 ++ [up])%list |- _ => apply app_inv_tail in E; subst l1 end. exact Hgin.
      - pose proof (lrun_storage_create_keeps dead_resp g up _ _ _ _ (max_good_deployed _ _ Hnd Hg Hs) Hl) as G.
        apply in_app_or in G. destruct G as [G|[G|[]]]; auto.
        exfalso. specialize (Hlt0 g Hgin). rewrite <- G in Hlt0. lia. }
    clear He Hl.
    set (l2 := (l1 ++ [up])%list) in *.
    assert (Hnd1 : NoDup (revs l1)) by (now apply nodup_app_l in Hndd).
    assert (Hlt1 : forall x, In x l1 -> rev x < rev up) by (intros x Hx; apply Hlt0, S1, Hx).
    assert (Hnz1 : forall x, In x l1 -> rev x <> 0) by (intros x Hx; apply Hnz, S1, Hx).
    assert (Hg1 : max_rev_of (filter isgood l1) = Some g) by (exact (max_good_sub l0 l1 g Hnd S1 Hg1in Hg)).
    assert (Hup2 : lupd up l2 = l2) by (apply upd_last_stable; exact Hh1).
    assert (Hc2 : lupd current l2 = l2).
    { apply (upd_sub_stable l0 l1 current up Hnd S1 Hcur). specialize (Hlt0 _ Hcur). lia. }
    (* how the failing paths end *)
    assert (Hrbk : forall kf, (hfault k0 = None -> hfault kf = None) -> rb_ok (f_no_hooks fl) g (manifest up) kf).
    { intros kf Hhf. destruct Hrb as [E|[E|[E G]]]; [now left|right; now left|right; right]. split; auto. }
    assert (Hfin : forall kf created lx kx o, calm kf -> (hfault k0 = None -> hfault kf = None) ->
              (forall t, In t (manifest g) -> aget (rkey t) (objs kf) <> None -> in_keys (rkey t) mani = true) ->
              wrun (upgrade_fail rn ns fl up created) l2 kf lx kx o -> restored' rn ns mani up g lx kx).
    { intros kf created lx kx o Hc Hhf Hlive Hf.
      eapply (upgrade_fail_recovers rn ns fl up created l1 g kf); eauto. }
    assert (Hfin2 : forall kf created lx kx o, calm kf -> (hfault k0 = None -> hfault kf = None) ->
              (forall t, In t (manifest g) -> aget (rkey t) (objs kf) <> None -> in_keys (rkey t) mani = true) ->
              wrun (bind (record_release current) (fun _ => upgrade_fail rn ns fl up created)) l2 kf lx kx o ->
              restored' rn ns mani up g lx kx).
    { intros kf created lx kx o Hc Hhf Hlive Hf.
      wbind Hf l3 k3 u Hr. apply wrun_record_release in Hr. destruct Hr as [-> ->]. rewrite Hc2 in Hf. eauto. }
    (* K6: a failure that leaves the wait fault pending is met only under the first disjunct *)
    assert (Hk6a : forall kf, waitfail k0 = false -> forall t, In t (manifest g) -> aget (rkey t) (objs kf) <> None ->
                              in_keys (rkey t) mani = true).
    { intros kf Hw0. destruct Hk6 as [Ha|((_ & _ & Hw) & _)]; [intros t Ht _; auto|congruence]. }
    assert (HgU : forall ev, ev = PreUpgrade \/ ev = PostUpgrade -> UH ->
                  f_no_hooks fl = true \/ Forall good_hook (hooks_for ev (hooks up))).
    { intros ev Hev [E|(A & B & _)]; auto. right. change (hooks up) with hks. destruct Hev as [->| ->]; assumption. }
    assert (HndT : NoDup (map rkey (stamp_all rn ns mani))) by (now rewrite keys_stamp_all).
    (* the pre-upgrade hooks *)
    wbind H l3 k1 pre Hpre.
    destruct (hooks_world_stable rn ns fl up PreUpgrade l2 k0 l3 k1 pre Hup2 Hpre) as [-> _].
    destruct (inv_hooks rn ns UH fl up PreUpgrade _ _ _ _ _ (HgU PreUpgrade (or_introl eq_refl)) Hinv0 Hpre)
      as (Hinv1 & Hb1 & Hrel1).
    assert (Hw1 : waitfail k1 = waitfail k0).
    { destruct Hrel1 as [[[_ A] [_ B]]|[_ (_ & E & _)]]; congruence. }
    assert (Hhf1 : hfault k0 = None -> hfault k1 = None) by (apply (wrun_nohf rn ns _ _ _ _ _ _ Hpre)).
    destruct pre; cbn [negb] in H; cbv beta iota in H.
    2:{ destruct (Hb1 eq_refl) as [Hc1 Hw0]. eapply Hfin; [exact Hc1|exact Hhf1|apply Hk6a; exact Hw0|exact H]. }
    (* the pre-upgrade hooks leave the objects of the two manifests alone *)
    assert (Hframe1 : calm k1 \/ (forall key, in_keys key mani = true \/ in_keys key (manifest g) = true ->
                                              aget key (objs k1) = aget key (objs k0))).
    { destruct Hrel1 as [[_ Hc]|[HU (_ & _ & _ & Hfr)]]; [now left|right].
      intros key Hk. apply Hfr. unfold hook_keys. destruct (f_no_hooks fl) eqn:En; [intros []|].
      destruct HU as [E|(_ & _ & Hd)]; [congruence|]. change (hooks up) with hks.
      destruct Hk as [Hk|Hk].
      - eapply notin_hook_keys; [|exact Hk]. intros h Hh. apply (Hd h Hh).
      - eapply notin_hook_keys; [|exact Hk]. intros h Hh. apply (Hd h Hh). }
    (* no live target is unknown to the update: it is in the current manifest or was adopted *)
    set (curres := (manifest current ++ adopted)%list) in *.
    assert (Hknown0 : forall t, In t (stamp_all rn ns mani) -> aget (rkey t) (objs k0) <> None ->
                                find_res (rkey t) curres <> None).
    { intros t Ht Hlv. unfold curres. apply find_res_app.
      destruct (in_keys (rkey t) (manifest current)) eqn:E.
      - left. now apply in_keys_find_res.
      - right. apply In_find_res. apply Hcomplete; auto. unfold tbc. apply filter_In. split; auto.
        now rewrite E. }
    assert (Hknown1 : calm k1 \/ forall t, In t (stamp_all rn ns mani) -> aget (rkey t) (objs k1) <> None ->
                                           find_res (rkey t) curres <> None).
    { destruct Hframe1 as [Hc|Hfr]; [now left|right]. intros t Ht Hlv. apply Hknown0; auto.
      rewrite <- (Hfr (rkey t)); auto. left. rewrite <- (in_keys_stamp_all rn ns). now apply in_keys_In. }
    (* the update *)
    wclu H.
    destruct (kh_update rn ns curres (stamp_all rn ns mani) k1) as [Er Es]. rewrite Er, Es in H. clear Er Es.
    pose proof (k_update_wait k1 curres (stamp_all rn ns mani)) as Hw2.
    destruct (k_update k1 curres (stamp_all rn ns mani)) as [[k2 [ok cr]] muts] eqn:EU. cbn [fst snd] in H, Hw2.
    destruct (inv_update rn ns UH _ _ _ _ _ _ _ HndT Hinv1 Hknown1 EU) as [Hinv2 Hb2].
    assert (Hhf2 : hfault k0 = None -> hfault k2 = None).
    { intros E. pose proof (k_update_hfault k1 curres (stamp_all rn ns mani)) as G. rewrite EU in G. cbn [fst] in G. rewrite G. auto. }
    destruct ok; cbn [negb] in H; cbv beta iota in H.
    2:{ destruct (Hb2 eq_refl) as [Hc2' Hwf1]. eapply Hfin2; [exact Hc2'|exact Hhf2|apply Hk6a; congruence|exact H]. }
    (* the wait *)
    unfold perform in H. cbn [bind] in H. wclu H.
    destruct (inv_wait rn ns UH (stamp_all rn ns mani) k2 Hinv2) as [Hwf Hwt].
    destruct (kh_wait rn ns (stamp_all rn ns mani) k2) as (Er & Ef & Ew & Eo).
    set (k3 := kstate_of rn ns (KWait (stamp_all rn ns mani)) k2) in *.
    assert (Hhf3 : hfault k0 = None -> hfault k3 = None).
    { intros E. unfold k3, ContainCluster.kstate_of. cbn [kube_handle]. destruct (waitfail k2); cbn [fst hfault]; auto. }
    destruct (kresp_of rn ns (KWait (stamp_all rn ns mani)) k2) eqn:Ewr; cbn [negb] in H; cbv beta iota in H.
    2:{ (* the wait failed: the update, deletion phase included, has gone through *)
        eapply Hfin2; [apply Hwf; reflexivity|exact Hhf3| |exact H].
        destruct Hk6 as [Ha|((Hf0 & Hh0' & Hw0) & Hsg & Hwfm & Hnokeep)]; [intros t Ht _; auto|].
        assert (current = g) by (specialize (Hcurg Hsg); congruence). subst current.
        assert (Hf1 : kfault k1 = None).
        { destruct Hrel1 as [[[_ A] _]|[_ (_ & _ & Efl & _)]]; [congruence|]. destruct Efl as [E|E]; congruence. }
        assert (Hfr : forall key, in_keys key mani = true \/ in_keys key (manifest g) = true ->
                                  aget key (objs k1) = aget key (objs k0)).
        { destruct Hframe1 as [[_ A]|Hfr]; [congruence|exact Hfr]. }
        assert (Hwf' : forall x, In x (stamp_all rn ns mani) -> NoDup (akeys (r_fields x))).
        { intros x Hx. unfold stamp_all in Hx. apply in_map_iff in Hx. destruct Hx as [r [<- Hr]]. apply wf_stamp. auto. }
        destruct (update_matches _ _ _ _ _ _ Hf1 HndT Hwf' EU) as (_ & Uii & _).
        intros t Ht Hlv. destruct (in_keys (rkey t) mani) eqn:E; auto. exfalso.
        assert (Htc : In t curres) by (unfold curres; apply in_or_app; now left).
        specialize (Uii t Htc). rewrite in_keys_stamp_all in Uii. specialize (Uii E).
        rewrite (Hfr (rkey t)) in Uii by (right; now apply in_keys_In).
        rewrite Eo in Hlv.
        destruct (aget (rkey t) (objs k0)) as [live|] eqn:El; [|congruence].
        rewrite (Hnokeep t live Ht E El) in Uii. congruence. }
    assert (Hw0 : waitfail k0 = false).
    { rewrite Er in Ewr. destruct (waitfail k2) eqn:E2; [discriminate|]. congruence. }
    specialize (Hwt eq_refl).
    (* the post-upgrade hooks *)
    wbind H l4 k4 post Hpost.
    destruct (hooks_world_stable rn ns fl up PostUpgrade l2 k3 l4 k4 post Hup2 Hpost) as [-> _].
    destruct (inv_hooks rn ns UH fl up PostUpgrade _ _ _ _ _ (HgU PostUpgrade (or_intror eq_refl)) Hwt Hpost)
      as (_ & Hb4 & _).
    destruct post; cbv beta iota in H.
    2:{ destruct (Hb4 eq_refl) as [Hc4 _]. eapply Hfin; [exact Hc4| |apply Hk6a; exact Hw0|exact H].
        intros E. apply (wrun_nohf rn ns _ _ _ _ _ _ Hpost). auto. }
    (* everything succeeded: not an error *)
    exfalso.
    apply wrun_supdate in H. apply wrun_supdate in H.
    assert (Hh6 : has_rev (rev (with_status up SDeployed)) (lupd (with_status current SSuperseded) l2) = true).
    { apply has_rev_revs. rewrite revs_upd. unfold l2, revs. rewrite map_app. apply in_or_app. right. now left. }
    rewrite Hh6 in H. apply wrun_ret_inv in H. destruct H as (_ & _ & E). discriminate.
  Qed.
End HooksUpgrade.

(* ---- Part 5: under the interpreter, at the object-store cluster ---- *)
(* what [restored] says about the final world *)
Lemma restored_world rn ns mani up g l' k' :
  NoDup (map rkey (manifest g)) -> (forall r, In r (manifest g) -> NoDup (akeys (r_fields r))) ->
  restored' rn ns mani up g l' k' ->
  exists y, In y l' /\ rev y = S (rev up) /\ st y = SDeployed /\
    manifest y = manifest g /\ hooks y = hooks g /\ chart_id y = chart_id g /\ config_id y = config_id g /\
    (forall r, In r (manifest g) ->
       exists live', aget (rkey r) (objs k') = Some live' /\ fields_sub (r_fields (stamp rn ns r)) live' = true) /\
    (forall o, In o mani -> in_keys (rkey o) (manifest g) = false ->
       aget (rkey o) (objs k') = None \/ exists live, aget (rkey o) (objs k') = Some live /\ live_keep live = true).
Proof.
  intros HndG HwfG (Hin & kr & k1 & cr & muts & Hnf & EU & Eo).
  eexists. split; [exact Hin|]. cbn [rev st manifest hooks chart_id config_id with_status tgt_of].
  assert (Hnd' : NoDup (map rkey (stamp_all rn ns (manifest g)))) by (now rewrite keys_stamp_all).
  assert (Hwf' : forall x, In x (stamp_all rn ns (manifest g)) -> NoDup (akeys (r_fields x))).
  { intros x Hx. unfold stamp_all in Hx. apply in_map_iff in Hx. destruct Hx as [r [<- Hr]]. apply wf_stamp. auto. }
  destruct (update_matches _ _ _ _ _ _ Hnf Hnd' Hwf' EU) as (Ui & Uii & _).
  repeat split; auto.
  - intros r Hr. destruct (Ui (stamp rn ns r)) as (live' & Hl & Hs & _); [unfold stamp_all; now apply in_map|].
    exists live'. rewrite (Eo (rkey r)) by (left; now apply in_keys_In). rewrite rkey_stamp in Hl. auto.
  - intros x Hx Hk. specialize (Uii x Hx). rewrite in_keys_stamp_all in Uii. specialize (Uii Hk).
    rewrite (Eo (rkey x)) by (right; now apply in_keys_In).
    destruct (aget (rkey x) (objs kr)) as [live|]; auto.
    destruct (live_keep live) eqn:Ek; auto. right. exists live. auto.
Qed.

Lemma run_store_op_wrun rn ns o cf w w' c t :
  run_store_op rn ns (mkOp o ContainLedger.nofault cf) w = (w', OErr c, t) ->
  exists k', wrun rn ns (op_prog rn ns o) (w_led w) (mkK (w_objs w) (cf_k cf) (cf_h cf) (cf_wait cf)) (w_led w') k' (OErr c)
             /\ w_objs w' = objs k'.
Proof.
  intros H. unfold run_store_op in H. cbn [oc_op oc_sf oc_cf] in H.
  set (k0 := mkK (w_objs w) (cf_k cf) (cf_h cf) (cf_wait cf)) in *.
  destruct (run_op kstate (kube_handle rn ns) dead_resp rn ns o ContainLedger.nofault (w_led w) k0)
    as [[[l k] o'] t'] eqn:E.
  inversion H; subst. clear H.
  unfold run_op in E.
  destruct (run kstate (kube_handle rn ns) dead_resp ContainLedger.nofault (op_prog rn ns o)
                (mkR (w_led w) k0 0 0 false [])) as [s o2] eqn:E2.
  apply run_wrun in E2; [|reflexivity]. destruct E2 as [Hw Hd]. cbn [led ks] in Hw.
  rewrite Hd in E. inversion E; subst. clear E. cbn [w_led w_objs].
  exists (ks s). auto.
Qed.

(* C03_atomic_upgrade with hooks ENABLED, the second disjunct of the K6 exclusion, and a history limit *)
Theorem atomic_upgrade_hooks :
  forall rn ns fl cid vid mani hks cf w w' c t last g,
    f_atomic fl = true -> f_dry_run fl = false ->
    (f_max_history fl = 0 \/ st g = SDeployed) ->
    NoDup (revs (w_led w)) -> (forall x, In x (w_led w) -> rev x <> 0) ->
    max_rev_of (w_led w) = Some last ->
    max_rev_of (filter (fun r => status_eqb (st r) SSuperseded || status_eqb (st r) SDeployed) (w_led w)) = Some g ->
    NoDup (map rkey mani) -> NoDup (map rkey (manifest g)) ->
    (forall r, In r (manifest g) -> NoDup (akeys (r_fields r))) ->
    (f_no_hooks fl = true \/ (hooks_for PreRollback (hooks g) = [] /\ hooks_for PostRollback (hooks g) = []) \/
     (forall h, In h (hooks_for PreRollback (hooks g) ++ hooks_for PostRollback (hooks g)) ->
                has_policy h BeforeHookCreation = true /\ String.eqb (h_kind h) "CustomResourceDefinition" = false /\
                in_keys (rkey (h_res h)) (manifest g) = false /\ in_keys (rkey (h_res h)) mani = false)) ->
    (f_no_hooks fl = true \/
     ((forall h, In h (hooks_for PreUpgrade hks ++ hooks_for PostUpgrade hks) ->
                 has_policy h BeforeHookCreation = true /\ String.eqb (h_kind h) "CustomResourceDefinition" = false) /\
      (forall h, In h (hooks_for PreUpgrade hks) ->
                 in_keys (rkey (h_res h)) mani = false /\ in_keys (rkey (h_res h)) (manifest g) = false))) ->
    cf_h cf = None ->
    ((cf_k cf = None /\ cf_wait cf = true) \/ (cf_wait cf = false /\ forall key, cf_k cf <> Some (VDelete, key))) ->
    ((forall r, In r (manifest g) -> in_keys (rkey r) mani = true) \/
     (cf_k cf = None /\ cf_wait cf = true /\ st g = SDeployed /\
      (forall r, In r mani -> NoDup (akeys (r_fields r))) /\
      (forall r live, In r (manifest g) -> in_keys (rkey r) mani = false ->
                      aget (rkey r) (w_objs w) = Some live -> live_keep live = false))) ->
    run_store_op rn ns (mkOp (OpUpgrade fl cid vid mani hks) ContainLedger.nofault cf) w = (w', OErr c, t) ->
    (exists y, In y (w_led w') /\ ~ In (rev y) (revs (w_led w))) ->
    exists y, In y (w_led w') /\ rev y = S (S (rev last)) /\ st y = SDeployed /\
      manifest y = manifest g /\ hooks y = hooks g /\ chart_id y = chart_id g /\ config_id y = config_id g /\
      (forall r, In r (manifest g) ->
         exists live', aget (rkey r) (w_objs w') = Some live' /\
                       fields_sub (r_fields (stamp rn ns r)) live' = true) /\
      (forall o, In o mani -> in_keys (rkey o) (manifest g) = false ->
         aget (rkey o) (w_objs w') = None \/
         exists live, aget (rkey o) (w_objs w') = Some live /\ live_keep live = true).
Proof.
  intros rn ns fl cid vid mani hks cf w w' c t last g Hat Hdry Hmh Hnd Hnz Hlast Hg HndM HndG HwfG Hrb Hup Hcfh Hone Hk6 H Hnew.
  destruct (run_store_op_wrun _ _ _ _ _ _ _ _ H) as (k' & Hw & Eo). cbn [op_prog] in Hw.
  set (k0 := mkK (w_objs w) (cf_k cf) (cf_h cf) (cf_wait cf)) in *.
  assert (Hplan : plan_wait k0 \/ plan_req k0).
  { unfold plan_wait, plan_req, k0, nodel. cbn [kfault hfault waitfail].
    destruct Hone as [[E1 E2]|[E1 E2]]; [left; auto|right]. repeat split; auto.
    destruct (cf_k cf) as [[v key]|] eqn:Ek; auto. destruct v; auto. exfalso. now apply (E2 key). }
  assert (HU : up_hooks_ok fl hks mani (manifest g)).
  { destruct Hup as [E|[Hgood Hdis]]; [now left|right].
    split; [|split].
    - apply Forall_forall. intros h Hh. apply Hgood. apply in_or_app. now left.
    - apply Forall_forall. intros h Hh. apply Hgood. apply in_or_app. now right.
    - exact Hdis. }
  assert (HK : (forall t0, In t0 (manifest g) -> in_keys (rkey t0) mani = true) \/ k6_after_deletion mani g k0).
  { destruct Hk6 as [Ha|(E1 & E2 & Hs & Hwf & Hnk)]; [now left|right].
    unfold k6_after_deletion, plan_wait, k0. cbn [kfault hfault waitfail objs]. repeat split; auto. }
  assert (Hrb' : rb_ok (f_no_hooks fl) g mani k0).
  { destruct Hrb as [E|[E|Hgood]]; [now left|right; now left|right; right].
    split; [exact Hcfh|]. unfold rb_good. split; [|split].
    - apply Forall_forall. intros h Hh. destruct (Hgood h) as (A & B & _); [apply in_or_app; now left|]. split; auto.
    - apply Forall_forall. intros h Hh. destruct (Hgood h) as (A & B & _); [apply in_or_app; now right|]. split; auto.
    - intros h Hh. destruct (Hgood h Hh) as (_ & _ & C & D). split; auto. }
  pose proof (atomic_upgrade_hooks_wrun rn ns fl cid vid mani hks (w_led w) k0 (w_led w') k' c last g
                Hat Hdry Hnd Hnz Hlast Hg Hmh HndM HndG Hrb' (or_intror (conj Hplan HU)) HK Hnew Hw) as R.
  rewrite Eo. exact (restored_world _ _ _ _ _ _ _ HndG HwfG R).
Qed.

(* ... and when nothing but a hook watch can fail (or nothing at all: the upgrade fails for a
   reason that lies in the chart, such as a hook resource that already exists): ANY hooks of the
   failed target *)
Theorem atomic_upgrade_hook_fault :
  forall rn ns fl cid vid mani hks cf w w' c t last g,
    f_atomic fl = true -> f_dry_run fl = false ->
    (f_max_history fl = 0 \/ st g = SDeployed) ->
    NoDup (revs (w_led w)) -> (forall x, In x (w_led w) -> rev x <> 0) ->
    max_rev_of (w_led w) = Some last ->
    max_rev_of (filter (fun r => status_eqb (st r) SSuperseded || status_eqb (st r) SDeployed) (w_led w)) = Some g ->
    NoDup (map rkey mani) -> NoDup (map rkey (manifest g)) ->
    (forall r, In r (manifest g) -> NoDup (akeys (r_fields r))) ->
    (f_no_hooks fl = true \/ (hooks_for PreRollback (hooks g) = [] /\ hooks_for PostRollback (hooks g) = [])) ->
    cf_k cf = None -> cf_wait cf = false ->
    (forall r, In r (manifest g) -> in_keys (rkey r) mani = true) ->
    run_store_op rn ns (mkOp (OpUpgrade fl cid vid mani hks) ContainLedger.nofault cf) w = (w', OErr c, t) ->
    (exists y, In y (w_led w') /\ ~ In (rev y) (revs (w_led w))) ->
    exists y, In y (w_led w') /\ rev y = S (S (rev last)) /\ st y = SDeployed /\
      manifest y = manifest g /\ hooks y = hooks g /\ chart_id y = chart_id g /\ config_id y = config_id g /\
      (forall r, In r (manifest g) ->
         exists live', aget (rkey r) (w_objs w') = Some live' /\
                       fields_sub (r_fields (stamp rn ns r)) live' = true) /\
      (forall o, In o mani -> in_keys (rkey o) (manifest g) = false ->
         aget (rkey o) (w_objs w') = None \/
         exists live, aget (rkey o) (w_objs w') = Some live /\ live_keep live = true).
Proof.
  intros rn ns fl cid vid mani hks cf w w' c t last g Hat Hdry Hmh Hnd Hnz Hlast Hg HndM HndG HwfG Hrb Hk Hwt Hk6 H Hnew.
  destruct (run_store_op_wrun _ _ _ _ _ _ _ _ H) as (k' & Hw & Eo). cbn [op_prog] in Hw.
  set (k0 := mkK (w_objs w) (cf_k cf) (cf_h cf) (cf_wait cf)) in *.
  assert (Hc : calm k0) by (unfold calm, k0; cbn [kfault waitfail]; auto).
  assert (Hrb' : rb_ok (f_no_hooks fl) g mani k0) by (destruct Hrb as [E|E]; [now left|right; now left]).
  pose proof (atomic_upgrade_hooks_wrun rn ns fl cid vid mani hks (w_led w) k0 (w_led w') k' c last g
                Hat Hdry Hnd Hnz Hlast Hg Hmh HndM HndG Hrb' (or_introl Hc) (or_introl Hk6) Hnew Hw) as R.
  rewrite Eo. exact (restored_world _ _ _ _ _ _ _ HndG HwfG R).
Qed.

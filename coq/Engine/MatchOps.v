(* C02 — the release operations of Engine/Ops.v run over the object-store cluster without
   faults: what a successful uninstall leaves in the cluster, and the pre-fix keep filter
   (F6) as a refuted variant. *)
From Coq Require Import List String Bool Arith ZArith.
From Helm Require Import Common.Assoc Engine.Types Engine.Eff Engine.Ops Engine.Cluster Engine.Seq.
From Helm Require Import Engine.MatchDefs Engine.MatchUpdate Engine.MatchRun.
Import ListNotations.

Lemma run_split {A} rn ns f (p : prog A) (s s' : rstate kstate) a :
  run kstate (kube_handle rn ns) dead_resp f p s = (s', a) ->
  s' = fst (run kstate (kube_handle rn ns) dead_resp f p s).
Proof. now intros ->. Qed.

Section OpsProofs.
  Variable rn ns : string.

  Notation rstate := (rstate kstate).
  Notation stepS := (step kstate (kube_handle rn ns) dead_resp).
  Notation runS := (run kstate (kube_handle rn ns) dead_resp).

  (* [run (perform e)] is [step e]; the result type is normalised first *)
  Ltac rw_perform_in H :=
    match type of H with
    | context [@run _ _ _ ?A ?f (perform ?e) ?s] =>
        change (@run kstate (kube_handle rn ns) dead_resp A f (perform e) s)
          with (@run kstate (kube_handle rn ns) dead_resp (resp e) f (perform e) s) in H;
        rewrite (run_perform rn ns f e s) in H
    end.
  Ltac rw_perform :=
    match goal with
    | |- context [@run _ _ _ ?A ?f (perform ?e) ?s] =>
        change (@run kstate (kube_handle rn ns) dead_resp A f (perform e) s)
          with (@run kstate (kube_handle rn ns) dead_resp (resp e) f (perform e) s);
        rewrite (run_perform rn ns f e s)
    end.

  (* alive, no request fault pending *)
  Definition calm (s : rstate) : Prop := dead s = false /\ nofault (ks s).

  Lemma run_calm {A} (p : prog A) (s s' : rstate) a :
    runS nf p s = (s', a) -> calm s -> calm s'.
  Proof.
    intros H [Hd Hn]. apply run_split in H. subst s'. split.
    - now apply run_nf_alive.
    - now apply run_nofault.
  Qed.

  Lemma run_frame {A} (P : string -> Prop) (p : prog A) (s s' : rstate) a key :
    fp P p -> runS nf p s = (s', a) -> ~ P key ->
    aget key (objs (ks s')) = aget key (objs (ks s)).
  Proof. intros Hp H Hn. apply run_split in H. subst s'. now apply run_fp_frame with (P := P). Qed.

  Definition nokeys : string -> Prop := fun _ => False.

  Lemma run_hooks_keeps fl rl ev (s s' : rstate) b key :
    runS nf (run_hooks fl rl ev) s = (s', b) -> ~ hooks_touch fl (hooks rl) key ->
    aget key (objs (ks s')) = aget key (objs (ks s)).
  Proof. intros H Hn. apply run_split in H. subst s'. now apply run_hooks_frame. Qed.

  Lemma kube_handle_delete (k : kstate) rs :
    nofault k -> rs <> [] ->
    snd (fst (kube_handle rn ns (KDelete rs) k)) = true /\
    objs (fst (fst (kube_handle rn ns (KDelete rs) k))) = delete_all_objs (objs k) rs.
  Proof.
    intros Hn Hne. destruct rs as [|x t]; [congruence|]. cbn [kube_handle].
    destruct (k_delete k (x :: t) true []) as [[k' ok] m] eqn:E. simpl.
    apply k_delete_nofault in E; auto. destruct E as (_ & _ & _ & -> & Ho). auto.
  Qed.

  (* ---- uninstall ---- *)
  Lemma uninstall_objs fl (s0 s' : rstate) last :
    f_dry_run fl = false -> calm s0 ->
    max_rev_of (led s0) = Some last -> status_eqb (st last) SUninstalled = false ->
    runS nf (uninstall fl) s0 = (s', OOk) ->
    forall key, ~ hooks_touch fl (hooks last) key ->
      aget key (objs (ks s')) =
        if in_keys key (uninstall_deleted last) then None else aget key (objs (ks s0)).
  Proof.
    intros Hdry Hc0 Hmax Hst H key Hk.
    unfold uninstall in H. rewrite Hdry in H.
    rewrite run_bind in H. rw_perform_in H. rewrite step_nf_history in H by apply Hc0.
    rewrite Hmax, Hst in H.
    set (rel := with_status last SUninstalling) in *.
    assert (Hhk : ~ hooks_touch fl (hooks rel) key) by exact Hk.
    rewrite run_bind in H.
    destruct (runS nf (run_hooks fl rel PreDelete) s0) as [s1 pre] eqn:E1.
    pose proof (run_calm _ _ _ _ E1 Hc0) as Hc1.
    pose proof (run_hooks_keeps _ _ _ _ _ _ key E1 Hhk) as F1.
    destruct pre; cbn [negb] in H; [|cbn in H; inversion H].
    rewrite run_bind in H.
    destruct (runS nf (record_release rel) s1) as [s2 u] eqn:E2.
    pose proof (run_calm _ _ _ _ E2 Hc1) as Hc2.
    pose proof (run_frame nokeys _ _ _ _ key (fp_record_release nokeys rel) E2 (fun x => x)) as F2.
    fold (uninstall_deleted rel) in H.
    assert (Hdel : uninstall_deleted rel = uninstall_deleted last) by reflexivity.
    rewrite Hdel in H.
    rewrite run_bind in H.
    (* the deletion *)
    assert (Hd : exists s3, runS nf (match uninstall_deleted last with
                                     | [] => Ret true
                                     | _ :: _ => perform (KDelete (uninstall_deleted last))
                                     end) s2 = (s3, true) /\ calm s3 /\
                 aget key (objs (ks s3)) =
                   if in_keys key (uninstall_deleted last) then None else aget key (objs (ks s2))).
    { destruct (uninstall_deleted last) as [|x t] eqn:Etd.
      - exists s2. repeat split; auto; apply Hc2.
      - cbv iota. rw_perform.
        destruct (step_nf_cluster rn ns (KDelete (x :: t)) s2 (proj1 Hc2) eq_refl) as (s3 & Es & Hks & _ & Hd3).
        destruct (kube_handle_delete (ks s2) (x :: t) (proj2 Hc2)) as [Hok Hobjs]; [congruence|].
        exists s3. rewrite Es, Hok. repeat split; auto.
        + rewrite Hks. apply kube_handle_nofault. apply Hc2.
        + rewrite Hks, Hobjs. apply delete_all_objs_get. }
    destruct Hd as (s3 & E3 & Hc3 & F3). rewrite E3 in H. cbn [negb] in H.
    rewrite run_bind in H. rw_perform_in H.
    destruct (step_nf_cluster rn ns (KWaitDelete (uninstall_deleted last)) s3 (proj1 Hc3) eq_refl) as (s4 & E4 & Hks4 & _ & Hd4).
    rewrite E4 in H. cbn [kube_handle fst snd] in H, Hks4.
    assert (Hc4 : calm s4) by (split; auto; rewrite Hks4; apply Hc3).
    rewrite run_bind in H.
    destruct (runS nf (run_hooks fl rel PostDelete) s4) as [s5 post] eqn:E5.
    pose proof (run_hooks_keeps _ _ _ _ _ _ key E5 Hhk) as F5.
    assert (Hfin : aget key (objs (ks s')) = aget key (objs (ks s5))).
    { destruct (f_keep_history fl).
      - rewrite run_bind in H.
        destruct (runS nf (record_release (with_status rel SUninstalled)) s5) as [s6 u6] eqn:E6.
        pose proof (run_frame nokeys _ _ _ _ key (fp_record_release nokeys _) E6 (fun x => x)) as F6.
        cbn in H. inversion H; subst. exact F6.
      - rewrite run_bind in H.
        destruct (runS nf (purge (map rev (sort_by_rev (led s0)))) s5) as [s6 ok6] eqn:E6.
        pose proof (run_frame nokeys _ _ _ _ key (fp_purge nokeys _) E6 (fun x => x)) as F6.
        cbn in H. inversion H; subst. exact F6. }
    rewrite Hfin, F5, Hks4, F3, F2, F1. reflexivity.
  Qed.
End OpsProofs.

(* ------------------------------------------------------------------ *)
(* world-level statements                                               *)

Lemma status_neq_eqb a b : a <> b -> status_eqb a b = false.
Proof. destruct a, b; simpl; auto; intros H; exfalso; now apply H. Qed.

Lemma NoDup_map_eq {A B} (f : A -> B) : forall (l : list A) a b,
  NoDup (map f l) -> In a l -> In b l -> f a = f b -> a = b.
Proof.
  induction l as [|x t IH]; intros a b Hnd Ha Hb Hf; [destruct Ha|].
  simpl in Hnd. inversion Hnd as [|? ? Hni Hnd']; subst.
  destruct Ha as [->|Ha], Hb as [->|Hb]; auto.
  - exfalso. apply Hni. rewrite Hf. now apply in_map.
  - exfalso. apply Hni. rewrite <- Hf. now apply in_map.
Qed.

Theorem uninstall_matches :
  forall (rn ns : string) (fl : flags) (hf : option (string * nat)) (wf : bool)
         (w w' : world) (tr : list tev) (last : release),
    f_dry_run fl = false ->
    max_rev_of (w_led w) = Some last -> st last <> SUninstalled ->
    NoDup (map rkey (manifest last)) ->
    (f_no_hooks fl = true \/
     forall h, In h (hooks last) -> in_keys (rkey (h_res h)) (manifest last) = false) ->
    run_store_op rn ns (mkOp (OpUninstall fl) (mkSF None None) (mkCF None hf wf)) w = (w', OOk, tr) ->
    (forall r, In r (manifest last) -> manifest_keep r = false -> aget (rkey r) (w_objs w') = None) /\
    (forall r, In r (filter manifest_keep (manifest last)) ->
       aget (rkey r) (w_objs w') = aget (rkey r) (w_objs w)) /\
    (forall key, in_keys key (manifest last) = false ->
       (f_no_hooks fl = true \/ forall h, In h (hooks last) -> rkey (h_res h) <> key) ->
       aget key (w_objs w') = aget key (w_objs w)).
Proof.
  intros rn ns fl hf wf w w' tr last Hdry Hmax Hst Hnd Hhooks H.
  unfold run_store_op, run_op in H. cbn [oc_op oc_sf oc_cf cf_k cf_h cf_wait op_prog] in H.
  destruct (run kstate (kube_handle rn ns) dead_resp (mkSF None None) (uninstall fl)
              (mkR (w_led w) (mkK (w_objs w) None hf wf) 0 0 false [])) as [s out] eqn:E.
  assert (Hc0 : calm (mkR (w_led w) (mkK (w_objs w) None hf wf) 0 0 false [])) by (split; reflexivity).
  pose proof (run_calm rn ns _ _ _ _ E Hc0) as [Hd _].
  rewrite Hd in H. inversion H; subst w' out tr. clear H. cbn [w_objs].
  pose proof (uninstall_objs rn ns fl _ _ last Hdry Hc0 Hmax (status_neq_eqb _ _ Hst) E) as U.
  cbn [ks objs] in U.
  assert (Hmanifest_nohook : forall r, In r (manifest last) -> ~ hooks_touch fl (hooks last) (rkey r)).
  { intros r Hin [Hnh [h [Hh Hk]]]. destruct Hhooks as [Hx|Hx]; [congruence|].
    specialize (Hx h Hh). rewrite Hk in Hx. rewrite (in_keys_In r _ Hin) in Hx. discriminate. }
  repeat split.
  - intros r Hin Hkeep. rewrite U by (now apply Hmanifest_nohook).
    assert (in_keys (rkey r) (uninstall_deleted last) = true) as ->; auto.
    apply in_keys_In. unfold uninstall_deleted. apply filter_In. split; auto. now rewrite Hkeep.
  - intros r Hin. apply filter_In in Hin. destruct Hin as [Hin Hkeep].
    rewrite U by (now apply Hmanifest_nohook).
    assert (in_keys (rkey r) (uninstall_deleted last) = false) as ->; auto.
    apply in_keys_false_iff. intros Hx. apply in_map_iff in Hx. destruct Hx as [r' [Hk Hr']].
    unfold uninstall_deleted in Hr'. apply filter_In in Hr'. destruct Hr' as [Hr' Hnk].
    assert (r' = r) by (eapply NoDup_map_eq; eauto). subst r'. rewrite Hkeep in Hnk. discriminate.
  - intros key Hk Hh. rewrite U.
    + assert (in_keys key (uninstall_deleted last) = false) as ->; auto.
      apply in_keys_false_iff. intros Hx. apply in_keys_false_iff in Hk. apply Hk.
      apply in_map_iff in Hx. destruct Hx as [r' [<- Hr']].
      unfold uninstall_deleted in Hr'. apply filter_In in Hr'. apply in_map. tauto.
    + intros [Hnh [h [Hin Hkey]]]. destruct Hh as [Hx|Hx]; [congruence|]. now apply (Hx h Hin).
Qed.

(* ------------------------------------------------------------------ *)
(* F6 (repaired by 18ab676): the filter as it was.  An entry whose resource-policy annotation
   is present but is not "keep" was put on NEITHER list. *)

Definition prefix_deleted (rel : release) : list res :=
  filter (fun r => match aget policy_key (r_fields r) with None => true | Some _ => false end) (manifest rel).

(* uninstall with the list of resources to delete as a parameter: a copy of Ops.uninstall *)
Definition uninstall_with (todel_of : release -> list res) (fl : flags) : prog outcome :=
  (if f_dry_run fl then
    h <- perform SHistory ;;
    match h with [] => Ret (OErr ENotFoundRel) | _ => Ret OOk end
  else
  h <- perform SHistory ;;
  match max_rev_of h with
  | None => Ret (OErr ENotFoundRel)
  | Some last =>
      let revs := map rev (sort_by_rev h) in
      if status_eqb (st last) SUninstalled then
        if f_keep_history fl then Ret (OErr EOtherErr)
        else ok <- purge revs ;; Ret (if ok then OOk else OErr EOtherErr)
      else
        let rel := with_status last SUninstalling in
        pre <- run_hooks fl rel PreDelete ;;
        if negb pre then Ret (OErr EOtherErr) else
        record_release rel ;;;
        let todel := todel_of rel in
        delok <- match todel with
                 | [] => Ret true
                 | _ => perform (KDelete todel)
                 end ;;
        if negb delok then Ret (OErr EOtherErr) else
        w <- perform (KWaitDelete todel) ;;
        post <- run_hooks fl rel PostDelete ;;
        let rel' := with_status rel SUninstalled in
        if f_keep_history fl then
          record_release rel' ;;;
          Ret (if w && post then OOk else OErr EOtherErr)
        else
          ok <- purge revs ;;
          Ret (if w && post && ok then OOk else OErr EOtherErr)
  end)%prog.

(* the copy is the program of Ops.v when given today's filter *)
Lemma uninstall_with_current fl : uninstall_with uninstall_deleted fl = uninstall fl.
Proof. reflexivity. Qed.

Definition run_prog_store (rn ns : string) (p : prog outcome) (w : world) : world * outcome :=
  let '(s, out) := run kstate (kube_handle rn ns) dead_resp (mkSF None None) p
                       (mkR (w_led w) (mkK (w_objs w) None None false) 0 0 false []) in
  (mkW (led s) (objs (ks s)), if dead s then OCrashed else out).

Local Open Scope string_scope.

Definition no_flags : flags := mkFlags false false false false 0 false false false false 0.

Definition f6_res : res := mkRes "ConfigMap" "a" [("d:k", "v1"); (policy_key, "foo")].
Definition f6_world : world :=
  mkW [mkRelease 1 SDeployed 1 1 [f6_res] []]
      [("ConfigMap/a", stamp_fields "rel" "default" (r_fields f6_res))].

Lemma uninstall_leaks_refuted :
  exists (w : world) (last : release) (r : res),
    max_rev_of (w_led w) = Some last /\ In r (manifest last) /\ manifest_keep r = false /\
    let '(w', out) := run_prog_store "rel" "default" (uninstall_with prefix_deleted no_flags) w in
    out = OOk /\ w_led w' = [] /\ aget (rkey r) (w_objs w') <> None /\
    ~ In r (filter manifest_keep (manifest last)).
Proof.
  exists f6_world, (mkRelease 1 SDeployed 1 1 [f6_res] []), f6_res.
  vm_compute. repeat split; auto; try discriminate.
Qed.

(* ... and with today's filter the same world loses the object *)
Lemma uninstall_f6_repaired :
  let '(w', out) := run_prog_store "rel" "default" (uninstall no_flags) f6_world in
  out = OOk /\ w_objs w' = [].
Proof. vm_compute. auto. Qed.

(* non-vacuity of [uninstall_matches]: keep / Keep<space> / other value / no annotation, a hook, a bystander *)
Definition un_manifest : list res :=
  [mkRes "ConfigMap" "a" [("d:k", "v1"); (policy_key, "keep")];
   mkRes "ConfigMap" "b" [("d:k", "v1"); (policy_key, "Keep ")];
   mkRes "ConfigMap" "c" [("d:k", "v1"); (policy_key, "delete")];
   mkRes "Secret" "s" [("d:p", "YQ==")]].
Definition un_hook : hook := mkHook (mkRes "ConfigMap" "hk" [("d:h", "0")]) [PreDelete; PostDelete] 0%Z [HookSucceeded].
Definition un_last : release := mkRelease 2 SDeployed 1 1 un_manifest [un_hook].
Definition un_world : world :=
  mkW [mkRelease 1 SSuperseded 1 1 un_manifest []; un_last]
      (map (fun r => (rkey r, stamp_fields "rel" "default" (r_fields r))) un_manifest
       ++ [("ConfigMap/z", [("d:k", "bystander")])])%list.

Lemma uninstall_example :
  f_dry_run no_flags = false /\ max_rev_of (w_led un_world) = Some un_last /\ st un_last <> SUninstalled /\
  NoDup (map rkey (manifest un_last)) /\
  (forall h, In h (hooks un_last) -> in_keys (rkey (h_res h)) (manifest un_last) = false) /\
  let '(w', out, _) := run_store_op "rel" "default" (mkOp (OpUninstall no_flags) (mkSF None None) (mkCF None None false)) un_world in
  out = OOk /\ map fst (w_objs w') = ["ConfigMap/a"; "ConfigMap/b"; "ConfigMap/z"] /\
  model_kept un_world = ["[ConfigMap] a"; "[ConfigMap] b"].
Proof.
  split; [reflexivity|]. split; [vm_compute; reflexivity|]. split; [discriminate|].
  split; [vm_compute; repeat constructor; simpl; intuition discriminate|].
  split; [intros h [<-|[]]; vm_compute; reflexivity|].
  vm_compute. auto.
Qed.

(* The model programs of Engine/Ops.v follow the expected effect skeleton: proofs by
   computation over the finite scenario space of Engine/SkeletonModel.v, lifted to
   quantified statements.  The lifting lemmas are fully generic (abstract lists and
   predicates), so that at Qed the kernel never has to convert terms that contain closed,
   evaluable computations other than by beta. *)
From Coq Require Import List String Bool Arith Lia.
From Helm Require Import Engine.Types Engine.Eff Engine.Ops Engine.Skeleton Engine.SkeletonExpected
                         Engine.SkeletonModel.
Import ListNotations.

Lemma fb_spec : forall P, fb P = true -> forall b, P b = true.
Proof. unfold fb. intros P H b. apply andb_prop in H. destruct H, b; assumption. Qed.

Lemma forallb_In {A} (f : A -> bool) l : forallb f l = true -> forall x, In x l -> f x = true.
Proof. intro H. apply forallb_forall. exact H. Qed.

Lemma lift3 {B C} (lb : list B) (lc : list C) (P : B -> C -> bool -> bool) :
  forallb (fun b => forallb (fun c => fb (fun d => P b c d)) lc) lb = true ->
  forall b c d, In b lb -> In c lc -> P b c d = true.
Proof.
  intros H b c d Hb Hc.
  pose proof (forallb_In _ _ H b Hb) as H2.
  pose proof (forallb_In _ _ H2 c Hc) as H3.
  exact (fb_spec _ H3 d).
Qed.

Lemma lift2 {C} (lc : list C) (P : C -> bool -> bool) :
  forallb (fun c => fb (fun d => P c d)) lc = true ->
  forall c d, In c lc -> P c d = true.
Proof.
  intros H c d Hc.
  exact (fb_spec _ (forallb_In _ _ H c Hc) d).
Qed.

Lemma single_ok_spec (F : list nat -> bool) (len : nat) :
  single_ok F len = true -> F [] = true /\ forall n, n < len -> F [n] = true.
Proof.
  intro H. apply andb_prop in H. destruct H as [H0 H1].
  split; [exact H0|].
  intros n Hn. apply (forallb_In _ _ H1 n). apply in_seq. lia.
Qed.

Lemma all_flags_spec (mh v : nat) (P : flags -> bool) :
  all_flags mh v P = true -> forall a c k r h d o t, P (mkFlags a c k r mh h d o t v) = true.
Proof.
  intros H a c k r h d o t. unfold all_flags in H.
  pose proof (fb_spec _ H a) as H1.
  pose proof (fb_spec _ H1 c) as H2.
  pose proof (fb_spec _ H2 k) as H3.
  pose proof (fb_spec _ H3 r) as H4.
  pose proof (fb_spec _ H4 h) as H5.
  pose proof (fb_spec _ H5 d) as H6.
  pose proof (fb_spec _ H6 o) as H7.
  exact (fb_spec _ H7 t).
Qed.

(* the resolved expected table, in normal form *)
Definition rexpected : rtable := Eval vm_compute in resolve_table expected.

Lemma rexpected_is : rexpected = resolve_table expected.
Proof. vm_compute. reflexivity. Qed.

(* the expected table is well-formed: no Unknown node, every Fn / Run names a tracked function *)
Lemma expected_known : table_known expected = true.
Proof. vm_compute. reflexivity. Qed.

Lemma expected_closed : table_closed expected = true.
Proof. vm_compute. reflexivity. Qed.

Lemma lift2l {B C} (lb : list B) (lc : list C) (P : B -> C -> bool) :
  forallb (fun b => forallb (fun c => P b c) lc) lb = true ->
  forall b c, In b lb -> In c lc -> P b c = true.
Proof.
  intros H b c Hb Hc.
  exact (forallb_In _ _ (forallb_In _ _ H b Hb) c Hc).
Qed.

(* what the per-operation files prove by computation, lifted *)
Lemma check_op_ok_lift (o : opk) (t : table) (rt : rtable) :
  check_op_ok o t rt = true ->
  forall fl l ad, In fl (flag_space o) -> In l ledgers -> follows t rt (mkScen o fl l ad) [] = true.
Proof.
  intros H fl l ad Hfl Hl.
  exact (lift3 (flag_space o) ledgers (fun fl l ad => follows t rt (mkScen o fl l ad) [])
               H fl l ad Hfl Hl).
Qed.

Lemma check_op_fail_lift (o : opk) (t : table) (rt : rtable) :
  check_op_fail o t rt = true ->
  forall fl l,
    In fl (fail_flag_space o) -> In l (fail_ledgers o) ->
    follows t rt (mkScen o fl l false) [] = true /\
    forall n, n < List.length (model_trace (mkScen o fl l false) []) ->
              follows t rt (mkScen o fl l false) [n] = true.
Proof.
  intros H fl l Hfl Hl.
  exact (single_ok_spec _ _
           (lift2l (fail_flag_space o) (fail_ledgers o) (fun fl l => scen_ok t rt (mkScen o fl l false))
                   H fl l Hfl Hl)).
Qed.

Lemma check_op_deep_lift (o : opk) (t : table) (rt : rtable) :
  check_op_deep o t rt = true ->
  forall fl l ad,
    In fl (flag_space o) -> In l ledgers ->
    follows t rt (mkScen o fl l ad) [] = true /\
    forall n, n < List.length (model_trace (mkScen o fl l ad) []) ->
              follows t rt (mkScen o fl l ad) [n] = true.
Proof.
  intros H fl l ad Hfl Hl.
  exact (single_ok_spec _ _
           (lift3 (flag_space o) ledgers (fun fl l ad => scen_ok t rt (mkScen o fl l ad))
                  H fl l ad Hfl Hl)).
Qed.

Lemma check_op_all_flags_lift (o : opk) (t : table) (rt : rtable) :
  check_op_all_flags o t rt = true ->
  forall a c k r h d co tk,
    follows t rt (mkScen o (mkFlags a c k r 2 h d co tk 0) (main_ledger o) false) [] = true.
Proof.
  intros H a c k r h d co tk.
  exact (all_flags_spec 2 0 _ H a c k r h d co tk).
Qed.

(* the checker is not vacuous: it rejects the model's install trace with the storage create
   moved behind the cluster create, and with the final status update dropped *)
Definition s_install := mkScen OInstall (mkFlags false false false false 0 true false false false 0) [] false.

Lemma install_trace_is :
  model_trace s_install [] = [DHistory; KcExisting false; DCreate; KcCreate; KcWait; DUpdate].
Proof. vm_compute. reflexivity. Qed.

Lemma checker_rejects_reordered :
  raccepts rexpected [DHistory; KcExisting false; KcCreate; DCreate; KcWait; DUpdate]
           FUEL (index_of "Install.RunWithContext" expected) (env_of (sc_fl s_install)) = false.
Proof. vm_compute. reflexivity. Qed.

Lemma checker_rejects_dropped :
  raccepts rexpected [DHistory; KcExisting false; KcCreate; KcWait; DUpdate]
           FUEL (index_of "Install.RunWithContext" expected) (env_of (sc_fl s_install)) = false.
Proof. vm_compute. reflexivity. Qed.

(* ... and "the resource wait is the last effect" (a failed wait that nobody handles) is no
   path either: performInstall returns the error, RunWithContext must call failRelease *)
Lemma checker_rejects_unhandled :
  raccepts rexpected [DHistory; KcExisting false; DCreate; KcCreate; KcWait]
           FUEL (index_of "Install.RunWithContext" expected) (env_of (sc_fl s_install)) = false.
Proof. vm_compute. reflexivity. Qed.

(* The model programs of Engine/Ops.v follow the expected effect skeleton: proofs by
   computation over the finite scenario space of Engine/SkeletonModel.v, lifted to
   quantified statements.  The lifting lemmas are generic in the table, so that the kernel
   never has to convert terms that contain the (closed, evaluable) expected table. *)
From Coq Require Import List String Bool Arith Lia.
From Helm Require Import Engine.Types Engine.Eff Engine.Ops Engine.Skeleton Engine.SkeletonExpected
                         Engine.SkeletonModel.
Import ListNotations.

Lemma fb_spec : forall P, fb P = true -> forall b, P b = true.
Proof. unfold fb. intros P H b. apply andb_prop in H. destruct H, b; assumption. Qed.

Lemma forallb_In {A} (f : A -> bool) l : forallb f l = true -> forall x, In x l -> f x = true.
Proof. intro H. apply forallb_forall. exact H. Qed.

Lemma check_failures_lift (t : table) (rt : rtable) :
  check_failures t rt = true ->
  forall o fl l ad,
    In o ops -> In fl (flag_space o) -> In l ledgers ->
    follows t rt (mkScen o fl l ad) [] = true /\
    forall n, n < List.length (model_trace (mkScen o fl l ad) []) ->
              follows t rt (mkScen o fl l ad) [n] = true.
Proof.
  intros H o fl l ad Ho Hfl Hl. unfold check_failures in H.
  pose proof (forallb_In _ _ H o Ho) as H1. cbv beta in H1.
  pose proof (forallb_In _ _ H1 fl Hfl) as H2. cbv beta in H2.
  pose proof (forallb_In _ _ H2 l Hl) as H3. cbv beta in H3.
  pose proof (fb_spec _ H3 ad) as Hs. cbv beta in Hs.
  unfold scen_ok in Hs. apply andb_prop in Hs. destruct Hs as [H0 H1'].
  split; [exact H0|].
  intros n Hn. apply (forallb_In _ _ H1' n). apply in_seq. lia.
Qed.

(* the resolved expected table, in normal form *)
Definition rexpected : rtable := Eval vm_compute in resolve_table expected.

Lemma rexpected_is : rexpected = resolve_table expected.
Proof. vm_compute. reflexivity. Qed.

(* the expected table is well-formed: no Unknown node, every Fn / Run names a tracked function *)
Lemma expected_known : table_known expected = true.
Proof. vm_compute. reflexivity. Qed.

Lemma expected_closed : table_closed expected = true.
Proof. vm_compute. reflexivity. Qed.

Lemma check_failures_expected : check_failures expected rexpected = true.
Proof. vm_cast_no_check (eq_refl true). Qed.

(* failure-free runs, and runs in which exactly the n-th effect fails, for every option
   assignment of the operation's flag space, every ledger, adoption or not *)
Lemma model_follows_skeleton_lemma :
  forall o fl l ad,
    In o ops -> In fl (flag_space o) -> In l ledgers ->
    follows expected rexpected (mkScen o fl l ad) [] = true /\
    forall n, n < List.length (model_trace (mkScen o fl l ad) []) ->
              follows expected rexpected (mkScen o fl l ad) [n] = true.
Proof. exact (check_failures_lift expected rexpected check_failures_expected). Qed.

(* the checker is not vacuous: it rejects the model's install trace with the storage create
   moved behind the cluster create, and with the final status update dropped *)
Definition s_install := mkScen OInstall (mkFlags false false false false 0 true false false false 0) [] false.

Lemma install_trace_is :
  model_trace s_install [] = [DHistory; KcExisting false; DCreate; KcCreate; KcWait; DUpdate].
Proof. vm_compute. reflexivity. Qed.

Lemma checker_rejects_reordered :
  raccepts rexpected [DHistory; KcExisting false; KcCreate; DCreate; KcWait; DUpdate]
           FUEL (index_of "Install.RunWithContext" expected) (env_of (sc_fl s_install)) = false.
Proof. vm_compute. reflexivity. Qed.

Lemma checker_rejects_dropped :
  raccepts rexpected [DHistory; KcExisting false; DCreate; KcCreate; KcWait]
           FUEL (index_of "Install.RunWithContext" expected) (env_of (sc_fl s_install)) = false.
Proof. vm_compute. reflexivity. Qed.

(* the scenario space is not trivial: the number of (scenario, failure position) runs *)
Definition count_runs : nat :=
  fold_right Nat.add 0
    (flat_map (fun o => flat_map (fun fl => flat_map (fun l => map (fun ad =>
       S (List.length (model_trace (mkScen o fl l ad) []))) bools) ledgers) (flag_space o)) ops).

(* C09 — quiescent well-formedness by a rely/guarantee-style invariant.

   The "lock" of Helm's pessimistic scheme is the highest revision being pending.  A thread
   is, from the point of view of the ledger, in one of these modes:
     TPre        it has not read the history yet;
     TRead h     it read history [h] while the lock was free; either the ledger is still
                 [h], or somebody has created revision [next_rev h] since (then its own
                 create will be refused);
     TCap v      whatever it knows is stale, but the only write it can attempt is the create
                 of revision [v], which exists;
     TDone       it performs no storage write any more;
   and at most one thread is the OWNER: it created the highest revision [v], which is still
   pending; the ledger is [h' ++ [x']] where [h'] is what the owner knows (it is the only
   writer), and its remaining program follows the protocol [P_crit]: keep [v] pending, write
   back members of [h'] unchanged, supersede the unique deployed member, and release by
   writing a non-pending status to [v] — [deployed] only when nothing else is deployed.

   The protocol predicates are Fixpoints over [prog]; they are proved for [install] (without
   --replace and --atomic) and [upgrade] (without --atomic and history pruning) with all other
   flags, manifests and hooks in ConcRGProgs.v.  Here: the invariant is preserved by every
   single step of every thread, for every cluster behaviour. *)
From Coq Require Import List String Bool Arith ZArith Lia.
From Helm Require Import Common.Assoc Engine.Types Engine.Eff Engine.Ops Engine.Cluster Engine.Seq Engine.SeqProofs
                         Engine.Conc Engine.ConcProofs Engine.ConcLocal Engine.ConcProofsB.
Import ListNotations.

(* ---- ledger vocabulary ---- *)
Definition next_rev (h : list release) : nat :=
  match max_rev_of h with Some m => S (rev m) | None => 1 end.

Definition lock_free (h : list release) : bool :=
  match max_rev_of h with Some m => negb (is_pending (st m)) | None => true end.

Definition deployedb (r : release) : bool := status_eqb (st r) SDeployed.

Definition wf_led (h : list release) : Prop := NoDup (revs h) /\ count_deployed h <= 1.

Lemma status_eqb_eq a b : status_eqb a b = true <-> a = b.
Proof. split; [destruct a, b; simpl; intros H; try discriminate; reflexivity|intros ->; destruct b; reflexivity]. Qed.

Lemma max_rev_of_some l m : max_rev_of l = Some m -> In m l /\ forall r, In r l -> rev r <= rev m.
Proof.
  revert m. induction l as [|x t IH]; simpl; intros m H; [discriminate|].
  destruct (max_rev_of t) as [m'|] eqn:E.
  - destruct (IH m' eq_refl) as [Hin Hle].
    destruct (Nat.ltb (rev m') (rev x)) eqn:El; inversion H; subst m.
    + apply Nat.ltb_lt in El. split; [now left|]. intros r [<-|Hr]; [lia|]. specialize (Hle r Hr). lia.
    + apply Nat.ltb_ge in El. split; [now right|]. intros r [<-|Hr]; [lia|auto].
  - inversion H; subst m. destruct t; [|simpl in E; destruct (max_rev_of t); [destruct (Nat.ltb _ _)|]; discriminate].
    split; [now left|]. intros r [<-|[]]. lia.
Qed.

Lemma max_rev_of_none l : max_rev_of l = None -> l = [].
Proof.
  destruct l as [|x t]; simpl; auto. destruct (max_rev_of t); [destruct (Nat.ltb _ _)|]; discriminate.
Qed.

Lemma next_rev_gt h r : In r h -> rev r < next_rev h.
Proof.
  unfold next_rev. intros H. destruct (max_rev_of h) as [m|] eqn:E.
  - destruct (max_rev_of_some _ _ E) as [_ Hle]. specialize (Hle r H). lia.
  - apply max_rev_of_none in E. subst. contradiction.
Qed.

Lemma has_rev_false_iff v l : has_rev v l = false <-> ~ In v (revs l).
Proof.
  split; [apply has_rev_false_notin|]. intros H. destruct (has_rev v l) eqn:E; auto.
  exfalso. apply H. now apply has_rev_true_in.
Qed.

Lemma in_revs r l : In r l -> In (rev r) (revs l).
Proof. unfold revs. apply in_map. Qed.

Lemma has_rev_in r l : In r l -> has_rev (rev r) l = true.
Proof.
  intros H. unfold has_rev. apply existsb_exists. exists r. split; auto. apply Nat.eqb_refl.
Qed.

Lemma next_rev_fresh h : has_rev (next_rev h) h = false.
Proof.
  apply has_rev_false_iff. intros H. unfold revs in H. apply in_map_iff in H.
  destruct H as [r [E Hr]]. pose proof (next_rev_gt h r Hr). lia.
Qed.

Lemma max_rev_of_snoc h x : (forall r, In r h -> rev r < rev x) -> max_rev_of (h ++ [x]) = Some x.
Proof.
  induction h as [|y t IH]; simpl; intros H; auto.
  rewrite IH by (intros r Hr; apply H; now right).
  assert (rev y < rev x) by (apply H; now left).
  destruct (Nat.ltb (rev x) (rev y)) eqn:E; auto. apply Nat.ltb_lt in E. lia.
Qed.

Lemma count_deployed_app a b : count_deployed (a ++ b) = count_deployed a + count_deployed b.
Proof. unfold count_deployed. rewrite filter_app, app_length. reflexivity. Qed.

Lemma count_deployed_single x : count_deployed [x] = if deployedb x then 1 else 0.
Proof. unfold count_deployed, deployedb. simpl. destruct (status_eqb (st x) SDeployed); reflexivity. Qed.

Lemma pending_not_deployed x : is_pending (st x) = true -> deployedb x = false.
Proof. unfold deployedb. destruct (st x); simpl; intros H; try discriminate; reflexivity. Qed.

Lemma replace_rev_app y a b : replace_rev y (a ++ b) = (replace_rev y a ++ replace_rev y b)%list.
Proof. unfold replace_rev. apply map_app. Qed.

Lemma replace_rev_notin y l : ~ In (rev y) (revs l) -> replace_rev y l = l.
Proof.
  unfold replace_rev, revs. induction l as [|x t IH]; simpl; intros H; auto.
  destruct (Nat.eqb (rev x) (rev y)) eqn:E.
  - apply Nat.eqb_eq in E. exfalso. apply H. now left.
  - f_equal. apply IH. intros Hin. apply H. now right.
Qed.

Lemma replace_rev_member y l : NoDup (revs l) -> In y l -> replace_rev y l = l.
Proof.
  unfold replace_rev, revs. induction l as [|x t IH]; simpl; intros Hn Hy; auto.
  inversion Hn; subst. destruct Hy as [->|Hy].
  - rewrite Nat.eqb_refl. f_equal. apply (replace_rev_notin y t). exact H1.
  - destruct (Nat.eqb (rev x) (rev y)) eqn:E.
    + apply Nat.eqb_eq in E. exfalso. apply H1. rewrite E. now apply in_map.
    + f_equal. now apply IH.
Qed.

Lemma has_rev_replace v y l : has_rev v (replace_rev y l) = has_rev v l.
Proof.
  destruct (has_rev v l) eqn:E.
  - apply has_rev_true_in in E. rewrite <- (revs_replace y l) in E.
    destruct (has_rev v (replace_rev y l)) eqn:E2; auto.
    apply has_rev_false_iff in E2. contradiction.
  - apply has_rev_false_iff in E. apply has_rev_false_iff. now rewrite revs_replace.
Qed.

Lemma has_rev_app v a b : has_rev v (a ++ b) = has_rev v a || has_rev v b.
Proof. unfold has_rev. apply existsb_app. Qed.

Lemma count_deployed_superseded c l :
  (forall d, In d l -> st d = SDeployed -> rev d = rev c) ->
  count_deployed (replace_rev (with_status c SSuperseded) l) = 0.
Proof.
  unfold count_deployed, replace_rev. induction l as [|x t IH]; simpl; intros H; auto.
  destruct (Nat.eqb (rev x) (rev c)) eqn:E; simpl.
  - apply IH. intros d Hd. apply H. now right.
  - destruct (status_eqb (st x) SDeployed) eqn:Es.
    + apply status_eqb_eq in Es. apply Nat.eqb_neq in E. exfalso. apply E. apply H; [now left|exact Es].
    + apply IH. intros d Hd. apply H. now right.
Qed.

Lemma count_le1_unique l a b :
  count_deployed l <= 1 -> In a l -> In b l -> st a = SDeployed -> st b = SDeployed -> a = b.
Proof.
  unfold count_deployed. induction l as [|x t IH]; simpl; intros Hc Ha Hb Sa Sb; [contradiction|].
  assert (Z : forall y, In y t -> st y = SDeployed ->
              1 <= List.length (filter (fun r => status_eqb (st r) SDeployed) t)).
  { intros y Hy Sy. assert (In y (filter (fun r => status_eqb (st r) SDeployed) t)).
    { apply filter_In. split; auto. now apply status_eqb_eq. }
    destruct (filter _ t); [contradiction|simpl; lia]. }
  destruct (status_eqb (st x) SDeployed) eqn:Ex; simpl in Hc.
  - destruct Ha as [<-|Ha]; destruct Hb as [<-|Hb]; auto.
    + specialize (Z b Hb Sb). lia.
    + specialize (Z a Ha Sa). lia.
    + specialize (Z a Ha Sa). lia.
  - destruct Ha as [<-|Ha]; [apply status_eqb_eq in Sa; congruence|].
    destruct Hb as [<-|Hb]; [apply status_eqb_eq in Sb; congruence|]. now apply IH.
Qed.

Lemma count_zero_none l d : count_deployed l = 0 -> In d l -> st d = SDeployed -> False.
Proof.
  unfold count_deployed. intros H Hd Sd.
  assert (In d (filter (fun r => status_eqb (st r) SDeployed) l)).
  { apply filter_In. split; auto. now apply status_eqb_eq. }
  destruct (filter _ l); [contradiction|discriminate].
Qed.

Lemma NoDup_revs_app_l a b : NoDup (revs (a ++ b)) -> NoDup (revs a).
Proof.
  rewrite revs_app. generalize (revs a) (revs b). intros x y. induction x as [|z t IH]; simpl; intros H.
  - constructor.
  - inversion H; subst. constructor; auto. intros Hin. apply H2. apply in_or_app. now left.
Qed.

(* ---- the protocol predicates ---- *)
Definition P_done {A} (p : prog A) : Prop := all_eff not_write p.

Fixpoint P_cap {A} (v : nat) (p : prog A) : Prop :=
  match p with
  | Ret _ => True
  | Eff e k =>
      match e as e' return (resp e' -> prog A) -> (resp e' -> Prop) -> Prop with
      | SCreate x => fun k _ => rev x = v /\ P_done (k SExists) /\ P_done (k SNotFound) /\ P_done (k SFail)
      | SUpdate _ | SDelete _ => fun _ _ => False
      | _ => fun _ ih => forall r, ih r
      end k (fun r => P_cap v (k r))
  end.

Fixpoint P_crit {A} (h' : list release) (v : nat) (p : prog A) {struct p} : Prop :=
  match p with
  | Ret _ => True
  | Eff e k =>
      match e as e' return (resp e' -> prog A) -> (list release -> resp e' -> Prop) -> Prop with
      | SCreate _ | SDelete _ => fun _ _ => False
      | SUpdate y => fun k ih =>
          (rev y = v /\ is_pending (st y) = true /\ forall r, ih h' r)
          \/ (rev y = v /\ is_pending (st y) = false
              /\ (st y = SDeployed -> count_deployed h' = 0) /\ forall r, P_done (k r))
          \/ (In y h' /\ forall r, ih h' r)
          \/ (exists c, In c h' /\ y = with_status c SSuperseded
                        /\ (forall d, In d h' -> st d = SDeployed -> rev d = rev c)
                        /\ forall r, ih (replace_rev y h') r)
      | _ => fun _ ih => forall r, ih h' r
      end k (fun h'' r => P_crit h'' v (k r))
  end.

Fixpoint P_read {A} (h : list release) (p : prog A) : Prop :=
  match p with
  | Ret _ => True
  | Eff e k =>
      match e as e' return (resp e' -> prog A) -> (resp e' -> Prop) -> Prop with
      | SCreate x => fun k _ =>
          rev x = next_rev h /\ is_pending (st x) = true
          /\ (wf_led h -> P_crit h (rev x) (k SOk))
          /\ P_done (k SExists) /\ P_done (k SNotFound) /\ P_done (k SFail)
      | SUpdate _ | SDelete _ => fun _ _ => False
      | SHistory => fun k ih => ih h /\ forall r, P_cap (next_rev h) (k r)
      | SDeployedAll => fun k ih =>
          ih (filter (fun r => status_eqb (st r) SDeployed) h) /\ forall r, P_cap (next_rev h) (k r)
      | SGet w => fun k ih =>
          ih (find (fun r => Nat.eqb (rev r) w) h) /\ forall r, P_cap (next_rev h) (k r)
      | _ => fun _ ih => forall r, ih r
      end k (fun r => P_read h (k r))
  end.

Fixpoint P_pre {A} (p : prog A) : Prop :=
  match p with
  | Ret _ => True
  | Eff e k =>
      match e as e' return (resp e' -> prog A) -> (resp e' -> Prop) -> Prop with
      | SHistory => fun k _ =>
          forall h, wf_led h -> (lock_free h = true -> P_read h (k h)) /\ (lock_free h = false -> P_done (k h))
      | SCreate _ | SUpdate _ | SDelete _ => fun _ _ => False
      | _ => fun _ ih => forall r, ih r
      end k (fun r => P_pre (k r))
  end.

(* ---- thread modes and the invariant ---- *)
Inductive tmode := TPre | TRead (h : list release) | TCap (v : nat) | TDone.

Definition tlocal {A} (m : tmode) (p : prog A) (led : list release) : Prop :=
  match m with
  | TPre => P_pre p
  | TRead h => P_read h p /\ lock_free h = true /\ (led = h \/ has_rev (next_rev h) led = true)
  | TCap v => P_cap v p /\ has_rev v led = true
  | TDone => P_done p
  end.

Definition owner := option (nat * list release * nat).

Definition owned_by_other (own : owner) (j : nat) : Prop :=
  match own with Some (i, _, _) => i <> j | None => True end.

Section RG.
  Variable K : Type.
  Variable kh : forall e : eff, K -> K * resp e * list kev.
  Variable dresp : forall e : eff, resp e.
  Variable A : Type.

  Definition own_ok (own : owner) (ts : list (prog A)) (led : list release) : Prop :=
    match own with
    | None => lock_free led = true
    | Some (i, h', v) =>
        exists x', led = (h' ++ [x'])%list /\ rev x' = v /\ is_pending (st x') = true
                   /\ (forall r, In r h' -> rev r < v)
                   /\ exists p, nth_error ts i = Some p /\ P_crit h' v p
    end.

  Definition rg_inv (ts : list (prog A)) (s : cstate K) : Prop :=
    exists (own : owner) (tg : nat -> tmode),
      wf_led (c_led s)
      /\ own_ok own ts (c_led s)
      /\ forall j p, nth_error ts j = Some p -> owned_by_other own j -> tlocal (tg j) p (c_led s).

  Definition upd (tg : nat -> tmode) (i : nat) (m : tmode) : nat -> tmode :=
    fun j => if Nat.eqb j i then m else tg j.

  Lemma upd_same tg i m : upd tg i m i = m.
  Proof. unfold upd. now rewrite Nat.eqb_refl. Qed.
  Lemma upd_other tg i m j : j <> i -> upd tg i m j = tg j.
  Proof. unfold upd. intros H. apply Nat.eqb_neq in H. now rewrite H. Qed.

  (* a locked ledger is not lock-free *)
  Lemma locked_not_free h' x' :
    (forall r, In r h' -> rev r < rev x') -> is_pending (st x') = true -> lock_free (h' ++ [x']) = false.
  Proof. intros H Hp. unfold lock_free. rewrite max_rev_of_snoc by exact H. now rewrite Hp. Qed.

  Lemma released_free h' y :
    (forall r, In r h' -> rev r < rev y) -> is_pending (st y) = false -> lock_free (h' ++ [y]) = true.
  Proof. intros H Hp. unfold lock_free. rewrite max_rev_of_snoc by exact H. now rewrite Hp. Qed.

  (* the ledger after one effect that is not a storage write is unchanged *)
  Lemma cstep_led_nonwrite i e (s : cstate K) :
    is_storage_write e = false -> c_led (fst (cstep K kh dresp i e s)) = c_led s.
  Proof.
    intros H. destruct (cstep_spec K kh dresp i e s) as [r [out [E _]]]. rewrite E. simpl.
    destruct (is_cluster_call e); auto. destruct e; simpl in *; try discriminate; reflexivity.
  Qed.

  (* answers of storage effects *)
  Lemma cstep_resp_storage i e (s : cstate K) :
    is_cluster_call e = false -> snd (cstep K kh dresp i e s) = snd (fst (storage_apply dresp e (c_led s))).
  Proof.
    intros H. destruct (cstep_spec K kh dresp i e s) as [r [out [E Hs]]]. rewrite E. simpl.
    destruct (Hs H) as [-> _]. reflexivity.
  Qed.

  Lemma cstep_led_storage i e (s : cstate K) :
    is_cluster_call e = false -> c_led (fst (cstep K kh dresp i e s)) = fst (fst (storage_apply dresp e (c_led s))).
  Proof.
    intros H. destruct (cstep_spec K kh dresp i e s) as [r [out [E _]]]. rewrite E. simpl. now rewrite H.
  Qed.

  (* other threads' local assertions survive a step that leaves the ledger unchanged *)
  Lemma others_unchanged own tg i (m : tmode) ts (q : prog A) led :
    (forall j p, nth_error ts j = Some p -> owned_by_other own j -> tlocal (tg j) p led) ->
    i < List.length ts ->
    (owned_by_other own i -> tlocal m q led) ->
    forall j p, nth_error (set_nth i q ts) j = Some p -> owned_by_other own j -> tlocal (upd tg i m j) p led.
  Proof.
    intros H Hi Hq j p Hj Ho. destruct (Nat.eq_dec j i) as [->|Hne].
    - rewrite nth_error_set_nth_eq in Hj by exact Hi. inversion Hj; subst p. rewrite upd_same. auto.
    - rewrite nth_error_set_nth_neq in Hj by congruence. rewrite upd_other by exact Hne. auto.
  Qed.

  Lemma own_ok_other_step own ts led i (q : prog A) :
    own_ok own ts led -> owned_by_other own i -> own_ok own (set_nth i q ts) led.
  Proof.
    destruct own as [[[o h'] v]|]; simpl; auto.
    intros [x' [E [Hv [Hp [Hlt [p [Hn Hc]]]]]]] Hne.
    exists x'. repeat (split; auto). exists p. split; auto.
    rewrite nth_error_set_nth_neq by congruence. exact Hn.
  Qed.

  (* has_rev survives every storage effect other than delete *)
  Lemma has_rev_storage_apply v e l :
    not_delete e -> has_rev v l = true -> has_rev v (fst (fst (storage_apply dresp e l))) = true.
  Proof.
    intros Hd H. destruct e; simpl in *; auto; try contradiction.
    - destruct (has_rev (rev r) l); simpl; auto. rewrite has_rev_app, H. reflexivity.
    - destruct (has_rev (rev r) l); simpl; auto. now rewrite has_rev_replace.
  Qed.

  (* ---------------------------------------------------------------- *)
  (* a step of a thread that is NOT the owner *)
  Lemma step_non_owner own tg i ts (s : cstate K) e k :
    wf_led (c_led s) ->
    own_ok own ts (c_led s) ->
    (forall j p, nth_error ts j = Some p -> owned_by_other own j -> tlocal (tg j) p (c_led s)) ->
    nth_error ts i = Some (Eff e k) ->
    owned_by_other own i ->
    rg_inv (set_nth i (k (snd (cstep K kh dresp i e s))) ts) (fst (cstep K kh dresp i e s)).
  Proof.
    intros Hwf Hown Hall Hn Hoi.
    assert (Hi : i < List.length ts) by (eapply nth_error_lt; eauto).
    pose proof (Hall i _ Hn Hoi) as Hloc.
    set (r := snd (cstep K kh dresp i e s)).
    set (s' := fst (cstep K kh dresp i e s)).
    (* generic closing step when the ledger is unchanged *)
    assert (Same : c_led s' = c_led s -> forall m, tlocal m (k r) (c_led s) ->
                   rg_inv (set_nth i (k r) ts) s').
    { intros El m Hm. exists own, (upd tg i m). rewrite El.
      split; [exact Hwf|]. split; [now apply own_ok_other_step|].
      apply others_unchanged; auto. }
    assert (SameNW : is_storage_write e = false -> forall m, tlocal m (k r) (c_led s) ->
                     rg_inv (set_nth i (k r) ts) s').
    { intros Hnw. apply Same. unfold s'. now apply cstep_led_nonwrite. }
    destruct (tg i) as [|h|v|] eqn:Eg; simpl in Hloc.
    - (* TPre *)
      destruct e; simpl in Hloc; try contradiction;
        try (apply (SameNW eq_refl TPre); simpl; apply Hloc).
      (* SHistory *)
      assert (Er : r = c_led s) by (unfold r; rewrite cstep_resp_storage by reflexivity; reflexivity).
      destruct (Hloc (c_led s) Hwf) as [H1 H2].
      destruct (lock_free (c_led s)) eqn:Elf.
      + apply (SameNW eq_refl (TRead (c_led s))). simpl.
        rewrite Er. split; [auto|]. split; auto.
      + apply (SameNW eq_refl TDone). simpl. rewrite Er. auto.
    - (* TRead h *)
      destruct Hloc as [Hp [Hlf Hacc]].
      destruct e; simpl in Hp; try contradiction.
      + (* SHistory *)
        destruct Hp as [Hp1 Hp2].
        assert (Er : r = c_led s) by (unfold r; rewrite cstep_resp_storage by reflexivity; reflexivity).
        destruct Hacc as [Ea|Hs].
        * apply (SameNW eq_refl (TRead h)). simpl. rewrite Er, Ea. auto.
        * apply (SameNW eq_refl (TCap (next_rev h))). simpl. auto.
      + (* SDeployedAll *)
        destruct Hp as [Hp1 Hp2].
        assert (Er : r = filter (fun x => status_eqb (st x) SDeployed) (c_led s))
          by (unfold r; rewrite cstep_resp_storage by reflexivity; reflexivity).
        destruct Hacc as [Ea|Hs].
        * apply (SameNW eq_refl (TRead h)). simpl. rewrite Er, Ea. auto.
        * apply (SameNW eq_refl (TCap (next_rev h))). simpl. auto.
      + (* SGet *)
        destruct Hp as [Hp1 Hp2].
        assert (Er : r = find (fun x => Nat.eqb (rev x) v) (c_led s))
          by (unfold r; rewrite cstep_resp_storage by reflexivity; reflexivity).
        destruct Hacc as [Ea|Hs].
        * apply (SameNW eq_refl (TRead h)). simpl. rewrite Er, Ea. auto.
        * apply (SameNW eq_refl (TCap (next_rev h))). simpl. auto.
      + (* SCreate x *)
        rename r0 into x.
        destruct Hp as [Hrev [Hpend [Hcrit [Hd1 [Hd2 Hd3]]]]].
        assert (Er : r = snd (fst (storage_apply dresp (SCreate x) (c_led s))))
          by (unfold r; now rewrite cstep_resp_storage).
        assert (El : c_led s' = fst (fst (storage_apply dresp (SCreate x) (c_led s))))
          by (unfold s'; now rewrite cstep_led_storage).
        simpl in Er, El.
        destruct Hacc as [Ea|Hs].
        * (* accurate: the create succeeds and this thread becomes the owner *)
          assert (Hfresh : has_rev (rev x) (c_led s) = false) by (rewrite Hrev, Ea; apply next_rev_fresh).
          rewrite Hfresh in Er, El. simpl in Er, El.
          assert (Hnone : own = None).
          { destruct own as [[[o h'] v']|]; auto. exfalso.
            simpl in Hown. destruct Hown as [x' [E [Hv [Hpx [Hlt _]]]]].
            rewrite <- Ea, E in Hlf. subst v'. rewrite locked_not_free in Hlf; auto. discriminate. }
          subst own.
          exists (Some (i, h, rev x)), tg. rewrite El.
          destruct Hwf as [Hnd Hcnt].
          split.
          { split.
            - rewrite revs_app. simpl. apply NoDup_snoc; auto. now apply has_rev_false_iff.
            - rewrite count_deployed_app, count_deployed_single, (pending_not_deployed x Hpend). lia. }
          split.
          { simpl. exists x. rewrite Ea. repeat (split; auto).
            - intros r0 Hr0. rewrite Hrev. now apply next_rev_gt.
            - exists (k r). split; [now apply nth_error_set_nth_eq|].
              rewrite Er. apply Hcrit. rewrite <- Ea. split; auto. }
          intros j p Hj Hoj. simpl in Hoj.
          rewrite nth_error_set_nth_neq in Hj by exact Hoj.
          pose proof (Hall j p Hj I) as Hl.
          destruct (tg j) as [|hj|vj|]; simpl in *; auto.
          -- destruct Hl as [Hpj [Hlfj Haccj]]. split; auto. split; auto. right.
             destruct Haccj as [Eaj|Hsj].
             ++ rewrite <- Eaj, Ea, <- Hrev, has_rev_app. simpl. rewrite Nat.eqb_refl.
                now rewrite orb_true_r.
             ++ rewrite has_rev_app, Hsj. reflexivity.
          -- destruct Hl as [Hpj Hvj]. split; auto. rewrite has_rev_app, Hvj. reflexivity.
        * (* stale: the revision exists, the create is refused *)
          rewrite Hrev, Hs in Er, El. simpl in Er, El.
          apply (Same El TDone). simpl. rewrite Er. exact Hd1.
      + apply (SameNW eq_refl (TRead h)); simpl; auto.
      + apply (SameNW eq_refl (TRead h)); simpl; auto.
      + apply (SameNW eq_refl (TRead h)); simpl; auto.
      + apply (SameNW eq_refl (TRead h)); simpl; auto.
      + apply (SameNW eq_refl (TRead h)); simpl; auto.
      + apply (SameNW eq_refl (TRead h)); simpl; auto.
      + apply (SameNW eq_refl (TRead h)); simpl; auto.
    - (* TCap v *)
      destruct Hloc as [Hp Hv].
      destruct e; simpl in Hp; try contradiction;
        try (apply (SameNW eq_refl (TCap v)); simpl; split; [apply Hp|exact Hv]).
      (* SCreate x *)
      rename r0 into x. destruct Hp as [Hrev [Hd1 [Hd2 Hd3]]].
      assert (Er : r = snd (fst (storage_apply dresp (SCreate x) (c_led s))))
        by (unfold r; now rewrite cstep_resp_storage).
      assert (El : c_led s' = fst (fst (storage_apply dresp (SCreate x) (c_led s))))
        by (unfold s'; now rewrite cstep_led_storage).
      simpl in Er, El. rewrite Hrev, Hv in Er, El. simpl in Er, El.
      apply (Same El TDone). simpl. rewrite Er. exact Hd1.
    - (* TDone *)
      unfold P_done in Hloc. simpl in Hloc. destruct Hloc as [Hnw Hk].
      apply (SameNW Hnw TDone). simpl. apply Hk.
  Qed.

  (* ---------------------------------------------------------------- *)
  (* a step of the owner *)
  Lemma replace_single y x : rev x = rev y -> replace_rev y [x] = [y].
  Proof. intros H. unfold replace_rev. simpl. rewrite H, Nat.eqb_refl. reflexivity. Qed.

  Lemma replace_single_other y x : rev x <> rev y -> replace_rev y [x] = [x].
  Proof. intros H. unfold replace_rev. simpl. apply Nat.eqb_neq in H. now rewrite H. Qed.

  Lemma lt_notin_revs v h : (forall r, In r h -> rev r < v) -> ~ In v (revs h).
  Proof.
    intros H Hin. unfold revs in Hin. apply in_map_iff in Hin. destruct Hin as [r [E Hr]].
    specialize (H r Hr). lia.
  Qed.

  Lemma in_replace_rev_lt y h v :
    (forall r, In r h -> rev r < v) -> forall r, In r (replace_rev y h) -> rev r < v.
  Proof.
    intros H r Hr. apply in_revs in Hr. rewrite revs_replace in Hr.
    unfold revs in Hr. apply in_map_iff in Hr. destruct Hr as [r0 [E Hr0]]. rewrite <- E. auto.
  Qed.

  (* what the others know survives a write of the owner (the ledger is locked) *)
  Lemma other_survives_owner_write (m : tmode) (p : prog A) h' x' y :
    (forall r, In r h' -> rev r < rev x') -> is_pending (st x') = true ->
    tlocal m p (h' ++ [x']) -> tlocal m p (replace_rev y (h' ++ [x'])).
  Proof.
    intros Hlt Hp. destruct m as [|h|v|]; simpl; auto.
    - intros [H1 [H2 H3]]. split; auto. split; auto. right. destruct H3 as [E|H3].
      + rewrite <- E in H2. rewrite locked_not_free in H2; auto. discriminate.
      + now rewrite has_rev_replace.
    - intros [H1 H2]. split; auto. now rewrite has_rev_replace.
  Qed.

  Lemma step_owner tg i h' v ts (s : cstate K) e k :
    wf_led (c_led s) ->
    own_ok (Some (i, h', v)) ts (c_led s) ->
    (forall j p, nth_error ts j = Some p -> i <> j -> tlocal (tg j) p (c_led s)) ->
    nth_error ts i = Some (Eff e k) ->
    rg_inv (set_nth i (k (snd (cstep K kh dresp i e s))) ts) (fst (cstep K kh dresp i e s)).
  Proof.
    intros Hwf Hown Hall Hn.
    assert (Hi : i < List.length ts) by (eapply nth_error_lt; eauto).
    simpl in Hown. destruct Hown as [x' [El [Hv [Hpx [Hlt [p [Hp Hc]]]]]]].
    rewrite Hn in Hp. inversion Hp; subst p. clear Hp.
    set (r := snd (cstep K kh dresp i e s)).
    set (s' := fst (cstep K kh dresp i e s)).
    assert (Hothers : forall led', (forall m q, tlocal m q (c_led s) -> tlocal (A:=A) m q led') ->
              forall own', (forall j, j <> i -> owned_by_other own' j -> True) ->
              forall j q, nth_error (set_nth i (k r) ts) j = Some q -> i <> j -> tlocal (tg j) q led').
    { intros led' Hm own' _ j q Hj Hne. rewrite nth_error_set_nth_neq in Hj by exact Hne. apply Hm. auto. }
    (* the ledger is unchanged: the owner goes on *)
    assert (Same : c_led s' = c_led s -> P_crit h' v (k r) -> rg_inv (set_nth i (k r) ts) s').
    { intros E Hk. exists (Some (i, h', v)), tg. rewrite E. split; [exact Hwf|]. split.
      - simpl. exists x'. repeat (split; auto). exists (k r). split; [now apply nth_error_set_nth_eq|exact Hk].
      - intros j q Hj Hne. simpl in Hne. rewrite nth_error_set_nth_neq in Hj by exact Hne. auto. }
    destruct e as [| |w|x|y|w| | | | | | |]; simpl in Hc; try contradiction;
      try (apply Same; [unfold s'; now apply cstep_led_nonwrite|apply Hc]).
    (* SUpdate y *)
    assert (Er : r = snd (fst (storage_apply dresp (SUpdate y) (c_led s))))
      by (unfold r; now rewrite cstep_resp_storage).
    assert (El' : c_led s' = fst (fst (storage_apply dresp (SUpdate y) (c_led s))))
      by (unfold s'; now rewrite cstep_led_storage).
    simpl in Er, El'.
    destruct Hwf as [Hnd Hcnt].
    assert (Hnd' : NoDup (revs h')) by (rewrite El in Hnd; now apply NoDup_revs_app_l in Hnd).
    assert (Hvn : ~ In v (revs h')) by (now apply lt_notin_revs).
    assert (Hcnt' : count_deployed h' <= 1).
    { rewrite El, count_deployed_app in Hcnt. lia. }
    assert (Hcx : count_deployed (c_led s) = count_deployed h').
    { rewrite El, count_deployed_app, count_deployed_single, (pending_not_deployed x' Hpx). lia. }
    assert (Hrest : forall j q, nth_error (set_nth i (k r) ts) j = Some q -> i <> j ->
                      tlocal (tg j) q (replace_rev y (c_led s))).
    { intros j q Hj Hne. rewrite nth_error_set_nth_neq in Hj by exact Hne.
      rewrite El. apply other_survives_owner_write; [now rewrite Hv|exact Hpx|]. rewrite <- El. auto. }
    destruct Hc as [[Hy [Hpy Hk]]|[[Hy [Hpy [Hdep Hk]]]|[[Hin Hk]|[c [Hcin [Hyc [Huniq Hk]]]]]]].
    - (* keeps its revision pending *)
      assert (Hh : has_rev (rev y) (c_led s) = true).
      { rewrite El, has_rev_app. simpl. rewrite Hy, <- Hv, Nat.eqb_refl. now rewrite orb_true_r. }
      rewrite Hh in Er, El'. simpl in Er, El'.
      assert (Eshape : replace_rev y (c_led s) = (h' ++ [y])%list).
      { rewrite El, replace_rev_app, replace_rev_notin by (now rewrite Hy).
        rewrite replace_single by congruence. reflexivity. }
      exists (Some (i, h', v)), tg. rewrite El'. split.
      { split; [now rewrite revs_replace|].
        rewrite Eshape, count_deployed_app, count_deployed_single, (pending_not_deployed y Hpy). lia. }
      split.
      { simpl. exists y. rewrite Eshape. repeat (split; auto).
        exists (k r). split; [now apply nth_error_set_nth_eq|apply Hk]. }
      intros j q Hj Hne. simpl in Hne. now apply Hrest.
    - (* releases the lock *)
      assert (Hh : has_rev (rev y) (c_led s) = true).
      { rewrite El, has_rev_app. simpl. rewrite Hy, <- Hv, Nat.eqb_refl. now rewrite orb_true_r. }
      rewrite Hh in Er, El'. simpl in Er, El'.
      assert (Eshape : replace_rev y (c_led s) = (h' ++ [y])%list).
      { rewrite El, replace_rev_app, replace_rev_notin by (now rewrite Hy).
        rewrite replace_single by congruence. reflexivity. }
      exists None, (upd tg i TDone). rewrite El'. split.
      { split; [now rewrite revs_replace|].
        rewrite Eshape, count_deployed_app, count_deployed_single. unfold deployedb.
        destruct (status_eqb (st y) SDeployed) eqn:Ed.
        - apply status_eqb_eq in Ed. rewrite (Hdep Ed). lia.
        - lia. }
      split.
      { simpl. rewrite Eshape. apply released_free; [now rewrite Hy|exact Hpy]. }
      intros j q Hj _. destruct (Nat.eq_dec j i) as [->|Hne].
      + rewrite nth_error_set_nth_eq in Hj by exact Hi. inversion Hj; subst q.
        rewrite upd_same. simpl. apply Hk.
      + rewrite upd_other by exact Hne. apply Hrest; auto.
    - (* writes back a member of what it knows, unchanged *)
      assert (Hry : rev y <> v) by (specialize (Hlt y Hin); lia).
      assert (Hh : has_rev (rev y) (c_led s) = true).
      { rewrite El, has_rev_app, (has_rev_in y h' Hin). reflexivity. }
      rewrite Hh in Er, El'. simpl in Er, El'.
      assert (Eshape : replace_rev y (c_led s) = c_led s).
      { rewrite El, replace_rev_app, (replace_rev_member y h' Hnd' Hin).
        rewrite replace_single_other by congruence. reflexivity. }
      apply Same; [now rewrite El', Eshape|apply Hk].
    - (* supersedes the deployed member *)
      assert (Hry : rev y = rev c) by (rewrite Hyc; reflexivity).
      assert (Hrv : rev y <> v) by (specialize (Hlt c Hcin); lia).
      assert (Hh : has_rev (rev y) (c_led s) = true).
      { rewrite El, has_rev_app, Hry, (has_rev_in c h' Hcin). reflexivity. }
      rewrite Hh in Er, El'. simpl in Er, El'.
      assert (Eshape : replace_rev y (c_led s) = (replace_rev y h' ++ [x'])%list).
      { rewrite El, replace_rev_app. rewrite replace_single_other by congruence. reflexivity. }
      exists (Some (i, replace_rev y h', v)), tg. rewrite El'. split.
      { split; [now rewrite revs_replace|].
        rewrite Eshape, count_deployed_app, count_deployed_single, (pending_not_deployed x' Hpx).
        rewrite Hyc, (count_deployed_superseded c h' Huniq). lia. }
      split.
      { simpl. exists x'. rewrite Eshape. repeat (split; auto).
        - now apply in_replace_rev_lt.
        - exists (k r). split; [now apply nth_error_set_nth_eq|apply Hk]. }
      intros j q Hj Hne. simpl in Hne. now apply Hrest.
  Qed.

  Theorem rg_step i ts s ts' s' :
    rg_inv ts s -> step_thread K kh dresp A i ts s = Some (ts', s') -> rg_inv ts' s'.
  Proof.
    intros [own [tg [Hwf [Hown Hall]]]] St.
    apply step_thread_inv in St. destruct St as [e [k [Hn [-> ->]]]].
    destruct own as [[[o h'] v]|].
    - destruct (Nat.eq_dec o i) as [->|Hne].
      + apply (step_owner tg i h' v ts s e k Hwf Hown); [|exact Hn].
        intros j p Hj Hij. apply Hall; auto.
      + apply (step_non_owner (Some (o, h', v)) tg i ts s e k Hwf Hown Hall Hn). simpl. exact Hne.
    - apply (step_non_owner None tg i ts s e k Hwf Hown Hall Hn). exact I.
  Qed.

  (* EVERY schedule, any number of threads, every cluster behaviour: if every thread's program
     follows the protocol and the starting ledger is well-formed and not locked, then at the
     end (indeed at every point) revisions are unique and at most one is deployed *)
  Theorem run_quiescent_wf ts sch l k :
    Forall P_pre ts -> wf_led l -> lock_free l = true ->
    wf_led (c_led (snd (run K kh dresp A ts sch (mkC l k [])))).
  Proof.
    intros HP Hwf Hlf.
    assert (G : rg_inv (fst (run K kh dresp A ts sch (mkC l k []))) (snd (run K kh dresp A ts sch (mkC l k [])))).
    { apply (run_inv K kh dresp A rg_inv rg_step).
      exists None, (fun _ => TPre). simpl. split; [exact Hwf|]. split; [exact Hlf|].
      intros j p Hj _. eapply Forall_nth_error; eauto. }
    destruct G as [own [tg [G _]]]. exact G.
  Qed.
End RG.

(* C02, round 4 — kube.Client.update on whole objects (Engine/Update2.v): what a successful call leaves in the
   object store, for every original manifest, every target manifest with distinct resource identities and
   EVERY content of the store; when it fails; and that the version part of apiVersion plays no role.
   The statements are about the store component of k2_update; which object a target ends up as is
   [merged2] — its field-level reading is Engine/Merge3Proofs.v and Engine/MergeJsonProofs.v. *)
From Coq Require Import List String Bool Arith Lia.
From Helm Require Import Common.Assoc Engine.Cluster Engine.Obj2 Engine.Update2 Engine.Merge3Proofs.
Import ListNotations.

Lemma eqb_neq_sym2 a b : String.eqb a b = false -> b <> a.
Proof. intros H ->. rewrite String.eqb_refl in H. discriminate. Qed.

Lemma in_keys2_iff k rs : in_keys2 k rs = true <-> In k (map r2_key rs).
Proof.
  unfold in_keys2. rewrite existsb_exists, in_map_iff. split.
  - intros [r [Hin He]]. apply String.eqb_eq in He. eauto.
  - intros [r [He Hin]]. exists r. split; auto. subst. apply String.eqb_refl.
Qed.

Lemma in_keys2_false_iff k rs : in_keys2 k rs = false <-> ~ In k (map r2_key rs).
Proof. rewrite <- in_keys2_iff. destruct (in_keys2 k rs); split; congruence. Qed.

Lemma in_keys2_cons k r rs : in_keys2 k (r :: rs) = String.eqb (r2_key r) k || in_keys2 k rs.
Proof. reflexivity. Qed.

Lemma in_keys2_In r rs : In r rs -> in_keys2 (r2_key r) rs = true.
Proof. intros H. apply in_keys2_iff. now apply in_map. Qed.

Lemma in_keys2_removed key cur tgt :
  in_keys2 key (removed2 cur tgt) = in_keys2 key cur && negb (in_keys2 key tgt).
Proof.
  unfold removed2. induction cur as [|o t IH]; simpl; auto.
  destruct (in_keys2 (r2_key o) tgt) eqn:E; simpl; rewrite ?in_keys2_cons, IH.
  - destruct (String.eqb (r2_key o) key) eqn:K; simpl; auto.
    apply String.eqb_eq in K. subst key. rewrite E. simpl. now rewrite andb_false_r.
  - destruct (String.eqb (r2_key o) key) eqn:K; simpl; auto.
    apply String.eqb_eq in K. subst key. now rewrite E.
Qed.

Lemma NoDup_keys2_cons r t :
  NoDup (map r2_key (r :: t)) ->
  in_keys2 (r2_key r) t = false /\ NoDup (map r2_key t) /\ (forall x, In x t -> r2_key r <> r2_key x).
Proof.
  simpl. intros H. inversion H as [|? ? Hni Hnd]; subst. repeat split; auto.
  - now apply in_keys2_false_iff.
  - intros x Hx E. apply Hni. rewrite E. now apply in_map.
Qed.

Section Upd2.
  Variables force tw : bool.

  (* the store after the first phase, as a function of the store alone; None = "no <Kind> with the name found" *)
  Fixpoint upd2_targets (o : store2) (cur tgt : list res2) : option store2 :=
    match tgt with
    | [] => Some o
    | r :: t =>
        match aget (r2_key r) o with
        | None => upd2_targets (aset (r2_key r) (r2_obj r) o) cur t
        | Some live =>
            match find_res2 (r2_key r) cur with
            | None => None
            | Some old => upd2_targets (aset (r2_key r) (merged2 force tw old r live) o) cur t
            end
        end
    end.

  Definition keep_filter2 (x : option tree) : option tree :=
    match x with
    | Some live => if live_keep2 live then Some live else None
    | None => None
    end.

  Lemma k2_targets_store : forall tgt o cur created muts o1 hard created' muts',
    k2_targets force tw o cur tgt created muts = (o1, hard, created', muts') ->
    match upd2_targets o cur tgt with
    | Some s => hard = false /\ o1 = s
    | None => hard = true
    end.
  Proof.
    induction tgt as [|r t IH]; intros o cur created muts o1 hard created' muts' H; simpl in H |- *.
    - inversion H; subst. auto.
    - destruct (aget (r2_key r) o) as [live|] eqn:G.
      + destruct (find_res2 (r2_key r) cur) as [old|] eqn:F.
        * apply IH in H. exact H.
        * inversion H; subst. reflexivity.
      + apply IH in H. exact H.
  Qed.

  Lemma k2_deletes_get : forall dels o muts o2 muts2 key,
    k2_deletes o dels muts = (o2, muts2) ->
    aget key o2 = if in_keys2 key dels then keep_filter2 (aget key o) else aget key o.
  Proof.
    assert (Hidem : forall x, keep_filter2 (keep_filter2 x) = keep_filter2 x).
    { destruct x as [l|]; simpl; auto. destruct (live_keep2 l) eqn:E; simpl; now rewrite ?E. }
    induction dels as [|r t IH]; intros o muts o2 muts2 key H; simpl in H.
    - inversion H; subst. reflexivity.
    - rewrite in_keys2_cons.
      destruct (aget (r2_key r) o) as [live|] eqn:G.
      + destruct (live_keep2 live) eqn:K.
        * rewrite (IH _ _ _ _ key H).
          destruct (String.eqb (r2_key r) key) eqn:E; simpl; auto.
          apply String.eqb_eq in E. subst key. rewrite G. simpl. rewrite K.
          destruct (in_keys2 (r2_key r) t); simpl; now rewrite ?K.
        * rewrite (IH _ _ _ _ key H).
          destruct (String.eqb (r2_key r) key) eqn:E; simpl.
          -- apply String.eqb_eq in E. subst key. rewrite aget_adel_eq, G. simpl. rewrite K.
             now destruct (in_keys2 (r2_key r) t).
          -- assert (r2_key r <> key) by (intros X; rewrite X, String.eqb_refl in E; discriminate).
             now rewrite aget_adel_neq.
      + rewrite (IH _ _ _ _ key H).
        destruct (String.eqb (r2_key r) key) eqn:E; simpl; auto.
        apply String.eqb_eq in E. subst key. rewrite G. simpl.
        now destruct (in_keys2 (r2_key r) t).
  Qed.

  Lemma upd2_targets_frame : forall tgt o cur o1,
    upd2_targets o cur tgt = Some o1 ->
    forall key, in_keys2 key tgt = false -> aget key o1 = aget key o.
  Proof.
    induction tgt as [|r t IH]; intros o cur o1 H key Hk; simpl in H.
    - now inversion H.
    - rewrite in_keys2_cons in Hk. apply orb_false_iff in Hk. destruct Hk as [Hne Hk].
      assert (Hneq : r2_key r <> key) by (intros E; rewrite E, String.eqb_refl in Hne; discriminate).
      destruct (aget (r2_key r) o) as [live|] eqn:G.
      + destruct (find_res2 (r2_key r) cur) as [old|]; [|discriminate].
        rewrite (IH _ _ _ H key Hk). now apply aget_aset_neq.
      + rewrite (IH _ _ _ H key Hk). now apply aget_aset_neq.
  Qed.

  (* per target: created as posted, or the merge of (its old manifest entry, itself, the live object) *)
  Definition target_post2 (o o1 : store2) (cur : list res2) (t : res2) : Prop :=
    match aget (r2_key t) o with
    | None => aget (r2_key t) o1 = Some (r2_obj t)
    | Some live =>
        exists old, find_res2 (r2_key t) cur = Some old /\
                    aget (r2_key t) o1 = Some (merged2 force tw old t live)
    end.

  Lemma upd2_targets_spec : forall tgt o cur o1,
    NoDup (map r2_key tgt) -> upd2_targets o cur tgt = Some o1 ->
    forall t, In t tgt -> target_post2 o o1 cur t.
  Proof.
    induction tgt as [|r rest IH]; intros o cur o1 Hnd H t Hin; [destruct Hin|].
    apply NoDup_keys2_cons in Hnd. destruct Hnd as (Hnotin & Hnd & Hdiff).
    simpl in H. destruct Hin as [->|Hin].
    - unfold target_post2.
      destruct (aget (r2_key t) o) as [live|] eqn:G.
      + destruct (find_res2 (r2_key t) cur) as [old|] eqn:F; [|discriminate].
        exists old. split; auto.
        rewrite (upd2_targets_frame _ _ _ _ H _ Hnotin). apply aget_aset_eq.
      + rewrite (upd2_targets_frame _ _ _ _ H _ Hnotin). apply aget_aset_eq.
    - specialize (Hdiff t Hin).
      assert (Hsame : forall v, aget (r2_key t) (aset (r2_key r) v o) = aget (r2_key t) o)
        by (intros v; now apply aget_aset_neq).
      unfold target_post2.
      destruct (aget (r2_key r) o) as [live|] eqn:G.
      + destruct (find_res2 (r2_key r) cur) as [old|]; [|discriminate].
        specialize (IH _ _ _ Hnd H t Hin). unfold target_post2 in IH. now rewrite Hsame in IH.
      + specialize (IH _ _ _ Hnd H t Hin). unfold target_post2 in IH. now rewrite Hsame in IH.
  Qed.

  Lemma upd2_targets_none_iff : forall tgt o cur,
    NoDup (map r2_key tgt) ->
    (upd2_targets o cur tgt = None <->
     exists t, In t tgt /\ aget (r2_key t) o <> None /\ find_res2 (r2_key t) cur = None).
  Proof.
    induction tgt as [|r rest IH]; intros o cur Hnd; simpl.
    - split; [discriminate|]. intros [t [[] _]].
    - apply NoDup_keys2_cons in Hnd. destruct Hnd as (Hnotin & Hnd & Hdiff).
      assert (Hsame : forall v t, In t rest -> aget (r2_key t) (aset (r2_key r) v o) = aget (r2_key t) o)
        by (intros v t Hin; apply aget_aset_neq; now apply Hdiff).
      assert (Htail : forall o', (forall t, In t rest -> aget (r2_key t) o' = aget (r2_key t) o) ->
                (upd2_targets o' cur rest = None <->
                 exists t, In t rest /\ aget (r2_key t) o <> None /\ find_res2 (r2_key t) cur = None)).
      { intros o' Ho'. rewrite (IH o' cur Hnd). split; intros [t (Hin & Hl & Hf)]; exists t; repeat split; auto.
        - now rewrite <- Ho'.
        - now rewrite Ho'. }
      destruct (aget (r2_key r) o) as [live|] eqn:G.
      + destruct (find_res2 (r2_key r) cur) as [old|] eqn:F.
        * assert (Hhead : (exists t, In t (r :: rest) /\ aget (r2_key t) o <> None /\ find_res2 (r2_key t) cur = None) <->
                          (exists t, In t rest /\ aget (r2_key t) o <> None /\ find_res2 (r2_key t) cur = None)).
          { split; intros [t (Hin & Hl & Hf)]; exists t; repeat split; auto.
            - destruct Hin as [<-|Hin]; auto. congruence.
            - now right. }
          rewrite Hhead. apply Htail. intros t Hin. now apply Hsame.
        * split; auto. intros _. exists r. split; [now left|]. split; [congruence|auto].
      + assert (Hhead : (exists t, In t (r :: rest) /\ aget (r2_key t) o <> None /\ find_res2 (r2_key t) cur = None) <->
                        (exists t, In t rest /\ aget (r2_key t) o <> None /\ find_res2 (r2_key t) cur = None)).
        { split; intros [t (Hin & Hl & Hf)]; exists t; repeat split; auto.
          - destruct Hin as [<-|Hin]; auto. congruence.
          - now right. }
        rewrite Hhead. apply Htail. intros t Hin. now apply Hsame.
  Qed.

  Theorem update2_matches :
    forall (o : store2) (cur tgt : list res2) (o' : store2) (created : list string) (muts : list (verb * string)),
      NoDup (map r2_key tgt) ->
      k2_update force tw o cur tgt = (o', (true, created), muts) ->
      (forall t, In t tgt ->
         match aget (r2_key t) o with
         | None => aget (r2_key t) o' = Some (r2_obj t)
         | Some live =>
             exists old, find_res2 (r2_key t) cur = Some old /\
                         aget (r2_key t) o' = Some (merged2 force tw old t live)
         end) /\
      (forall x, In x cur -> in_keys2 (r2_key x) tgt = false ->
         match aget (r2_key x) o with
         | Some live => if live_keep2 live then aget (r2_key x) o' = Some live
                        else aget (r2_key x) o' = None
         | None => aget (r2_key x) o' = None
         end) /\
      (forall key, in_keys2 key cur = false -> in_keys2 key tgt = false -> aget key o' = aget key o).
  Proof.
    intros o cur tgt o' created muts Hnd H. unfold k2_update in H.
    destruct (k2_targets force tw o cur tgt [] []) as [[[o1 hard] cr] m1] eqn:T.
    apply k2_targets_store in T.
    destruct (upd2_targets o cur tgt) as [s|] eqn:U.
    - destruct T as [-> ->].
      destruct (k2_deletes s (removed2 cur tgt) m1) as [o2 m2] eqn:D.
      inversion H; subst o2 cr m2. clear H.
      pose proof (fun key => k2_deletes_get _ _ _ _ _ key D) as Dg.
      repeat split.
      + intros t Hin.
        assert (Hk : aget (r2_key t) o' = aget (r2_key t) s).
        { rewrite Dg, in_keys2_removed, (in_keys2_In t tgt Hin). simpl. now rewrite andb_false_r. }
        rewrite Hk. exact (upd2_targets_spec _ _ _ _ Hnd U t Hin).
      + intros x Hin Hnt.
        rewrite Dg, in_keys2_removed, (in_keys2_In x cur Hin), Hnt. simpl.
        rewrite (upd2_targets_frame _ _ _ _ U _ Hnt).
        destruct (aget (r2_key x) o) as [live|]; simpl; auto. now destruct (live_keep2 live).
      + intros key Hc Ht.
        rewrite Dg, in_keys2_removed, Hc. simpl. now apply (upd2_targets_frame _ _ _ _ U).
    - subst hard. inversion H.
  Qed.

  Theorem update2_fails_iff :
    forall (o : store2) (cur tgt : list res2),
      NoDup (map r2_key tgt) ->
      (fst (snd (fst (k2_update force tw o cur tgt))) = false <->
       exists t, In t tgt /\ aget (r2_key t) o <> None /\ find_res2 (r2_key t) cur = None).
  Proof.
    intros o cur tgt Hnd. unfold k2_update.
    destruct (k2_targets force tw o cur tgt [] []) as [[[o1 hard] cr] m1] eqn:T.
    apply k2_targets_store in T.
    rewrite <- (upd2_targets_none_iff tgt o cur Hnd).
    destruct (upd2_targets o cur tgt) as [s|].
    - destruct T as [-> ->]. destruct (k2_deletes s (removed2 cur tgt) m1). simpl. split; discriminate.
    - subst hard. simpl. split; auto.
  Qed.
End Upd2.

(* ------------------------------------------------------------------ *)
(* the version part of apiVersion is not part of a resource's identity  *)

(* the same manifest with every entry at an arbitrary version of its API group *)
Definition same_but_ver (a b : res2) : Prop := b = with_ver (r2_ver b) a.

Lemma same_but_ver_key a b : same_but_ver a b -> r2_key b = r2_key a.
Proof. intros ->. reflexivity. Qed.

Lemma same_but_ver_obj a b : same_but_ver a b -> r2_obj b = r2_obj a /\ r2_unstr b = r2_unstr a.
Proof. intros ->. split; reflexivity. Qed.

Lemma find_res2_ver key cur cur' :
  Forall2 same_but_ver cur cur' ->
  match find_res2 key cur, find_res2 key cur' with
  | Some a, Some b => same_but_ver a b
  | None, None => True
  | _, _ => False
  end.
Proof.
  induction 1 as [|a b l l' Hab Hl IH]; simpl; auto.
  rewrite (same_but_ver_key _ _ Hab).
  destruct (String.eqb (r2_key a) key); auto.
Qed.

Lemma in_keys2_ver key l l' : Forall2 same_but_ver l l' -> in_keys2 key l' = in_keys2 key l.
Proof.
  induction 1 as [|a b l l' Hab Hl IH]; simpl; auto.
  rewrite (same_but_ver_key _ _ Hab). now rewrite IH.
Qed.

Lemma k2_targets_ver force tw : forall tgt tgt' o cur cur' created muts,
  Forall2 same_but_ver cur cur' -> Forall2 same_but_ver tgt tgt' ->
  k2_targets force tw o cur' tgt' created muts = k2_targets force tw o cur tgt created muts.
Proof.
  intros tgt tgt' o cur cur' created muts Hc Ht. revert o created muts.
  induction Ht as [|a b l l' Hab Hl IH]; intros o created muts; [reflexivity|].
  cbn [k2_targets]. rewrite (same_but_ver_key _ _ Hab).
  destruct (same_but_ver_obj _ _ Hab) as [Ho Hu]. rewrite Ho.
  destruct (aget (r2_key a) o) as [live|]; [|apply IH].
  pose proof (find_res2_ver (r2_key a) cur cur' Hc) as F.
  destruct (find_res2 (r2_key a) cur) as [old|], (find_res2 (r2_key a) cur') as [old'|]; try contradiction; auto.
  destruct (same_but_ver_obj _ _ F) as [Ho' _].
  assert (M : merged2 force tw old' b live = merged2 force tw old a live).
  { unfold merged2, mode_of. now rewrite Ho, Ho', Hu. }
  rewrite M. apply IH.
Qed.

Lemma k2_deletes_ver : forall dels dels' o muts,
  Forall2 same_but_ver dels dels' -> k2_deletes o dels' muts = k2_deletes o dels muts.
Proof.
  intros dels dels' o muts H. revert o muts.
  induction H as [|a b l l' Hab Hl IH]; intros o muts; [reflexivity|].
  cbn [k2_deletes]. rewrite (same_but_ver_key _ _ Hab).
  destruct (aget (r2_key a) o) as [live|]; [|apply IH].
  destruct (live_keep2 live); apply IH.
Qed.

Lemma removed2_ver cur cur' tgt tgt' :
  Forall2 same_but_ver cur cur' -> Forall2 same_but_ver tgt tgt' ->
  Forall2 same_but_ver (removed2 cur tgt) (removed2 cur' tgt').
Proof.
  intros Hc Ht. unfold removed2.
  induction Hc as [|a b l l' Hab Hl IH]; simpl; [constructor|].
  rewrite (same_but_ver_key _ _ Hab), (in_keys2_ver (r2_key a) tgt tgt' Ht).
  destruct (in_keys2 (r2_key a) tgt); simpl; auto.
Qed.

Theorem update2_ignores_version force tw o cur cur' tgt tgt' :
  Forall2 same_but_ver cur cur' -> Forall2 same_but_ver tgt tgt' ->
  k2_update force tw o cur' tgt' = k2_update force tw o cur tgt.
Proof.
  intros Hc Ht. unfold k2_update.
  rewrite (k2_targets_ver force tw tgt tgt' o cur cur' [] [] Hc Ht).
  destruct (k2_targets force tw o cur tgt [] []) as [[[o1 hard] cr] m1].
  destruct hard; auto.
  now rewrite (k2_deletes_ver _ _ o1 m1 (removed2_ver _ _ _ _ Hc Ht)).
Qed.

(* ------------------------------------------------------------------ *)
(* action.recreate (--recreate-pods): only pods a updated object selects *)

Lemma aget_filter_kv {V} (P : string * V -> bool) k (l : list (string * V)) :
  NoDup (akeys l) ->
  aget k (filter P l) = match aget k l with Some v => if P (k, v) then Some v else None | None => None end.
Proof.
  unfold akeys. induction l as [|[k' v'] t IH]; cbn [filter aget map fst]; intros H; [reflexivity|].
  inversion H as [|? ? Hni Hnd]; subst.
  destruct (String.eqb k k') eqn:E.
  - apply String.eqb_eq in E. subst k'.
    destruct (P (k, v')); cbn [aget]; [now rewrite String.eqb_refl|].
    rewrite IH by assumption.
    destruct (aget k t) eqn:A; auto. exfalso. apply Hni. apply aget_In in A.
    change k with (fst (k, v)). now apply in_map.
  - destruct (P (k', v')); cbn [aget]; rewrite ?E; auto.
Qed.

Lemma recreate_sels_In o rs ns sel :
  In (ns, sel) (recreate_sels o rs) ->
  exists r obj, In r rs /\ aget (r2_key r) o = Some obj /\ selector_of r obj = Some sel /\ ns = r2_ns r.
Proof.
  induction rs as [|r t IH]; cbn [recreate_sels]; [contradiction|].
  destruct (aget (r2_key r) o) as [obj|] eqn:A.
  - destruct (selector_of r obj) as [s|] eqn:S.
    + intros [H|H].
      * inversion H; subst. exists r, obj. repeat split; auto. now left.
      * destruct (IH H) as [r' [obj' [Hin Hr]]]. exists r', obj'. split; [now right|exact Hr].
    + intros H. destruct (IH H) as [r' [obj' [Hin Hr]]]. exists r', obj'. split; [now right|exact Hr].
  - intros H. destruct (IH H) as [r' [obj' [Hin Hr]]]. exists r', obj'. split; [now right|exact Hr].
Qed.

Theorem recreate_get o rs key :
  NoDup (akeys o) ->
  aget key (fst (k2_recreate o rs)) =
    match aget key o with
    | Some v => if pod_selected (recreate_sels o rs) (key, v) then None else Some v
    | None => None
    end.
Proof.
  intros H. unfold k2_recreate. cbn [fst].
  rewrite (aget_filter_kv (fun kv => negb (pod_selected (recreate_sels o rs) kv)) key o H).
  destruct (aget key o) as [v|]; auto. now destruct (pod_selected (recreate_sels o rs) (key, v)).
Qed.

Theorem recreate_touches_only_selected_pods o rs key :
  NoDup (akeys o) ->
  aget key (fst (k2_recreate o rs)) <> aget key o ->
  aget key (fst (k2_recreate o rs)) = None /\
  exists r obj sel pod,
    In r rs /\ aget (r2_key r) o = Some obj /\ selector_of r obj = Some sel /\
    aget key o = Some pod /\ pod_key_in (r2_ns r) key = true /\ sel_match sel (labels_of pod) = true.
Proof.
  intros Hnd Hne. rewrite (recreate_get o rs key Hnd) in *.
  destruct (aget key o) as [pod|] eqn:A; [|congruence].
  destruct (pod_selected (recreate_sels o rs) (key, pod)) eqn:P; [|congruence].
  split; [reflexivity|].
  unfold pod_selected in P. apply existsb_exists in P. destruct P as [[ns sel] [Hin Hm]].
  cbn [fst snd] in Hm. apply andb_true_iff in Hm. destruct Hm as [Hk Hs].
  destruct (recreate_sels_In o rs ns sel Hin) as [r [obj [Hr [Ho [Hsel ->]]]]].
  exists r, obj, sel, pod. repeat split; auto.
Qed.

(* kube.SelectorsForObject: a Service without (or with an empty) pod selector selects nothing (seeded C02-10) *)
Theorem service_without_selector_selects_nothing r obj :
  r2_kind r = "Service"%string -> r2_group r = ""%string ->
  (tget ["spec"; "selector"]%string obj = None \/ tget ["spec"; "selector"]%string obj = Some (TM [])) ->
  selector_of r obj = None.
Proof.
  intros K G H. unfold selector_of. rewrite K, G.
  assert (E1 : (String.eqb "Service" "Deployment" && String.eqb "" "apps")%string = false) by reflexivity.
  assert (E2 : (String.eqb "Service" "Service" && String.eqb "" "")%string = true) by reflexivity.
  rewrite E1, E2. destruct H as [H|H]; rewrite H; reflexivity.
Qed.

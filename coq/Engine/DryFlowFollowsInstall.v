(* C06 — the richer model's install follows the generated flow table: every option subset of
   the main flag set x DryRunOption x configuration x history, failure-free (by computation). *)
From Coq Require Import List String Bool Arith NArith.
From Helm Require Import Engine.Types Engine.DryOps Engine.DryFlow Engine.DryFlowModel.
From Helm Require Import Gen.DryFlow Gen.DryRunSpellings.
Import ListNotations.
Local Open Scope string_scope.

Lemma install_main_fact :
  forallb (fun on => forallb (fun opt => forallb (fun g => forallb (fun h =>
    install_ok flow install_dry_spellings None g (mkXF on opt 0 0) (sc_chart sc_crds 1) h)
    install_hists) sc_cfgs) sc_opts3) (subsets install_flags_main) = true.
Proof. vm_cast_no_check (eq_refl true). Qed.

Lemma install_main_follows :
  forall on opt g h, In on (subsets install_flags_main) -> In opt sc_opts3 -> In g sc_cfgs -> In h install_hists ->
    install_ok flow install_dry_spellings None g (mkXF on opt 0 0) (sc_chart sc_crds 1) h = true.
Proof. exact (lift4 _ _ _ _ _ install_main_fact). Qed.

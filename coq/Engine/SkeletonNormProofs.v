(* Every rewrite of Engine/SkeletonNorm.v is exact for the path semantics nx: for every input
   (masks), loop bound, option assignment and start state, the rewritten skeleton reaches
   exactly the same positions, falling through and returning.  Hence [norm_sound] and
   [same_normal_form_same_paths]. *)
From Coq Require Import List String Bool Arith NArith Lia.
From Helm Require Import Engine.Skeleton Engine.SkeletonNorm.
Import ListNotations.
Local Open Scope string_scope.

(* ---- states ---------------------------------------------------------------------------------- *)

Lemma join_st0_r (a : st) : join a st0 = a.
Proof. destruct a as [x y]. unfold join, st0. cbn. now rewrite !N.lor_0_r. Qed.

Lemma join_st0_l (a : st) : join st0 a = a.
Proof. destruct a as [x y]. reflexivity. Qed.

Lemma join_assoc (a b c : st) : join (join a b) c = join a (join b c).
Proof. destruct a, b, c. unfold join. cbn. now rewrite !N.lor_assoc. Qed.

Lemma join_comm (a b : st) : join a b = join b a.
Proof. destruct a, b. unfold join. cbn. f_equal; apply N.lor_comm. Qed.

Lemma join_diag (a : st) : join a a = a.
Proof. destruct a. unfold join. cbn. now rewrite !N.lor_diag. Qed.

Lemma all_st0 : all st0 = 0%N.
Proof. reflexivity. Qed.

Lemma all_both (A : N) : all (both A) = A.
Proof. unfold all, both. cbn. apply N.lor_diag. Qed.

Lemma all_join (a b : st) : all (join a b) = N.lor (all a) (all b).
Proof.
  destruct a as [a1 a2], b as [b1 b2]. unfold all, join. cbn.
  rewrite !N.lor_assoc. f_equal. rewrite <- !N.lor_assoc. f_equal. apply N.lor_comm.
Qed.

Lemma both_lor (A B : N) : both (N.lor A B) = join (both A) (both B).
Proof. reflexivity. Qed.

Lemma both_0 : both 0%N = st0.
Proof. reflexivity. Qed.

Lemma all_0_st0 (P : st) : all P = 0%N -> P = st0.
Proof.
  destruct P as [a b]. unfold all. cbn. intro H. apply N.lor_eq_0_iff in H. destruct H; subst. reflexivity.
Qed.

Definition pick (e : option bool) (v : bool) (p : N) : N :=
  match e with
  | Some b => if Bool.eqb b v then p else 0%N
  | None => p
  end.

Lemma may_pick eo ee v (s : st) : may eo ee v s = (pick eo v (fst s), pick ee v (snd s)).
Proof. reflexivity. Qed.

Lemma pick_0 e v : pick e v 0%N = 0%N.
Proof. destruct e as [[]|], v; reflexivity. Qed.

Lemma pick_lor e v a b : pick e v (N.lor a b) = N.lor (pick e v a) (pick e v b).
Proof. destruct e as [[]|], v; reflexivity. Qed.

Lemma pick_split e a : N.lor (pick e true a) (pick e false a) = a.
Proof. destruct e as [[]|]; cbn; rewrite ?N.lor_0_r, ?N.lor_diag; reflexivity. Qed.

Lemma pick_neg e v a : pick (option_map negb e) v a = pick e (negb v) a.
Proof. destruct e as [[]|], v; reflexivity. Qed.

Lemma may_st0 eo ee v : may eo ee v st0 = st0.
Proof. rewrite may_pick. cbn. now rewrite !pick_0. Qed.

Lemma may_join eo ee v a b : may eo ee v (join a b) = join (may eo ee v a) (may eo ee v b).
Proof. rewrite !may_pick. destruct a, b. unfold join. cbn. now rewrite !pick_lor. Qed.

Lemma may_split eo ee (P : st) : N.lor (all (may eo ee true P)) (all (may eo ee false P)) = all P.
Proof.
  rewrite !may_pick. destruct P as [a b]. unfold all. cbn.
  rewrite <- (pick_split eo a) at 3. rewrite <- (pick_split ee b) at 3.
  rewrite !N.lor_assoc. f_equal. rewrite <- !N.lor_assoc. f_equal. apply N.lor_comm.
Qed.

Lemma may_neg eo ee v P : may (option_map negb eo) (option_map negb ee) v P = may eo ee (negb v) P.
Proof. rewrite !may_pick. now rewrite !pick_neg. Qed.

Lemma double_lor a b : N.double (N.lor a b) = N.lor (N.double a) (N.double b).
Proof. destruct a, b; reflexivity. Qed.

(* ---- loops ----------------------------------------------------------------------------------- *)

Lemma loop_it_ext (f g : st -> st * st) :
  (forall A, f (both A) = g (both A)) -> forall k A, loop_it f k A = loop_it g k A.
Proof.
  intros H k. induction k as [|k IH]; intro A; cbn; [reflexivity|].
  rewrite H. destruct (g (both A)) as [n r]. rewrite IH. reflexivity.
Qed.

Lemma loop_it_0 (f : st -> st * st) : f st0 = (st0, st0) -> forall k, loop_it f k 0%N = (st0, st0).
Proof.
  intros H k. induction k as [|k IH]; cbn; [reflexivity|].
  rewrite both_0, H. cbn. rewrite IH. reflexivity.
Qed.

Lemma loop_it_noret (f : st -> st * st) :
  (forall P, snd (f P) = st0) -> forall k A, snd (loop_it f k A) = st0.
Proof.
  intros H k. induction k as [|k IH]; intro A; cbn; [reflexivity|].
  specialize (H (both A)). destruct (f (both A)) as [n r]. cbn in H. subst r.
  specialize (IH (N.lor A (all n))). destruct (loop_it f k (N.lor A (all n))) as [n' r']. cbn in *. now subst.
Qed.

Lemma loop_it_bcast (f : st -> st * st) k A : exists B, fst (loop_it f k A) = both B.
Proof.
  revert A. induction k as [|k IH]; intro A; cbn; [now exists A|].
  destruct (f (both A)) as [n r]. destruct (IH (N.lor A (all n))) as [B HB].
  destruct (loop_it f k (N.lor A (all n))) as [n' r']. cbn in *. now exists B.
Qed.

(* ---- strictness ------------------------------------------------------------------------------ *)

Section Sem.
  Variable masks : list (kind * N).
  Variable fuel : nat.
  Notation X := (nx masks fuel).

  Lemma nx_st0 : forall s env, X env s st0 = (st0, st0).
  Proof.
    induction s; intro env; cbn; try reflexivity.
    - rewrite IHs1, IHs2. reflexivity.
    - rewrite IHs. reflexivity.
    - rewrite both_0, IHs. reflexivity.
    - rewrite !may_st0, IHs1, IHs2. reflexivity.
    - apply loop_it_0. apply IHs.
  Qed.

  Lemma nx_seq_eq env a b P :
    X env (NSeq a b) P =
    (fst (X env b (fst (X env a P))), join (snd (X env a P)) (snd (X env b (fst (X env a P))))).
  Proof. cbn. destruct (X env a P) as [n1 r1]. cbn. destruct (X env b n1) as [n2 r2]. reflexivity. Qed.

  Lemma nx_if_eq env c th el P :
    X env (NIf c th el) P =
    let eo := eval_cond env (Some false) c in
    let ee := eval_cond env (Some true) c in
    (both (N.lor (all (fst (X env th (may eo ee true P)))) (all (fst (X env el (may eo ee false P))))),
     join (snd (X env th (may eo ee true P))) (snd (X env el (may eo ee false P)))).
  Proof.
    cbn. destruct (X env th _) as [n1 r1]. destruct (X env el _) as [n2 r2]. reflexivity.
  Qed.

  Lemma nx_seq_assoc env a b c P : X env (NSeq (NSeq a b) c) P = X env (NSeq a (NSeq b c)) P.
  Proof.
    repeat (rewrite !nx_seq_eq; cbn [fst snd]). now rewrite join_assoc.
  Qed.

  Lemma nx_seq_skip_r env a P : X env (NSeq a NSkip) P = X env a P.
  Proof. rewrite nx_seq_eq. cbn. rewrite join_st0_r. symmetry. apply surjective_pairing. Qed.

  Lemma nx_seq_skip_l env b P : X env (NSeq NSkip b) P = X env b P.
  Proof. rewrite nx_seq_eq. cbn. rewrite join_st0_l. symmetry. apply surjective_pairing. Qed.

  (* congruence: a sequence is determined by what its parts do *)
  Lemma nx_seq_cong env a a' b b' :
    (forall P, X env a P = X env a' P) -> (forall P, X env b P = X env b' P) ->
    forall P, X env (NSeq a b) P = X env (NSeq a' b') P.
  Proof. intros Ha Hb P. rewrite !nx_seq_eq. now rewrite Ha, Hb. Qed.

  Lemma seq_sound : forall a b env P, X env (seq a b) P = X env (NSeq a b) P.
  Proof.
    induction a; intros b env P;
      try (cbn [seq]; destruct b; [now rewrite nx_seq_skip_r | reflexivity ..]).
    - cbn [seq]. now rewrite nx_seq_skip_l.
    - cbn [seq]. rewrite IHa1. rewrite nx_seq_assoc.
      apply nx_seq_cong; [reflexivity|]. intro Q. apply IHa2.
  Qed.
End Sem.

(* ---- conditions -------------------------------------------------------------------------------- *)

Lemma eval_nnf env err : forall c neg,
  eval_cond env err (nnf neg c) =
  if neg then option_map negb (eval_cond env err c) else eval_cond env err c.
Proof.
  induction c; intro neg; cbn.
  - destruct neg; reflexivity.
  - rewrite IHc. destruct neg; cbn; [|reflexivity].
    destruct (eval_cond env err c) as [[]|]; reflexivity.
  - destruct neg; cbn; rewrite IHc1, IHc2;
      destruct (eval_cond env err c1) as [[]|], (eval_cond env err c2) as [[]|]; reflexivity.
  - destruct neg; cbn; rewrite IHc1, IHc2;
      destruct (eval_cond env err c1) as [[]|], (eval_cond env err c2) as [[]|]; reflexivity.
  - destruct neg; reflexivity.
  - destruct neg; reflexivity.
Qed.

Lemma cdata_eval env err : forall c, cdata_only c = true -> eval_cond env err c = None.
Proof.
  induction c; cbn; intro H; try discriminate; try reflexivity.
  - now rewrite IHc.
  - apply andb_prop in H. destruct H. now rewrite IHc1, IHc2.
  - apply andb_prop in H. destruct H. now rewrite IHc1, IHc2.
Qed.

Section Sem2.
  Variable masks : list (kind * N).
  Variable fuel : nat.
  Notation X := (nx masks fuel).

  Lemma pair_eta {A B} (p : A * B) a : fst p = a -> p = (a, snd p).
  Proof. destruct p. cbn. now intros ->. Qed.

  Lemma pair_eta2 {A B} (p : A * B) b : snd p = b -> p = (fst p, b).
  Proof. destruct p. cbn. now intros ->. Qed.

  Lemma mk_if_sound env c th el P : X env (mk_if c th el) P = X env (NIf c th el) P.
  Proof.
    unfold mk_if. destruct (cdata_only (nnf false c)) eqn:Hd.
    - assert (Hn : forall err, eval_cond env err c = None).
      { intro err. pose proof (cdata_eval env err _ Hd) as H. now rewrite eval_nnf in H. }
      destruct (nlt el th).
      + rewrite !nx_if_eq. cbn zeta. rewrite !eval_nnf, !Hn. cbn [may fst snd].
        rewrite N.lor_comm. f_equal. apply join_comm.
      + rewrite !nx_if_eq. cbn zeta. rewrite !eval_nnf. reflexivity.
    - destruct (lead_neg (nnf false c)).
      + rewrite !nx_if_eq. cbn zeta. rewrite !eval_nnf. rewrite !may_neg. cbn [negb].
        rewrite N.lor_comm. f_equal. apply join_comm.
      + rewrite !nx_if_eq. cbn zeta. rewrite !eval_nnf. reflexivity.
  Qed.

  Lemma noft_sound : forall s env P, noft s = true -> fst (X env s P) = st0.
  Proof.
    induction s; intros env P H; cbn [noft] in H; try discriminate; try reflexivity.
    - rewrite nx_seq_eq. cbn [fst]. apply orb_prop in H. destruct H as [H|H].
      + rewrite (IHs1 env P H), nx_st0. reflexivity.
      + apply IHs2, H.
    - apply andb_prop in H. destruct H as [H1 H2]. rewrite nx_if_eq. cbn zeta. cbn [fst].
      rewrite IHs1, IHs2 by assumption. reflexivity.
  Qed.

  Lemma noret_sound : forall s env P, noret s = true -> snd (X env s P) = st0.
  Proof.
    induction s; intros env P H; cbn [noret] in H; try discriminate; try reflexivity.
    - apply andb_prop in H. destruct H as [H1 H2]. rewrite nx_seq_eq. cbn [snd].
      rewrite IHs1, IHs2 by assumption. reflexivity.
    - cbn. destruct (X env s P). reflexivity.
    - cbn. destruct (X (inherit_env env inherit) s (both (all P))). reflexivity.
    - apply andb_prop in H. destruct H as [H1 H2]. rewrite nx_if_eq. cbn zeta. cbn [snd].
      rewrite IHs1, IHs2 by assumption. reflexivity.
    - cbn. apply loop_it_noret. intro Q. apply IHs, H.
  Qed.

  Lemma nx_cut env a b P : noft a = true -> X env (NSeq a b) P = X env a P.
  Proof.
    intro H. rewrite nx_seq_eq. rewrite (noft_sound a env P H), nx_st0. cbn [fst snd].
    rewrite join_st0_r. symmetry. apply pair_eta. apply noft_sound, H.
  Qed.

  Lemma is_skip_eq s : is_skip s = true -> s = NSkip.
  Proof. destruct s; cbn; congruence. Qed.

  Lemma flat_sound : forall s env P, X env (flat s) P = X env s P.
  Proof.
    induction s; intros env P; cbn [flat]; try reflexivity.
    - destruct (noft (flat s1)) eqn:H.
      + rewrite <- (nx_cut env (flat s1) (flat s2) P H).
        apply nx_seq_cong; auto.
      + rewrite seq_sound. apply nx_seq_cong; auto.
    - cbn. now rewrite IHs.
    - cbn. now rewrite IHs.
    - cbv zeta. destruct (is_skip (flat s1) && is_skip (flat s2)) eqn:H.
      + apply andb_prop in H. destruct H as [H1 H2].
        apply is_skip_eq in H1. apply is_skip_eq in H2.
        rewrite nx_if_eq. cbn zeta. rewrite <- IHs1, <- IHs2, H1, H2. cbn.
        now rewrite may_split.
      + rewrite mk_if_sound. rewrite !nx_if_eq. cbn zeta. now rewrite !IHs1, !IHs2.
    - cbn. apply loop_it_ext. intro Q. apply IHs.
  Qed.

  Lemma unlast_sound : forall s i l, unlast s = (i, l) -> forall env P, X env (NSeq i l) P = X env s P.
  Proof.
    induction s; intros i l H env P; cbn [unlast] in H;
      try (inversion H; subst; now rewrite nx_seq_skip_l).
    destruct (unlast s2) as [i2 l2] eqn:E. inversion H; subst.
    rewrite (nx_seq_cong masks fuel env (seq s1 i2) (NSeq s1 i2) l l (seq_sound masks fuel s1 i2 env) (fun _ => eq_refl)).
    rewrite nx_seq_assoc. apply nx_seq_cong; [reflexivity|]. intro Q. now apply IHs2.
  Qed.
End Sem2.

(* ---- known components (pass 3) ------------------------------------------------------------------ *)

Lemma cval_sound e : forall c v, cval e c = Some v -> forall env, eval_cond env (Some e) c = Some v.
Proof.
  induction c; cbn; intros v H env; try discriminate.
  - destruct (cval e c) as [b|] eqn:E; cbn in H; [|discriminate]. inversion H; subst.
    now rewrite (IHc b eq_refl env).
  - destruct (cval e c1) as [[]|] eqn:E1, (cval e c2) as [[]|] eqn:E2; cbn in H; try discriminate;
      inversion H; subst;
      try rewrite (IHc1 _ eq_refl env); try rewrite (IHc2 _ eq_refl env);
      destruct (eval_cond env (Some e) c1) as [[]|]; destruct (eval_cond env (Some e) c2) as [[]|];
      reflexivity.
  - destruct (cval e c1) as [[]|] eqn:E1, (cval e c2) as [[]|] eqn:E2; cbn in H; try discriminate;
      inversion H; subst;
      try rewrite (IHc1 _ eq_refl env); try rewrite (IHc2 _ eq_refl env);
      destruct (eval_cond env (Some e) c1) as [[]|]; destruct (eval_cond env (Some e) c2) as [[]|];
      reflexivity.
  - inversion H. reflexivity.
Qed.

Definition compat (k : option bool) (P : st) : Prop :=
  match k with
  | Some false => snd P = 0%N
  | Some true => fst P = 0%N
  | None => True
  end.

Lemma compat_may k eo ee v P : compat k P -> compat k (may eo ee v P).
Proof.
  rewrite may_pick. destruct k as [[]|]; cbn; intro H; try exact I; rewrite H; apply pick_0.
Qed.

(* a decided condition sends the whole state into one branch *)
Lemma decided_may e c v env P :
  compat (Some e) P -> cval e c = Some v ->
  may (eval_cond env (Some false) c) (eval_cond env (Some true) c) v P = P /\
  may (eval_cond env (Some false) c) (eval_cond env (Some true) c) (negb v) P = st0.
Proof.
  intros C H. pose proof (cval_sound e c v H env) as Hv. rewrite !may_pick.
  destruct P as [a b]. destruct e; cbn in C; subst; rewrite Hv; cbn [fst snd]; rewrite !pick_0.
  - split; cbn; destruct v; reflexivity.
  - split; cbn; destruct v; reflexivity.
Qed.

Section Sem3.
  Variable masks : list (kind * N).
  Variable fuel : nat.
  Notation X := (nx masks fuel).

  Lemma after_compat k a env P : compat k P -> compat (after_k k a) (fst (X env a P)).
  Proof. intro C. destruct a; cbn; try exact I; try reflexivity. exact C. Qed.

  Lemma kc_sound : forall s kk env P, compat kk P -> X env (kc kk s) P = X env s P.
  Proof.
    induction s; intros kk env P C; cbn [kc]; try reflexivity.
    - rewrite seq_sound. rewrite !nx_seq_eq. rewrite (IHs1 kk env P C).
      now rewrite (IHs2 _ env _ (after_compat kk s1 env P C)).
    - cbn. now rewrite (IHs kk env P C).
    - cbn. now rewrite (IHs None _ _ I).
    - destruct kk as [e|].
      + destruct (cval e c) as [[]|] eqn:E.
        * destruct (decided_may e c true env P C E) as [H1 H2]. cbn [negb] in H2.
          rewrite seq_sound, nx_seq_eq, nx_if_eq. cbn zeta. rewrite H1, H2, nx_st0.
          rewrite (IHs1 _ env P C). cbn. rewrite N.lor_0_r, !join_st0_r. reflexivity.
        * destruct (decided_may e c false env P C E) as [H1 H2]. cbn [negb] in H2.
          rewrite seq_sound, nx_seq_eq, nx_if_eq. cbn zeta. rewrite H1, H2, nx_st0.
          rewrite (IHs2 _ env P C). cbn. rewrite !join_st0_r, ?join_st0_l. reflexivity.
        * rewrite !nx_if_eq. cbn zeta.
          rewrite !IHs1, !IHs2 by (apply compat_may; exact C). reflexivity.
      + rewrite !nx_if_eq. cbn zeta. rewrite !IHs1, !IHs2 by exact I. reflexivity.
    - cbn. apply loop_it_ext. intro Q. apply IHs. exact I.
  Qed.
End Sem3.

(* ---- insensitivity to the components (hi), equal components (bcast) ------------------------- *)

Lemma cerr_free_eval env : forall c, cerr_free c = true ->
  eval_cond env (Some false) c = eval_cond env (Some true) c.
Proof.
  induction c; cbn; intro H; try reflexivity; try discriminate.
  - now rewrite IHc.
  - apply andb_prop in H. destruct H. now rewrite IHc1, IHc2.
  - apply andb_prop in H. destruct H. now rewrite IHc1, IHc2.
Qed.

Lemma may_same_both e v P : may e e v (both (all P)) = both (all (may e e v P)).
Proof. rewrite !may_pick. destruct P as [a b]. unfold both, all. cbn. now rewrite pick_lor. Qed.

Lemma eq_components_both (P : st) : fst P = snd P -> P = both (all P).
Proof. destruct P as [a b]. cbn. intros ->. unfold both, all. cbn. now rewrite N.lor_diag. Qed.

Section Sem4.
  Variable masks : list (kind * N).
  Variable fuel : nat.
  Notation X := (nx masks fuel).

  Definition hiw_at env (s : nsk) : Prop :=
    forall Q, all (fst (X env s Q)) = all (fst (X env s (both (all Q)))) /\
              snd (X env s Q) = snd (X env s (both (all Q))).

  Lemma hiw_of env s :
    (hi s = true -> forall P, X env s P = X env s (both (all P))) ->
    match s with NSkip => true | _ => hi s end = true -> hiw_at env s.
  Proof.
    intros IH H Q. destruct s; try (rewrite <- (IH H Q); split; reflexivity).
    cbn. rewrite all_both. split; reflexivity.
  Qed.

  Lemma hi_sound : forall s env P, hi s = true -> X env s P = X env s (both (all P)).
  Proof.
    induction s; intros env P H; cbn [hi] in H; try discriminate; try (cbn; now rewrite ?all_both).
    - rewrite !nx_seq_eq. now rewrite <- (IHs1 env P H).
    - cbn. now rewrite <- (IHs env P H).
    - apply andb_prop in H. destruct H as [H H2]. apply andb_prop in H. destruct H as [Hc H1].
      pose proof (hiw_of env s1 (fun h Q => IHs1 env Q h) H1) as W1.
      pose proof (hiw_of env s2 (fun h Q => IHs2 env Q h) H2) as W2.
      rewrite !nx_if_eq. cbn zeta. rewrite <- (cerr_free_eval env c Hc).
      set (e := eval_cond env (Some false) c). rewrite !may_same_both.
      destruct (W1 (may e e true P)) as [A1 B1]. destruct (W2 (may e e false P)) as [A2 B2].
      now rewrite <- A1, <- A2, <- B1, <- B2.
  Qed.

  Lemma bcast_sound : forall s env P, bcast s = true -> exists B, fst (X env s P) = both B.
  Proof.
    induction s; intros env P H; cbn [bcast] in H; try discriminate;
      try (now exists 0%N); try (cbn; eexists; reflexivity).
    - rewrite nx_seq_eq. cbn [fst]. apply orb_prop in H. destruct H as [H|H].
      + apply IHs2, H.
      + rewrite (noft_sound masks fuel s1 env P H), nx_st0. now exists 0%N.
    - rewrite nx_if_eq. cbn zeta. cbn [fst]. eexists; reflexivity.
    - cbn. apply loop_it_bcast.
  Qed.

  Lemma bcast_both s env P : bcast s = true -> fst (X env s P) = both (all (fst (X env s P))).
  Proof. intro H. destruct (bcast_sound s env P H) as [B ->]. now rewrite all_both. Qed.

  (* ---- pass 4 ---------------------------------------------------------------------------------- *)

  Lemma pull_then env c T E K P :
    noft T = true -> hi E = true -> (bcast E || hi K) = true ->
    X env (NSeq (NIf c T NSkip) (NSeq E K)) P = X env (NSeq (NIf c T E) K) P.
  Proof.
    intros HT HE HK. rewrite !nx_seq_eq. rewrite !nx_if_eq. cbn zeta. cbn [fst snd].
    set (Pt := may _ _ true P). set (Pf := may _ _ false P).
    rewrite (noft_sound masks fuel T env Pt HT).
    change (X env NSkip Pf) with (Pf, st0). cbn [fst snd]. rewrite all_st0, !N.lor_0_l, join_st0_r.
    rewrite <- (hi_sound E env Pf HE).
    assert (G : X env K (fst (X env E Pf)) = X env K (both (all (fst (X env E Pf))))).
    { apply orb_prop in HK. destruct HK as [HK|HK].
      - now rewrite <- (bcast_both E env Pf HK).
      - apply hi_sound, HK. }
    rewrite <- G. now rewrite join_assoc.
  Qed.

  Lemma pull_else env c T E K P :
    noft E = true -> hi T = true -> (bcast T || hi K) = true ->
    X env (NSeq (NIf c NSkip E) (NSeq T K)) P = X env (NSeq (NIf c T E) K) P.
  Proof.
    intros HE HT HK. rewrite !nx_seq_eq. rewrite !nx_if_eq. cbn zeta. cbn [fst snd].
    set (Pt := may _ _ true P). set (Pf := may _ _ false P).
    rewrite (noft_sound masks fuel E env Pf HE).
    change (X env NSkip Pt) with (Pt, st0). cbn [fst snd]. rewrite all_st0, !N.lor_0_r, join_st0_l.
    rewrite <- (hi_sound T env Pt HT).
    assert (G : X env K (fst (X env T Pt)) = X env K (both (all (fst (X env T Pt))))).
    { apply orb_prop in HK. destruct HK as [HK|HK].
      - now rewrite <- (bcast_both T env Pt HK).
      - apply hi_sound, HK. }
    rewrite <- G. rewrite <- join_assoc, (join_comm (snd (X env E Pf))). reflexivity.
  Qed.

  Lemma swap_then_sound env c T K P : X env (swap_then c T K) P = X env (NSeq (NIf c T NSkip) K) P.
  Proof.
    unfold swap_then. destruct (noft T && noft K && hi T && hi K && nlt K T) eqn:H; [|apply seq_sound].
    apply andb_prop in H. destruct H as [H _]. apply andb_prop in H. destruct H as [H HhK].
    apply andb_prop in H. destruct H as [H HhT]. apply andb_prop in H. destruct H as [HT HK].
    rewrite seq_sound. rewrite !nx_seq_eq, !nx_if_eq. cbn zeta. cbn [fst snd].
    set (Pt := may _ _ true P). set (Pf := may _ _ false P).
    change (X env NSkip Pt) with (Pt, st0). change (X env NSkip Pf) with (Pf, st0). cbn [fst snd].
    rewrite (noft_sound masks fuel K env Pf HK), (noft_sound masks fuel T env Pt HT).
    rewrite all_st0, N.lor_0_r, N.lor_0_l, join_st0_l, join_st0_r.
    rewrite <- (hi_sound T env Pt HhT), <- (hi_sound K env Pf HhK).
    rewrite (noft_sound masks fuel K env Pf HK), (noft_sound masks fuel T env Pt HT).
    f_equal. apply join_comm.
  Qed.

  Lemma swap_else_sound env c E K P : X env (swap_else c E K) P = X env (NSeq (NIf c NSkip E) K) P.
  Proof.
    unfold swap_else. destruct (noft E && noft K && hi E && hi K && nlt K E) eqn:H; [|apply seq_sound].
    apply andb_prop in H. destruct H as [H _]. apply andb_prop in H. destruct H as [H HhK].
    apply andb_prop in H. destruct H as [H HhE]. apply andb_prop in H. destruct H as [HE HK].
    rewrite seq_sound. rewrite !nx_seq_eq, !nx_if_eq. cbn zeta. cbn [fst snd].
    set (Pt := may _ _ true P). set (Pf := may _ _ false P).
    change (X env NSkip Pt) with (Pt, st0). change (X env NSkip Pf) with (Pf, st0). cbn [fst snd].
    rewrite (noft_sound masks fuel K env Pt HK), (noft_sound masks fuel E env Pf HE).
    rewrite all_st0, N.lor_0_r, N.lor_0_l, join_st0_l, join_st0_r.
    rewrite <- (hi_sound E env Pf HhE), <- (hi_sound K env Pt HhK).
    rewrite (noft_sound masks fuel K env Pt HK), (noft_sound masks fuel E env Pf HE).
    f_equal. apply join_comm.
  Qed.

  Lemma pull_if_sound env c T E K P : X env (pull_if c T E K) P = X env (NSeq (NIf c T E) K) P.
  Proof.
    unfold pull_if.
    destruct (noft T && negb (is_skip E) && hi E && (bcast E || hi K)) eqn:H1.
    - apply andb_prop in H1. destruct H1 as [H1 HK]. apply andb_prop in H1. destruct H1 as [H1 HE].
      apply andb_prop in H1. destruct H1 as [HT _].
      rewrite swap_then_sound. rewrite <- (pull_then env c T E K P HT HE HK).
      apply nx_seq_cong; [reflexivity|]. intro Q. apply seq_sound.
    - destruct (noft E && negb (is_skip T) && hi T && (bcast T || hi K)) eqn:H2.
      + apply andb_prop in H2. destruct H2 as [H2 HK]. apply andb_prop in H2. destruct H2 as [H2 HT].
        apply andb_prop in H2. destruct H2 as [HE _].
        rewrite swap_else_sound. rewrite <- (pull_else env c T E K P HE HT HK).
        apply nx_seq_cong; [reflexivity|]. intro Q. apply seq_sound.
      + destruct (is_skip E) eqn:SE.
        * apply is_skip_eq in SE. subst E. apply swap_then_sound.
        * destruct (is_skip T) eqn:ST.
          -- apply is_skip_eq in ST. subst T. apply swap_else_sound.
          -- apply seq_sound.
  Qed.

  Lemma nx_if_cong env c T T' E E' :
    (forall P, X env T P = X env T' P) -> (forall P, X env E P = X env E' P) ->
    forall P, X env (NIf c T E) P = X env (NIf c T' E') P.
  Proof. intros HT HE P. rewrite !nx_if_eq. cbn zeta. now rewrite !HT, !HE. Qed.

  Lemma epull_sound : forall s env P, X env (epull s) P = X env s P.
  Proof.
    induction s; intros env P; cbn [epull]; try reflexivity.
    - assert (G : X env (seq (epull s1) (epull s2)) P = X env (NSeq s1 s2) P).
      { rewrite seq_sound. apply nx_seq_cong; auto. }
      destruct s1; try exact G.
      rewrite pull_if_sound. apply nx_seq_cong; [|auto].
      intro Q. specialize (IHs1 env Q). cbn [epull] in IHs1. rewrite pull_if_sound in IHs1.
      rewrite nx_seq_skip_r in IHs1. exact IHs1.
    - cbn. now rewrite IHs.
    - cbn. now rewrite IHs.
    - rewrite pull_if_sound, nx_seq_skip_r. apply nx_if_cong; auto.
    - cbn. apply loop_it_ext. intro Q. apply IHs.
  Qed.
End Sem4.

(* ---- pass 5 -------------------------------------------------------------------------------------- *)

Definition eqc (pb : bool) (P : st) : Prop := pb = true -> fst P = snd P.

Lemma eqc_both pb A : eqc pb (both A).
Proof. intros _. reflexivity. Qed.

Lemma eqc_false P : eqc false P.
Proof. intro H. discriminate. Qed.

Lemma all_l a : all (a, 0%N) = a.
Proof. unfold all. cbn. apply N.lor_0_r. Qed.

Lemma all_r a : all (0%N, a) = a.
Proof. reflexivity. Qed.

Section Sem5.
  Variable masks : list (kind * N).
  Variable fuel : nat.
  Notation X := (nx masks fuel).

  Lemma eqc_bcast a env P : eqc (bcast a) (fst (X env a P)).
  Proof. intro H. destruct (bcast_sound masks fuel a env P H) as [B ->]. reflexivity. Qed.

  Lemma pe_sound : forall s pb env P, eqc pb P -> X env (pe pb s) P = X env s P.
  Proof.
    induction s; intros pb env P C; cbn [pe]; try reflexivity.
    - assert (G : X env (seq (pe pb s1) (pe (bcast s1) s2)) P = X env (NSeq s1 s2) P).
      { rewrite seq_sound, !nx_seq_eq. rewrite (IHs1 pb env P C).
        now rewrite (IHs2 _ env _ (eqc_bcast s1 env P)). }
      destruct s1; try exact G; clear G.
      + (* NPure *)
        destruct (pb || hi s2) eqn:H.
        * rewrite (IHs2 pb env P C). rewrite nx_seq_eq. cbn [nx fst snd]. rewrite join_st0_l.
          apply orb_prop in H. destruct H as [H|H].
          -- rewrite <- (eq_components_both P (C H)). apply surjective_pairing.
          -- rewrite <- (hi_sound masks fuel s2 env P H). apply surjective_pairing.
        * rewrite !nx_seq_eq. cbn [nx fst snd].
          now rewrite (IHs2 true env (both (all P)) (eqc_both true _)).
      + (* NArgOk *)
        destruct (hi s2) eqn:H.
        * rewrite (IHs2 pb env P C). rewrite nx_seq_eq. cbn [nx fst snd]. rewrite join_st0_l.
          rewrite (hi_sound masks fuel s2 env P H), (hi_sound masks fuel s2 env (all P, 0%N) H).
          rewrite all_l. apply surjective_pairing.
        * apply nx_seq_cong; [reflexivity|]. intro Q. apply IHs2, eqc_false.
      + (* NArgErr *)
        destruct (hi s2) eqn:H.
        * rewrite (IHs2 pb env P C). rewrite nx_seq_eq. cbn [nx fst snd]. rewrite join_st0_l.
          rewrite (hi_sound masks fuel s2 env P H), (hi_sound masks fuel s2 env (0%N, all P) H).
          rewrite all_r. apply surjective_pairing.
        * apply nx_seq_cong; [reflexivity|]. intro Q. apply IHs2, eqc_false.
    - cbn. now rewrite (IHs pb env P C).
    - cbn. now rewrite (IHs true _ _ (eqc_both true _)).
    - rewrite !nx_if_eq. cbn zeta.
      assert (Cv : forall v, eqc (pb && cerr_free c)
                 (may (eval_cond env (Some false) c) (eval_cond env (Some true) c) v P)).
      { intros v H. apply andb_prop in H. destruct H as [Hp Hc]. rewrite may_pick. cbn [fst snd].
        rewrite (cerr_free_eval env c Hc). now rewrite (C Hp). }
      now rewrite (IHs1 _ env _ (Cv true)), (IHs2 _ env _ (Cv false)).
    - cbn. apply loop_it_ext. intro Q. apply IHs. apply eqc_both.
    - destruct pb; [|reflexivity]. cbn. now rewrite <- (eq_components_both P (C eq_refl)).
  Qed.
End Sem5.

(* ---- additivity: a skeleton run on the union of two states does the union ------------------ *)
From Coq Require Import Btauto.

Ltac lor_solve := apply N.bits_inj; intro; rewrite ?N.lor_spec, ?N.bits_0; btauto.
Ltac st_solve :=
  repeat match goal with p : st |- _ => destruct p end;
  unfold join, all, both, st0; cbn [fst snd];
  repeat match goal with |- (_, _) = (_, _) => apply f_equal2 end; try reflexivity; lor_solve.

Definition jj (a b : st * st) : st * st := (join (fst a) (fst b), join (snd a) (snd b)).

Lemma scope_exit_jj (a b : st * st) : scope_exit (jj a b) = jj (scope_exit a) (scope_exit b).
Proof.
  destruct a as [n r], b as [n' r']. unfold scope_exit, jj. cbn [fst snd]. f_equal. st_solve.
Qed.

Lemma loop_it_add (f : st -> st * st) :
  (forall P Q, f (join P Q) = jj (f P) (f Q)) ->
  forall k A B, loop_it f k (N.lor A B) = jj (loop_it f k A) (loop_it f k B).
Proof.
  intros H k. induction k as [|k IH]; intros A B; cbn [loop_it]; [reflexivity|].
  change (both (N.lor A B)) with (join (both A) (both B)). rewrite H.
  destruct (f (both A)) as [n r], (f (both B)) as [n' r']. unfold jj at 1. cbn [fst snd].
  replace (N.lor (N.lor A B) (all (join n n'))) with (N.lor (N.lor A (all n)) (N.lor B (all n')))
    by (rewrite all_join; lor_solve).
  rewrite IH. destruct (loop_it f k (N.lor A (all n))) as [m1 q1], (loop_it f k (N.lor B (all n'))) as [m2 q2].
  unfold jj. cbn [fst snd]. f_equal. st_solve.
Qed.

Section Sem6.
  Variable masks : list (kind * N).
  Variable fuel : nat.
  Notation X := (nx masks fuel).

  Lemma nx_add : forall s env P Q, X env s (join P Q) = jj (X env s P) (X env s Q).
  Proof.
    induction s; intros env P Q; try reflexivity.
    - rewrite !nx_seq_eq. rewrite IHs1. unfold jj. cbn [fst snd]. rewrite IHs2.
      unfold jj. cbn [fst snd]. f_equal.
      generalize (snd (X env s1 P)), (snd (X env s1 Q)), (snd (X env s2 (fst (X env s1 P)))),
                 (snd (X env s2 (fst (X env s1 Q)))). intros. st_solve.
    - cbn [nx]. unfold jj. cbn [fst snd]. rewrite all_join, N.land_lor_distr_l, double_lor. reflexivity.
    - cbn [nx]. rewrite IHs. apply scope_exit_jj.
    - cbn [nx]. replace (both (all (join P Q))) with (join (both (all P)) (both (all Q)))
        by (rewrite all_join; reflexivity).
      rewrite IHs. apply scope_exit_jj.
    - rewrite !nx_if_eq. cbn zeta. rewrite !may_join, IHs1, IHs2. unfold jj. cbn [fst snd].
      set (eo := eval_cond env (Some false) c). set (ee := eval_cond env (Some true) c).
      generalize (X env s1 (may eo ee true P)), (X env s1 (may eo ee true Q)),
                 (X env s2 (may eo ee false P)), (X env s2 (may eo ee false Q)).
      intros [a1 b1] [a2 b2] [a3 b3] [a4 b4]. cbn [fst snd]. f_equal; st_solve.
    - cbn [nx]. rewrite all_join. apply loop_it_add. intros. apply IHs.
    - cbn [nx]. unfold jj. cbn [fst snd]. now rewrite all_join.
    - cbn [nx]. unfold jj. cbn [fst snd]. now rewrite all_join.
    - cbn [nx]. unfold jj. cbn [fst snd]. now rewrite all_join.
    - cbn [nx]. unfold jj. cbn [fst snd]. now rewrite all_join.
    - cbn [nx]. unfold jj. cbn [fst snd]. now rewrite all_join.
  Qed.
End Sem6.

(* ---- merging the returns of a scope with what follows (cps) -------------------------------------- *)

Section Sem7.
  Variable masks : list (kind * N).
  Variable fuel : nat.
  Notation X := (nx masks fuel).

  Definition nofts (F : nsk) : Prop := forall env P, fst (X env F P) = st0.

  Lemma nofts_of F : noft F = true -> nofts F.
  Proof. intros H env P. apply noft_sound, H. Qed.

  Lemma nofts_pure F : nofts F -> nofts (NSeq NPure F).
  Proof. intros H env P. rewrite nx_seq_eq. cbn [fst]. apply H. Qed.

  Lemma snd_add s env P Q : snd (X env s (join P Q)) = join (snd (X env s P)) (snd (X env s Q)).
  Proof. now rewrite nx_add. Qed.

  (* what the cps'd block does: F behind the fall-through state, K behind the returned one *)
  Definition cps_spec (F K s Z : nsk) : Prop :=
    forall env P,
      X env Z P = (st0, join (snd (X env F (fst (X env s P)))) (snd (X env K (snd (X env s P))))).

  Lemma cps_generic F K s : noret s = true -> nofts F -> cps_spec F K s (seq s F).
  Proof.
    intros Hs HF env P. rewrite seq_sound, nx_seq_eq. rewrite (HF env).
    rewrite (noret_sound masks fuel s env P Hs), (nx_st0 masks fuel K env). cbn [snd].
    now rewrite join_st0_l, join_st0_r.
  Qed.

  Lemma cps_sound : forall s F K Z, cps F K s = Some Z -> nofts F -> nofts K -> cps_spec F K s Z.
  Proof.
    induction s; intros F K Z H HF HK; cbn [cps] in H;
      try (cbn [noret] in H; inversion H; subst; now apply cps_generic).
    - (* NSeq *)
      destruct (cps F K s2) as [Xb|] eqn:Eb; [|discriminate].
      pose proof (IHs2 F K Xb Eb HF HK) as Sb.
      assert (HXb : nofts Xb). { intros env P. now rewrite Sb. }
      pose proof (IHs1 Xb K Z H HXb HK) as Sa.
      intros env P. rewrite Sa. rewrite Sb. cbn [snd]. rewrite nx_seq_eq. cbn [fst snd].
      rewrite snd_add. f_equal.
      generalize (snd (X env F (fst (X env s2 (fst (X env s1 P)))))),
                 (snd (X env K (snd (X env s2 (fst (X env s1 P)))))),
                 (snd (X env K (snd (X env s1 P)))). intros. st_solve.
    - (* NIf *)
      destruct (noret (NIf c s1 s2)) eqn:Hn.
      { inversion H; subst. now apply cps_generic. }
      destruct (noft s1 || noft s2); [|discriminate].
      destruct (cps (NSeq NPure F) K s1) as [T'|] eqn:ET; [|discriminate].
      destruct (cps (NSeq NPure F) K s2) as [E'|] eqn:EE; [|discriminate].
      inversion H; subst.
      pose proof (IHs1 _ K T' ET (nofts_pure F HF) HK) as ST.
      pose proof (IHs2 _ K E' EE (nofts_pure F HF) HK) as SE.
      intros env P. rewrite !nx_if_eq. cbn zeta. rewrite ST, SE. cbn [fst snd].
      rewrite !nx_seq_eq. cbn [nx fst snd]. rewrite !join_st0_l.
      change (both (N.lor (all st0) (all st0))) with st0.
      rewrite both_lor, !snd_add. f_equal.
      set (eo := eval_cond env (Some false) c). set (ee := eval_cond env (Some true) c).
      generalize (snd (X env F (both (all (fst (X env s1 (may eo ee true P))))))),
                 (snd (X env F (both (all (fst (X env s2 (may eo ee false P))))))),
                 (snd (X env K (snd (X env s1 (may eo ee true P))))),
                 (snd (X env K (snd (X env s2 (may eo ee false P))))). intros. st_solve.
    - (* NLoop *)
      destruct (noret (NLoop s)) eqn:Hn; [|discriminate].
      inversion H; subst. now apply cps_generic.
    - (* NReturn *) inversion H; subst. intros env P. cbn [nx fst snd]. rewrite nx_st0. cbn [snd].
      rewrite join_st0_l. apply pair_eta, HK.
    - (* NReturnOk *) inversion H; subst. intros env P. rewrite nx_seq_eq. cbn [nx fst snd].
      rewrite nx_st0. cbn [snd]. rewrite !join_st0_l. f_equal. apply HK.
    - (* NReturnErr *) inversion H; subst. intros env P. rewrite nx_seq_eq. cbn [nx fst snd].
      rewrite nx_st0. cbn [snd]. rewrite !join_st0_l. f_equal. apply HK.
  Qed.
End Sem7.

(* ---- pass 2: scopes -------------------------------------------------------------------------------- *)

Section Sem8.
  Variable masks : list (kind * N).
  Variable fuel : nat.
  Notation X := (nx masks fuel).

  Lemma nx_scope_eq env B P :
    X env (NScope B) P =
    ((N.lor (all (fst (X env B P))) (fst (snd (X env B P))),
      N.lor (all (fst (X env B P))) (snd (snd (X env B P)))), st0).
  Proof. cbn [nx]. destruct (X env B P) as [n r]. reflexivity. Qed.

  Lemma nx_scope_cong env B B' :
    (forall P, X env B P = X env B' P) -> forall P, X env (NScope B) P = X env (NScope B') P.
  Proof. intros H P. cbn [nx]. now rewrite H. Qed.

  (* a scope without returns = its body, then NPure *)
  Lemma scope_noret env B P : noret B = true -> X env (NScope B) P = X env (NSeq B NPure) P.
  Proof.
    intro H. rewrite nx_scope_eq, nx_seq_eq. rewrite (noret_sound masks fuel B env P H).
    cbn [nx fst snd]. rewrite !N.lor_0_r, join_st0_l. reflexivity.
  Qed.

  (* a scope that ends in a return, and has no other *)
  Lemma scope_tail env i l P :
    noret i = true ->
    X env (NScope (NSeq i l)) P =
    X env (match l with
           | NReturn => i
           | NReturnOk => NSeq i NArgOk
           | NReturnErr => NSeq i NArgErr
           | _ => NScope (NSeq i l)
           end) P.
  Proof.
    intro H. destruct l; try reflexivity.
    - rewrite nx_scope_eq, nx_seq_eq. rewrite (noret_sound masks fuel i env P H).
      cbn [nx fst snd]. rewrite join_st0_l. cbn [fst snd all st0]. rewrite !N.lor_0_l.
      rewrite <- (surjective_pairing (fst (X env i P))). symmetry. apply pair_eta2. apply noret_sound, H.
    - rewrite nx_scope_eq, !nx_seq_eq. rewrite (noret_sound masks fuel i env P H).
      cbn [nx fst snd]. rewrite !join_st0_l. cbn [fst snd all st0]. rewrite !N.lor_0_l. reflexivity.
    - rewrite nx_scope_eq, !nx_seq_eq. rewrite (noret_sound masks fuel i env P H).
      cbn [nx fst snd]. rewrite !join_st0_l. cbn [fst snd all st0]. rewrite !N.lor_0_l. reflexivity.
  Qed.
End Sem8.

Section Sem9.
  Variable masks : list (kind * N).
  Variable fuel : nat.
  Notation X := (nx masks fuel).

  Lemma scope_of_unlast env B i l :
    unlast B = (i, l) -> forall P, X env (NScope (NSeq i l)) P = X env (NScope B) P.
  Proof. intros E. apply nx_scope_cong. intro Q. apply (unlast_sound masks fuel B i l E). Qed.

  Lemma unscope_last_sound env B P : X env (unscope_last B) P = X env (NScope B) P.
  Proof.
    unfold unscope_last. destruct (noret B) eqn:Hb.
    - rewrite seq_sound. symmetry. apply scope_noret, Hb.
    - destruct (unlast B) as [i l] eqn:E. destruct (noret i) eqn:Hi; [|reflexivity].
      rewrite <- (scope_of_unlast env B i l E P). rewrite (scope_tail masks fuel env i l P Hi).
      destruct l; try reflexivity; try apply seq_sound;
        now rewrite (scope_of_unlast env B _ _ E P).
  Qed.

  Lemma head_return_nx env K : head_return K = true -> forall Q, X env K Q = (st0, Q).
  Proof.
    intros H Q. destruct K; try discriminate; [|reflexivity].
    destruct K1; try discriminate. rewrite nx_seq_eq. cbn [nx fst snd]. rewrite nx_st0. cbn [fst snd].
    now rewrite join_st0_r.
  Qed.

  Lemma scope_exit_join env B P :
    fst (X env (NScope B) P) = join (both (all (fst (X env B P)))) (snd (X env B P)).
  Proof. rewrite nx_scope_eq. cbn [fst]. destruct (snd (X env B P)). reflexivity. Qed.

  Lemma nx_seq_scope env B K P :
    X env (NSeq (NScope B) K) P =
    X env K (join (both (all (fst (X env B P)))) (snd (X env B P))).
  Proof.
    rewrite nx_seq_eq. rewrite scope_exit_join. rewrite nx_scope_eq. cbn [snd]. rewrite join_st0_l.
    symmetry. apply surjective_pairing.
  Qed.

  Lemma unscope_seq_sound env B K P : X env (unscope_seq B K) P = X env (NSeq (NScope B) K) P.
  Proof.
    unfold unscope_seq. destruct (noret B) eqn:Hb.
    { rewrite seq_sound, <- nx_seq_assoc. apply nx_seq_cong; [|reflexivity].
      intro Q. symmetry. apply scope_noret, Hb. }
    destruct (unlast B) as [i l] eqn:E.
    assert (Hkeep : X env (unscope_keep B K) P = X env (NSeq (NScope B) K) P).
    { unfold unscope_keep. destruct (head_return K) eqn:Hh.
      - rewrite seq_sound, nx_seq_scope, (head_return_nx env K Hh). rewrite !nx_seq_eq.
        cbn [nx fst snd]. rewrite join_st0_l. f_equal. apply join_comm.
      - destruct (noft K) eqn:Hk; [|reflexivity].
        destruct (cps (NSeq NPure K) K B) as [Z|] eqn:Ec; [|reflexivity].
        cbv zeta. destruct (Nat.leb _ _); [|reflexivity].
        rewrite flat_sound, (kc_sound masks fuel Z None env P I).
        rewrite (cps_sound masks fuel B _ K Z Ec (nofts_pure masks fuel K (nofts_of masks fuel K Hk))
                           (nofts_of masks fuel K Hk) env P).
        rewrite nx_seq_scope. rewrite nx_seq_eq. cbn [nx fst snd]. rewrite join_st0_l.
        rewrite <- snd_add. symmetry. apply pair_eta. apply noft_sound, Hk. }
    destruct (noret i) eqn:Hi; [|exact Hkeep].
    assert (T : forall Q, X env (NScope B) Q =
                          X env (match l with
                                 | NReturn => i
                                 | NReturnOk => NSeq i NArgOk
                                 | NReturnErr => NSeq i NArgErr
                                 | _ => NScope (NSeq i l)
                                 end) Q).
    { intro Q. rewrite <- (scope_of_unlast env B i l E Q). apply scope_tail, Hi. }
    destruct l; try exact Hkeep.
    - rewrite seq_sound. apply nx_seq_cong; [|reflexivity]. intro Q. symmetry. apply T.
    - rewrite seq_sound, <- nx_seq_assoc. apply nx_seq_cong; [|reflexivity]. intro Q. symmetry. apply T.
    - rewrite seq_sound, <- nx_seq_assoc. apply nx_seq_cong; [|reflexivity]. intro Q. symmetry. apply T.
  Qed.

  Lemma unsc_sound : forall s env P, X env (unsc s) P = X env s P.
  Proof.
    induction s; intros env P; cbn [unsc]; try reflexivity.
    - assert (G : X env (seq (unsc s1) (unsc s2)) P = X env (NSeq s1 s2) P).
      { rewrite seq_sound. apply nx_seq_cong; auto. }
      destruct s1; try exact G.
      rewrite unscope_seq_sound. apply nx_seq_cong; [|auto].
      intro Q. rewrite <- (IHs1 env Q). cbn [unsc]. symmetry. apply unscope_last_sound.
    - rewrite unscope_last_sound. apply nx_scope_cong. auto.
    - cbn. now rewrite IHs.
    - apply nx_if_cong; auto.
    - cbn. apply loop_it_ext. intro Q. apply IHs.
  Qed.

End Sem9.

(* ---- pass 4a: returns written into the branches, error-return fusion -------------------------- *)

Lemma is_ret1_cases r : is_ret1 r = true -> r = NReturnOk \/ r = NReturnErr.
Proof. destruct r; cbn; try discriminate; auto. Qed.

Lemma is_errret_eq a : is_errret a = true -> a = NIf CErr NReturnErr NSkip.
Proof.
  destruct a; cbn; try discriminate. destruct c; try discriminate.
  destruct a1; try discriminate. destruct a2; try discriminate. reflexivity.
Qed.

Lemma is_retok_eq b : is_retok b = true -> b = NReturnOk.
Proof. destruct b; cbn; try discriminate. reflexivity. Qed.

Section Sem10.
  Variable masks : list (kind * N).
  Variable fuel : nat.
  Notation X := (nx masks fuel).

  Lemma push_exact env c A B r P :
    r = NReturnOk \/ r = NReturnErr ->
    X env (NIf c (NSeq A r) (NSeq B r)) P = X env (NSeq (NIf c A B) r) P.
  Proof.
    intros [-> | ->]; rewrite nx_seq_eq, !nx_if_eq; cbn zeta; rewrite !nx_seq_eq; cbn [nx fst snd];
      rewrite all_both;
      set (eo := eval_cond env (Some false) c); set (ee := eval_cond env (Some true) c);
      generalize (X env A (may eo ee true P)), (X env B (may eo ee false P));
      intros [nA rA] [nB rB]; cbn [fst snd]; apply f_equal2; st_solve.
  Qed.

  Lemma pushret_sound : forall s env P, X env (pushret s) P = X env s P.
  Proof.
    induction s; intros env P; cbn [pushret]; try reflexivity.
    - assert (G : X env (seq (pushret s1) (pushret s2)) P = X env (NSeq s1 s2) P).
      { rewrite seq_sound. apply nx_seq_cong; auto. }
      destruct s1; try exact G. clear G.
      assert (HI : forall Q, X env (NIf c (pushret s1_1) (pushret s1_2)) Q = X env (NIf c s1_1 s1_2) Q).
      { intro Q. exact (IHs1 env Q). }
      destruct (is_ret1 (pushret s2)) eqn:Hr.
      + rewrite (nx_if_cong masks fuel env c _ (NSeq (pushret s1_1) (pushret s2)) _ (NSeq (pushret s1_2) (pushret s2))
                            (fun Q => seq_sound masks fuel _ _ env Q) (fun Q => seq_sound masks fuel _ _ env Q)).
        rewrite (push_exact env c _ _ _ P (is_ret1_cases _ Hr)).
        apply nx_seq_cong; auto.
      + rewrite seq_sound. apply nx_seq_cong; auto.
    - cbn. now rewrite IHs.
    - cbn. now rewrite IHs.
    - apply nx_if_cong; auto.
    - cbn. apply loop_it_ext. intro Q. apply IHs.
  Qed.

  Lemma fuse_exact env P : X env (NSeq (NIf CErr NReturnErr NSkip) NReturnOk) P = X env NReturn P.
  Proof.
    destruct P as [a b]. rewrite nx_seq_eq, nx_if_eq. cbn. unfold all, both, join, st0. cbn.
    rewrite ?N.lor_0_r, ?N.lor_0_l, ?N.lor_diag. reflexivity.
  Qed.

  Lemma fuse_sound : forall s env P, X env (fuse s) P = X env s P.
  Proof.
    induction s; intros env P; cbn [fuse]; try reflexivity.
    - destruct (is_errret s1 && is_retok s2) eqn:H.
      + apply andb_prop in H. destruct H as [H1 H2].
        apply is_errret_eq in H1. apply is_retok_eq in H2. subst. symmetry. apply fuse_exact.
      + rewrite seq_sound. apply nx_seq_cong; auto.
    - cbn. now rewrite IHs.
    - cbn. now rewrite IHs.
    - apply nx_if_cong; auto.
    - cbn. apply loop_it_ext. intro Q. apply IHs.
  Qed.
End Sem10.

(* ---- pass 4b: common tails -------------------------------------------------------------------------- *)

Lemma lex_eq c d : lex c d = Eq -> c = Eq /\ d = Eq.
Proof. destruct c; cbn; intro H; try discriminate. auto. Qed.

Lemma bool_cmp_eq a b : Bool.compare a b = Eq -> a = b.
Proof. destruct a, b; cbn; congruence. Qed.

Lemma kind_cmp_eq a b : kind_cmp a b = Eq -> a = b.
Proof.
  unfold kind_cmp. destruct (Nat.compare (kind_ix a) (kind_ix b)) eqn:H; try discriminate.
  apply Nat.compare_eq in H.
  destruct a, b; cbn in H; try discriminate; intro E; try reflexivity.
  - apply bool_cmp_eq in E. now subst.
  - apply String.compare_eq_iff in E. now subst.
  - apply String.compare_eq_iff in E. now subst.
Qed.

Lemma cond_cmp_eq : forall a b, cond_cmp a b = Eq -> a = b.
Proof.
  induction a; destruct b; cbn; intro H; try discriminate; try reflexivity.
  - apply String.compare_eq_iff in H. now subst.
  - f_equal. now apply IHa.
  - apply lex_eq in H. destruct H. f_equal; [now apply IHa1 | now apply IHa2].
  - apply lex_eq in H. destruct H. f_equal; [now apply IHa1 | now apply IHa2].
Qed.

Lemma strs_cmp_eq : forall a b, strs_cmp a b = Eq -> a = b.
Proof.
  induction a; destruct b; cbn; intro H; try discriminate; try reflexivity.
  apply lex_eq in H. destruct H as [H1 H2]. apply String.compare_eq_iff in H1. subst.
  f_equal. now apply IHa.
Qed.

Lemma ncmp_eq : forall a b, ncmp a b = Eq -> a = b.
Proof.
  induction a; destruct b; cbn; intro H; try discriminate; try reflexivity.
  - apply lex_eq in H. destruct H. f_equal; [now apply IHa1 | now apply IHa2].
  - f_equal. now apply kind_cmp_eq.
  - f_equal. now apply IHa.
  - apply lex_eq in H. destruct H as [H1 H2]. f_equal; [now apply strs_cmp_eq | now apply IHa].
  - apply lex_eq in H. destruct H as [H1 H2]. apply lex_eq in H2. destruct H2.
    f_equal; [now apply cond_cmp_eq | now apply IHa1 | now apply IHa2].
  - f_equal. now apply IHa.
Qed.

Lemma nsk_eqb_eq a b : nsk_eqb a b = true -> a = b.
Proof. unfold nsk_eqb. destruct (ncmp a b) eqn:H; try discriminate. intros _. now apply ncmp_eq. Qed.

Lemma list_eqb_eq : forall a b, list_eqb a b = true -> a = b.
Proof.
  induction a; destruct b; cbn; intro H; try discriminate; try reflexivity.
  apply andb_prop in H. destruct H as [H1 H2]. apply nsk_eqb_eq in H1. subst. f_equal. now apply IHa.
Qed.

Section Sem11.
  Variable masks : list (kind * N).
  Variable fuel : nat.
  Notation X := (nx masks fuel).

  Lemma from_list_app : forall l1 l2 env P,
    X env (from_list (l1 ++ l2)) P = X env (NSeq (from_list l1) (from_list l2)) P.
  Proof.
    induction l1 as [|a l1 IH]; intros l2 env P; cbn [app from_list].
    - now rewrite nx_seq_skip_l.
    - rewrite seq_sound.
      rewrite (nx_seq_cong masks fuel env (seq a (from_list l1)) (NSeq a (from_list l1)) (from_list l2) (from_list l2)
                           (fun Q => seq_sound masks fuel _ _ env Q) (fun Q => eq_refl)).
      rewrite nx_seq_assoc. apply nx_seq_cong; [reflexivity|]. intro Q. apply IH.
  Qed.

  Lemma from_to_list : forall s env P, X env (from_list (to_list s)) P = X env s P.
  Proof.
    induction s; intros env P; cbn [to_list from_list]; try (rewrite seq_sound; apply nx_seq_skip_r).
    - reflexivity.
    - rewrite from_list_app. apply nx_seq_cong; auto.
  Qed.

  Lemma split_list (l : list nsk) n env P :
    X env (from_list l) P = X env (NSeq (from_list (firstn n l)) (from_list (skipn n l))) P.
  Proof. rewrite <- from_list_app. now rewrite firstn_skipn. Qed.

  Lemma factor_exact env c A B R P :
    bcast R = true -> (bcast A || hi R) = true -> (bcast B || hi R) = true ->
    X env (NSeq (NIf c A B) R) P = X env (NIf c (NSeq A R) (NSeq B R)) P.
  Proof.
    intros HR HA HB. rewrite nx_seq_eq, !nx_if_eq. cbn zeta. cbn [fst snd]. rewrite !nx_seq_eq. cbn [fst snd].
    set (Pt := may _ _ true P). set (Pf := may _ _ false P).
    assert (GA : X env R (both (all (fst (X env A Pt)))) = X env R (fst (X env A Pt))).
    { apply orb_prop in HA. destruct HA as [H|H].
      - now rewrite <- (bcast_both masks fuel A env Pt H).
      - symmetry. apply (hi_sound masks fuel R env _ H). }
    assert (GB : X env R (both (all (fst (X env B Pf)))) = X env R (fst (X env B Pf))).
    { apply orb_prop in HB. destruct HB as [H|H].
      - now rewrite <- (bcast_both masks fuel B env Pf H).
      - symmetry. apply (hi_sound masks fuel R env _ H). }
    rewrite both_lor, nx_add, GA, GB. unfold jj. cbn [fst snd].
    rewrite (bcast_both masks fuel R env (fst (X env A Pt)) HR) at 1.
    rewrite (bcast_both masks fuel R env (fst (X env B Pf)) HR) at 1.
    rewrite <- both_lor. f_equal.
    generalize (snd (X env A Pt)), (snd (X env B Pf)), (snd (X env R (fst (X env A Pt)))),
               (snd (X env R (fst (X env B Pf)))). intros. st_solve.
  Qed.

  Lemma factor_if_sound env c T E P : X env (factor_if c T E) P = X env (NIf c T E) P.
  Proof.
    unfold factor_if.
    set (lt := to_list T). set (le := to_list E).
    set (k := common_prefix_len (rev lt) (rev le)).
    set (nt := List.length lt - k). set (ne := List.length le - k).
    set (R := from_list (skipn nt lt)). set (A := from_list (firstn nt lt)). set (B := from_list (firstn ne le)).
    destruct (Nat.ltb 0 k && list_eqb (skipn nt lt) (skipn ne le) && negb (noft R) && bcast R
              && (bcast A || hi R) && (bcast B || hi R)) eqn:H; [|reflexivity].
    apply andb_prop in H. destruct H as [H HB]. apply andb_prop in H. destruct H as [H HA].
    apply andb_prop in H. destruct H as [H HR]. apply andb_prop in H. destruct H as [H _].
    apply andb_prop in H. destruct H as [_ HL]. apply list_eqb_eq in HL.
    rewrite seq_sound, (factor_exact env c A B R P HR HA HB).
    apply nx_if_cong; intro Q.
    - rewrite <- (from_to_list T env Q). fold lt. subst A R. symmetry. apply split_list.
    - rewrite <- (from_to_list E env Q). fold le. subst B R. rewrite HL. symmetry. apply split_list.
  Qed.

  Lemma factor_sound : forall s env P, X env (factor s) P = X env s P.
  Proof.
    induction s; intros env P; cbn [factor]; try reflexivity.
    - rewrite seq_sound. apply nx_seq_cong; auto.
    - cbn. now rewrite IHs.
    - cbn. now rewrite IHs.
    - rewrite factor_if_sound. apply nx_if_cong; auto.
    - cbn. apply loop_it_ext. intro Q. apply IHs.
  Qed.
  (* ---- the normal form ------------------------------------------------------------------------------ *)

  Lemma norm1_sound s env P : X env (norm1 s) P = X env s P.
  Proof.
    unfold norm1.
    rewrite flat_sound, (pe_sound masks fuel _ false env P (eqc_false P)), epull_sound, factor_sound,
            flat_sound, fuse_sound, pushret_sound, flat_sound,
            (kc_sound masks fuel _ None env P I), flat_sound, unsc_sound, flat_sound.
    reflexivity.
  Qed.

  Lemma norm_sound_nx s env P : X env (norm s) P = X env s P.
  Proof. unfold norm. now rewrite !norm1_sound. Qed.
End Sem11.

(* the normal form has exactly the paths of the skeleton it was computed from *)
Theorem norm_sound :
  forall (s : nsk) (inp : list kind) (fuel : nat) (env : string -> bool),
    naccepts (norm s) inp fuel env = naccepts s inp fuel env.
Proof.
  intros s inp fuel env. unfold naccepts. cbn [nx].
  now rewrite norm_sound_nx.
Qed.

(* two skeletons with the same normal form of an entry function have the same paths from it *)
Theorem same_normal_form_same_paths :
  forall (t1 t2 : table) (entry : string),
    norm_root t1 entry = norm_root t2 entry ->
    forall inp fuel env,
      naccepts (inline_root t1 entry) inp fuel env = naccepts (inline_root t2 entry) inp fuel env.
Proof.
  intros t1 t2 entry H inp fuel env. unfold norm_root in H.
  rewrite <- (norm_sound (inline_root t1 entry)), <- (norm_sound (inline_root t2 entry)).
  now rewrite H.
Qed.

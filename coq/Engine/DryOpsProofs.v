(* C06 — proofs over the richer model (Engine/DryOps.v).
   1. all_xeff: every effect on every path of a program, whatever the answers are.
   2. The tails are the text of Ops.install / Ops.upgrade.
   3. Loops: ownership pre-flight, template script, --output-dir files, capabilities.
   4. Dry run: for all options, charts, configurations: the only effects are reads
      (reachability, discovery, Build, per-object GETs, lookups when the spelling talks to the
      server, storage reads) and local work (post-renderer, files).
   5. ClientOnly: nothing on the configured cluster except lookups of a server-talking
      spelling, nothing written to the configured storage.
   6. helm template.
   7. Traces: under EVERY handler the emitted effect sequence satisfies the predicate. *)
From Coq Require Import List String Bool Arith ZArith Lia.
From Helm Require Import Common.Assoc Engine.Types Engine.Eff Engine.Ops Engine.Cluster Engine.Seq
                         Engine.DryRun Engine.DryRunProofs Engine.DryOps.
Import ListNotations.
Local Open Scope string_scope.

(* ------------------------------------------------------------------ *)
(* 1. all_xeff                                                          *)

Inductive all_xeff {A : Type} (Q : xeff -> Prop) : xprog A -> Prop :=
| AX_ret : forall a, all_xeff Q (XRet a)
| AX_eff : forall e k, Q e -> (forall r, all_xeff Q (k r)) -> all_xeff Q (XEff e k).

Lemma all_xeff_weaken {A} (Q Q' : xeff -> Prop) (p : xprog A) :
  (forall e, Q e -> Q' e) -> all_xeff Q p -> all_xeff Q' p.
Proof. intros HQ H. induction H; constructor; auto. Qed.

Lemma all_xeff_bind {A B} (Q : xeff -> Prop) (p : xprog A) (f : A -> xprog B) :
  all_xeff Q p -> (forall a, all_xeff Q (f a)) -> all_xeff Q (xbind p f).
Proof. intros H Hf. induction H; simpl; auto. constructor; auto. Qed.

Lemma all_xeff_perform (Q : xeff -> Prop) e : Q e -> all_xeff Q (xperform e).
Proof. intros H. constructor; auto. intros r. constructor. Qed.

Lemma all_xeff_lift {A} (Q : xeff -> Prop) t (p : prog A) :
  all_eff (fun e => Q (XE t e)) p -> all_xeff Q (xlift t p).
Proof. intros H. induction H; simpl; constructor; auto. Qed.

(* every effect of a lifted program is an effect on that target, whatever the program *)
Lemma all_xeff_lift_any {A} t (p : prog A) :
  all_xeff (fun e => exists e', e = XE t e') (xlift t p).
Proof. induction p; simpl; constructor; eauto. Qed.

(* ------------------------------------------------------------------ *)
(* 2. the tails are Ops' text                                           *)

Lemma install_split rn ns fl cid vid mani hks :
  install rn ns fl cid vid mani hks =
  bind (if f_dry_run fl then Ret true
        else bind (perform SHistory) (fun h =>
             match max_rev_of h with
             | None => Ret true
             | Some last => Ret (f_replace fl && (status_eqb (st last) SUninstalled || status_eqb (st last) SFailed))
             end))
       (fun avail =>
          if negb avail then Ret (OErr ENameInUse) else
          let rel0 := mkRelease 1 SPendingInstall cid vid mani hks in
          let resources := stamp_all rn ns mani in
          bind (if negb (f_client_only fl) && negb (match resources with [] => true | _ => false end)
                then perform (KExisting resources (f_take_ownership fl)) else Ret (Some []))
               (fun adopt =>
                  match adopt with
                  | None => Ret (OErr EConflict)
                  | Some adopted =>
                      if f_dry_run fl then Ret OOk else install_tail fl rel0 resources adopted
                  end)).
Proof. reflexivity. Qed.

Lemma upgrade_split rn ns fl cid vid mani hks :
  upgrade rn ns fl cid vid mani hks =
  bind (perform SHistory) (fun h =>
    match max_rev_of h with
    | None => Ret (OErr ENoDeployed)
    | Some last =>
        if is_pending (st last) then Ret (OErr EPending) else
        bind (if status_eqb (st last) SDeployed then Ret (Some last)
              else bind (perform SDeployedAll) (fun ds =>
                   match max_rev_of ds with
                   | Some d => Ret (Some d)
                   | None => if status_eqb (st last) SFailed || status_eqb (st last) SSuperseded
                             then Ret (Some last) else Ret None
                   end))
             (fun cur =>
                match cur with
                | None => Ret (OErr ENoDeployed)
                | Some current =>
                    let up := mkRelease (S (rev last)) SPendingUpgrade cid vid mani hks in
                    let target := stamp_all rn ns mani in
                    let tobecreated := filter (fun r => negb (in_keys (rkey r) (manifest current))) target in
                    bind (perform (KExisting tobecreated (f_take_ownership fl))) (fun adopt =>
                      match adopt with
                      | None => Ret (OErr EConflict)
                      | Some adopted =>
                          let curres := (manifest current ++ adopted)%list in
                          if f_dry_run fl then Ret OOk else upgrade_tail rn ns fl up current curres target
                      end)
                end)
    end).
Proof. reflexivity. Qed.

(* ------------------------------------------------------------------ *)
(* 3. loops                                                             *)

Section Loops.
  Variable Q : xeff -> Prop.

  Lemma x_existing_all rn ns take : (forall r, Q (XGetObj r)) ->
    forall rs acc, all_xeff Q (x_existing rn ns take rs acc).
  Proof.
    intros HQ. induction rs as [|r t IH]; intros acc; simpl.
    - constructor.
    - constructor; auto. intros g. destruct g; simpl; try constructor; auto.
      destruct (take || owned_by rn ns live); auto. constructor.
  Qed.

  Lemma run_script_all remote : (remote = true -> Q XLookup) ->
    forall s, all_xeff Q (run_script remote s).
  Proof.
    intros HQ. induction s as [ok|k IH]; simpl.
    - constructor.
    - destruct remote.
      + constructor; auto.
      + apply IH.
  Qed.

  Lemma write_files_all : Q XWriteFile -> forall n, all_xeff Q (write_files n).
  Proof.
    intros HQ. induction n; simpl; constructor; auto.
    intros r. destruct r; auto. constructor.
  Qed.

  Lemma get_caps_all g have : (have = false -> xg_getter g = true -> Q XCaps) -> all_xeff Q (get_caps g have).
  Proof.
    intros HQ. unfold get_caps. destruct have; [constructor|].
    destruct (xg_getter g) eqn:E; simpl; [|constructor].
    constructor; auto. intros r. constructor.
  Qed.

  Lemma x_render_all g fl have remote inc outdir c :
    (have = false -> xg_getter g = true -> Q XCaps) ->
    (remote && xg_getter g = true -> Q XLookup) ->
    (outdir = true -> Q XWriteFile) ->
    (fb fl "PostRenderer" = true -> forall m, Q (XPostRender m)) ->
    all_xeff Q (x_render g fl have remote inc outdir c).
  Proof.
    intros Hc Hl Hw Hp. unfold x_render.
    apply all_xeff_bind; [now apply get_caps_all|]. intros cp.
    destruct cp; try constructor.
    destruct (xc_kube_ok c); simpl; [|constructor].
    apply all_xeff_bind; [now apply run_script_all|]. intros ok.
    destruct ok; simpl; [|constructor].
    apply all_xeff_bind.
    { destruct outdir; rewrite ?andb_false_r; [|constructor].
      destruct inc; simpl; [apply write_files_all; auto|constructor]. }
    intros w1. destruct w1; simpl; [|constructor].
    apply all_xeff_bind.
    { destruct outdir; [apply write_files_all; auto|constructor]. }
    intros w2. destruct w2; simpl; [|constructor].
    destruct (fb fl "PostRenderer") eqn:E; [|constructor].
    constructor; auto. intros r. destruct r; constructor.
  Qed.
End Loops.


(* one step through a program: constructors, case splits, and the loop lemmas *)
Ltac xside := simpl; try exact I; try reflexivity; try assumption;
  try (match goal with |- context [if ?b then TPriv else TReal] => destruct b end; simpl; exact I).

Ltac xstep :=
  lazymatch goal with
  | |- all_xeff _ (XRet _) => constructor
  | |- all_xeff _ (XEff _ _) => constructor; [xside | intro; simpl]
  | |- all_xeff _ (xbind (get_caps _ _) _) =>
      apply all_xeff_bind; [apply get_caps_all; intros; xside | intro; simpl]
  | |- all_xeff _ (xbind (x_render _ _ _ _ _ _ _) _) =>
      apply all_xeff_bind; [apply x_render_all; intros; try discriminate; xside | intro; simpl]
  | |- all_xeff _ (xbind (x_existing _ _ _ _ _) _) =>
      apply all_xeff_bind; [apply x_existing_all; intros; xside | intro; simpl]
  | |- all_xeff _ (x_existing _ _ _ _ _) => apply x_existing_all; intros; xside
  | |- all_xeff _ (xbind (if ?b then _ else _) _) => destruct b eqn:?; simpl
  | |- all_xeff _ (xbind (match ?x with _ => _ end) _) => destruct x eqn:?; simpl
  | |- all_xeff _ (if ?b then _ else _) => destruct b eqn:?; simpl
  | |- all_xeff _ (match ?x with _ => _ end) => destruct x eqn:?; simpl
  end.

(* ------------------------------------------------------------------ *)
(* 4. dry run                                                           *)

(* the effects of a dry run: reads and local work.  [lookups]: may templates reach the cluster *)
Definition dry_effect (lookups : bool) (e : xeff) : Prop :=
  match e with
  | XE TReal SHistory | XE TReal SDeployedAll | XE TReal (SGet _) => True
  | XReach | XCaps | XGetObj _ | XPostRender _ | XWriteFile | XGetWaiter TReal => True
  | XBuild _ BManifest _ _ | XBuild TReal BCurrent _ _ => True
  | XLookup => lookups = true
  | _ => False
  end.

Lemma dry_effect_safe l e : dry_effect l e -> x_cluster_mut e = false /\ x_store_write e = false.
Proof.
  destruct e as [t e| | |t w v n| | | | |t| | | | |t]; simpl; try tauto;
    try (destruct t; simpl; tauto); try (destruct t, w; simpl; tauto).
  destruct t; [|tauto]. destruct e; simpl; tauto.
Qed.

Lemma dry_effect_mono e : dry_effect false e -> dry_effect true e.
Proof. destruct e as [t e| | |t w v n| | | | |t| | | | |t]; simpl; auto; discriminate. Qed.

Section Dry.
  Variable rn ns : string.

  (* does this install / upgrade let templates talk to the server *)
  Definition lookups_of (g : xcfg) (fl : xflags) : bool :=
    interact_with_remote (is_dry_run (fb fl "DryRun") (xf_opt fl)) (xf_opt fl) && xg_getter g.

  Lemma x_install_dry g fl c :
    is_dry_run (fb fl "DryRun") (xf_opt fl) = true ->
    all_xeff (dry_effect (lookups_of g fl)) (x_install rn ns g fl c).
  Proof.
    intros H. unfold x_install, lookups_of. cbv zeta. rewrite H. simpl negb. simpl andb.
    set (Q := dry_effect _). subst Q. simpl. repeat xstep.
  Qed.

  Lemma x_upgrade_dry g fl c :
    is_dry_run (fb fl "DryRun") (xf_opt fl) = true ->
    all_xeff (dry_effect (lookups_of g fl)) (x_upgrade rn ns g fl c).
  Proof.
    intros H. unfold x_upgrade, lookups_of. cbv zeta. rewrite H. simpl negb. simpl andb.
    set (Q := dry_effect _). subst Q. simpl. repeat xstep.
  Qed.

  Lemma storage_read_dry_effect l e : storage_read e -> dry_effect l (XE TReal e).
  Proof. destruct e; simpl; auto. Qed.

  Lemma x_rollback_dry fl :
    fb fl "DryRun" = true -> all_xeff (dry_effect false) (x_rollback rn ns fl).
  Proof.
    intros H. unfold x_rollback.
    apply all_xeff_bind; [apply all_xeff_perform; exact I|]. intros reach.
    destruct reach; cbn [negb]; [|constructor].
    apply all_xeff_bind; [|intros; constructor].
    apply all_xeff_lift. eapply all_eff_weaken; [apply storage_read_dry_effect|].
    apply rollback_dry_silent. unfold flags_of. simpl. exact H.
  Qed.

  Lemma x_uninstall_dry fl :
    fb fl "DryRun" = true -> all_xeff (dry_effect false) (x_uninstall fl).
  Proof.
    intros H. unfold x_uninstall.
    apply all_xeff_bind; [apply all_xeff_perform; exact I|]. intros reach.
    destruct reach; cbn [negb]; [|constructor].
    apply all_xeff_bind; [apply all_xeff_perform; exact I|]. intros gw.
    destruct gw; cbn [negb]; [|constructor].
    apply all_xeff_bind; [|intros; constructor].
    apply all_xeff_lift. eapply all_eff_weaken; [apply storage_read_dry_effect|].
    apply uninstall_dry_silent. unfold flags_of. simpl. exact H.
  Qed.

  (* ---------------------------------------------------------------- *)
  (* 5. ClientOnly                                                      *)

  (* the effects of a ClientOnly install: everything is local or goes to the throw-away back
     ends, except the name check of a run that is NOT a dry run (a read of the configured
     storage) and the lookups of a spelling that talks to the server *)
  Definition client_only_effect (dry lookups : bool) (e : xeff) : Prop :=
    match e with
    | XE TPriv _ | XBuild TPriv _ _ _ | XNsCreate TPriv | XPostRender _ | XWriteFile => True
    | XE TReal SHistory => dry = false
    | XLookup => lookups = true
    | _ => False
    end.

  Lemma client_only_effect_safe d l e :
    client_only_effect d l e ->
    x_cluster_mut e = false /\ x_store_write e = false /\ (x_cluster e = true -> e = XLookup).
  Proof.
    destruct e as [t e| | |t w v n| | | | |t| | | | |t]; try destruct t; try destruct e; simpl; intros He;
      try contradiction; repeat split; intros; try reflexivity; try discriminate.
  Qed.

  Lemma client_only_effect_silent e :
    client_only_effect true false e -> x_cluster e = false /\ x_store e = false.
  Proof.
    destruct e as [t e| | |t w v n| | | | |t| | | | |t]; try destruct t; try destruct e; simpl; intros He;
      try contradiction; repeat split; intros; try reflexivity; try discriminate.
  Qed.

  Lemma x_install_client_only g fl c :
    fb fl "ClientOnly" = true ->
    all_xeff (client_only_effect (is_dry_run (fb fl "DryRun") (xf_opt fl)) (lookups_of g fl))
             (x_install rn ns g fl c).
  Proof.
    intros H. unfold x_install, lookups_of. cbv zeta. rewrite H. simpl negb. simpl andb. simpl orb.
    set (dry := is_dry_run _ _). set (Q := client_only_effect _ _).
    simpl. destruct (negb dry && fb fl "HideSecret"); [constructor|].
    apply all_xeff_bind.
    { destruct dry eqn:Ed; [constructor|].
      constructor; [subst Q; simpl; reflexivity|]. intros h. simpl.
      destruct (max_rev_of h); constructor. }
    intros avail. destruct avail; simpl; [|constructor].
    destruct (xc_deps_ok c); simpl; [|constructor].
    destruct (xc_values_ok c); simpl; [|constructor].
    destruct (fb fl "SystemLabels"); simpl; [constructor|].
    apply all_xeff_bind.
    { apply x_render_all; intros; try exact I; try discriminate. subst Q. simpl. assumption. }
    intros r. destruct r; try constructor; [exact I|].
    intros b. destruct b; simpl; [|constructor].
    destruct dry; [constructor|].
    apply all_xeff_bind.
    { destruct (fb fl "CreateNamespace"); [|constructor].
      constructor; [exact I|]. intros nb. simpl. destruct nb; simpl; [|constructor].
      constructor; [exact I|]. intros cr. constructor. }
    intros nsr. destruct nsr; simpl; [|constructor].
    apply all_xeff_bind; [|intros; constructor].
    eapply all_xeff_weaken; [|apply all_xeff_lift_any].
    intros e [e' ->]. exact I.
  Qed.

  (* ---------------------------------------------------------------- *)
  (* 6. helm template                                                   *)

  Lemma fb_fset fl_on n b m :
    existsb (String.eqb m) (fset n b fl_on) = if String.eqb n m then b else existsb (String.eqb m) fl_on.
  Proof.
    unfold fset. destruct b.
    - simpl. rewrite (String.eqb_sym m n). destruct (String.eqb n m); reflexivity.
    - induction fl_on as [|x t IH].
      + simpl. destruct (String.eqb n m); reflexivity.
      + cbn [filter]. destruct (String.eqb n x) eqn:E; cbn [negb existsb].
        * rewrite IH. apply String.eqb_eq in E. subst x.
          rewrite (String.eqb_sym m n). destruct (String.eqb n m); reflexivity.
        * rewrite IH. destruct (String.eqb n m) eqn:E2; [|reflexivity].
          apply String.eqb_eq in E2. subst m. rewrite E. reflexivity.
  Qed.

  Lemma template_flags_spec v i cli :
    let fl := template_flags v i cli in
    fb fl "DryRun" = true /\ fb fl "ClientOnly" = negb v /\ fb fl "Replace" = true /\ fb fl "IncludeCRDs" = i /\
    xf_opt fl = (if String.eqb (xf_opt cli) "" then "true" else xf_opt cli) /\
    (forall n, n <> "DryRun" -> n <> "ClientOnly" -> n <> "Replace" -> n <> "IncludeCRDs" -> fb fl n = fb cli n).
  Proof.
    unfold template_flags, fb. cbn [xf_on xf_opt].
    repeat split; try (rewrite !fb_fset; reflexivity).
    intros n H1 H2 H3 H4. rewrite !fb_fset.
    repeat match goal with |- context [String.eqb ?a n] =>
      let E := fresh in destruct (String.eqb a n) eqn:E; [apply String.eqb_eq in E; congruence|] end.
    reflexivity.
  Qed.

  Lemma x_template_dry g v i cli c :
    all_xeff (dry_effect (lookups_of g (template_flags v i cli))) (x_template rn ns g v i cli c).
  Proof.
    unfold x_template. destruct (dry_opt_allowed _); [|constructor].
    apply x_install_dry. destruct (template_flags_spec v i cli) as (H & _). rewrite H. reflexivity.
  Qed.

  (* the --dry-run values with which a template run stays off the cluster *)
  Definition template_local_opt (opt : string) : bool :=
    negb (String.eqb opt "server" || String.eqb opt "none" || String.eqb opt "false").

  Lemma x_template_client_only g i cli c :
    all_xeff (client_only_effect true (lookups_of g (template_flags false i cli)))
             (x_template rn ns g false i cli c).
  Proof.
    unfold x_template. destruct (dry_opt_allowed _); [|constructor].
    destruct (template_flags_spec false i cli) as (H1 & H2 & _).
    pose proof (x_install_client_only g (template_flags false i cli) c H2) as H.
    rewrite H1 in H. exact H.
  Qed.

  Lemma template_lookups_off g i cli :
    template_local_opt (xf_opt cli) = true -> lookups_of g (template_flags false i cli) = false.
  Proof.
    intros H. unfold lookups_of. destruct (template_flags_spec false i cli) as (H1 & _ & _ & _ & H5 & _).
    rewrite H1, H5. simpl. unfold interact_with_remote, template_local_opt in *. simpl.
    destruct (String.eqb (xf_opt cli) "") eqn:E.
    - reflexivity.
    - apply negb_true_iff in H. rewrite H. reflexivity.
  Qed.
  (* ---------------------------------------------------------------- *)
  (* the command layer                                                  *)

  (* every value validateDryRunOptionFlag accepts is a documented "no" or a spelling isDryRun
     treats as dry: the command layer cannot accept a dry-run request that the action does not
     recognise *)
  Lemma cmd_accepts_only_known s :
    dry_opt_allowed s = true -> In s ["none"; "false"] \/ is_dry_run false s = true.
  Proof.
    unfold dry_opt_allowed. simpl. rewrite !orb_true_iff.
    intros [H|[H|[H|[H|[H|H]]]]]; try discriminate; apply String.eqb_eq in H; subst s; simpl; auto.
  Qed.

  Lemma allowed_dry_request_is_dry opt :
    dry_opt_allowed opt = true -> str_in opt ["none"; "false"] = false -> forall b, is_dry_run b opt = true.
  Proof.
    intros Ha Hn b. destruct (cmd_accepts_only_known opt Ha) as [Hi|Hd].
    - exfalso. simpl in Hi. unfold str_in in Hn. simpl in Hn.
      destruct Hi as [<-|[<-|[]]]; simpl in Hn; discriminate.
    - unfold is_dry_run in *. destruct b; auto.
  Qed.

  Lemma fb_with_flag fl n b m : fb (with_flag fl n b) m = if String.eqb n m then b else fb fl m.
  Proof. unfold fb, with_flag. cbn [xf_on]. apply fb_fset. Qed.

  Lemma x_cmd_dry g k a fl c :
    cmd_dry_request k a = true -> all_xeff (dry_effect true) (x_cmd rn ns g k a fl c).
  Proof.
    intros H. unfold x_cmd.
    assert (forall fl' opt, dry_opt_allowed opt = true -> str_in opt ["none"; "false"] = false ->
              all_xeff (dry_effect true) (x_install rn ns g (with_opt fl' opt) c) /\
              all_xeff (dry_effect true) (x_upgrade rn ns g (with_opt fl' opt) c)) as HS.
    { intros fl' opt Ha Hn. pose proof (allowed_dry_request_is_dry opt Ha Hn) as Hd.
      split; (eapply all_xeff_weaken; [|first [apply x_install_dry | apply x_upgrade_dry]; cbn [xf_opt with_opt]; apply Hd]);
        intros e He; destruct (lookups_of _ _); auto using dry_effect_mono. }
    cbv zeta. destruct k; cbn [cmd_dry_request] in H.
    - destruct a as [a|]; [|discriminate]. apply negb_true_iff in H.
      remember (cmd_default_opt (cmd_string_opt (Some a))) as opt.
      destruct (dry_opt_allowed opt) eqn:Ha; [|constructor]. exact (proj1 (HS fl _ Ha H)).
    - destruct a as [a|]; [|discriminate]. apply negb_true_iff in H.
      remember (cmd_default_opt (cmd_string_opt (Some a))) as opt.
      destruct (dry_opt_allowed opt) eqn:Ha; [|constructor]. exact (proj2 (HS fl _ Ha H)).
    - destruct a as [a|]; [|discriminate]. apply negb_true_iff in H.
      remember (cmd_default_opt (cmd_string_opt (Some a))) as opt.
      apply all_xeff_bind; [apply all_xeff_perform; exact I|]. intros reach.
      destruct reach; cbn [negb]; [|constructor].
      apply all_xeff_bind; [apply all_xeff_perform; exact I|]. intros h.
      match goal with |- all_xeff _ (if ?b then _ else _) => destruct b end;
        (destruct (dry_opt_allowed opt) eqn:Ha; [|constructor]).
      + exact (proj1 (HS (with_flag fl "Replace" _) _ Ha H)).
      + exact (proj2 (HS fl _ Ha H)).
    - destruct a as [[v|]|]; try discriminate; unfold cmd_bool_opt.
      + destruct (parse_bool v) as [[|]|]; try discriminate; [|constructor].
        eapply all_xeff_weaken; [apply dry_effect_mono|]. apply x_rollback_dry. rewrite fb_with_flag. reflexivity.
      + eapply all_xeff_weaken; [apply dry_effect_mono|]. apply x_rollback_dry. rewrite fb_with_flag. reflexivity.
    - destruct a as [[v|]|]; try discriminate; unfold cmd_bool_opt.
      + destruct (parse_bool v) as [[|]|]; try discriminate; [|constructor].
        eapply all_xeff_weaken; [apply dry_effect_mono|]. apply x_uninstall_dry. rewrite fb_with_flag. reflexivity.
      + eapply all_xeff_weaken; [apply dry_effect_mono|]. apply x_uninstall_dry. rewrite fb_with_flag. reflexivity.
  Qed.
End Dry.

(* ------------------------------------------------------------------ *)
(* 7. traces under every handler                                        *)

Section XRun.
  Variable S : Type.
  Variable h : forall e : xeff, S -> S * xresp e.

  Lemma xrun_forall {A} (Q : xeff -> Prop) (p : xprog A) :
    all_xeff Q p -> forall s, Forall Q (xtrace S h p s).
  Proof.
    intros H. induction H as [a|e k HQ Hk IH]; intros s; unfold xtrace in *; simpl.
    - constructor.
    - destruct (h e s) as [s' r]. specialize (IH r s').
      destruct (xrun S h (k r) s') as [[tr s''] a]. simpl in *. constructor; auto.
  Qed.
End XRun.

(* ------------------------------------------------------------------ *)
(* the forms stated in Props/C06.v                                      *)

Definition no_write (e : xeff) : Prop := x_cluster_mut e = false /\ x_store_write e = false.

Theorem xop_dry_effects rn ns (o : xop) :
  xop_dry o = true ->
  all_xeff (dry_effect true) (xop_prog rn ns o) /\ all_xeff no_write (xop_prog rn ns o).
Proof.
  intros H.
  assert (all_xeff (dry_effect true) (xop_prog rn ns o)) as HA.
  { destruct o; simpl in *.
    - eapply all_xeff_weaken; [|apply x_install_dry; exact H].
      intros e He. destruct (lookups_of g fl); auto using dry_effect_mono.
    - eapply all_xeff_weaken; [|apply x_upgrade_dry; exact H].
      intros e He. destruct (lookups_of g fl); auto using dry_effect_mono.
    - eapply all_xeff_weaken; [apply dry_effect_mono|]. now apply x_rollback_dry.
    - eapply all_xeff_weaken; [apply dry_effect_mono|]. now apply x_uninstall_dry.
    - eapply all_xeff_weaken; [|apply x_template_dry].
      intros e He. destruct (lookups_of _ _); auto using dry_effect_mono.
    - now apply x_cmd_dry. }
  split; [exact HA|].
  eapply all_xeff_weaken; [|exact HA]. intros e He. exact (dry_effect_safe _ _ He).
Qed.

(* in trace form: whatever the storage, the cluster, the post-renderer ... answer *)
Theorem xop_dry_trace rn ns (o : xop) (S : Type) (h : forall e : xeff, S -> S * xresp e) (s : S) :
  xop_dry o = true ->
  Forall (fun e => x_cluster_mut e = false /\ x_store_write e = false) (xtrace S h (xop_prog rn ns o) s).
Proof. intros H. apply xrun_forall. exact (proj2 (xop_dry_effects rn ns o H)). Qed.

(* lookups only with a spelling that talks to the server, and a REST client getter *)
Theorem xop_dry_lookups rn ns g fl c :
  is_dry_run (fb fl "DryRun") (xf_opt fl) = true ->
  (In (xf_opt fl) ["server"; "none"; "false"] /\ xg_getter g = true -> False) ->
  all_xeff (fun e => e <> XLookup) (x_install rn ns g fl c) /\
  all_xeff (fun e => e <> XLookup) (x_upgrade rn ns g fl c).
Proof.
  intros H Hn.
  assert (lookups_of g fl = false) as HL.
  { unfold lookups_of. rewrite H. unfold interact_with_remote. simpl.
    destruct (xg_getter g); [|apply andb_false_r]. rewrite andb_true_r.
    destruct (String.eqb (xf_opt fl) "server") eqn:E1;
      [exfalso; apply Hn; split; auto; apply String.eqb_eq in E1; rewrite E1; simpl; auto|].
    destruct (String.eqb (xf_opt fl) "none") eqn:E2;
      [exfalso; apply Hn; split; auto; apply String.eqb_eq in E2; rewrite E2; simpl; auto|].
    destruct (String.eqb (xf_opt fl) "false") eqn:E3;
      [exfalso; apply Hn; split; auto; apply String.eqb_eq in E3; rewrite E3; simpl; auto|].
    reflexivity. }
  split.
  - eapply all_xeff_weaken; [|apply x_install_dry; exact H]. rewrite HL.
    intros e He ->. simpl in He. discriminate.
  - eapply all_xeff_weaken; [|apply x_upgrade_dry; exact H]. rewrite HL.
    intros e He ->. simpl in He. discriminate.
Qed.

Theorem x_client_only_effects rn ns g fl c :
  fb fl "ClientOnly" = true ->
  all_xeff (fun e => x_cluster_mut e = false /\ x_store_write e = false /\ (x_cluster e = true -> e = XLookup))
           (x_install rn ns g fl c).
Proof.
  intros H. eapply all_xeff_weaken; [|apply x_install_client_only; exact H].
  intros e He. exact (client_only_effect_safe _ _ _ He).
Qed.

Theorem x_client_only_silent rn ns g fl c :
  fb fl "ClientOnly" = true ->
  is_dry_run (fb fl "DryRun") (xf_opt fl) = true ->
  lookups_of g fl = false ->
  all_xeff (fun e => x_cluster e = false /\ x_store e = false) (x_install rn ns g fl c).
Proof.
  intros H Hd Hl. eapply all_xeff_weaken; [|apply x_install_client_only; exact H].
  rewrite Hd, Hl. intros e He. exact (client_only_effect_silent e He).
Qed.

Theorem x_template_effects rn ns g v i cli c :
  all_xeff no_write (x_template rn ns g v i cli c) /\
  (v = false ->
   all_xeff (fun e => x_cluster e = true -> e = XLookup) (x_template rn ns g v i cli c)) /\
  (v = false -> template_local_opt (xf_opt cli) = true ->
   all_xeff (fun e => x_cluster e = false /\ x_store e = false) (x_template rn ns g v i cli c)).
Proof.
  split; [|split].
  - eapply all_xeff_weaken; [|apply x_template_dry]. intros e He. exact (dry_effect_safe _ _ He).
  - intros ->. eapply all_xeff_weaken; [|apply x_template_client_only].
    intros e He. exact (proj2 (proj2 (client_only_effect_safe _ _ _ He))).
  - intros -> Ho. eapply all_xeff_weaken; [|apply x_template_client_only].
    rewrite (template_lookups_off g i cli Ho). intros e He. exact (client_only_effect_silent e He).
Qed.

(* ------------------------------------------------------------------ *)
(* non-vacuity: a handler that says yes to everything, on an empty history *)

Definition yes_resp (e : xeff) : xresp e :=
  match e return xresp e with
  | XE _ e0 =>
      match e0 return resp e0 with
      | SHistory | SDeployedAll => []
      | SGet _ => None
      | SCreate _ | SUpdate _ | SDelete _ => SOk
      | KExisting _ _ => Some []
      | KCreate _ => true
      | KUpdate _ _ => (true, [])
      | KDelete _ => true
      | KWait _ | KWaitDelete _ => true
      | KHookWatch _ _ => true
      end
  | XReach | XCaps | XBuild _ _ _ _ | XWriteFile | XGetWaiter _ | XCrdWait _ | XDiscInvalidate | XMapperReset => true
  | XLookup => false
  | XGetObj _ => GNotFound
  | XPostRender m => Some m
  | XCrdCreate _ _ | XNsCreate _ => CCreated
  end.

Definition yes_trace {A} (p : xprog A) : list xeff := xtrace unit (fun e s => (s, yes_resp e)) p tt.

Definition ex_chart : xchart :=
  mkXC 7 1 [mkRes "ConfigMap" "a" [("d:k", "v")]] []
       [[mkRes "CustomResourceDefinition" "widgets.example.com" []]]
       (RLookup (fun _ => RDone true)) true true true true.

Definition ex_cfg : xcfg := mkXG true true.

Definition ex_xflags (on : list string) (opt : string) : xflags := mkXF on opt 0 0.

Definition is_crd_create (e : xeff) : bool := match e with XCrdCreate _ _ => true | _ => false end.
Definition is_ns_create (e : xeff) : bool := match e with XNsCreate TReal => true | _ => false end.
Definition is_lookup (e : xeff) : bool := match e with XLookup => true | _ => false end.

(* ---- the forms stated in Props/C06.v ---- *)
Lemma xop_dry_effects' :
  forall (rn ns : string) (o : xop),
    xop_dry o = true ->
    all_xeff (fun e => match e with
                       | XE TReal SHistory | XE TReal SDeployedAll | XE TReal (SGet _) => True
                       | XReach | XCaps | XGetObj _ | XPostRender _ | XWriteFile | XGetWaiter TReal => True
                       | XBuild _ BManifest _ _ | XBuild TReal BCurrent _ _ => True
                       | XLookup => True
                       | _ => False
                       end) (xop_prog rn ns o)
    /\ all_xeff (fun e => x_cluster_mut e = false /\ x_store_write e = false) (xop_prog rn ns o).
Proof.
  intros rn ns o H. destruct (xop_dry_effects rn ns o H) as [H1 H2]. split; [|exact H2].
  eapply all_xeff_weaken; [|exact H1].
  intros e He. destruct e as [t e| | |t w v n| | | | |t| | | | |t]; simpl in *; auto;
    try (destruct t; try destruct e; simpl in *; auto);
    try (destruct w; simpl in *; auto).
Qed.

Lemma x_client_only_silent' :
  forall (rn ns : string) (g : xcfg) (fl : xflags) (c : xchart),
    fb fl "ClientOnly" = true ->
    is_dry_run (fb fl "DryRun") (xf_opt fl) = true ->
    interact_with_remote (is_dry_run (fb fl "DryRun") (xf_opt fl)) (xf_opt fl) && xg_getter g = false ->
    all_xeff (fun e => x_cluster e = false /\ x_store e = false) (x_install rn ns g fl c).
Proof. intros. now apply x_client_only_silent. Qed.

Lemma x_template_effects' :
  forall (rn ns : string) (g : xcfg) (validate include_crds : bool) (cli : xflags) (c : xchart),
    all_xeff (fun e => x_cluster_mut e = false /\ x_store_write e = false)
             (x_template rn ns g validate include_crds cli c) /\
    (validate = false ->
     all_xeff (fun e => x_cluster e = true -> e = XLookup) (x_template rn ns g validate include_crds cli c)) /\
    (validate = false ->
     negb (String.eqb (xf_opt cli) "server" || String.eqb (xf_opt cli) "none" || String.eqb (xf_opt cli) "false") = true ->
     all_xeff (fun e => x_cluster e = false /\ x_store e = false) (x_template rn ns g validate include_crds cli c)).
Proof. exact x_template_effects. Qed.

(* a real install / upgrade of the shared model is its checks followed by the tail the richer
   model lifts *)
Lemma install_is_checks_then_tail :
  forall (rn ns : string) (fl : flags) (cid vid : nat) (mani : list res) (hks : list hook),
    f_dry_run fl = false ->
    install rn ns fl cid vid mani hks =
    bind (bind (perform SHistory) (fun h =>
                match max_rev_of h with
                | None => Ret true
                | Some last => Ret (f_replace fl && (status_eqb (st last) SUninstalled || status_eqb (st last) SFailed))
                end))
         (fun avail =>
            if negb avail then Ret (OErr ENameInUse) else
            bind (if negb (f_client_only fl) && negb (match stamp_all rn ns mani with [] => true | _ => false end)
                  then perform (KExisting (stamp_all rn ns mani) (f_take_ownership fl)) else Ret (Some []))
                 (fun adopt =>
                    match adopt with
                    | None => Ret (OErr EConflict)
                    | Some adopted =>
                        install_tail fl (mkRelease 1 SPendingInstall cid vid mani hks) (stamp_all rn ns mani) adopted
                    end)).
Proof. intros rn ns fl cid vid mani hks H. rewrite install_split, H. reflexivity. Qed.

Lemma upgrade_is_checks_then_tail :
  forall (rn ns : string) (fl : flags) (cid vid : nat) (mani : list res) (hks : list hook),
    f_dry_run fl = false ->
    upgrade rn ns fl cid vid mani hks =
    bind (perform SHistory) (fun h =>
      match max_rev_of h with
      | None => Ret (OErr ENoDeployed)
      | Some last =>
          if is_pending (st last) then Ret (OErr EPending) else
          bind (if status_eqb (st last) SDeployed then Ret (Some last)
                else bind (perform SDeployedAll) (fun ds =>
                     match max_rev_of ds with
                     | Some d => Ret (Some d)
                     | None => if status_eqb (st last) SFailed || status_eqb (st last) SSuperseded
                               then Ret (Some last) else Ret None
                     end))
               (fun cur =>
                  match cur with
                  | None => Ret (OErr ENoDeployed)
                  | Some current =>
                      bind (perform (KExisting (filter (fun r => negb (in_keys (rkey r) (manifest current))) (stamp_all rn ns mani))
                                               (f_take_ownership fl)))
                           (fun adopt =>
                              match adopt with
                              | None => Ret (OErr EConflict)
                              | Some adopted =>
                                  upgrade_tail rn ns fl (mkRelease (S (rev last)) SPendingUpgrade cid vid mani hks) current
                                               (manifest current ++ adopted)%list (stamp_all rn ns mani)
                              end)
                  end)
      end).
Proof. intros rn ns fl cid vid mani hks H. rewrite upgrade_split, H. reflexivity. Qed.

Lemma x_cmd_no_write :
  forall (rn ns : string) (g : xcfg) (k : cmdkind) (a : dry_arg) (fl : xflags) (c : xchart),
    cmd_dry_request k a = true ->
    all_xeff (fun e => x_cluster_mut e = false /\ x_store_write e = false) (x_cmd rn ns g k a fl c).
Proof.
  intros rn ns g k a fl c H. eapply all_xeff_weaken; [|apply x_cmd_dry; exact H].
  intros e He. exact (dry_effect_safe _ _ He).
Qed.

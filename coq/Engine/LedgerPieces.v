(* C01 — effect classes of the program pieces (hooks, uninstall, pruning, ...), the ledger
   relations each class respects, and the stepping tactics of the wp calculus. *)
From Coq Require Import List String Bool Arith Lia.
From Helm Require Import Common.Assoc Engine.Types Engine.Eff Engine.Ops Engine.Cluster Engine.Seq
  Engine.SeqProofs Engine.LedgerBase.
Import ListNotations.

(* ------------------------------------------------------------------ *)
(* effect classes                                                       *)

(* no storage write at all: reads and cluster calls *)
Definition no_write (e : eff) : Prop := is_storage_write e = false.

(* the only storage write is Update of the record [x] *)
Definition quiet_for (x : release) (e : eff) : Prop :=
  match e with SCreate _ | SDelete _ => False | SUpdate y => y = x | _ => True end.

(* reads, cluster calls and deletes *)
Definition del_only (e : eff) : Prop :=
  match e with SCreate _ | SUpdate _ => False | _ => True end.

(* no Create; every Update carries a status other than deployed *)
Definition nd_nc (e : eff) : Prop :=
  match e with SCreate _ => False | SUpdate y => st y <> SDeployed | _ => True end.

Definition no_create (e : eff) : Prop := match e with SCreate _ => False | _ => True end.

Lemma no_write_quiet x e : no_write e -> quiet_for x e.
Proof. unfold no_write. destruct e; simpl; intros; try exact I; discriminate. Qed.
Lemma no_write_del e : no_write e -> del_only e.
Proof. unfold no_write. destruct e; simpl; intros; try exact I; discriminate. Qed.
Lemma quiet_nd_nc x e : st x <> SDeployed -> quiet_for x e -> nd_nc e.
Proof. intros Hx. destruct e; simpl; intros H; try exact I; try tauto. now subst. Qed.
Lemma quiet_no_create x e : quiet_for x e -> no_create e.
Proof. destruct e; simpl; tauto. Qed.
Lemma nd_nc_no_create e : nd_nc e -> no_create e.
Proof. destruct e; simpl; tauto. Qed.
Lemma del_no_create e : del_only e -> no_create e.
Proof. destruct e; simpl; tauto. Qed.
Lemma cluster_no_write e : is_cluster_call e = true -> no_write e.
Proof. unfold no_write. destruct e; simpl; intros; auto; discriminate. Qed.

(* ------------------------------------------------------------------ *)
(* ledger relations                                                     *)

Definition upd_of (x : release) (l l' : list release) : Prop := l' = l \/ l' = replace_rev x l.

Lemma upd_of_refl x l : upd_of x l l.
Proof. now left. Qed.

Lemma upd_of_trans x a b c : upd_of x a b -> upd_of x b c -> upd_of x a c.
Proof.
  unfold upd_of. intros [->| ->] [->| ->]; auto. right. apply replace_rev_idem.
Qed.

Lemma upd_of_revs x l l' : upd_of x l l' -> revs l' = revs l.
Proof. intros [->| ->]; auto. apply revs_replace. Qed.

Lemma upd_of_in x l l' r : upd_of x l l' -> In r l' -> r = x \/ In r l.
Proof. intros [->| ->] H; auto. now apply in_replace_rev_weak. Qed.

Lemma upd_of_keeps x l l' : upd_of x l l' -> In x l -> In x l'.
Proof.
  intros [->| ->] H; auto. apply in_replace_rev. left. split; auto.
  apply has_rev_true. eauto.
Qed.

(* a deployed record of l' is a deployed record of l *)
Definition dep_sub (l' l : list release) : Prop :=
  forall r, In r l' -> st r = SDeployed -> In r l.

Lemma dep_sub_refl l : dep_sub l l.
Proof. intros r H _. exact H. Qed.

Lemma dep_sub_trans a b c : dep_sub c b -> dep_sub b a -> dep_sub c a.
Proof. intros H1 H2 r Hr Hs. apply H2; auto. Qed.

Lemma upd_of_dep_sub x l l' : st x <> SDeployed -> upd_of x l l' -> dep_sub l' l.
Proof.
  intros Hx Hu r Hr Hs. destruct (upd_of_in _ _ _ _ Hu Hr) as [->|H]; auto. contradiction.
Qed.

(* every deployed record has revision c *)
Definition dep_only (c : nat) (l : list release) : Prop :=
  forall r, In r l -> st r = SDeployed -> rev r = c.

Definition dep_none (l : list release) : Prop := forall r, In r l -> st r <> SDeployed.

Definition DG (l : list release) : Prop := exists c, dep_only c l.

Lemma dep_none_only c l : dep_none l -> dep_only c l.
Proof. intros H r Hr Hs. exfalso. eapply H; eauto. Qed.

Lemma dep_only_sub c l l' : dep_only c l -> dep_sub l' l -> dep_only c l'.
Proof. intros H S r Hr Hs. apply H; auto. Qed.

Lemma dep_none_sub l l' : dep_none l -> dep_sub l' l -> dep_none l'.
Proof. intros H S r Hr Hs. eapply H; eauto. Qed.

Lemma dep_only_incl c l l' : dep_only c l -> incl l' l -> dep_only c l'.
Proof. intros H S r Hr Hs. apply H; auto. Qed.

Lemma dep_only_replace c x l :
  dep_only c l -> (st x = SDeployed -> rev x = c) -> dep_only c (replace_rev x l).
Proof.
  intros H Hx r Hr Hs. apply in_replace_rev_weak in Hr. destruct Hr as [->|Hr]; auto.
Qed.

Lemma dep_only_replace_nd c x l :
  dep_only c l -> st x <> SDeployed -> dep_only c (replace_rev x l).
Proof. intros H Hx. apply dep_only_replace; auto. intros; contradiction. Qed.

Lemma dep_only_app c x l : dep_only c l -> st x <> SDeployed -> dep_only c (l ++ [x]).
Proof.
  intros H Hx r Hr Hs. apply in_app_iff in Hr. destruct Hr as [Hr|[->|[]]]; auto. contradiction.
Qed.

(* superseding the only deployed revision leaves none *)
Lemma dep_only_supersede c x l :
  dep_only c l -> rev x = c -> st x <> SDeployed -> dep_none (replace_rev x l).
Proof.
  intros H Hc Hx r Hr. apply in_replace_rev in Hr. destruct Hr as [[-> _]|[Hr Hne]]; auto.
  intros Hs. apply Hne. rewrite Hc. auto.
Qed.

Lemma dep_none_replace_nd x l : dep_none l -> st x <> SDeployed -> dep_none (replace_rev x l).
Proof.
  intros H Hx r Hr. apply in_replace_rev_weak in Hr. destruct Hr as [->|Hr]; auto.
Qed.

Lemma dep_none_app x l : dep_none l -> st x <> SDeployed -> dep_none (l ++ [x]).
Proof.
  intros H Hx r Hr. apply in_app_iff in Hr. destruct Hr as [Hr|[<-|[]]]; auto.
Qed.

Lemma dep_none_incl l l' : dep_none l -> incl l' l -> dep_none l'.
Proof. intros H S r Hr. apply H. auto. Qed.

Lemma dep_none_DG l : dep_none l -> DG l.
Proof. intros H. exists 0. now apply dep_none_only. Qed.

Lemma dep_none_deploy x l : dep_none l -> dep_only (rev x) (replace_rev x l).
Proof.
  intros H r Hr Hs. apply in_replace_rev_weak in Hr. destruct Hr as [->|Hr]; auto.
  exfalso. eapply H; eauto.
Qed.

(* all revisions at most n *)
Definition rbound (n : nat) (l : list release) : Prop := forall r, In r l -> rev r <= n.

Lemma rbound_mx l : rbound (mx l) l.
Proof. intros r. apply mx_bound. Qed.

(* ------------------------------------------------------------------ *)
(* every result a program can return satisfies R (whatever the answers) *)
Inductive leaves {A} (R : A -> Prop) : prog A -> Prop :=
| lv_ret a : R a -> leaves R (Ret a)
| lv_eff e k : (forall r, leaves R (k r)) -> leaves R (Eff e k).

Lemma lv_bind {A B} (R : B -> Prop) (p : prog A) (k : A -> prog B) :
  (forall a, leaves R (k a)) -> leaves R (bind p k).
Proof. intros H. induction p as [a|e c IH]; simpl; auto. constructor. auto. Qed.

Ltac lv_one :=
  lazymatch goal with
  | |- leaves _ (Ret _) => apply lv_ret; try discriminate; try reflexivity
  | |- leaves _ (perform _) => unfold perform at 1
  | |- leaves _ (bind _ _) => apply lv_bind; intros ?
  | |- leaves _ (Eff _ _) => apply lv_eff; intros ?
  | |- leaves _ (match ?c with _ => _ end) => destruct c eqn:?
  end.
Ltac lv := repeat lv_one.

(* ------------------------------------------------------------------ *)
(* typing of the pieces                                                 *)

Ltac ae_side :=
  cbn; try exact I; try reflexivity; try (intros; discriminate); try congruence; auto.

Ltac ae_lemmas := fail.

Ltac ae_one :=
  lazymatch goal with
  | |- all_eff _ (Ret _) => apply ae_ret
  | |- all_eff _ (perform _) => unfold perform at 1
  | |- all_eff _ (bind _ _) => apply ae_bind; [|intros ?]
  | |- all_eff _ (Eff _ _) => apply ae_eff; [ae_side|intros ?]
  | |- all_eff _ (match ?c with _ => _ end) => destruct c eqn:?
  | |- all_eff _ _ => ae_lemmas
  end.
Ltac ae := repeat ae_one.

Section Typing.
  Variable P : eff -> Prop.

  Hypothesis Pk : forall e, no_write e -> P e.

  Lemma ae_delete_hook_by_policy h p : all_eff P (delete_hook_by_policy h p).
  Proof. unfold delete_hook_by_policy. ae; apply Pk; reflexivity. Qed.

  Lemma ae_delete_hooks_by_policy hs p : all_eff P (delete_hooks_by_policy hs p).
  Proof.
    induction hs as [|h t IH]; cbn [delete_hooks_by_policy]; ae; auto.
    apply ae_delete_hook_by_policy.
  Qed.
End Typing.

Lemma ae_record_release x : all_eff (quiet_for x) (record_release x).
Proof. unfold record_release. ae. Qed.

Lemma ae_exec_hooks_loop rl ev todo :
  forall done, all_eff (quiet_for rl) (exec_hooks_loop rl ev todo done).
Proof.
  induction todo as [|h t IH]; intros done; cbn [exec_hooks_loop].
  - apply ae_delete_hooks_by_policy. apply no_write_quiet.
  - apply ae_bind; [apply ae_delete_hook_by_policy; apply no_write_quiet|intros ok].
    destruct (negb ok); [apply ae_ret|].
    apply ae_bind; [apply ae_record_release|intros _].
    apply ae_bind; [apply ae_perform; exact I|intros created].
    destruct (negb created); [apply ae_ret|].
    apply ae_bind; [apply ae_perform; exact I|intros ready].
    destruct ready; [apply IH|].
    apply ae_bind; [apply ae_delete_hook_by_policy; apply no_write_quiet|intros _].
    apply ae_bind; [apply ae_delete_hooks_by_policy; apply no_write_quiet|intros _].
    apply ae_ret.
Qed.

Lemma ae_run_hooks fl rl ev : all_eff (quiet_for rl) (run_hooks fl rl ev).
Proof.
  unfold run_hooks, exec_hook. destruct (f_no_hooks fl); [apply ae_ret|apply ae_exec_hooks_loop].
Qed.

Lemma ae_run_hooks_nd fl rl ev : st rl <> SDeployed -> all_eff nd_nc (run_hooks fl rl ev).
Proof. intros H. eapply ae_weaken; [|apply ae_run_hooks]. intros e. now apply quiet_nd_nc. Qed.

Lemma ae_run_hooks_nc fl rl ev : all_eff no_create (run_hooks fl rl ev).
Proof. eapply ae_weaken; [|apply ae_run_hooks]. intros e. apply quiet_no_create. Qed.

Lemma ae_record_release_nd x : st x <> SDeployed -> all_eff nd_nc (record_release x).
Proof. intros H. eapply ae_weaken; [|apply ae_record_release]. intros e. now apply quiet_nd_nc. Qed.

Lemma ae_record_release_nc x : all_eff no_create (record_release x).
Proof. eapply ae_weaken; [|apply ae_record_release]. intros e. apply quiet_no_create. Qed.

Lemma ae_purge vs : all_eff del_only (purge vs).
Proof. induction vs as [|v t IH]; cbn [purge]; ae; auto. Qed.

Lemma ae_purge_nd vs : all_eff nd_nc (purge vs).
Proof. eapply ae_weaken; [|apply ae_purge]. intros e; destruct e; simpl; tauto. Qed.

Lemma ae_delete_all vs : all_eff del_only (delete_all vs).
Proof. induction vs as [|v t IH]; cbn [delete_all]; ae; auto. Qed.

Lemma ae_remove_least_recent m : all_eff del_only (remove_least_recent m).
Proof. unfold remove_least_recent. ae; apply ae_delete_all. Qed.

Lemma ae_supersede_all ds : all_eff nd_nc (supersede_all ds).
Proof.
  induction ds as [|d t IH]; cbn [supersede_all]; ae; auto.
  apply ae_record_release_nd. simpl. discriminate.
Qed.

Ltac ae_lemmas ::=
  first [ apply ae_run_hooks_nd; cbn; try discriminate; try congruence
        | apply ae_run_hooks_nc
        | apply ae_record_release_nd; cbn; try discriminate; try congruence
        | apply ae_record_release_nc
        | apply ae_purge_nd
        | eapply ae_weaken; [apply nd_nc_no_create|apply ae_purge_nd]
        | apply ae_supersede_all
        | eapply ae_weaken; [apply nd_nc_no_create|apply ae_supersede_all] ].

Lemma ae_uninstall fl : all_eff nd_nc (uninstall fl).
Proof. unfold uninstall. cbv zeta. ae. Qed.

Lemma ae_uninstall_nc fl : all_eff no_create (uninstall fl).
Proof. eapply ae_weaken; [apply nd_nc_no_create|apply ae_uninstall]. Qed.

Lemma ae_install_fail fl rel : all_eff nd_nc (install_fail fl rel).
Proof. unfold install_fail. ae. apply ae_uninstall. Qed.

Lemma ae_install_fail_nc fl rel : all_eff no_create (install_fail fl rel).
Proof. eapply ae_weaken; [apply nd_nc_no_create|apply ae_install_fail]. Qed.

Ltac ae_lemmas ::=
  first [ apply ae_run_hooks_nd; cbn; try discriminate; try congruence
        | apply ae_run_hooks_nc
        | apply ae_record_release_nd; cbn; try discriminate; try congruence
        | apply ae_record_release_nc
        | apply ae_purge_nd
        | eapply ae_weaken; [apply nd_nc_no_create|apply ae_purge_nd]
        | apply ae_supersede_all
        | eapply ae_weaken; [apply nd_nc_no_create|apply ae_supersede_all]
        | apply ae_install_fail
        | apply ae_install_fail_nc
        | apply ae_uninstall
        | apply ae_uninstall_nc ].

(* ------------------------------------------------------------------ *)
(* what one step of each class does to (ledger, created revisions)      *)

Section Rel.
  Variable K : Type.
  Variable kh : forall e : eff, K -> K * resp e * list kev.
  Variable dresp : forall e : eff, resp e.
  Variable f : sfaults.
  Variable F : eff -> Prop.                 (* the writes the injected failure may hit *)
  Notation step := (step K kh dresp f).
  Notation wpA := (wpA kh dresp f F).

  Lemma step_rel e (s : rstate K) :
    (led (fst (step e s)) = led s /\ creates (tr (fst (step e s))) = creates (tr s))
    \/ (is_storage_write e = true /\
        led (fst (step e s)) = fst (fst (storage_apply dresp e (led s))) /\
        creates (tr (fst (step e s))) = (creates (tr s) ++ creates (snd (storage_apply dresp e (led s))))%list).
  Proof.
    destruct (dead s) eqn:Hd.
    - left. rewrite (dead_step K kh dresp f e s Hd). auto.
    - destruct (step_cases K kh dresp f e s Hd) as [[_ [L T]]|[_ C]].
      + left. rewrite L, T. auto.
      + destruct C as [[_ [L [evs T]]]|[[_ [_ [_ [L [T _]]]]]|[[_ [W [L [T _]]]]|[_ [_ [E _]]]]]].
        * left. rewrite L, T, creates_app, creates_kube, app_nil_r. auto.
        * left. rewrite L, T. auto.
        * right. rewrite L, T, creates_app. auto.
        * left. rewrite E. auto.
  Qed.

  Lemma wp_no_write {A} (p : prog A) l cs :
    all_eff no_write p -> wpA (fun l1 c1 => l1 = l /\ c1 = cs) p (fun l1 c1 _ => l1 = l /\ c1 = cs) l cs.
  Proof.
    intros H.
    apply (wp_typed K kh dresp f no_write (fun l0 c0 l1 c1 => l1 = l0 /\ c1 = c0)); auto.
    - intros l0 c0 l1 c1 l2 c2 [-> ->] [-> ->]. auto.
    - intros e s He. destruct (step_rel e s) as [[L C]|[W _]]; auto. unfold no_write in He. congruence.
  Qed.

  Lemma wp_quiet {A} x (p : prog A) l cs :
    all_eff (quiet_for x) p ->
    wpA (fun l1 c1 => upd_of x l l1 /\ c1 = cs) p (fun l1 c1 _ => upd_of x l l1 /\ c1 = cs) l cs.
  Proof.
    intros H.
    apply (wp_typed K kh dresp f (quiet_for x) (fun l0 c0 l1 c1 => upd_of x l0 l1 /\ c1 = c0)); auto.
    - intros l0 c0. split; auto. apply upd_of_refl.
    - intros l0 c0 l1 c1 l2 c2 [U1 ->] [U2 ->]. split; auto. eapply upd_of_trans; eauto.
    - intros e s He. destruct (step_rel e s) as [[L C]|[W [L C]]].
      + rewrite L, C. split; auto. apply upd_of_refl.
      + destruct e; simpl in W, He; try discriminate; try contradiction. subst r.
        rewrite L, C. cbn [storage_apply]. destruct (has_rev (rev x) (led s)); cbn.
        * rewrite app_nil_r. split; auto. now right.
        * rewrite app_nil_r. split; auto. now left.
  Qed.

  Lemma wp_del_only {A} (p : prog A) l cs :
    all_eff del_only p ->
    wpA (fun l1 c1 => incl l1 l /\ c1 = cs) p (fun l1 c1 _ => incl l1 l /\ c1 = cs) l cs.
  Proof.
    intros H.
    apply (wp_typed K kh dresp f del_only (fun l0 c0 l1 c1 => incl l1 l0 /\ c1 = c0)); auto.
    - intros l0 c0. split; auto. apply incl_refl.
    - intros l0 c0 l1 c1 l2 c2 [U1 ->] [U2 ->]. split; auto. eapply incl_tran; eauto.
    - intros e s He. destruct (step_rel e s) as [[L C]|[W [L C]]].
      + rewrite L, C. split; auto. apply incl_refl.
      + destruct e; simpl in W, He; try discriminate; try contradiction.
        rewrite L, C. cbn [storage_apply]. destruct (has_rev v (led s)); cbn; rewrite app_nil_r.
        * split; auto. intros r Hr. apply in_remove_rev in Hr. tauto.
        * split; auto. apply incl_refl.
  Qed.

  Lemma wp_nd_nc {A} (p : prog A) l cs :
    all_eff nd_nc p ->
    wpA (fun l1 c1 => dep_sub l1 l /\ c1 = cs) p (fun l1 c1 _ => dep_sub l1 l /\ c1 = cs) l cs.
  Proof.
    intros H.
    apply (wp_typed K kh dresp f nd_nc (fun l0 c0 l1 c1 => dep_sub l1 l0 /\ c1 = c0)); auto.
    - intros l0 c0. split; auto. apply dep_sub_refl.
    - intros l0 c0 l1 c1 l2 c2 [U1 ->] [U2 ->]. split; auto. eapply dep_sub_trans; eauto.
    - intros e s He. destruct (step_rel e s) as [[L C]|[W [L C]]].
      + rewrite L, C. split; auto. apply dep_sub_refl.
      + destruct e; simpl in W, He; try discriminate; try contradiction;
          rewrite L, C; cbn [storage_apply].
        * destruct (has_rev (rev r) (led s)); cbn; rewrite app_nil_r; (split; [|auto]).
          -- intros y Hy Hs. apply in_replace_rev_weak in Hy. destruct Hy as [->|Hy]; auto. contradiction.
          -- apply dep_sub_refl.
        * destruct (has_rev v (led s)); cbn; rewrite app_nil_r; (split; [|auto]).
          -- intros y Hy _. apply in_remove_rev in Hy. tauto.
          -- apply dep_sub_refl.
  Qed.

  Lemma wp_no_create {A} (p : prog A) l cs :
    all_eff no_create p -> wpA (fun _ c1 => c1 = cs) p (fun _ c1 _ => c1 = cs) l cs.
  Proof.
    intros H.
    apply (wp_typed K kh dresp f no_create (fun l0 c0 l1 c1 => c1 = c0)); auto.
    - intros l0 c0 l1 c1 l2 c2 -> ->. auto.
    - intros e s He. destruct (step_rel e s) as [[L C]|[W [L C]]]; auto.
      destruct e; simpl in W, He; try discriminate; try contradiction; rewrite C; cbn [storage_apply].
      + destruct (has_rev (rev r) (led s)); cbn; now rewrite app_nil_r.
      + destruct (has_rev v (led s)); cbn; now rewrite app_nil_r.
  Qed.

  Lemma leaves_run {A} (R : A -> Prop) (p : prog A) :
    leaves R p -> forall s : rstate K, R (snd (run K kh dresp f p s)).
  Proof.
    intros H. induction H as [a Ha|e k Hk IH]; intros s; simpl; auto.
    destruct (step e s) as [s' r]. apply IH.
  Qed.

  Lemma wp_leaves {A} (G : list release -> list nat -> Prop) (R : A -> Prop) (p : prog A)
        (Q : list release -> list nat -> A -> Prop) l cs :
    leaves R p -> wpA G p Q l cs -> wpA G p (fun l1 c1 a => Q l1 c1 a /\ R a) l cs.
  Proof.
    intros HL H s Hl Hc Hd Hf. destruct (H s Hl Hc Hd Hf) as [H1 H2]. split; auto.
    intros D. split; auto. now apply leaves_run.
  Qed.

  Lemma wp_and {A} (G1 G2 : list release -> list nat -> Prop) (p : prog A)
        (Q1 Q2 : list release -> list nat -> A -> Prop) l cs :
    wpA G1 p Q1 l cs -> wpA G2 p Q2 l cs ->
    wpA (fun l1 c1 => G1 l1 c1 /\ G2 l1 c1) p (fun l1 c1 a => Q1 l1 c1 a /\ Q2 l1 c1 a) l cs.
  Proof.
    intros H1 H2 s Hl Hc Hd Hf. destruct (H1 s Hl Hc Hd Hf) as [A1 B1]. destruct (H2 s Hl Hc Hd Hf) as [A2 B2].
    split; auto.
  Qed.

  (* an Update whose answer and effect do not matter beyond the set of revisions *)
  Lemma wp_update_any {A} (G : list release -> list nat -> Prop) x (k : serr -> prog A) Q l cs :
    G l cs ->
    (forall l' r, revs l' = revs l -> upd_of x l l' -> wpA G (k r) Q l' cs) ->
    wpA G (Eff (SUpdate x) k) Q l cs.
  Proof.
    intros HG H. apply wp_update; auto.
    - intros _ _. apply H; auto. apply upd_of_refl.
    - apply H; [apply revs_replace|now right].
  Qed.

  (* use a piece with its own G/Q, then continue *)
  Lemma wp_bind_rel {A B} GP QP (G : list release -> list nat -> Prop) (p : prog A) (k : A -> prog B) Q l cs :
    wpA GP p QP l cs ->
    (forall l1 c1, GP l1 c1 -> G l1 c1) ->
    (forall l1 c1 a, QP l1 c1 a -> wpA G (k a) Q l1 c1) ->
    wpA G (bind p k) Q l cs.
  Proof.
    intros Hp HG Hk. apply wp_bind. eapply wp_conseq; [exact Hp|exact HG|exact Hk].
  Qed.

  (* ---- Storage.Create with pruning: the new record is appended to a sub-ledger ---- *)
  Definition created_post (x : release) (l0 : list release) (cs0 : list nat)
             (l : list release) (c : list nat) (e : serr) : Prop :=
    (e = SOk /\ exists l', l = (l' ++ [x])%list /\ incl l' l0 /\ c = (cs0 ++ [rev x])%list /\
                           forall r, In r l' -> rev r <> rev x)
    \/ (incl l l0 /\ c = cs0 /\ (e = SOk -> wfail f <> None /\ dresp (SCreate x) = SOk)).

  Lemma storage_create_spec x mh l0 cs0 :
    wpA (fun l c => incl l l0 /\ c = cs0) (storage_create x mh) (created_post x l0 cs0) l0 cs0.
  Proof.
    assert (Hcreate : forall l, incl l l0 ->
              wpA (fun l c => incl l l0 /\ c = cs0) (perform (SCreate x)) (created_post x l0 cs0) l cs0).
    { intros l Hl. unfold perform. apply wp_create; auto.
      - intros Hf _. apply wp_ret. right. auto.
      - intros _. apply wp_ret. right. split; auto. split; auto. discriminate.
      - intros Hr. apply wp_ret. left. split; auto. exists l. split; auto. split; auto. split; auto.
        now apply has_rev_false. }
    destruct mh as [|m]; cbn [storage_create].
    - apply Hcreate. apply incl_refl.
    - eapply wp_bind_rel; [apply wp_del_only; apply ae_remove_least_recent|auto|].
      intros l1 c1 e [Hl ->].
      destruct e; try (apply Hcreate; assumption);
        apply wp_ret; right; (split; [assumption|split; [reflexivity|discriminate]]).
  Qed.
End Rel.

(* ------------------------------------------------------------------ *)
(* stepping tactics for wp goals                                        *)

Ltac wp_norm := cbv beta zeta; unfold record_release; unfold perform; cbn [bind].

(* use a piece lemma [L] (a wpA fact about the first component of a bind), then continue *)
Ltac wp_piece L := eapply wp_bind_rel; [apply L| |].

(* C03 — refutation witnesses (known findings K6, K7) and the regression witness of the
   repaired F5, by evaluation of the model; the same histories are in the harness corpus
   and are replayed on the real code on every run. *)
From Coq Require Import List String Bool Arith ZArith.
From Helm Require Import Common.Assoc Engine.Types Engine.Eff Engine.Ops Engine.Cluster Engine.Seq Engine.Contain.
Import ListNotations.
Local Open Scope string_scope.

(* K6: the atomic upgrade fails, and there is NO new deployed revision: the revision the
   upgrade created ends superseded, the rollback's revision failed, and b is still live *)
Lemma atomic_dropped_refuted :
  exists h w out,
    final h = Some (w, out) /\ out = OErr EOtherErr /\
    statuses (w_led w) = [(1, SDeployed); (2, SSuperseded); (3, SFailed)] /\
    amem "ConfigMap/b" (w_objs w) = true.
Proof. exists k6_history. eexists. eexists. vm_compute. repeat split. Qed.

(* K7: the DELETE (or GET) of the obsolete resource b is rejected; the upgrade reports
   success and b stays *)
Lemma delete_swallowed_refuted :
  exists h w,
    final h = Some (w, OOk) /\
    statuses (w_led w) = [(1, SSuperseded); (2, SDeployed)] /\
    amem "ConfigMap/b" (w_objs w) = true.
Proof. exists k7_history. eexists. vm_compute. repeat split. Qed.

Lemma get_swallowed_refuted :
  exists h w,
    final h = Some (w, OOk) /\
    statuses (w_led w) = [(1, SSuperseded); (2, SDeployed)] /\
    amem "ConfigMap/b" (w_objs w) = true.
Proof. exists k7_get_history. eexists. vm_compute. repeat split. Qed.

(* F5 repaired: a failing pre-rollback hook leaves the rollback's revision failed *)
Lemma rollback_hook_failure_recorded :
  exists w, final f5_history = Some (w, OErr EOtherErr) /\
            statuses (w_led w) = [(1, SSuperseded); (2, SDeployed); (3, SFailed)].
Proof. eexists. vm_compute. repeat split. Qed.

(* K9: install --atomic, CREATE a rejected; the automatic uninstall cannot create its
   pre-delete hook hx again (left behind by pre-install) and aborts: the history is not
   empty *)
Lemma atomic_recovery_hook_refuted :
  exists h w, final h = Some (w, OErr EOtherErr) /\
              statuses (w_led w) = [(1, SUninstalling)] /\ amem "ConfigMap/hx" (w_objs w) = true.
Proof. exists k9_history. eexists. vm_compute. repeat split. Qed.

(* a failed rollback supersedes the current revision: afterwards NO revision is deployed,
   although revision 2's content is what is live *)
Lemma rollback_supersedes_current :
  exists w, final rb_history = Some (w, OErr EOtherErr) /\
            statuses (w_led w) = [(1, SSuperseded); (2, SSuperseded); (3, SFailed)] /\
            aget "d:k" (match aget "ConfigMap/a" (w_objs w) with Some f => f | None => [] end) = Some "v2".
Proof. eexists. vm_compute. repeat split. Qed.

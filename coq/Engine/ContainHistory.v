(* C03 — containment over whole HISTORIES: the per-operation theorems (ContainProofs,
   ContainDeployed) start from any ledger and any cluster, so they hold at every position of
   every history, whatever happened before — earlier operations that failed, were hit by
   storage-write faults or crashed, out-of-band edits — because the only thing they need
   from the past is that stored revisions are pairwise distinct (SeqProofs: preserved by
   every step under every fault plan). *)
From Coq Require Import List String Bool Arith ZArith Lia.
From Helm Require Import Common.Assoc Engine.Types Engine.Eff Engine.Ops Engine.Cluster Engine.Seq
  Engine.SeqProofs Engine.HooksProofsGate Engine.ContainLedger Engine.ContainProofs Engine.ContainDeployed
  Engine.Contain Engine.ContainStore.
Import ListNotations.
Local Open Scope string_scope.

(* the world a history leaves behind *)
Fixpoint world_after (rn ns : string) (h : list hstep) (w : world) : world :=
  match h with
  | [] => w
  | HOp c :: t => world_after rn ns t (fst (fst (run_store_op rn ns c w)))
  | HEdit e :: t => world_after rn ns t (apply_edit w e)
  end.

Lemma run_history_app rn ns : forall pre post w,
  run_history rn ns (pre ++ post) w
  = (run_history rn ns pre w ++ run_history rn ns post (world_after rn ns pre w))%list.
Proof.
  induction pre as [|s pre IH]; intros post w; simpl; [reflexivity|].
  destruct s as [c|e].
  - destruct (run_store_op rn ns c w) as [[w1 out] tr] eqn:E. simpl. now rewrite IH.
  - simpl. now rewrite IH.
Qed.

Lemma run_history_length rn ns : forall h w, List.length (run_history rn ns h w) = List.length h.
Proof.
  induction h as [|s h IH]; intros w; simpl; auto.
  destruct s as [c|e].
  - destruct (run_store_op rn ns c w) as [[w1 out] tr]. simpl. now rewrite IH.
  - simpl. now rewrite IH.
Qed.

(* the observation at position |pre| is the result of that step on the world pre left *)
Lemma history_nth rn ns pre c post w :
  nth_error (run_history rn ns (pre ++ HOp c :: post) w) (List.length pre)
  = Some (run_store_op rn ns c (world_after rn ns pre w)).
Proof.
  rewrite run_history_app. rewrite nth_error_app2 by (rewrite run_history_length; lia).
  rewrite run_history_length, Nat.sub_diag. simpl.
  destruct (run_store_op rn ns c (world_after rn ns pre w)) as [[w1 out] tr]. reflexivity.
Qed.

(* revisions stay distinct along every history: every fault plan, crashes, edits *)
Lemma world_after_unique rn ns : forall h w,
  NoDup (revs (w_led w)) -> NoDup (revs (w_led (world_after rn ns h w))).
Proof.
  induction h as [|s h IH]; intros w H; simpl; auto.
  destruct s as [c|e].
  - apply IH. now apply run_store_op_unique.
  - apply IH. destruct e; exact H.
Qed.

(* ---- the history-level corollary ---- *)
Theorem history_contained :
  forall rn ns pre o cf post w0 w' c t,
    NoDup (revs (w_led w0)) ->
    (match o with OpUninstall _ => False | _ => True end) ->
    f_atomic (op_flags o) = false -> f_dry_run (op_flags o) = false ->
    nth_error (run_history rn ns (pre ++ HOp (mkOp o nofault cf) :: post) w0) (List.length pre)
      = Some (w', OErr c, t) ->
    (forall y, In y (w_led w') -> ~ In (rev y) (revs (w_led (world_after rn ns pre w0))) -> st y = SFailed)
    /\
    ((match o with OpInstall _ _ _ _ _ | OpUpgrade _ _ _ _ _ => True | _ => False end) ->
     forall d, max_rev_of (filter (fun r => status_eqb (st r) SDeployed) (w_led (world_after rn ns pre w0))) = Some d ->
               In d (w_led w') /\ st d = SDeployed).
Proof.
  intros rn ns pre o cf post w0 w' c t Hnd Hc Hat Hdry H.
  rewrite history_nth in H. inversion H as [E]. clear H.
  split.
  - eapply failed_is_recorded_store; eauto.
  - intros Ho d Hd.
    eapply (previous_stays_deployed_store rn ns o cf (world_after rn ns pre w0) w' c t d); auto.
    now apply world_after_unique.
Qed.

(* ... for every cluster behaviour at the step under consideration: a history of object-store
   steps (any faults), then one operation run under an ARBITRARY cluster handler *)
Theorem history_contained_any_cluster :
  forall (K : Type) (kh : forall e : eff, K -> K * resp e * list kev) (dresp : forall e, resp e)
         rn ns pre o w0 (k0 : K) l' k' c t,
    NoDup (revs (w_led w0)) ->
    (match o with OpUninstall _ => False | _ => True end) ->
    f_atomic (op_flags o) = false -> f_dry_run (op_flags o) = false ->
    run_op K kh dresp rn ns o nofault (w_led (world_after rn ns pre w0)) k0 = (l', k', OErr c, t) ->
    (forall y, In y l' -> ~ In (rev y) (revs (w_led (world_after rn ns pre w0))) -> st y = SFailed)
    /\
    ((match o with OpInstall _ _ _ _ _ | OpUpgrade _ _ _ _ _ => True | _ => False end) ->
     forall d, max_rev_of (filter (fun r => status_eqb (st r) SDeployed) (w_led (world_after rn ns pre w0))) = Some d ->
               In d l' /\ st d = SDeployed).
Proof.
  intros K kh dresp rn ns pre o w0 k0 l' k' c t Hnd Hc Hat Hdry H. split.
  - eapply failed_is_recorded; eauto.
  - intros Ho d Hd.
    eapply (previous_stays_deployed K kh dresp rn ns o (w_led (world_after rn ns pre w0)) k0 l' k' c t d); auto.
    now apply world_after_unique.
Qed.

(* ---- every failed step of a history at once ---- *)
(* the steps of a history paired with the world they started from and their observation *)
Fixpoint annotate (rn ns : string) (h : list hstep) (w : world)
  : list (world * hstep * (world * outcome * list tev)) :=
  match h with
  | [] => []
  | HOp c :: t => let r := run_store_op rn ns c w in (w, HOp c, r) :: annotate rn ns t (fst (fst r))
  | HEdit e :: t => let w' := apply_edit w e in (w, HEdit e, (w', OOk, [])) :: annotate rn ns t w'
  end.

Lemma annotate_obs rn ns : forall h w, map snd (annotate rn ns h w) = run_history rn ns h w.
Proof.
  induction h as [|s h IH]; intros w; simpl; auto.
  destruct s as [c|e]; simpl.
  - destruct (run_store_op rn ns c w) as [[w1 out] tr] eqn:E. simpl. now rewrite IH.
  - now rewrite IH.
Qed.

(* what the property says about one step *)
Definition step_contained (x : world * hstep * (world * outcome * list tev)) : Prop :=
  let '(w, s, (w', out, _)) := x in
  match s, out with
  | HOp (mkOp o sf cf), OErr _ =>
      sf = nofault -> (match o with OpUninstall _ => False | _ => True end) ->
      f_atomic (op_flags o) = false -> f_dry_run (op_flags o) = false ->
      (forall y, In y (w_led w') -> ~ In (rev y) (revs (w_led w)) -> st y = SFailed)
      /\
      ((match o with OpInstall _ _ _ _ _ | OpUpgrade _ _ _ _ _ => True | _ => False end) ->
       forall d, max_rev_of (filter (fun r => status_eqb (st r) SDeployed) (w_led w)) = Some d ->
                 In d (w_led w') /\ st d = SDeployed)
  | _, _ => True
  end.

Theorem history_all_contained rn ns :
  forall h w0, NoDup (revs (w_led w0)) -> Forall step_contained (annotate rn ns h w0).
Proof.
  induction h as [|s h IH]; intros w0 Hnd; simpl; [constructor|].
  destruct s as [c|e].
  - constructor.
    + destruct c as [o sf cf]. unfold step_contained.
      destruct (run_store_op rn ns (mkOp o sf cf) w0) as [[w' out] tr] eqn:E.
      destruct out; auto. intros -> Hc Hat Hdry. split.
      * eapply failed_is_recorded_store; eauto.
      * intros Ho d Hd. eapply previous_stays_deployed_store; eauto.
    + apply IH. now apply run_store_op_unique.
  - constructor; [exact I|]. apply IH. destruct e; exact Hnd.
Qed.

(* ---- non-vacuity: a history with two failed operations in a row ---- *)
(* install {a,b}; upgrade to {a',c} with CREATE c rejected; upgrade to {a''} whose wait fails *)
Definition hc_install : hstep := clean (OpInstall fl0 1 1 [cmr "a" "v1"; cmr "b" "v1"] []).
Definition hc_up2 : op := OpUpgrade fl0 2 2 [cmr "a" "v2"; cmr "c" "v2"] [].
Definition hc_cf2 : cfaults := mkCF (Some (VCreate, "ConfigMap/c")) None false.
Definition hc_up4 : op := OpUpgrade fl0 4 4 [cmr "a" "v4"] [].
Definition hc_cf4 : cfaults := mkCF None None true.
Definition hc_history : list hstep :=
  [hc_install; HOp (mkOp hc_up2 nofault hc_cf2); HOp (mkOp hc_up4 nofault hc_cf4)].

Definition obs_line (x : world * outcome * list tev) : outcome * list (nat * status) :=
  (snd (fst x), statuses (w_led (fst (fst x)))).

Lemma history_contained_example :
  NoDup (revs (w_led (mkW [] []))) /\
  f_atomic (op_flags hc_up2) = false /\ f_dry_run (op_flags hc_up2) = false /\
  f_atomic (op_flags hc_up4) = false /\ f_dry_run (op_flags hc_up4) = false /\
  map obs_line (run_history "rel" "default" hc_history (mkW [] []))
  = [ (OOk, [(1, SDeployed)]);
      (OErr EOtherErr, [(1, SDeployed); (2, SFailed)]);
      (OErr EOtherErr, [(1, SDeployed); (2, SFailed); (3, SFailed)]) ] /\
  (* the deployed revision the second failed upgrade started from *)
  (exists d, max_rev_of (filter (fun r => status_eqb (st r) SDeployed)
                                (w_led (world_after "rel" "default" [hc_install; HOp (mkOp hc_up2 nofault hc_cf2)] (mkW [] []))))
             = Some d /\ rev d = 1).
Proof.
  split; [vm_compute; constructor|].
  split; [reflexivity|]. split; [reflexivity|]. split; [reflexivity|]. split; [reflexivity|].
  split; [vm_compute; reflexivity|].
  eexists. split; vm_compute; reflexivity.
Qed.

(* Rollback: the finite checks, by computation (one file per operation so that they build in
   parallel).  vm_cast_no_check: the evaluation happens once, at Qed, in the kernel's VM. *)
From Coq Require Import List String Bool Arith.
From Helm Require Import Engine.Types Engine.Eff Engine.Ops Engine.Skeleton Engine.SkeletonExpected
                         Engine.SkeletonModel Engine.SkeletonProofs.
Import ListNotations.

Lemma check_ok_rollback : check_op_ok ORollback expected rexpected = true.
Proof. vm_cast_no_check (eq_refl true). Qed.

Lemma check_fail_rollback : check_op_fail ORollback expected rexpected = true.
Proof. vm_cast_no_check (eq_refl true). Qed.

Lemma check_all_flags_rollback : check_op_all_flags ORollback expected rexpected = true.
Proof. vm_cast_no_check (eq_refl true). Qed.

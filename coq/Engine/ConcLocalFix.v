(* C09 — the thread-local facts of ConcLocal.v for the repaired install program [install_fx]. *)
From Coq Require Import List String Bool Arith ZArith Lia.
From Helm Require Import Common.Assoc Engine.Types Engine.Eff Engine.Ops Engine.OpsFix Engine.Cluster Engine.Seq Engine.SeqProofs
                         Engine.Conc Engine.ConcProofs Engine.ConcLocal.
Import ListNotations.
Local Open Scope prog_scope.

Theorem install_fx_inert rn ns fl cid vid mani hks :
  inert (fun o => o = OErr EExistsRev) (install_fx rn ns fl cid vid mani hks).
Proof.
  unfold install_fx.
  apply inert_bind_quiet.
  { destruct (f_dry_run fl); simpl; auto. split; [reflexivity|]. intros h. destruct (max_rev_of h); simpl; auto. }
  intros avail. destruct (negb avail); simpl; auto.
  apply inert_bind_quiet.
  { destruct (negb (f_client_only fl) && negb match stamp_all rn ns mani with [] => true | _ => false end); simpl; auto. }
  intros adopt. destruct adopt as [adopted|]; simpl; auto.
  destruct (f_dry_run fl); simpl; auto.
  apply inert_bind_quiet.
  { destruct (f_replace fl); simpl; auto. split; [reflexivity|]. intros h.
    destruct (max_rev_of h) as [last|]; simpl; auto.
    destruct (status_eqb (st last) SFailed); simpl; auto.
    destruct (is_pending (st last)); simpl; auto.
    split; [reflexivity|]. intros e. destruct e; simpl; auto. }
  intros rr. destruct rr as [rel|c]; simpl; auto.
  split; [eauto|auto].
Qed.

Theorem install_fx_no_delete rn ns fl cid vid mani hks :
  f_atomic fl = false -> all_eff not_delete (install_fx rn ns fl cid vid mani hks).
Proof.
  intros H. unfold install_fx, install_fail. rewrite H. nd_auto.
Qed.

Theorem install_fx_first_read rn ns fl cid vid mani hks evs a :
  f_dry_run fl = false ->
  follows (install_fx rn ns fl cid vid mani hks) evs (Ret a) ->
  exists c t, evs = c :: t /\ exists h, history_seen c = Some h /\
    (forall last, max_rev_of h = Some last ->
       f_replace fl && (status_eqb (st last) SUninstalled || status_eqb (st last) SFailed) = false ->
       a = OErr ENameInUse /\ t = []).
Proof.
  intros Hd. unfold install_fx. rewrite Hd. destruct evs as [|c t]; simpl; [discriminate|].
  intros [h [out [Hc Hf]]]. exists c, t. split; [reflexivity|]. exists h.
  split; [rewrite Hc; reflexivity|].
  intros last Hl Hr. rewrite Hl in Hf. simpl in Hf. rewrite Hr in Hf. simpl in Hf.
  apply follows_ret_eq in Hf. destruct Hf; auto.
Qed.

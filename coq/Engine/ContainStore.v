(* C03 — the containment theorems instantiated at the object-store cluster with its one-shot
   faults (what the correspondence run exercises), and concrete examples. *)
From Coq Require Import List String Bool Arith ZArith.
From Helm Require Import Common.Assoc Engine.Types Engine.Eff Engine.Ops Engine.Cluster Engine.Seq
  Engine.SeqProofs Engine.HooksProofsGate Engine.ContainLedger Engine.ContainProofs Engine.ContainDeployed
  Engine.Contain.
Import ListNotations.
Local Open Scope string_scope.

(* every one-shot cluster fault plan: rejected verb on a key, failing hook watch, failing wait *)
Theorem failed_is_recorded_store rn ns o cf w w' c t :
  contained_op o -> f_atomic (op_flags o) = false -> f_dry_run (op_flags o) = false ->
  run_store_op rn ns (mkOp o nofault cf) w = (w', OErr c, t) ->
  forall y, In y (w_led w') -> ~ In (rev y) (revs (w_led w)) -> st y = SFailed.
Proof.
  intros Hc Hat Hdry H. unfold run_store_op in H. simpl in H.
  destruct (run_op kstate (kube_handle rn ns) dead_resp rn ns o nofault (w_led w)
                   (mkK (w_objs w) (cf_k cf) (cf_h cf) (cf_wait cf))) as [[[l k] out] t'] eqn:E.
  inversion H; subst. simpl.
  eapply failed_is_recorded; eauto.
Qed.

Theorem previous_stays_deployed_store rn ns o cf w w' c t d :
  (match o with OpInstall _ _ _ _ _ | OpUpgrade _ _ _ _ _ => True | _ => False end) ->
  f_atomic (op_flags o) = false -> f_dry_run (op_flags o) = false ->
  NoDup (revs (w_led w)) ->
  max_rev_of (filter (fun r => status_eqb (st r) SDeployed) (w_led w)) = Some d ->
  run_store_op rn ns (mkOp o nofault cf) w = (w', OErr c, t) ->
  In d (w_led w') /\ st d = SDeployed.
Proof.
  intros Ho Hat Hdry Hnd Hmax H. unfold run_store_op in H. simpl in H.
  destruct (run_op kstate (kube_handle rn ns) dead_resp rn ns o nofault (w_led w)
                   (mkK (w_objs w) (cf_k cf) (cf_h cf) (cf_wait cf))) as [[[l k] out] t'] eqn:E.
  inversion H; subst. simpl.
  eapply previous_stays_deployed; eauto.
Qed.

(* ---- example: install {a,b}; upgrade to {a',c} with CREATE c rejected (non-atomic) ---- *)
Definition ex_install : op := OpInstall fl0 1 1 [cmr "a" "v1"; cmr "b" "v1"] [].
Definition ex_upgrade : op := OpUpgrade fl0 2 2 [cmr "a" "v2"; cmr "c" "v2"] [].
Definition ex_w1 : world := fst (fst (run_store_op "rel" "default" (mkOp ex_install nofault no_cf) (mkW [] []))).
Definition ex_cf : cfaults := mkCF (Some (VCreate, "ConfigMap/c")) None false.

Lemma containment_example :
  contained_op ex_upgrade /\ f_atomic (op_flags ex_upgrade) = false /\ f_dry_run (op_flags ex_upgrade) = false /\
  NoDup (revs (w_led ex_w1)) /\
  (exists d, max_rev_of (filter (fun r => status_eqb (st r) SDeployed) (w_led ex_w1)) = Some d /\ rev d = 1) /\
  exists w' t, run_store_op "rel" "default" (mkOp ex_upgrade nofault ex_cf) ex_w1 = (w', OErr EOtherErr, t) /\
               statuses (w_led w') = [(1, SDeployed); (2, SFailed)].
Proof.
  split; [exact I|]. split; [reflexivity|]. split; [reflexivity|].
  split; [vm_compute; repeat constructor; simpl; tauto|].
  split; [eexists; split; vm_compute; reflexivity|].
  eexists. eexists. split; vm_compute; reflexivity.
Qed.

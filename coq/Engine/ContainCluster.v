(* C03 (stretch) — the cluster semantics of a run without crash under the object-store
   handler: storage effects answer anything and leave the cluster alone, cluster calls act
   as kube_handle does.  [krun p k k' a tr] abstracts Seq.run; facts about one-shot faults
   and about deletions. *)
From Coq Require Import List String Bool Arith ZArith Lia.
From Helm Require Import Common.Assoc Engine.Types Engine.Eff Engine.Ops Engine.Cluster Engine.Seq
  Engine.HooksProofsTrace Engine.HooksProofsGate Engine.ContainLedger.
Import ListNotations.
Local Open Scope prog_scope.

Section KRun.
  Variable rn ns : string.

  Definition kstate_of (e : eff) (k : kstate) : kstate := fst (fst (kube_handle rn ns e k)).
  Definition kresp_of (e : eff) (k : kstate) : resp e := snd (fst (kube_handle rn ns e k)).

  Inductive krun {A : Type} : prog A -> kstate -> kstate -> A -> list er -> Prop :=
  | KRet a k : krun (Ret a) k k a []
  | KSto e kk r k k' a tr : is_cluster_call e = false -> krun (kk r) k k' a tr ->
                            krun (Eff e kk) k k' a (ER e r :: tr)
  | KClu e kk k k' a tr : is_cluster_call e = true ->
                          krun (kk (kresp_of e k)) (kstate_of e k) k' a tr ->
                          krun (Eff e kk) k k' a (ER e (kresp_of e k) :: tr).

  Lemma krun_inv {A} (p : prog A) k k' a tr :
    krun p k k' a tr ->
    match p with
    | Ret a' => k' = k /\ a = a' /\ tr = []
    | Eff e kk =>
        (is_cluster_call e = false /\ exists r tr', tr = ER e r :: tr' /\ krun (kk r) k k' a tr')
        \/ (is_cluster_call e = true /\ exists tr', tr = ER e (kresp_of e k) :: tr' /\
            krun (kk (kresp_of e k)) (kstate_of e k) k' a tr')
    end.
  Proof. intros H. destruct H; eauto 8. Qed.

  Lemma krun_ret_inv {A} (a b : A) k k' tr : krun (Ret a) k k' b tr -> k' = k /\ b = a /\ tr = [].
  Proof. intros H. exact (krun_inv _ _ _ _ _ H). Qed.

  Lemma krun_bind_inv {A B} (p : prog A) (f : A -> prog B) :
    forall k k' b tr, krun (bind p f) k k' b tr ->
      exists k1 a tr1 tr2, krun p k k1 a tr1 /\ krun (f a) k1 k' b tr2 /\ tr = (tr1 ++ tr2)%list.
  Proof.
    induction p as [a|e kk IH]; simpl; intros k k' b tr H.
    - exists k, a, [], tr. repeat split; auto. constructor.
    - apply krun_inv in H. destruct H as [[Hc (r & tr' & -> & H)]|[Hc (tr' & -> & H)]].
      + apply IH in H. destruct H as (k1 & a & tr1 & tr2 & H1 & H2 & ->).
        exists k1, a, (ER e r :: tr1), tr2. repeat split; auto. now apply KSto.
      + apply IH in H. destruct H as (k1 & a & tr1 & tr2 & H1 & H2 & ->).
        exists k1, a, (ER e (kresp_of e k) :: tr1), tr2. repeat split; auto. now apply KClu.
  Qed.

  Lemma krun_storage_inv {A} e (kk : resp e -> prog A) k k' a tr :
    is_cluster_call e = false -> krun (Eff e kk) k k' a tr ->
    exists r tr', tr = ER e r :: tr' /\ krun (kk r) k k' a tr'.
  Proof.
    intros Hc H. apply krun_inv in H. destruct H as [[_ H]|[Hc' _]]; [exact H|congruence].
  Qed.

  Lemma krun_cluster_inv {A} e (kk : resp e -> prog A) k k' a tr :
    is_cluster_call e = true -> krun (Eff e kk) k k' a tr ->
    exists tr', tr = ER e (kresp_of e k) :: tr' /\ krun (kk (kresp_of e k)) (kstate_of e k) k' a tr'.
  Proof.
    intros Hc H. apply krun_inv in H. destruct H as [[Hc' _]|[_ H]]; [congruence|exact H].
  Qed.

  (* the trace of a krun is an execution *)
  Lemma krun_exec {A} (p : prog A) k k' a tr : krun p k k' a tr -> exec p tr a.
  Proof. intros H. induction H; constructor; auto. Qed.

  (* programs without cluster calls leave the cluster alone *)
  Lemma krun_storage_only {A} (p : prog A) : only storage_eff p ->
    forall k k' a tr, krun p k k' a tr -> k' = k.
  Proof.
    induction p as [x|e kk IH]; simpl; intros Ho k k' a tr H.
    - apply krun_ret_inv in H. tauto.
    - destruct Ho as [He Hk]. apply krun_storage_inv in H; [|exact He].
      destruct H as (r & tr' & _ & H). eapply IH; eauto.
  Qed.

  (* ---- Seq.run under the object-store handler refines krun (no crash) ---- *)
  Lemma run_krun {A} (p : prog A) :
    forall (s s' : rstate kstate) a,
      dead s = false -> run kstate (kube_handle rn ns) dead_resp nofault p s = (s', a) ->
      exists tr, krun p (ks s) (ks s') a tr.
  Proof.
    induction p as [x|e kk IH]; intros s s' a Hd H; simpl in H.
    - inversion H; subst. exists []. constructor.
    - destruct (step kstate (kube_handle rn ns) dead_resp nofault e s) as [s1 r] eqn:Es.
      unfold step in Es. simpl crash in Es. simpl wfail in Es. unfold eq_opt in Es.
      rewrite andb_false_r in Es. rewrite Hd in Es.
      destruct (is_cluster_call e) eqn:Hc.
      + destruct (kube_handle rn ns e (ks s)) as [[k1 r1] evs] eqn:Ek. inversion Es; subst. clear Es.
        eapply IH in H; [|reflexivity]. destruct H as [tr H]. simpl in H.
        exists (ER e (kresp_of e (ks s)) :: tr). apply KClu; auto.
        unfold kresp_of, kstate_of. rewrite Ek. exact H.
      + destruct (is_storage_write e) eqn:Hw.
        * destruct (storage_apply dead_resp e (led s)) as [[l1 r1] evs] eqn:Ea. inversion Es; subst. clear Es.
          eapply IH in H; [|reflexivity]. destruct H as [tr H]. simpl in H.
          exists (ER e r :: tr). now apply KSto.
        * destruct (storage_apply dead_resp e (led s)) as [[l1 r1] evs] eqn:Ea. inversion Es; subst. clear Es.
          eapply IH in H; [|exact Hd]. destruct H as [tr H].
          exists (ER e r :: tr). now apply KSto.
  Qed.

  (* the same with the trace of [run_tr] *)
  Lemma run_tr_krun {A} (p : prog A) :
    forall (s s' : rstate kstate) a tr,
      dead s = false -> run_tr kstate (kube_handle rn ns) dead_resp nofault p s = (s', a, tr) ->
      krun p (ks s) (ks s') a tr /\ dead s' = false.
  Proof.
    induction p as [x|e kk IH]; intros s s' a tr Hd H; simpl in H.
    - inversion H; subst. split; auto. constructor.
    - destruct (step kstate (kube_handle rn ns) dead_resp nofault e s) as [s1 r] eqn:Es.
      destruct (run_tr kstate (kube_handle rn ns) dead_resp nofault (kk r) s1) as [[s2 a2] t2] eqn:Er.
      inversion H; subst. clear H.
      unfold step in Es. simpl crash in Es. simpl wfail in Es. unfold eq_opt in Es.
      rewrite andb_false_r in Es. rewrite Hd in Es.
      destruct (is_cluster_call e) eqn:Hc.
      + destruct (kube_handle rn ns e (ks s)) as [[k1 r1] evs] eqn:Ek. inversion Es; subst. clear Es.
        eapply IH in Er; [|reflexivity]. destruct Er as [Hk Hd']. simpl in Hk. split; auto.
        assert (E : r = kresp_of e (ks s)) by (unfold kresp_of; now rewrite Ek).
        rewrite E. apply KClu; auto. rewrite <- E.
        unfold kstate_of. rewrite Ek. exact Hk.
      + destruct (is_storage_write e) eqn:Hw.
        * destruct (storage_apply dead_resp e (led s)) as [[l1 r1] evs] eqn:Ea. inversion Es; subst. clear Es.
          eapply IH in Er; [|reflexivity]. destruct Er as [Hk Hd']. simpl in Hk. split; auto. now apply KSto.
        * destruct (storage_apply dead_resp e (led s)) as [[l1 r1] evs] eqn:Ea. inversion Es; subst. clear Es.
          eapply IH in Er; [|exact Hd]. destruct Er as [Hk Hd']. split; auto. now apply KSto.
  Qed.

  (* ---- one-shot faults are only ever consumed ---- *)
  Definition fault_le (k' k : kstate) : Prop := kfault k' = kfault k \/ kfault k' = None.

  Lemma fault_le_refl k : fault_le k k. Proof. now left. Qed.
  Lemma fault_le_trans a b c : fault_le a b -> fault_le b c -> fault_le a c.
  Proof. unfold fault_le. intros [H1|H1] [H2|H2]; rewrite ?H1, ?H2; auto. Qed.
  Lemma fault_le_clear k : fault_le (clear_kfault k) k. Proof. now right. Qed.
  Lemma fault_le_objs k o : fault_le (set_objs k o) k. Proof. now left. Qed.

  Lemma k_existing_fault : forall rs k take acc, fault_le (fst (k_existing rn ns k rs take acc)) k.
  Proof.
    induction rs as [|r t IH]; simpl; intros k take acc; [apply fault_le_refl|].
    destruct (fault_hits k VGet (rkey r)); [apply fault_le_clear|].
    destruct (aget (rkey r) (objs k)); [|apply IH].
    destruct (take || owned_by rn ns f); [apply IH|apply fault_le_refl].
  Qed.

  Lemma k_create_fault : forall rs k ok muts, fault_le (fst (fst (k_create k rs ok muts))) k.
  Proof.
    induction rs as [|r t IH]; simpl; intros k ok muts; [apply fault_le_refl|].
    destruct (fault_hits k VCreate (rkey r)).
    - eapply fault_le_trans; [apply IH|apply fault_le_clear].
    - destruct (amem (rkey r) (objs k)); [apply IH|].
      eapply fault_le_trans; [apply IH|apply fault_le_objs].
  Qed.

  Lemma k_delete_fault : forall rs k ok muts, fault_le (fst (fst (k_delete k rs ok muts))) k.
  Proof.
    induction rs as [|r t IH]; simpl; intros k ok muts; [apply fault_le_refl|].
    destruct (fault_hits k VDelete (rkey r)).
    - eapply fault_le_trans; [apply IH|apply fault_le_clear].
    - destruct (amem (rkey r) (objs k)); [|apply IH].
      eapply fault_le_trans; [apply IH|apply fault_le_objs].
  Qed.

  Lemma k_update_targets_fault : forall tgt k cur created pe muts,
    fault_le (fst (fst (fst (fst (k_update_targets k cur tgt created pe muts))))) k.
  Proof.
    induction tgt as [|r t IH]; simpl; intros k cur created pe muts; [apply fault_le_refl|].
    destruct (fault_hits k VGet (rkey r)); [apply fault_le_clear|].
    destruct (aget (rkey r) (objs k)).
    - destruct (find_res (rkey r) cur); [|apply fault_le_refl].
      destruct (patch_needed (r_fields r0) (r_fields r) f); [|apply IH].
      destruct (fault_hits k VPatch (rkey r)).
      + eapply fault_le_trans; [apply IH|apply fault_le_clear].
      + eapply fault_le_trans; [apply IH|apply fault_le_objs].
    - destruct (fault_hits k VCreate (rkey r)); [apply fault_le_clear|].
      eapply fault_le_trans; [apply IH|apply fault_le_objs].
  Qed.

  Lemma k_update_deletes_fault : forall dels k muts, fault_le (fst (k_update_deletes k dels muts)) k.
  Proof.
    induction dels as [|r t IH]; simpl; intros k muts; [apply fault_le_refl|].
    destruct (fault_hits k VGet (rkey r)).
    - eapply fault_le_trans; [apply IH|apply fault_le_clear].
    - destruct (aget (rkey r) (objs k)); [|apply IH].
      destruct (live_keep f); [apply IH|].
      destruct (fault_hits k VDelete (rkey r)).
      + eapply fault_le_trans; [apply IH|apply fault_le_clear].
      + eapply fault_le_trans; [apply IH|apply fault_le_objs].
  Qed.

  Lemma kube_handle_fault e k : fault_le (kstate_of e k) k.
  Proof.
    unfold kstate_of. destruct e; simpl; try apply fault_le_refl.
    - pose proof (k_existing_fault rs k take []) as H.
      destruct (k_existing rn ns k rs take []) as [k' r]. exact H.
    - destruct rs as [|x t]; [apply fault_le_refl|].
      pose proof (k_create_fault (x :: t) k true []) as H.
      destruct (k_create k (x :: t) true []) as [[k' ok] m]. exact H.
    - unfold k_update.
      pose proof (k_update_targets_fault tgt k cur [] false []) as H.
      destruct (k_update_targets k cur tgt [] false []) as [[[[k1 hard] pe] created] muts]. simpl in H.
      destruct (hard || pe); simpl; auto.
      pose proof (k_update_deletes_fault (filter (fun o => negb (in_keys (rkey o) tgt)) cur) k1 muts) as H2.
      destruct (k_update_deletes k1 _ muts) as [k2 m2]. simpl in *.
      eapply fault_le_trans; eauto.
    - destruct rs as [|x t]; [apply fault_le_refl|].
      pose proof (k_delete_fault (x :: t) k true []) as H.
      destruct (k_delete k (x :: t) true []) as [[k' ok] m]. exact H.
    - destruct (waitfail k); simpl; now left.
    - destruct (hfault k) as [[n cnt]|]; [|apply fault_le_refl].
      destruct (String.eqb n (h_name h)); [|apply fault_le_refl].
      destruct cnt; simpl; now left.
  Qed.

  Lemma krun_fault {A} (p : prog A) k k' a tr : krun p k k' a tr -> fault_le k' k.
  Proof.
    intros H. induction H; [apply fault_le_refl|auto|].
    eapply fault_le_trans; [exact IHkrun|apply kube_handle_fault].
  Qed.

  (* no DELETE fault is pending *)
  Definition nodel (k : kstate) : Prop :=
    match kfault k with Some (VDelete, _) => False | _ => True end.

  Lemma nodel_le k' k : fault_le k' k -> nodel k -> nodel k'.
  Proof. unfold nodel. intros [->| ->]; auto. Qed.

  Lemma nodel_hits k key : nodel k -> fault_hits k VDelete key = false.
  Proof.
    unfold nodel, fault_hits. destruct (kfault k) as [[v key']|]; auto. destruct v; simpl; auto. contradiction.
  Qed.

  (* ---- rdelete without a pending DELETE fault removes every listed key ---- *)
  Lemma amem_adel_same {V} key (o : list (string * V)) : amem key (adel key o) = false.
  Proof. unfold amem. now rewrite aget_adel_eq. Qed.

  Lemma amem_adel_other {V} key key' (o : list (string * V)) :
    amem key o = false -> amem key (adel key' o) = false.
  Proof.
    unfold amem. intros H. destruct (String.eqb key' key) eqn:E.
    - apply String.eqb_eq in E. subst. now rewrite aget_adel_eq.
    - apply String.eqb_neq in E. now rewrite (aget_adel_neq _ _ _ E).
  Qed.

  Lemma k_delete_keeps_absent : forall rs k ok muts key,
    nodel k -> amem key (objs k) = false ->
    amem key (objs (fst (fst (k_delete k rs ok muts)))) = false.
  Proof.
    induction rs as [|r t IH]; simpl; intros k ok muts key Hn Ha; auto.
    rewrite (nodel_hits _ _ Hn).
    destruct (amem (rkey r) (objs k)); [|now apply IH].
    apply IH; [exact Hn|]. simpl. now apply amem_adel_other.
  Qed.

  Lemma k_delete_removes : forall rs k ok muts,
    nodel k -> forall r, In r rs -> amem (rkey r) (objs (fst (fst (k_delete k rs ok muts)))) = false.
  Proof.
    induction rs as [|x t IH]; simpl; intros k ok muts Hn r Hin; [contradiction|].
    rewrite (nodel_hits _ _ Hn).
    destruct Hin as [<-|Hin].
    - destruct (amem (rkey x) (objs k)) eqn:E.
      + apply k_delete_keeps_absent; [exact Hn|]. simpl. apply amem_adel_same.
      + now apply k_delete_keeps_absent.
    - destruct (amem (rkey x) (objs k)); now apply IH.
  Qed.
End KRun.

(* C07 — interpretation of the translator table Gen/StampTable.v (harness/cmd/hx/gentables_c07.go,
   go/ast over pkg/action/validate.go): what the table SAYS the stamping code computes, as a
   function of the table.  Props/C07.v states that, for the table generated from /repo, this
   function is the model's [merge_str_str_maps] / [stamp_meta] for all inputs.  No dependency on
   the generated file here. *)
From Coq Require Import List String Bool.
From Helm Require Import Common.Assoc Engine.Types Engine.Stamp.
Import ListNotations.
Local Open Scope string_scope.

(* mergeStrStrMaps by its parameter names and the maps it copies into the result, in order *)
Definition param_map (params : list string) (x : string) (a b : strmap) : option strmap :=
  match params with
  | [p1; p2] => if String.eqb x p1 then Some a else if String.eqb x p2 then Some b else None
  | _ => None
  end.

Fixpoint merge_by_table (params loops : list string) (a b result : strmap) : option strmap :=
  match loops with
  | [] => Some result
  | x :: t => match param_map params x a b with
              | Some m => merge_by_table params t a b (assign_all m result)
              | None => None
              end
  end.

(* mergeLabels / mergeAnnotations: which of (the object's own map read through the expected
   accessor, the function's parameter) goes where *)
Definition role_map (accessor role : string) (obj param : strmap) : option strmap :=
  if String.eqb role "param" then Some param
  else if String.eqb role ("object:" ++ accessor) then Some obj
  else None.

Definition call_by_table (params loops : list string) (calls : list (string * list string))
           (fn accessor : string) (obj param : strmap) : option strmap :=
  match aget fn calls with
  | Some [r1; r2] =>
      match role_map accessor r1 obj param, role_map accessor r2 obj param with
      | Some a, Some b => merge_by_table params loops a b []
      | _, _ => None
      end
  | _ => None
  end.

(* the literal maps of setMetadataVisitor: constant names and the two parameters *)
Definition resolve (consts : list (string * string)) (rn ns x : string) : option string :=
  if String.eqb x "releaseName" then Some rn
  else if String.eqb x "releaseNamespace" then Some ns
  else aget x consts.

Fixpoint resolve_map (consts : list (string * string)) (rn ns : string) (l : list (string * string)) : option strmap :=
  match l with
  | [] => Some []
  | (k, v) :: t =>
      match resolve consts rn ns k, resolve consts rn ns v, resolve_map consts rn ns t with
      | Some k', Some v', Some t' => Some ((k', v') :: t')
      | _, _, _ => None
      end
  end.

Definition stamp_by_table (consts : list (string * string)) (params loops : list string)
           (calls : list (string * list string)) (vmaps : list (string * list (string * string)))
           (rn ns : string) (o : meta) : option meta :=
  match aget "mergeLabels" vmaps, aget "mergeAnnotations" vmaps with
  | Some lm, Some am =>
      match resolve_map consts rn ns lm, resolve_map consts rn ns am with
      | Some l, Some a =>
          match call_by_table params loops calls "mergeLabels" "Labels" (m_labels o) l,
                call_by_table params loops calls "mergeAnnotations" "Annotations" (m_annots o) a with
          | Some l', Some a' => Some (mkMeta l' a')
          | _, _ => None
          end
      | _, _ => None
      end
  | _, _ => None
  end.

Definition all_forced (sites : list (string * string)) : bool :=
  forallb (fun p => String.eqb (snd p) "true") sites.

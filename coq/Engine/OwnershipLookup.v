(* C07 — proofs, part 5: a FAILED ownership look-up is a refusal before any mutation.
   Fault plan [cf_k = Some (VGet, key)]: the API server rejects the GET of [key].  If [key] is
   the key of a resource the operation would newly create, existingResourceConflict /
   requireAdoption (k_existing) return an error whatever object sits there and whatever
   take-ownership says; install and upgrade then end in the conflict error with an empty trace
   and an unchanged world. *)
From Coq Require Import List String Bool Arith ZArith Lia.
From Helm Require Import Common.Assoc Engine.Types Engine.Eff Engine.Ops Engine.Cluster Engine.Seq
                         Engine.DryRun Engine.DryRunProofs Engine.Ownership Engine.OwnershipProofs.
Import ListNotations.
Local Open Scope string_scope.

Lemma k_existing_fault rn ns key rs : forall k take acc,
  kfault k = Some (VGet, key) -> In key (keys rs) ->
  snd (k_existing rn ns k rs take acc) = None.
Proof.
  induction rs as [|r t IH]; intros k take acc Hk Hin; simpl; [destruct Hin|].
  unfold fault_hits. rewrite Hk. simpl.
  destruct (String.eqb (rkey r) key) eqn:E; simpl; auto.
  assert (Hin' : In key (keys t)).
  { destruct Hin as [H|H]; auto. rewrite H, String.eqb_refl in E. discriminate. }
  destruct (aget (rkey r) (objs k)) as [live|]; [|now apply IH].
  destruct (take || owned_by rn ns live); [now apply IH|reflexivity].
Qed.

(* programs that read storage and then look [key] up; when the look-up fails they return *)
Inductive lookup_path {A : Type} (key : string) (Rsp : forall e : eff, resp e -> Prop) (P : A -> Prop)
  : prog A -> Prop :=
| LP_ret : forall a, P a -> lookup_path key Rsp P (Ret a)
| LP_read : forall e k, storage_read e -> (forall r, Rsp e r -> lookup_path key Rsp P (k r)) ->
                        lookup_path key Rsp P (Eff e k)
| LP_lookup : forall rs take (k : resp (KExisting rs take) -> prog A) a,
    In key (keys rs) -> k None = Ret a -> P a -> lookup_path key Rsp P (Eff (KExisting rs take) k).

Section Lookup.
  Variable rn ns : string.
  Variable l0 : list release.
  Variable o0 : list (string * fields).
  Variable f : sfaults.
  Variable key : string.

  Lemma run_lookup_path {A} (P : A -> Prop) (p : prog A) :
    lookup_path key (Rref rn ns l0 o0) P p ->
    forall s, Iref l0 o0 s -> kfault (ks s) = Some (VGet, key) ->
    Iref l0 o0 (fst (run kstate (kube_handle rn ns) dead_resp f p s)) /\
    P (snd (run kstate (kube_handle rn ns) dead_resp f p s)).
  Proof.
    intros H. induction H as [a Ha|e k He Hk IH|rs take k a Hin Hk Ha]; intros s Hs Hf; simpl.
    - split; auto.
    - pose proof (Iref_step rn ns l0 o0 f e s Hs (storage_read_silent e He)) as [H1 H2].
      assert (Hks : ks (fst (step kstate (kube_handle rn ns) dead_resp f e s)) = ks s).
      { destruct Hs as (_ & _ & _ & Hd). unfold step.
        destruct e; simpl in He; try contradiction; simpl; rewrite ?andb_false_r; simpl; rewrite Hd; reflexivity. }
      destruct (step kstate (kube_handle rn ns) dead_resp f e s) as [s' r]. simpl in *.
      apply IH; auto. now rewrite Hks.
    - pose proof (Iref_step rn ns l0 o0 f (KExisting rs take) s Hs I) as [H1 _].
      assert (Hr : snd (step kstate (kube_handle rn ns) dead_resp f (KExisting rs take) s) = None).
      { destruct Hs as (_ & _ & _ & Hd). unfold step. simpl. rewrite ?andb_false_r. simpl. rewrite Hd. simpl.
        pose proof (k_existing_fault rn ns key rs (ks s) take [] Hf Hin) as Hn.
        destruct (k_existing rn ns (ks s) rs take []) as [k' r]. simpl in *. exact Hn. }
      destruct (step kstate (kube_handle rn ns) dead_resp f (KExisting rs take) s) as [s' r]. simpl in *.
      subst r. rewrite Hk. simpl. split; auto.
  Qed.

  Lemma In_keys_stamp_all m : In key (keys m) -> In key (keys (stamp_all rn ns m)).
  Proof. now rewrite keys_stamp_all. Qed.

  Lemma In_keys_stamp_filter m cur :
    In key (keys (filter (fun r => negb (in_keys (rkey r) cur)) m)) ->
    In key (keys (filter (fun r => negb (in_keys (rkey r) cur)) (stamp_all rn ns m))).
  Proof.
    unfold keys. intros H. apply in_map_iff in H. destruct H as [r [<- Hr]].
    apply filter_In in Hr. destruct Hr as [Hr Hp].
    apply in_map_iff. exists (stamp rn ns r). split; [reflexivity|].
    apply filter_In. split; [unfold stamp_all; now apply in_map|exact Hp].
  Qed.

  Lemma install_lookup fl cid vid mani hks :
    f_client_only fl = false -> In key (keys mani) ->
    lookup_path key (Rref rn ns l0 o0)
      (fun out => out = OErr EConflict \/ (out = OErr ENameInUse /\ f_dry_run fl = false /\ name_available l0 fl = false))
      (install rn ns fl cid vid mani hks).
  Proof.
    intros Hc Hin.
    assert (Hne : match stamp_all rn ns mani with [] => true | _ :: _ => false end = false).
    { destruct mani; [destruct Hin|reflexivity]. }
    apply In_keys_stamp_all in Hin.
    unfold install. destruct (f_dry_run fl) eqn:Hd; simpl.
    - rewrite Hc, Hne. simpl. eapply LP_lookup; [exact Hin|reflexivity|now left].
    - apply LP_read; [exact I|]. intros h Hh. simpl in Hh. subst h.
      assert (Hav : name_available l0 fl =
                    match max_rev_of l0 with
                    | None => true
                    | Some last => f_replace fl && (status_eqb (st last) SUninstalled || status_eqb (st last) SFailed)
                    end) by reflexivity.
      destruct (max_rev_of l0) as [last|]; simpl.
      + destruct (f_replace fl && (status_eqb (st last) SUninstalled || status_eqb (st last) SFailed)) eqn:Eb; simpl.
        * rewrite Hc, Hne. simpl. eapply LP_lookup; [exact Hin|reflexivity|now left].
        * apply LP_ret. right. auto.
      + rewrite Hc, Hne. simpl. eapply LP_lookup; [exact Hin|reflexivity|now left].
  Qed.

  Lemma upgrade_lookup fl cid vid mani hks :
    (forall cur, upgrade_current l0 = Some cur ->
       In key (keys (filter (fun r => negb (in_keys (rkey r) (manifest cur))) mani))) ->
    lookup_path key (Rref rn ns l0 o0)
      (fun out => out = OErr EConflict \/
                  ((out = OErr ENoDeployed \/ out = OErr EPending) /\ upgrade_current l0 = None))
      (upgrade rn ns fl cid vid mani hks).
  Proof.
    intros Hin.
    unfold upgrade. apply LP_read; [exact I|]. intros h Hh. simpl in Hh. subst h.
    unfold upgrade_current in *.
    destruct (max_rev_of l0) as [last|]; simpl; [|apply LP_ret; right; auto].
    destruct (is_pending (st last)) eqn:Ep; simpl; [apply LP_ret; right; auto|].
    destruct (status_eqb (st last) SDeployed) eqn:Ed; simpl.
    - eapply LP_lookup; [exact (In_keys_stamp_filter mani (manifest last) (Hin last eq_refl))|reflexivity|now left].
    - apply LP_read; [exact I|]. intros ds Hds. simpl in Hds. subst ds.
      destruct (max_rev_of (filter (fun x => status_eqb (st x) SDeployed) l0)) as [d|]; simpl.
      + eapply LP_lookup; [exact (In_keys_stamp_filter mani (manifest d) (Hin d eq_refl))|reflexivity|now left].
      + destruct (status_eqb (st last) SFailed || status_eqb (st last) SSuperseded); simpl.
        * eapply LP_lookup; [exact (In_keys_stamp_filter mani (manifest last) (Hin last eq_refl))|reflexivity|now left].
        * apply LP_ret. right. auto.
  Qed.
End Lookup.

Lemma run_store_lookup rn ns (o : op) sf cf w key (P : outcome -> Prop) :
  cf_k cf = Some (VGet, key) ->
  lookup_path key (Rref rn ns (w_led w) (w_objs w)) P (op_prog rn ns o) ->
  P (snd (fst (run_store_op rn ns (mkOp o sf cf) w))) /\
  snd (run_store_op rn ns (mkOp o sf cf) w) = [] /\
  fst (fst (run_store_op rn ns (mkOp o sf cf) w)) = w.
Proof.
  intros Hf H. unfold run_store_op, run_op. simpl.
  set (k0 := mkK (w_objs w) (cf_k cf) (cf_h cf) (cf_wait cf)).
  assert (H0 : Iref (w_led w) (w_objs w) (mkR (w_led w) k0 0 0 false [])) by (repeat split).
  pose proof (run_lookup_path rn ns (w_led w) (w_objs w) sf key P (op_prog rn ns o) H
                (mkR (w_led w) k0 0 0 false []) H0 Hf) as G.
  destruct (run kstate (kube_handle rn ns) dead_resp sf (op_prog rn ns o) (mkR (w_led w) k0 0 0 false [])) as [s out].
  simpl in *. destruct G as [(G1 & G2 & G3 & G4) G5].
  rewrite G4. repeat split; auto. rewrite G1, G2. now destruct w.
Qed.

Theorem refuse_install_lookup rn ns fl cid vid mani hks sf cf w key :
  cf_k cf = Some (VGet, key) -> f_client_only fl = false -> In key (keys mani) ->
  (snd (fst (run_store_op rn ns (mkOp (OpInstall fl cid vid mani hks) sf cf) w)) = OErr EConflict \/
   (snd (fst (run_store_op rn ns (mkOp (OpInstall fl cid vid mani hks) sf cf) w)) = OErr ENameInUse /\
    f_dry_run fl = false /\ name_available (w_led w) fl = false)) /\
  snd (run_store_op rn ns (mkOp (OpInstall fl cid vid mani hks) sf cf) w) = [] /\
  fst (fst (run_store_op rn ns (mkOp (OpInstall fl cid vid mani hks) sf cf) w)) = w.
Proof.
  intros Hf Hc Hin.
  apply (run_store_lookup rn ns (OpInstall fl cid vid mani hks) sf cf w key
           (fun out => out = OErr EConflict \/
                       (out = OErr ENameInUse /\ f_dry_run fl = false /\ name_available (w_led w) fl = false)) Hf).
  simpl. now apply install_lookup.
Qed.

Theorem refuse_upgrade_lookup rn ns fl cid vid mani hks sf cf w key :
  cf_k cf = Some (VGet, key) ->
  (forall cur, upgrade_current (w_led w) = Some cur ->
     In key (keys (filter (fun r => negb (in_keys (rkey r) (manifest cur))) mani))) ->
  (snd (fst (run_store_op rn ns (mkOp (OpUpgrade fl cid vid mani hks) sf cf) w)) = OErr EConflict \/
   ((snd (fst (run_store_op rn ns (mkOp (OpUpgrade fl cid vid mani hks) sf cf) w)) = OErr ENoDeployed \/
     snd (fst (run_store_op rn ns (mkOp (OpUpgrade fl cid vid mani hks) sf cf) w)) = OErr EPending) /\
    upgrade_current (w_led w) = None)) /\
  snd (run_store_op rn ns (mkOp (OpUpgrade fl cid vid mani hks) sf cf) w) = [] /\
  fst (fst (run_store_op rn ns (mkOp (OpUpgrade fl cid vid mani hks) sf cf) w)) = w.
Proof.
  intros Hf Hin.
  apply (run_store_lookup rn ns (OpUpgrade fl cid vid mani hks) sf cf w key
           (fun out => out = OErr EConflict \/
                       ((out = OErr ENoDeployed \/ out = OErr EPending) /\ upgrade_current (w_led w) = None)) Hf).
  simpl. now apply upgrade_lookup.
Qed.

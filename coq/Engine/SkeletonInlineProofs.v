(* The checker of Engine/Skeleton.v (ex / raccepts: names resolved to indices, fuel for call
   depth and loop rounds) against the path semantics nx of the inlined skeleton
   (Engine/SkeletonNorm.v): every path raccepts finds is a path of naccepts. *)
From Coq Require Import List String Bool Arith NArith Lia.
From Helm Require Import Engine.Skeleton Engine.SkeletonNorm Engine.SkeletonNormProofs.
Import ListNotations.
Local Open Scope string_scope.

(* ---- ex, unfolded ---------------------------------------------------------------------------- *)

Section Unfold.
  Variable t : rtable.
  Variable masks : list (kind * N).

  Section Blk.
    Variable fuel : nat.
    Fixpoint xblk (env : string -> bool) (ev : string) (b : list rsk) (P : st) {struct b} : st * st :=
      match b with
      | [] => (P, st0)
      | a :: r =>
          let '(n1, r1) := ex t masks fuel env ev a P in
          let '(n2, r2) := xblk env ev r n1 in
          (n2, join r1 r2)
      end.
  End Blk.

  Definition xcallee (fuel : nat) (env : string -> bool) (ev : string) (b : list rsk) (P : st) : st * st :=
    let '(n, r) := xblk fuel env ev b P in
    ((N.lor (all n) (fst r), N.lor (all n) (snd r)), st0).

  Lemma ex_S fuel env ev s P :
    ex t masks (S fuel) env ev s P =
    if N.eqb (all P) 0 then (st0, st0) else
    match s with
    | RCall k => (both (N.double (N.land (all P) (get_mask (subst_ev ev k) masks))), st0)
    | RFn i arg =>
        match nth_error t i with
        | Some b => xcallee fuel env (if String.eqb arg "" then ev else arg) b P
        | None => (st0, st0)
        end
    | RRun i inh =>
        match nth_error t i with
        | Some b => xcallee fuel (inherit_env env inh) "" b (both (all P))
        | None => (st0, st0)
        end
    | RIf c th el =>
        let eo := eval_cond env (Some false) c in
        let ee := eval_cond env (Some true) c in
        let '(n1, r1) := xblk fuel env ev th (may eo ee true P) in
        let '(n2, r2) := xblk fuel env ev el (may eo ee false P) in
        (both (N.lor (all n1) (all n2)), join r1 r2)
    | RLoop b =>
        let '(n, r) := xblk fuel env ev b (both (all P)) in
        let A := all P in
        let A' := N.lor A (all n) in
        if N.eqb A' A then (both A, r)
        else let '(n', r') := ex t masks fuel env ev (RLoop b) (both A') in (n', join r r')
    | RReturn => (st0, P)
    | RReturnOk => (st0, (all P, 0%N))
    | RReturnErr => (st0, (0%N, all P))
    | RPure => (both (all P), st0)
    | RArgOk => ((all P, 0%N), st0)
    | RArgErr => ((0%N, all P), st0)
    | RDead => (st0, st0)
    end.
  Proof. reflexivity. Qed.
End Unfold.

(* ---- the order on states (bitwise inclusion), and monotonicity from additivity ----------------- *)

Definition les (a b : st) : Prop := join a b = b.
Definition le2 (a b : st * st) : Prop := jj a b = b.
Definition nle (A B : N) : Prop := N.lor A B = B.

Lemma les_refl a : les a a.
Proof. apply join_diag. Qed.

Lemma les_trans a b c : les a b -> les b c -> les a c.
Proof. unfold les. intros H1 H2. rewrite <- H2, <- join_assoc, H1. reflexivity. Qed.

Lemma les_st0 a : les st0 a.
Proof. apply join_st0_l. Qed.

Lemma les_join a a' b b' : les a a' -> les b b' -> les (join a b) (join a' b').
Proof.
  unfold les. intros H1 H2. rewrite <- H1 at 2. rewrite <- H2 at 2.
  destruct a, a', b, b'. st_solve.
Qed.

Lemma les_join_l a b : les a (join a b).
Proof. unfold les. rewrite <- join_assoc, join_diag. reflexivity. Qed.

Lemma les_join_r a b : les b (join a b).
Proof. unfold les. rewrite (join_comm a b), <- join_assoc, join_diag. reflexivity. Qed.

Lemma le2_pair a b : le2 a b <-> les (fst a) (fst b) /\ les (snd a) (snd b).
Proof.
  destruct a as [a1 a2], b as [b1 b2]. unfold le2, les, jj. cbn [fst snd]. split.
  - intro H. inversion H. rewrite !H1, !H2. split; reflexivity.
  - intros [H1 H2]. now rewrite H1, H2.
Qed.

Lemma le2_mk a1 a2 b1 b2 : les a1 b1 -> les a2 b2 -> le2 (a1, a2) (b1, b2).
Proof. intros. apply le2_pair. cbn. split; assumption. Qed.

Lemma le2_refl a : le2 a a.
Proof. apply le2_pair. split; apply les_refl. Qed.

Lemma le2_trans a b c : le2 a b -> le2 b c -> le2 a c.
Proof.
  intros H1 H2. apply le2_pair in H1, H2. apply le2_pair. destruct H1, H2.
  split; eapply les_trans; eassumption.
Qed.

Lemma le2_bot a : le2 (st0, st0) a.
Proof. apply le2_pair. split; apply les_st0. Qed.

Lemma nle_all a b : les a b -> nle (all a) (all b).
Proof. unfold les, nle. intro H. rewrite <- H at 2. now rewrite all_join. Qed.

Lemma les_both A B : nle A B -> les (both A) (both B).
Proof. unfold nle, les. intro H. rewrite <- both_lor, H. reflexivity. Qed.

Lemma nle_refl A : nle A A.
Proof. apply N.lor_diag. Qed.

Lemma nle_lor A A' B B' : nle A A' -> nle B B' -> nle (N.lor A B) (N.lor A' B').
Proof. unfold nle. intros H1 H2. rewrite <- H1 at 2. rewrite <- H2 at 2. lor_solve. Qed.

Lemma nle_lor_l A B : nle A (N.lor A B).
Proof. unfold nle. lor_solve. Qed.

Lemma nle_testbit A B i : nle A B -> N.testbit A i = true -> N.testbit B i = true.
Proof. unfold nle. intros H HA. rewrite <- H, N.lor_spec, HA. reflexivity. Qed.

Lemma scope_exit_mono x y : le2 x y -> le2 (scope_exit x) (scope_exit y).
Proof. unfold le2. intro H. rewrite <- H at 2. now rewrite scope_exit_jj. Qed.

Lemma loop_it_mono (g : st -> st * st) :
  (forall P Q, g (join P Q) = jj (g P) (g Q)) ->
  forall k A B, nle A B -> le2 (loop_it g k A) (loop_it g k B).
Proof. intros H k A B HA. unfold nle in HA. unfold le2. rewrite <- HA at 2. now rewrite loop_it_add. Qed.

Lemma loop_it_ge (g : st -> st * st) k : forall A, les (both A) (fst (loop_it g k A)).
Proof.
  induction k as [|k IH]; intro A; cbn [loop_it]; [apply les_refl|].
  destruct (g (both A)) as [m q]. specialize (IH (N.lor A (all m))).
  destruct (loop_it g k (N.lor A (all m))) as [m' q']. cbn [fst] in *.
  eapply les_trans; [|exact IH]. apply les_both, nle_lor_l.
Qed.

Lemma nx_mono masks k env s P Q : les P Q -> le2 (nx masks k env s P) (nx masks k env s Q).
Proof. unfold les, le2. intro H. rewrite <- H at 2. now rewrite nx_add. Qed.

Lemma may_mono eo ee v P Q : les P Q -> les (may eo ee v P) (may eo ee v Q).
Proof. unfold les. intro H. rewrite <- H at 2. now rewrite may_join. Qed.

(* names against indices *)
Lemma nth_resolve (T : table) (n : string) : forall l : table,
  nth_error (map (fun nb => map (resolve T) (snd nb)) l) (index_of n l) =
  option_map (map (resolve T)) (lookup n l).
Proof.
  induction l as [|[m b] r IH]; cbn; [reflexivity|].
  destruct (String.eqb n m); [reflexivity|]. exact IH.
Qed.

(* ---- inclusion ---------------------------------------------------------------------------------- *)

Section Incl.
  Variable t : table.
  Variable masks : list (kind * N).
  Notation rt := (resolve_table t).

  (* fuel f of the checker against inlining depth d and k rounds per loop *)
  Definition elem_ok (f d k : nat) : Prop :=
    forall s env ev P, le2 (ex rt masks f env ev (resolve t s) P) (nx masks k env (inline t d ev s) P).

  Lemma blk_ok f d k : elem_ok f d k -> forall b env ev P P', les P P' ->
    le2 (xblk rt masks f env ev (map (resolve t) b) P) (nx masks k env (seq_of (map (inline t d ev) b)) P').
  Proof.
    intros E. induction b as [|a r IH]; intros env ev P P' H; cbn [map xblk seq_of].
    - cbn [nx]. apply le2_mk; [exact H | apply les_refl].
    - pose proof (le2_trans _ _ _ (E a env ev P) (nx_mono masks k env (inline t d ev a) P P' H)) as H1.
      destruct (ex rt masks f env ev (resolve t a) P) as [n1 r1].
      rewrite nx_seq_eq. destruct (nx masks k env (inline t d ev a) P') as [n1' r1']. cbn [fst snd].
      apply le2_pair in H1. cbn [fst snd] in H1. destruct H1 as [Hn Hr].
      specialize (IH env ev n1 n1' Hn).
      destruct (xblk rt masks f env ev (map (resolve t) r) n1) as [n2 r2].
      apply le2_pair in IH. cbn [fst snd] in IH. destruct IH as [Hn2 Hr2].
      apply le2_mk; [assumption | apply les_join; assumption].
  Qed.

  Lemma loop_ok (g : st -> st * st) env ev rb f :
    (forall P Q, g (join P Q) = jj (g P) (g Q)) ->
    (forall f', f' <= f -> forall P, le2 (xblk rt masks f' env ev rb P) (g P)) ->
    forall f', f' <= S f -> forall j, f' <= j -> forall A,
      le2 (ex rt masks f' env ev (RLoop rb) (both A)) (loop_it g j A).
  Proof.
    intros Hadd Hb. induction f' as [|f3 IH]; intros Hf j Hj A.
    - apply le2_bot.
    - rewrite ex_S. destruct (N.eqb (all (both A)) 0); [apply le2_bot|].
      rewrite !all_both. destruct j as [|j']; [lia|]. cbn [loop_it].
      pose proof (Hb f3 ltac:(lia) (both A)) as Hbody.
      destruct (xblk rt masks f3 env ev rb (both A)) as [n r].
      destruct (g (both A)) as [m q]. apply le2_pair in Hbody. cbn [fst snd] in Hbody.
      destruct Hbody as [Hn Hr].
      assert (HA : nle (N.lor A (all n)) (N.lor A (all m))).
      { apply nle_lor; [apply nle_refl | apply nle_all, Hn]. }
      pose proof (loop_it_ge g j' (N.lor A (all m))) as Hge.
      cbv zeta. destruct (N.eqb (N.lor A (all n)) A).
      + destruct (loop_it g j' (N.lor A (all m))) as [m' q']. cbn [fst] in Hge.
        apply le2_mk.
        * eapply les_trans; [|exact Hge]. apply les_both, nle_lor_l.
        * eapply les_trans; [exact Hr | apply les_join_l].
      + pose proof (IH ltac:(lia) j' ltac:(lia) (N.lor A (all n))) as H1.
        pose proof (le2_trans _ _ _ H1 (loop_it_mono g Hadd j' _ _ HA)) as H2.
        destruct (ex rt masks f3 env ev (RLoop rb) (both (N.lor A (all n)))) as [n' r'].
        destruct (loop_it g j' (N.lor A (all m))) as [m' q'].
        apply le2_pair in H2. cbn [fst snd] in H2. destruct H2 as [H3 H4].
        apply le2_mk; [assumption | apply les_join; assumption].
  Qed.

  Lemma incl : forall f d k, f <= d -> f <= k -> elem_ok f d k.
  Proof.
    induction f as [f IHf] using lt_wf_ind. intros d k Hd Hk s env ev P.
    destruct f as [|f]; [apply le2_bot|].
    destruct d as [|d']; [lia|]. rewrite ex_S. destruct (N.eqb (all P) 0) eqn:HP; [apply le2_bot|].
    assert (E : elem_ok f d' k) by (apply IHf; lia).
    destruct s; cbn [resolve inline]; try apply le2_refl.
    - (* Fn *)
      unfold resolve_table. rewrite (nth_resolve t name t).
      destruct (lookup name t) as [b|]; cbn [option_map]; [|apply le2_bot].
      unfold xcallee. cbn [nx].
      pose proof (blk_ok f d' k E b env (if String.eqb arg "" then ev else arg) P P (les_refl P)) as H.
      destruct (xblk _ _ _ _ _ _ _) as [n r]. destruct (nx _ _ _ _ _) as [n' r'].
      exact (scope_exit_mono (n, r) (n', r') H).
    - (* Run *)
      unfold resolve_table. rewrite (nth_resolve t name t).
      destruct (lookup name t) as [b|]; cbn [option_map]; [|apply le2_bot].
      unfold xcallee. cbn [nx].
      pose proof (blk_ok f d' k E b (inherit_env env inherit) "" (both (all P)) _ (les_refl _)) as H.
      destruct (xblk _ _ _ _ _ _ _) as [n r]. destruct (nx _ _ _ _ _) as [n' r'].
      exact (scope_exit_mono (n, r) (n', r') H).
    - (* If *)
      cbv zeta. rewrite nx_if_eq. cbv zeta.
      set (eo := eval_cond env (Some false) c). set (ee := eval_cond env (Some true) c).
      pose proof (blk_ok f d' k E th env ev _ _ (les_refl (may eo ee true P))) as H1.
      pose proof (blk_ok f d' k E el env ev _ _ (les_refl (may eo ee false P))) as H2.
      destruct (xblk rt masks f env ev (map (resolve t) th) _) as [n1 r1].
      destruct (xblk rt masks f env ev (map (resolve t) el) _) as [n2 r2].
      apply le2_pair in H1, H2. cbn [fst snd] in H1, H2. destruct H1 as [A1 B1], H2 as [A2 B2].
      apply le2_mk.
      + apply les_both, nle_lor; apply nle_all; assumption.
      + apply les_join; assumption.
    - (* Loop *)
      cbn [nx].
      pose proof (loop_ok (nx masks k env (seq_of (map (inline t d' ev) body))) env ev
                          (map (resolve t) body) f (nx_add masks k _ env)) as L.
      assert (Hb : forall f', f' <= f -> forall Q,
                 le2 (xblk rt masks f' env ev (map (resolve t) body) Q)
                     (nx masks k env (seq_of (map (inline t d' ev) body)) Q)).
      { intros f' Hf' Q. apply (blk_ok f' d' k); [apply IHf; lia | apply les_refl]. }
      specialize (L Hb (S f) (le_n _) k Hk (all P)).
      rewrite ex_S in L. rewrite !all_both, HP in L. exact L.
  Qed.
End Incl.

(* every path the checker finds through the table (entered at [entry], fuel <= DEPTH + 1) is a
   path of the inlined entry function under nx with [fuel] rounds per loop *)
Theorem raccepts_naccepts :
  forall (t : table) (inp : list kind) (fuel : nat) (entry : string) (env : string -> bool),
    fuel <= S DEPTH ->
    raccepts (resolve_table t) inp fuel (index_of entry t) env = true ->
    naccepts (inline_root t entry) inp fuel env = true.
Proof.
  intros t inp fuel entry env Hf. unfold raccepts, final, naccepts.
  set (masks := masks_of inp 1%N []).
  destruct fuel as [|f]; [cbn; discriminate|].
  rewrite ex_S. rewrite all_both. change (N.eqb 1 0) with false. cbv iota.
  unfold resolve_table at 1. rewrite (nth_resolve t entry t). unfold inline_root.
  destruct (lookup entry t) as [b|]; cbn [option_map].
  2:{ cbn. discriminate. }
  change (if String.eqb "" "" then "" else "") with "".
  unfold xcallee. cbn [nx].
  pose proof (blk_ok t masks f DEPTH (S f) (incl t masks f DEPTH (S f) ltac:(lia) ltac:(lia))
                     b env "" (both 1%N) (both 1%N) (les_refl _)) as H.
  destruct (xblk _ _ _ _ _ _ _) as [n r]. destruct (nx _ _ _ _ _) as [n' r'].
  pose proof (scope_exit_mono (n, r) (n', r') H) as H1. unfold scope_exit in H1 |- *.
  apply le2_pair in H1. cbn [fst snd] in H1 |- *. destruct H1 as [H1 _].
  apply nle_testbit. apply nle_all, H1.
Qed.

(* C02 — definitions used by the statements about the object-store handler:
   what the cluster looks like after a fault-free Client.update / Create / Delete, written as
   pure functions on the object map (the refinement targets of Engine/Cluster.v), and the
   field-level reading of the three-way merge. *)
From Coq Require Import List String Bool Arith.
From Helm Require Import Common.Assoc Engine.Types Engine.Eff Engine.Ops Engine.Cluster Engine.Seq.
Import ListNotations.

Definition objmap := list (string * fields).

(* a field map is a map: no field name twice (Go map[string]string) *)
Definition wf_fields (f : fields) : Prop := NoDup (akeys f).
Definition wf_res (r : res) : Prop := wf_fields (r_fields r).

(* the value of field [f] after a three-way merge, read off the three inputs:
   named by the new manifest -> its value; else named by the old manifest -> removed;
   else whatever the live object holds (foreign field) *)
Definition merged_get (old new live : fields) (f : string) : option string :=
  match aget f new with
  | Some v => Some v
  | None => if amem f old then None else aget f live
  end.

(* ---- fault-free Client.update, first phase, on the object map alone.
   None = the hard error "no <Kind> with the name found" *)
Fixpoint upd_targets (o : objmap) (cur tgt : list res) : option objmap :=
  match tgt with
  | [] => Some o
  | r :: t =>
      let key := rkey r in
      match aget key o with
      | None => upd_targets (aset key (r_fields r) o) cur t
      | Some live =>
          match find_res key cur with
          | None => None
          | Some old =>
              if patch_needed (r_fields old) (r_fields r) live
              then upd_targets (aset key (three_way (r_fields old) (r_fields r) live) o) cur t
              else upd_targets o cur t
          end
      end
  end.

(* second phase: delete unless the LIVE object says keep *)
Definition keep_filter (x : option fields) : option fields :=
  match x with
  | Some live => if live_keep live then Some live else None
  | None => None
  end.

Fixpoint upd_deletes (o : objmap) (dels : list res) : objmap :=
  match dels with
  | [] => o
  | r :: t =>
      match aget (rkey r) o with
      | None => upd_deletes o t
      | Some live => if live_keep live then upd_deletes o t else upd_deletes (adel (rkey r) o) t
      end
  end.

Definition removed (cur tgt : list res) : list res :=
  filter (fun o => negb (in_keys (rkey o) tgt)) cur.

Definition upd (o : objmap) (cur tgt : list res) : option objmap :=
  match upd_targets o cur tgt with
  | Some o1 => Some (upd_deletes o1 (removed cur tgt))
  | None => None
  end.

(* fault-free Client.Create: (objects, ok) — an existing object makes the call fail but the
   other resources are still posted *)
Fixpoint create_all (o : objmap) (rs : list res) (ok : bool) : objmap * bool :=
  match rs with
  | [] => (o, ok)
  | r :: t =>
      if amem (rkey r) o then create_all o t false
      else create_all (aset (rkey r) (r_fields r) o) t ok
  end.

(* fault-free Client.Delete *)
Fixpoint delete_all_objs (o : objmap) (rs : list res) : objmap :=
  match rs with
  | [] => o
  | r :: t => delete_all_objs (adel (rkey r) o) t
  end.

Definition nofault (k : kstate) : Prop := kfault k = None.

(* ---- uninstall: deleteRelease's filesToDelete / filesToKeep after filterManifestsToKeep ---- *)
Definition uninstall_deleted (rel : release) : list res :=
  filter (fun r => negb (manifest_keep r)) (manifest rel).
Definition uninstall_kept (rel : release) : list res := filter manifest_keep (manifest rel).

(* what the response's Info lists ("[Kind] name" per kept manifest entry) when uninstall runs on [w] *)
Definition kept_label (r : res) : string := ("[" ++ r_kind r ++ "] " ++ r_name r)%string.

Definition model_kept (w : world) : list string :=
  match max_rev_of (w_led w) with
  | Some last => if status_eqb (st last) SUninstalled then [] else map kept_label (uninstall_kept last)
  | None => []
  end.

(* ---- upgrade: the revision whose manifest is the "original" of Client.update
   (upgrade.go: the last revision when it is deployed, else the latest deployed one, else the
   last revision when it is failed or superseded) ---- *)
Definition upgrade_current (l : list release) : option release :=
  match max_rev_of l with
  | None => None
  | Some last =>
      if is_pending (st last) then None
      else if status_eqb (st last) SDeployed then Some last
      else match max_rev_of (filter (fun r => status_eqb (st r) SDeployed) l) with
           | Some d => Some d
           | None => if status_eqb (st last) SFailed || status_eqb (st last) SSuperseded
                     then Some last else None
           end
  end.

(* ---- rollback: the revision rolled back to (rollback.go: Version, or the one before the latest) ---- *)
Definition rollback_target (fl : flags) (l : list release) : option (release * release) :=
  match max_rev_of l with
  | None => None
  | Some cur =>
      let prev := match f_version fl with 0 => rev cur - 1 | v => v end in
      match find (fun r => Nat.eqb (rev r) prev) l with
      | Some pr => Some (cur, pr)
      | None => None
      end
  end.

(* Every call site of the expected skeleton (an effect, a call of a tracked function, a run of
   a nested action) is NEEDED by the model, except the ones listed in [not_needed] with the
   reason: with that one site deleted from the table, some run of the scenario space is no
   longer a path.  So the Go code has no effectful call, outside the list, that the model
   never performs.

   The witnesses were found by the search at the end of this file (Eval, commented out;
   about 10 minutes for all sites) and are checked here in about a second.  When the expected
   skeleton changes, the numbering of the sites changes with it: re-run the search. *)
From Coq Require Import List String Bool Arith.
From Helm Require Import Engine.Types Engine.Eff Engine.Ops Engine.Skeleton Engine.SkeletonExpected
                         Engine.SkeletonModel Engine.SkeletonProofs.
Import ListNotations.
Local Open Scope string_scope.

(* a run of the scenario space: position in [ops], in [flag_space o], in [ledgers], adopt,
   failing positions *)
Definition wit := (nat * nat * nat * bool * list nat)%type.

Definition wit_run (w : wit) : option (scen * list nat) :=
  let '(io, ifl, il, ad, fails) := w in
  match nth_error ops io with
  | Some o =>
      match nth_error (flag_space o) ifl with
      | Some fl =>
          match nth_error ledgers il with
          | Some l => Some (mkScen o fl l ad, fails)
          | None => None
          end
      | None => None
      end
  | None => None
  end.

Definition follows_pair (t : table) (sf : scen * list nat) : bool :=
  follows t (resolve_table t) (fst sf) (snd sf).

Definition site := (string * nat)%type.

Definition site_eqb (a b : site) : bool := String.eqb (fst a) (fst b) && Nat.eqb (snd a) (snd b).

Definition mem (x : site) (l : list site) : bool := existsb (site_eqb x) l.

(* all call sites of a table: (function, index in preorder) *)
Definition all_sites (t : table) : list site :=
  flat_map (fun nb => map (fun i => (fst nb, i)) (seq 0 (List.length (flat_map sk_sites (snd nb))))) t.

(* ---- generic lemmas ---------------------------------------------------------------------- *)

Lemma wit_run_in (w : wit) (s : scen) (fails : list nat) :
  wit_run w = Some (s, fails) -> In (sc_fl s) (flag_space (sc_op s)) /\ In (sc_led s) ledgers.
Proof.
  destruct w as [[[[io ifl] il] ad] fs]. unfold wit_run.
  destruct (nth_error ops io) as [o|] eqn:Eo; [|discriminate].
  destruct (nth_error (flag_space o) ifl) as [fl|] eqn:Ef; [|discriminate].
  destruct (nth_error ledgers il) as [l|] eqn:El; [|discriminate].
  intro H. inversion H; subst; clear H. cbn [sc_fl sc_op sc_led].
  split; eapply nth_error_In; eassumption.
Qed.

Lemma wit_reject_spec (F : scen * list nat -> bool) (w : wit) :
  match wit_run w with Some sf => negb (F sf) | None => false end = true ->
  exists s fails, wit_run w = Some (s, fails) /\ F (s, fails) = false.
Proof.
  destruct (wit_run w) as [[s fails]|]; [|discriminate].
  intro H. exists s, fails. split; [reflexivity|].
  apply negb_true_iff in H. exact H.
Qed.

Lemma site_eqb_eq (a b : site) : site_eqb a b = true -> a = b.
Proof.
  destruct a as [a1 a2], b as [b1 b2]. unfold site_eqb; cbn [fst snd].
  intro H. apply andb_prop in H. destruct H as [H1 H2].
  apply String.eqb_eq in H1. apply Nat.eqb_eq in H2. subst. reflexivity.
Qed.

Lemma mem_In (x : site) (l : list site) : mem x l = true -> In x l.
Proof.
  unfold mem. intro H. apply existsb_exists in H. destruct H as [y [Hy He]].
  apply site_eqb_eq in He. subst. exact Hy.
Qed.

Lemma cover_spec (L A B : list site) :
  forallb (fun x => mem x A || mem x B) L = true ->
  forall x, In x L -> In x A \/ In x B.
Proof.
  intros H x Hx. pose proof (forallb_In _ _ H x Hx) as H1. cbv beta in H1.
  apply orb_prop in H1. destruct H1 as [H1|H1]; [left|right]; apply mem_In; exact H1.
Qed.

Lemma needed_spec (W : list (site * wit)) (F : site -> scen * list nat -> bool) :
  forallb (fun x => match wit_run (snd x) with Some sf => negb (F (fst x) sf) | None => false end) W = true ->
  forall st w, In (st, w) W ->
    exists s fails, wit_run w = Some (s, fails) /\ F st (s, fails) = false.
Proof.
  intros H st w Hin.
  pose proof (forallb_In _ _ H (st, w) Hin) as H1. cbv beta in H1. cbn [fst snd] in H1.
  exact (wit_reject_spec (F st) w H1).
Qed.

Lemma accepted_spec (W : list (site * wit)) (G : scen -> list nat -> bool) :
  forallb (fun x => match wit_run (snd x) with Some sf => G (fst sf) (snd sf) | None => false end) W = true ->
  forall st w s fails, In (st, w) W -> wit_run w = Some (s, fails) -> G s fails = true.
Proof.
  intros H st w s fails Hin Hr.
  pose proof (forallb_In _ _ H (st, w) Hin) as H1. cbv beta in H1. cbn [fst snd] in H1.
  rewrite Hr in H1. exact H1.
Qed.

(* ---- the data -------------------------------------------------------------------------------- *)

Definition needed : list (site * wit) :=
  [ (("Install.RunWithContext", 0), (0, 0, 0, false, []));
    (("Install.RunWithContext", 2), (0, 1, 0, false, []));
    (("Install.RunWithContext", 3), (0, 0, 0, false, []));
    (("Install.RunWithContext", 5), (0, 16, 1, false, [0]));
    (("Install.RunWithContext", 6), (0, 0, 0, false, []));
    (("Install.RunWithContext", 7), (0, 0, 0, false, []));
    (("Install.RunWithContext", 8), (0, 0, 0, false, [3]));
    (("Install.performInstallCtx", 0), (0, 0, 0, false, []));
    (("Install.performInstall", 0), (0, 0, 0, false, []));
    (("Install.performInstall", 1), (0, 0, 0, false, []));
    (("Install.performInstall", 2), (0, 1, 0, true, []));
    (("Install.performInstall", 3), (0, 0, 0, true, []));
    (("Install.performInstall", 5), (0, 0, 0, false, []));
    (("Install.performInstall", 6), (0, 0, 0, false, []));
    (("Install.performInstall", 7), (0, 32, 0, false, []));
    (("Install.failRelease", 0), (0, 32, 0, false, [3]));
    (("Install.failRelease", 1), (0, 0, 0, false, [3]));
    (("Install.availableName", 0), (0, 0, 0, false, []));
    (("Install.recordRelease", 0), (0, 0, 0, false, []));
    (("Install.replaceRelease", 0), (0, 16, 1, false, [0]));
    (("Install.replaceRelease", 1), (0, 16, 1, false, [0]));
    (("Upgrade.RunWithContext", 0), (1, 0, 0, false, []));
    (("Upgrade.RunWithContext", 1), (1, 0, 1, false, []));
    (("Upgrade.RunWithContext", 2), (1, 0, 1, false, []));
    (("Upgrade.prepareUpgrade", 0), (1, 0, 0, false, []));
    (("Upgrade.prepareUpgrade", 1), (1, 0, 3, false, []));
    (("Upgrade.performUpgrade", 0), (1, 2, 1, false, []));
    (("Upgrade.performUpgrade", 1), (1, 0, 1, false, []));
    (("Upgrade.performUpgrade", 2), (1, 0, 1, false, []));
    (("Upgrade.performUpgrade", 3), (1, 0, 1, false, []));
    (("Upgrade.reportToPerformUpgrade", 0), (1, 16, 1, false, [13]));
    (("Upgrade.releasingUpgrade", 0), (1, 0, 1, false, []));
    (("Upgrade.releasingUpgrade", 1), (1, 0, 1, false, [3]));
    (("Upgrade.releasingUpgrade", 2), (1, 0, 1, false, []));
    (("Upgrade.releasingUpgrade", 11), (1, 0, 1, false, []));
    (("Upgrade.releasingUpgrade", 12), (1, 16, 1, false, [14]));
    (("Upgrade.releasingUpgrade", 13), (1, 16, 1, false, [14]));
    (("Upgrade.releasingUpgrade", 14), (1, 0, 1, false, []));
    (("Upgrade.releasingUpgrade", 15), (1, 0, 1, false, [15]));
    (("Upgrade.failRelease", 0), (1, 16, 1, false, [13]));
    (("Upgrade.failRelease", 1), (1, 16, 1, false, [13]));
    (("Upgrade.failRelease", 2), (1, 32, 1, false, [3]));
    (("Upgrade.failRelease", 3), (1, 32, 1, false, [3]));
    (("Rollback.Run", 0), (1, 32, 1, false, [3]));
    (("Rollback.Run", 1), (1, 32, 1, false, [3]));
    (("Rollback.Run", 2), (1, 32, 1, false, [3]));
    (("Rollback.Run", 3), (2, 0, 2, false, [4]));
    (("Rollback.prepareRollback", 0), (1, 32, 1, false, [3]));
    (("Rollback.prepareRollback", 1), (1, 32, 1, false, [3]));
    (("Rollback.prepareRollback", 2), (1, 32, 1, false, [3]));
    (("Rollback.performRollback", 0), (1, 32, 1, false, [3]));
    (("Rollback.performRollback", 1), (1, 32, 1, false, [3]));
    (("Rollback.performRollback", 2), (2, 16, 2, false, [14]));
    (("Rollback.performRollback", 3), (2, 16, 2, false, [14]));
    (("Rollback.performRollback", 4), (2, 16, 2, false, [14]));
    (("Rollback.performRollback", 9), (1, 32, 1, false, [3]));
    (("Rollback.performRollback", 12), (1, 32, 1, false, [3]));
    (("Rollback.performRollback", 13), (1, 32, 1, false, [3]));
    (("Rollback.performRollback", 14), (1, 32, 5, false, [3]));
    (("Uninstall.Run", 0), (3, 1, 0, false, []));
    (("Uninstall.Run", 1), (0, 32, 0, false, [3]));
    (("Uninstall.Run", 2), (3, 0, 4, false, []));
    (("Uninstall.Run", 3), (0, 32, 0, false, [3]));
    (("Uninstall.Run", 4), (0, 32, 0, false, [3]));
    (("Uninstall.Run", 5), (0, 32, 0, false, [3]));
    (("Uninstall.Run", 6), (0, 32, 0, false, [3]));
    (("Uninstall.Run", 7), (0, 32, 0, false, [3]));
    (("Uninstall.Run", 8), (0, 32, 0, false, [3]));
    (("Uninstall.Run", 9), (3, 4, 1, false, []));
    (("Uninstall.purgeReleases", 0), (0, 32, 0, false, [3]));
    (("History.Run", 0), (1, 32, 1, false, [3]));
    (("Configuration.execHook", 0), (0, 0, 0, false, []));
    (("Configuration.execHook", 1), (0, 0, 0, false, []));
    (("Configuration.execHook", 2), (0, 0, 0, false, []));
    (("Configuration.execHook", 3), (0, 0, 0, false, []));
    (("Configuration.deleteHookByPolicy", 0), (0, 0, 0, false, []));
    (("Configuration.deleteHookByPolicy", 1), (0, 0, 0, false, []));
    (("Configuration.recordRelease", 0), (0, 0, 0, false, []));
    (("Configuration.releaseContent", 0), (3, 1, 0, false, []));
    (("Storage.Get", 0), (1, 32, 1, false, [3]));
    (("Storage.Create", 0), (1, 1, 1, false, []));
    (("Storage.Create", 1), (0, 0, 0, false, []));
    (("Storage.Update", 0), (0, 0, 0, false, []));
    (("Storage.Delete", 0), (0, 32, 0, false, [3]));
    (("Storage.Deployed", 0), (1, 0, 3, false, []));
    (("Storage.DeployedAll", 0), (1, 0, 3, false, []));
    (("Storage.History", 0), (0, 0, 0, false, []));
    (("Storage.removeLeastRecent", 0), (1, 1, 1, false, []));
    (("Storage.removeLeastRecent", 1), (1, 1, 2, false, []));
    (("Storage.removeLeastRecent", 2), (1, 1, 2, false, []));
    (("Storage.deleteReleaseVersion", 0), (1, 1, 2, false, []));
    (("Storage.Last", 0), (1, 0, 0, false, [])) ].

Definition not_needed : list (site * string) :=
  [ (("Install.Run", 0), "wrapper, not below the entry point Install.RunWithContext");
    (("Install.RunWithContext", 1), "crds/ directory: outside the model");
    (("Install.RunWithContext", 4), "CreateNamespace: outside the model");
    (("Install.performInstall", 4), "WaitForJobs: outside the model");
    (("Upgrade.Run", 0), "wrapper, not below the entry point Upgrade.RunWithContext");
    (("Upgrade.performUpgrade", 4), "handleContext only acts when the context is cancelled: outside the model");
    (("Upgrade.handleContext", 0), "context cancelled: outside the model");
    (("Upgrade.releasingUpgrade", 3), "Update-failure branch: same kinds as the GetWaiter-failure branch (sites 6,7)");
    (("Upgrade.releasingUpgrade", 4), "Update-failure branch: same kinds as the GetWaiter-failure branch (sites 6,7)");
    (("Upgrade.releasingUpgrade", 5), "Recreate: outside the model");
    (("Upgrade.releasingUpgrade", 6), "GetWaiter fails: outside the model");
    (("Upgrade.releasingUpgrade", 7), "GetWaiter fails: outside the model");
    (("Upgrade.releasingUpgrade", 8), "WaitForJobs: outside the model");
    (("Upgrade.releasingUpgrade", 9), "WaitForJobs: outside the model");
    (("Upgrade.releasingUpgrade", 10), "WaitForJobs: outside the model");
    (("Upgrade.releasingUpgrade", 16), "success path: same kinds (two updates) as the wait-failure path without cleanup and atomic");
    (("Upgrade.releasingUpgrade", 17), "passes nil: no effect of its own");
    (("Rollback.Run", 4), "an update right behind the supersede loop, which admits any number of updates");
    (("Rollback.performRollback", 5), "Recreate: outside the model");
    (("Rollback.performRollback", 6), "WaitForJobs: outside the model");
    (("Rollback.performRollback", 7), "WaitForJobs: outside the model");
    (("Rollback.performRollback", 8), "WaitForJobs: outside the model");
    (("Rollback.performRollback", 10), "wait-failure branch: one of its two updates can be the conditional one of Rollback.Run");
    (("Rollback.performRollback", 11), "wait-failure branch: one of its two updates can be the conditional one of Rollback.Run");
    (("Uninstall.deleteRelease", 0), "DeleteWithPropagationPolicy / Delete are alternatives of the same kind");
    (("Uninstall.deleteRelease", 1), "DeleteWithPropagationPolicy / Delete are alternatives of the same kind");
    (("Configuration.execHook", 4), "pod logs: outside the model");
    (("Configuration.execHook", 5), "the hook deletion it makes can also be made by deleteHooksByPolicy right behind it");
    (("Configuration.execHook", 6), "deletes nothing when no earlier hook has the policy; otherwise same kinds as site 5");
    (("Configuration.execHook", 7), "pod logs: outside the model");
    (("Configuration.execHook", 8), "inside a loop next to the before-hook-creation deletion of the main loop: same kinds");
    (("Configuration.deleteHooksByPolicy", 0), "only reached from execHook site 6");
    (("Configuration.outputLogsByPolicy", 0), "pod logs: outside the model");
    (("Configuration.outputLogsByPolicy", 1), "pod logs: outside the model");
    (("Configuration.outputContainerLogsForListOptions", 0), "pod logs: outside the model");
    (("Configuration.outputContainerLogsForListOptions", 1), "pod logs: outside the model");
    (("Configuration.releaseContent", 1), "version > 0: uninstall --dry-run passes 0") ].

(* ---- the checks ------------------------------------------------------------------------------ *)

(* does the run sf follow the expected skeleton with the call site st deleted? *)
Definition del_follows (st : site) (sf : scen * list nat) : bool :=
  follows_pair (table_del (fst st) (snd st) expected) sf.

Lemma needed_check :
  forallb (fun x => match wit_run (snd x) with Some sf => negb (del_follows (fst x) sf) | None => false end)
          needed = true.
Proof. vm_cast_no_check (eq_refl true). Qed.

Lemma accepted_check :
  forallb (fun x => match wit_run (snd x) with Some sf => follows expected rexpected (fst sf) (snd sf) | None => false end)
          needed = true.
Proof. vm_cast_no_check (eq_refl true). Qed.

Lemma cover_check :
  forallb (fun x => mem x (map fst needed) || mem x (map fst not_needed)) (all_sites expected) = true.
Proof. vm_cast_no_check (eq_refl true). Qed.

(* every listed witness run is a path of the full skeleton (it is a run of the scenario space)
   and is not a path any more when the site is deleted *)
Lemma skeleton_sites_needed_lemma :
  forall (st : site) (w : wit), In (st, w) needed ->
    exists s fails,
      wit_run w = Some (s, fails) /\
      In (sc_fl s) (flag_space (sc_op s)) /\ In (sc_led s) ledgers /\
      follows expected rexpected s fails = true /\
      del_follows st (s, fails) = false.
Proof.
  intros st w Hin.
  destruct (needed_spec needed del_follows needed_check st w Hin) as [s [fails [Hr Hf]]].
  exists s, fails. destruct (wit_run_in w s fails Hr) as [H1 H2].
  split; [exact Hr|]. split; [exact H1|]. split; [exact H2|].
  split; [|exact Hf].
  exact (accepted_spec needed (follows expected rexpected) accepted_check st w s fails Hin Hr).
Qed.

Lemma skeleton_sites_covered_lemma :
  forall st, In st (all_sites expected) -> In st (map fst needed) \/ In st (map fst not_needed).
Proof. exact (cover_spec (all_sites expected) (map fst needed) (map fst not_needed) cover_check). Qed.

Lemma site_counts :
  List.length (all_sites expected) = 129 /\ List.length needed = 92 /\ List.length not_needed = 37.
Proof. vm_compute. repeat split. Qed.

(* ---- how the witnesses were found -------------------------------------------------------------
Fixpoint find_first {A B} (P : A -> option B) (l : list A) : option B :=
  match l with [] => None | x :: r => match P x with Some b => Some b | None => find_first P r end end.
Fixpoint enum {A} (n : nat) (l : list A) : list (nat * A) :=
  match l with [] => [] | x :: r => (n, x) :: enum (S n) r end.
Definition search (t : table) : option wit :=
  let rt := resolve_table t in
  find_first (fun io => find_first (fun ifl => find_first (fun il => find_first (fun ad =>
    let s := mkScen (snd io) (snd ifl) (snd il) ad in
    if negb (follows t rt s []) then Some (fst io, fst ifl, fst il, ad, [])
    else find_first (fun n => if negb (follows t rt s [n]) then Some (fst io, fst ifl, fst il, ad, [n]) else None)
                    (seq 0 (List.length (model_trace s []))))
    bools) (enum 0 ledgers)) (enum 0 (flag_space (snd io)))) (enum 0 ops).
Eval vm_compute in map (fun st => (st, search (table_del (fst st) (snd st) expected))) (all_sites expected).
*)

(* Tie between the model programs of Engine/Ops.v and an effect skeleton: run a program on a
   scripted world, keep the kinds of the effects it performs, and ask whether that sequence
   is a path through the skeleton of the corresponding Go entry point.  Definitions only.

   Abstraction map (Go call -> model effect -> kind), 1:1 on kinds:
     Driver.Query{name,owner}         SHistory      DHistory   (Storage.History, .Last)
     Driver.Query{..,status:deployed} SDeployedAll  DDeployed  (Storage.DeployedAll, .Deployed)
     Driver.Get/Create/Update/Delete  SGet/SCreate/SUpdate/SDelete   DGet/DCreate/DUpdate/DDelete
     requireAdoption / existingResourceConflict   KExisting _ take   KcExisting take
     KubeClient.Create                KCreate       KcCreate
     KubeClient.Update / UpdateThreeWayMerge      KUpdate            KcUpdate
     KubeClient.Delete / DeleteWithPropagationPolicy   KDelete       KcDelete
     Waiter.Wait / WaitForDelete / WatchUntilReady     KWait / KWaitDelete / KHookWatch ev
   Storage.Create = removeLeastRecent ; Driver.Create is storage_create; cfg.recordRelease and
   Install.recordRelease are record_release. *)
From Coq Require Import List String Bool Arith ZArith.
From Helm Require Import Common.Assoc Engine.Types Engine.Eff Engine.Ops Engine.Cluster Engine.Seq
                         Engine.Skeleton.
Import ListNotations.
Local Open Scope string_scope.

Definition kind_of (e : eff) : kind :=
  match e with
  | SHistory => DHistory
  | SDeployedAll => DDeployed
  | SGet _ => DGet
  | SCreate _ => DCreate
  | SUpdate _ => DUpdate
  | SDelete _ => DDelete
  | KExisting _ take => KcExisting take
  | KCreate _ => KcCreate
  | KUpdate _ _ => KcUpdate
  | KDelete _ => KcDelete
  | KWait _ => KcWait
  | KWaitDelete _ => KcWaitDelete
  | KHookWatch ev _ => KcWatch (event_str ev)
  end.

(* the option flags of the Go actions as the model's flag record sees them; every option the
   model does not have (Recreate, WaitForJobs, CreateNamespace, HideSecret, SkipCRDs,
   IgnoreNotFound, IsUpgrade, ...) is off *)
Definition env_of (fl : flags) (f : string) : bool :=
  if String.eqb f "Atomic" then f_atomic fl
  else if String.eqb f "CleanupOnFail" then f_cleanup fl
  else if String.eqb f "KeepHistory" then f_keep_history fl
  else if String.eqb f "Replace" then f_replace fl
  else if String.eqb f "DisableHooks" then f_no_hooks fl
  else if String.eqb f "DryRun" then f_dry_run fl
  else if String.eqb f "ClientOnly" then f_client_only fl
  else if String.eqb f "TakeOwnership" then f_take_ownership fl
  else false.

(* ---- a scripted world ------------------------------------------------------------------ *)

(* the answer to an effect that fails (a storage read that "fails" finds nothing) *)
Definition fail_resp (e : eff) : resp e :=
  match e with
  | KUpdate _ tgt => (false, tgt)          (* some resources were created before the error *)
  | other => dead_resp other
  end.

(* the answer of a cluster that does what it is asked; [adopt]: the resources asked about
   already exist and may be adopted *)
Definition ok_resp (adopt : bool) (e : eff) : resp e :=
  match e with
  | KExisting rs _ => Some (if adopt then rs else [])
  | KCreate _ => true
  | KUpdate _ tgt => (true, tgt)
  | KDelete _ => true
  | KWait _ | KWaitDelete _ => true
  | KHookWatch _ _ => true
  | other => dead_resp other
  end.

(* run a program: the storage is the ledger (Seq.storage_apply), the cluster answers
   [ok_resp], and the effects whose 0-based position is in [fails] fail *)
Fixpoint trace {A} (adopt : bool) (fails : list nat) (p : prog A) (led : list release) (n : nat)
  : list kind :=
  match p with
  | Ret _ => []
  | Eff e k =>
      if existsb (Nat.eqb n) fails then
        kind_of e :: trace adopt fails (k (fail_resp e)) led (S n)
      else if is_cluster_call e then
        kind_of e :: trace adopt fails (k (ok_resp adopt e)) led (S n)
      else
        let '(led', r, _) := storage_apply dead_resp e led in
        kind_of e :: trace adopt fails (k r) led' (S n)
  end.

(* ---- scenarios --------------------------------------------------------------------------- *)

Definition rn := "rel".
Definition ns := "default".

Definition r1 := mkRes "ConfigMap" "a" [("d:k", "1")].
Definition r2 := mkRes "ConfigMap" "b" [("d:k", "2")].
Definition r3 := mkRes "Secret" "c" [("d:k", "3")].

Definition all_events := [PreInstall; PostInstall; PreDelete; PostDelete; PreUpgrade; PostUpgrade;
                          PreRollback; PostRollback].
(* two hooks on every event: default policy (before-hook-creation) and succeeded+failed *)
Definition h1 := mkHook (mkRes "Job" "h1" []) all_events 0%Z [].
Definition h2 := mkHook (mkRes "Job" "h2" []) all_events 1%Z [HookSucceeded; HookFailed].
Definition hks := [h1; h2].

Definition rel (v : nat) (s : status) : release := mkRelease v s 1 1 [r1; r2] hks.

Definition ledgers : list (list release) :=
  [ [];
    [rel 1 SDeployed];
    [rel 1 SSuperseded; rel 2 SDeployed];
    [rel 1 SDeployed; rel 2 SFailed];
    [rel 1 SUninstalled];
    [rel 1 SSuperseded; rel 2 SDeployed; rel 3 SDeployed];
    [rel 1 SDeployed; rel 2 SPendingUpgrade];
    [rel 1 SSuperseded; rel 2 SSuperseded; rel 3 SFailed] ].

Definition bools := [false; true].

(* bounded quantifier over bool *)
Definition fb (P : bool -> bool) : bool := P false && P true.

(* all assignments of the eight boolean options, for max-history mh and rollback version v *)
Definition all_flags (mh v : nat) (P : flags -> bool) : bool :=
  fb (fun a => fb (fun c => fb (fun k => fb (fun r => fb (fun h => fb (fun d => fb (fun o =>
  fb (fun t => P (mkFlags a c k r mh h d o t v))))))))).

Inductive opk := OInstall | OUpgrade | ORollback | OUninstall.

Record scen := mkScen {
  sc_op : opk; sc_fl : flags; sc_led : list release; sc_adopt : bool }.

Definition entry_of (o : opk) : string :=
  match o with
  | OInstall => "Install.RunWithContext"
  | OUpgrade => "Upgrade.RunWithContext"
  | ORollback => "Rollback.Run"
  | OUninstall => "Uninstall.Run"
  end.

Definition prog_of (s : scen) : prog outcome :=
  match sc_op s with
  | OInstall => install rn ns (sc_fl s) 2 2 [r1; r3] hks
  | OUpgrade => upgrade rn ns (sc_fl s) 2 2 [r1; r3] hks
  | ORollback => rollback rn ns (sc_fl s)
  | OUninstall => uninstall (sc_fl s)
  end.

Definition model_trace (s : scen) (fails : list nat) : list kind :=
  trace (sc_adopt s) fails (prog_of s) (sc_led s) 0.

Definition ops := [OInstall; OUpgrade; ORollback; OUninstall].
Definition max_histories := [0; 2].
Definition versions := [0; 1].

(* the options an operation reads (Engine/Ops.v), varied; the others off.
     install:   atomic replace no-hooks dry-run client-only take-ownership
     upgrade:   atomic cleanup-on-fail no-hooks dry-run take-ownership, max-history 0 / 2
     rollback:  cleanup-on-fail no-hooks dry-run, max-history 0 / 2, version 0 (previous) / 1
     uninstall: keep-history no-hooks dry-run *)
Definition flag_space (o : opk) : list flags :=
  match o with
  | OInstall =>
      flat_map (fun a => flat_map (fun r => flat_map (fun h => flat_map (fun d => flat_map (fun co =>
      map (fun t => mkFlags a false false r 0 h d co t 0) bools) bools) bools) bools) bools) bools
  | OUpgrade =>
      flat_map (fun a => flat_map (fun c => flat_map (fun h => flat_map (fun d => flat_map (fun t =>
      map (fun mh => mkFlags a c false false mh h d false t 0) max_histories) bools) bools) bools) bools) bools
  | ORollback =>
      flat_map (fun c => flat_map (fun h => flat_map (fun d => flat_map (fun mh =>
      map (fun v => mkFlags false c false false mh h d false false v) versions) max_histories) bools) bools) bools
  | OUninstall =>
      flat_map (fun k => flat_map (fun h =>
      map (fun d => mkFlags false false k false 0 h d false false 0) bools) bools) bools
  end.

Definition FUEL := 60.

(* the model's behaviour in scenario s, with the effects at the positions [fails] failing, is
   a path of the (resolved) skeleton rt, entered at the Go entry point of the operation *)
Definition follows (t : table) (rt : rtable) (s : scen) (fails : list nat) : bool :=
  raccepts rt (model_trace s fails) FUEL (index_of (entry_of (sc_op s)) t) (env_of (sc_fl s)).

(* ... without a failure, and with the n-th effect failing for every position n below len
   (len = the length of the failure-free run).  [F fails] is [follows t rt s fails]; kept
   abstract so that the lifting lemma does not have to unfold the checker. *)
Definition single_ok (F : list nat -> bool) (len : nat) : bool :=
  F [] && forallb (fun n => F [n]) (seq 0 len).

Notation scen_ok t rt s := (single_ok (follows t rt s) (List.length (model_trace s []))).

(* the smaller space in which every single failure is tried (all of it would cost minutes in
   coqchk; Engine/SkeletonDeep.v does the full flag_space x ledgers x adopt by hand):
     install:   atomic x no-hooks x replace          on  [] , [1 uninstalled]
     upgrade:   atomic x cleanup-on-fail x no-hooks  (max-history 2)
     rollback:  cleanup-on-fail x no-hooks           (max-history 2, previous version)
                                                     on  [1 superseded; 2 deployed],
                                                         [1 deployed; 2 failed],
                                                         [1 superseded; 2 deployed; 3 deployed]
     uninstall: keep-history x no-hooks              on  [1 deployed], [1 uninstalled],
                                                         [1 superseded; 2 deployed]
   adopt = false *)
Definition fail_flag_space (o : opk) : list flags :=
  match o with
  | OInstall =>
      flat_map (fun a => flat_map (fun h => map (fun r =>
        mkFlags a false false r 0 h false false false 0) bools) bools) bools
  | OUpgrade =>
      flat_map (fun a => flat_map (fun c => map (fun h =>
        mkFlags a c false false 2 h false false false 0) bools) bools) bools
  | ORollback =>
      flat_map (fun c => map (fun h => mkFlags false c false false 2 h false false false 0) bools) bools
  | OUninstall =>
      flat_map (fun k => map (fun h => mkFlags false false k false 0 h false false false 0) bools) bools
  end.

Definition fail_ledgers (o : opk) : list (list release) :=
  match o with
  | OInstall => [ []; [rel 1 SUninstalled] ]
  | OUpgrade | ORollback =>
      [ [rel 1 SSuperseded; rel 2 SDeployed];
        [rel 1 SDeployed; rel 2 SFailed];
        [rel 1 SSuperseded; rel 2 SDeployed; rel 3 SDeployed] ]
  | OUninstall =>
      [ [rel 1 SDeployed]; [rel 1 SUninstalled]; [rel 1 SSuperseded; rel 2 SDeployed] ]
  end.

(* the ledger on which all 256 option assignments are tried *)
Definition main_ledger (o : opk) : list release :=
  match o with
  | OInstall => []
  | _ => [rel 1 SSuperseded; rel 2 SDeployed]
  end.

(* the finite checks behind the theorems of Engine/SkeletonProofs*.v (notations, so that the
   statements are syntactically nested forallb's) *)

(* operation o, failure-free: the options it reads x ledgers x adopt *)
Notation check_op_ok o t rt :=
  (forallb (fun fl => forallb (fun l => fb (fun ad =>
     follows t rt (mkScen o fl l ad) [])) ledgers) (flag_space o)).

(* operation o, failure-free and every single failure, on the smaller space *)
Notation check_op_fail o t rt :=
  (forallb (fun fl => forallb (fun l => scen_ok t rt (mkScen o fl l false)) (fail_ledgers o))
           (fail_flag_space o)).

(* operation o: every assignment of the eight options (also the ones it does not read),
   max-history 2, failure-free, on the main ledger *)
Notation check_op_all_flags o t rt :=
  (all_flags 2 0 (fun fl => follows t rt (mkScen o fl (main_ledger o) false) [])).

(* operation o, failure-free and every single failure, on the whole space (SkeletonDeep.v) *)
Notation check_op_deep o t rt :=
  (forallb (fun fl => forallb (fun l => fb (fun ad =>
     scen_ok t rt (mkScen o fl l ad))) ledgers) (flag_space o)).

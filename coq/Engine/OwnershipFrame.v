(* C07 — proofs, part 6: nothing outside the release is touched.
   A = keys of every manifest and hook of every revision stored at operation start, plus the
   keys of the operation's own chart.  Second traversal of the four programs (the first is
   Engine/OwnershipConfine.v, about deletes): every cluster call that writes — Create, Update,
   Delete — names only resources whose keys are in A; and the object-store handler changes only
   objects at keys named by the call.  Hence, for every operation, flags record, world and
   storage-fault / crash / cluster-fault plan: an object at a key outside A is, after the
   operation, exactly what it was before. *)
From Coq Require Import List String Bool Arith ZArith Lia.
From Helm Require Import Common.Assoc Engine.Types Engine.Eff Engine.Ops Engine.Cluster Engine.Seq
                         Engine.DryRun Engine.DryRunProofs Engine.Ownership Engine.OwnershipProofs
                         Engine.OwnershipCalls Engine.OwnershipConfine.
Import ListNotations.
Local Open Scope string_scope.

(* ---- what one handler call leaves alone ---- *)
Section HandlerFrame.
  Variable rn ns : string.

  Lemma k_create_frame rs : forall k ok muts key,
    ~ In key (keys rs) -> aget key (objs (fst (fst (k_create k rs ok muts)))) = aget key (objs k).
  Proof.
    induction rs as [|r t IH]; intros k ok muts key Hk; simpl; auto.
    assert (Hne : rkey r <> key) by (intros E; apply Hk; now left).
    assert (Ht : ~ In key (keys t)) by (intros H; apply Hk; now right).
    destruct (fault_hits k VCreate (rkey r)); [now rewrite IH|].
    destruct (amem (rkey r) (objs k)); [now apply IH|].
    rewrite IH by exact Ht. simpl. now apply aget_aset_neq.
  Qed.

  Lemma k_update_targets_frame tgt : forall k cur created pe muts key,
    ~ In key (keys tgt) ->
    aget key (objs (fst (fst (fst (fst (k_update_targets k cur tgt created pe muts)))))) = aget key (objs k).
  Proof.
    induction tgt as [|r t IH]; intros k cur created pe muts key Hk; simpl; auto.
    assert (Hne : rkey r <> key) by (intros E; apply Hk; now left).
    assert (Ht : ~ In key (keys t)) by (intros H; apply Hk; now right).
    destruct (fault_hits k VGet (rkey r)); simpl; auto.
    destruct (aget (rkey r) (objs k)) as [live|].
    - destruct (find_res (rkey r) cur) as [o|]; simpl; auto.
      destruct (patch_needed (r_fields o) (r_fields r) live); [|now apply IH].
      destruct (fault_hits k VPatch (rkey r)); [now rewrite IH|].
      rewrite IH by exact Ht. simpl. now apply aget_aset_neq.
    - destruct (fault_hits k VCreate (rkey r)); simpl; auto.
      rewrite IH by exact Ht. simpl. now apply aget_aset_neq.
  Qed.

  Lemma k_update_deletes_frame2 dels : forall k muts key,
    ~ In key (keys dels) ->
    aget key (objs (fst (k_update_deletes k dels muts))) = aget key (objs k).
  Proof.
    induction dels as [|r t IH]; intros k muts key Hk; simpl; auto.
    assert (Hne : rkey r <> key) by (intros E; apply Hk; now left).
    assert (Ht : ~ In key (keys t)) by (intros H; apply Hk; now right).
    destruct (fault_hits k VGet (rkey r)); [now rewrite IH|].
    destruct (aget (rkey r) (objs k)) as [live|]; [|now apply IH].
    destruct (live_keep live); [now apply IH|].
    destruct (fault_hits k VDelete (rkey r)); [now rewrite IH|].
    rewrite IH by exact Ht. simpl. now apply aget_adel_neq.
  Qed.

  Lemma k_update_frame k cur tgt key :
    ~ In key (keys cur) -> ~ In key (keys tgt) ->
    aget key (objs (fst (fst (k_update k cur tgt)))) = aget key (objs k).
  Proof.
    intros Hc Ht. unfold k_update.
    pose proof (k_update_targets_frame tgt k cur [] false [] key Ht) as H1.
    destruct (k_update_targets k cur tgt [] false []) as [[[[k1 hard] pe] created] muts].
    simpl in H1. destruct (hard || pe); simpl; auto.
    pose proof (k_update_deletes_frame2 (filter (fun o => negb (in_keys (rkey o) tgt)) cur) k1 muts key) as H2.
    destruct (k_update_deletes k1 (filter (fun o => negb (in_keys (rkey o) tgt)) cur) muts) as [k2 muts2].
    simpl in *. rewrite H2; auto.
    intros Hin. apply Hc. unfold keys in *. apply in_map_iff in Hin. destruct Hin as [o [<- Ho]].
    apply filter_In in Ho. apply in_map. tauto.
  Qed.

  Lemma k_delete_frame rs : forall k ok muts key,
    ~ In key (keys rs) -> aget key (objs (fst (fst (k_delete k rs ok muts)))) = aget key (objs k).
  Proof.
    induction rs as [|r t IH]; intros k ok muts key Hk; simpl; auto.
    assert (Hne : rkey r <> key) by (intros E; apply Hk; now left).
    assert (Ht : ~ In key (keys t)) by (intros H; apply Hk; now right).
    destruct (fault_hits k VDelete (rkey r)); [now rewrite IH|].
    destruct (amem (rkey r) (objs k)); [|now apply IH].
    rewrite IH by exact Ht. simpl. now apply aget_adel_neq.
  Qed.

  (* the handler: an object at a key the call does not name is unchanged *)
  Lemma kube_handle_frame (e : eff) (k : kstate) (key : string) :
    (match e with
     | KCreate rs | KDelete rs => ~ In key (keys rs)
     | KUpdate cur tgt => ~ In key (keys cur) /\ ~ In key (keys tgt)
     | _ => True
     end) ->
    aget key (objs (fst (fst (kube_handle rn ns e k)))) = aget key (objs k).
  Proof.
    destruct e; simpl; intros H; auto.
    - pose proof (k_existing_objs rn ns rs k take []) as Ho.
      destruct (k_existing rn ns k rs take []) as [k' r]. simpl in *. now rewrite Ho.
    - destruct rs as [|r t]; [reflexivity|]. cbv beta iota.
      pose proof (k_create_frame (r :: t) k true [] key H) as Hc.
      destruct (k_create k (r :: t) true []) as [[k' ok] muts]. exact Hc.
    - destruct H as [H1 H2]. pose proof (k_update_frame k cur tgt key H1 H2) as Hu.
      destruct (k_update k cur tgt) as [[k' r] muts]. exact Hu.
    - destruct rs as [|r t]; [reflexivity|]. cbv beta iota.
      pose proof (k_delete_frame (r :: t) k true [] key H) as Hd.
      destruct (k_delete k (r :: t) true []) as [[k' ok] muts]. exact Hd.
    - destruct (waitfail k); reflexivity.
    - destruct (hfault k) as [[n c]|]; [|reflexivity].
      destruct (String.eqb n (h_name h)); [destruct c|]; reflexivity.
  Qed.
End HandlerFrame.

Section Frame.
  Variable rn ns : string.
  Variable A : list string.
  Variable o0 : list (string * fields).
  Variable f : sfaults.

  (* what an effect may ask for: as Qc, and the payload of a Create is confined too *)
  Definition Qf (e : eff) : Prop :=
    match e with
    | KCreate rs | KDelete rs => incl (keys rs) A
    | KUpdate cur tgt => incl (keys cur) A /\ incl (keys tgt) A
    | SCreate r | SUpdate r => good A r
    | _ => True
    end.

  Lemma Qf_Qc e : Qf e -> Qc A e.
  Proof. destruct e; simpl; auto. Qed.

  Definition If_ (s : rstate kstate) : Prop :=
    Forall (good A) (led s) /\ (forall key, ~ In key A -> aget key (objs (ks s)) = aget key o0).

  Lemma Qf_frame e key : Qf e -> ~ In key A ->
    match e with
    | KCreate rs | KDelete rs => ~ In key (keys rs)
    | KUpdate cur tgt => ~ In key (keys cur) /\ ~ In key (keys tgt)
    | _ => True
    end.
  Proof. destruct e; simpl; auto; intros H Hk; try (intros Hin; apply Hk; now apply H).
         destruct H as [H1 H2]. split; intros Hin; apply Hk; auto. Qed.

  Lemma If_step e s : If_ s -> Qf e ->
    If_ (fst (step kstate (kube_handle rn ns) dead_resp f e s)) /\
    Rc A e (snd (step kstate (kube_handle rn ns) dead_resp f e s)).
  Proof.
    intros [H1 H2] HQ. unfold step.
    set (s1 := if negb (dead s) && (is_storage_write e || is_cluster_mutation e) && eq_opt (crash f) (nmut s)
               then mkR (led s) (ks s) (nwrites s) (nmut s) true (tr s) else s).
    assert (Hs1 : led s1 = led s /\ ks s1 = ks s).
    { subst s1. destruct (negb (dead s) && (is_storage_write e || is_cluster_mutation e) && eq_opt (crash f) (nmut s)); auto. }
    destruct Hs1 as [Hl1 Hk1].
    assert (I1 : If_ s1) by (split; [rewrite Hl1|rewrite Hk1]; auto).
    clearbody s1. clear H1 H2 Hl1 Hk1 s. destruct I1 as [H1 H2].
    destruct (dead s1).
    - destruct (is_storage_write e || is_cluster_call e) eqn:Ew; simpl.
      + split; [split; auto|apply dead_Rc].
      + apply orb_false_iff in Ew. destruct Ew as [Ew Ec].
        pose proof (read_Rc A e (led s1) H1 Ew Ec) as Hr.
        destruct (storage_apply dead_resp e (led s1)) as [[l' r] evs]. cbn [fst snd led ks] in *. split; [split; auto|auto].
    - destruct (is_cluster_call e) eqn:Ec.
      + pose proof (kube_Rc rn ns A e (ks s1)) as Hr.
        pose proof (fun key Hk => kube_handle_frame rn ns e (ks s1) key (Qf_frame e key HQ Hk)) as Hfr.
        destruct (kube_handle rn ns e (ks s1)) as [[k' r] evs]. cbn [fst snd led ks] in *.
        split; auto. unfold If_; cbn [led ks]. split; auto.
        intros key Hk. rewrite Hfr by exact Hk. now apply H2.
      + destruct (is_storage_write e) eqn:Ew.
        * destruct (eq_opt (wfail f) (nwrites s1)); simpl.
          -- split; [split; auto|apply dead_Rc].
          -- pose proof (write_Ic A e (led s1) H1 (Qf_Qc e HQ)) as [Hw1 Hw2].
             assert (Hr : Rc A e (snd (fst (storage_apply dead_resp e (led s1))))).
             { destruct e; simpl in *; try discriminate; auto;
                 match goal with |- context [if ?b then _ else _] => destruct b end; exact I. }
             destruct (storage_apply dead_resp e (led s1)) as [[l' r] evs]. cbn [fst snd led ks] in *.
             split; auto. unfold If_; cbn [led ks]. split; auto.
        * pose proof (read_Rc A e (led s1) H1 Ew Ec) as Hr.
          destruct (storage_apply dead_resp e (led s1)) as [[l' r] evs]. cbn [fst snd led ks] in *. split; [split; auto|auto].
  Qed.

  (* ---- the programs: every effect on every feasible path names only keys of A ---- *)

  Notation AP p := (all_path (Rc A) Qf (fun _ => True) p).

  Lemma good_with_status r st' : good A (with_status r st') <-> good A r.
  Proof. unfold good, release_keys. simpl. tauto. Qed.

  Lemma good_with_rev r n : good A (with_rev r n) <-> good A r.
  Proof. unfold good, release_keys. simpl. tauto. Qed.

  Lemma max_rev_of_In l : forall m, max_rev_of l = Some m -> In m l.
  Proof.
    induction l as [|r t IH]; simpl; intros m H; [discriminate|].
    destruct (max_rev_of t) as [m'|].
    - destruct (Nat.ltb (rev m') (rev r)); inversion H; subst; auto.
    - inversion H; subst; auto.
  Qed.

  Lemma good_max l m : Forall (good A) l -> max_rev_of l = Some m -> good A m.
  Proof. intros Hl Hm. rewrite Forall_forall in Hl. apply Hl. now apply max_rev_of_In. Qed.

  Lemma good_manifest r : good A r -> incl (keys (manifest r)) A.
  Proof. unfold good, release_keys. intros H x Hx. apply H. apply in_app_iff. now left. Qed.

  Lemma good_hook r h : good A r -> In h (hooks r) -> In (rkey (h_res h)) A.
  Proof.
    unfold good, release_keys. intros H Hh. apply H. apply in_app_iff. right.
    unfold hook_keys. apply in_map_iff. exists h. auto.
  Qed.

  Ltac apb := apply all_path_bind with (P := fun _ => True); [ | intros ? _ ].

  Lemma fp_delete_all vs : AP (delete_all vs).
  Proof.
    induction vs as [|v t IH]; simpl; [apply AP_ret; exact I|].
    apply AP_eff; [exact I|]. intros e _.
    apb; [exact IH|]. destruct e; apply AP_ret; exact I.
  Qed.

  Lemma fp_remove_least_recent m : AP (remove_least_recent m).
  Proof.
    unfold remove_least_recent. simpl. apply AP_eff; [exact I|]. intros h _.
    destruct h as [|x t]; [apply AP_ret; exact I|].
    destruct (Nat.leb (List.length (x :: t)) m); [apply AP_ret; exact I|].
    simpl. apply AP_eff; [exact I|]. intros ds _.
    apb; [apply fp_delete_all|].
    destruct (fst a) as [|[|n]]; apply AP_ret; exact I.
  Qed.

  Lemma fp_storage_create r mh : good A r -> AP (storage_create r mh).
  Proof.
    intros Hr. unfold storage_create. destruct mh as [|m].
    - apply AP_eff; [exact Hr|]. intros e _. apply AP_ret; exact I.
    - apb; [apply fp_remove_least_recent|].
      destruct a; try (apply AP_ret; exact I);
        (apply AP_eff; [exact Hr|]; intros e _; apply AP_ret; exact I).
  Qed.

  Lemma fp_record_release r : good A r -> AP (record_release r).
  Proof.
    intros Hr. unfold record_release. simpl. apply AP_eff; [exact Hr|]. intros e _. apply AP_ret; exact I.
  Qed.

  Lemma fp_delete_hook_by_policy h p : In (rkey (h_res h)) A -> AP (delete_hook_by_policy h p).
  Proof.
    intros Hh. unfold delete_hook_by_policy.
    destruct (String.eqb (h_kind h) "CustomResourceDefinition"); [apply AP_ret; exact I|].
    destruct (has_policy h p); [|apply AP_ret; exact I].
    simpl. apply AP_eff.
    - simpl. intros x [<-|[]]. exact Hh.
    - intros ok _. destruct ok; [|apply AP_ret; exact I].
      apply AP_eff; [exact I|]. intros w _. apply AP_ret; exact I.
  Qed.

  Lemma fp_delete_hooks_by_policy hs p :
    (forall h, In h hs -> In (rkey (h_res h)) A) -> AP (delete_hooks_by_policy hs p).
  Proof.
    induction hs as [|h t IH]; simpl; intros H; [apply AP_ret; exact I|].
    apb; [apply fp_delete_hook_by_policy; apply H; now left|].
    destruct a; [apply IH; intros; apply H; now right|apply AP_ret; exact I].
  Qed.

  Lemma fp_exec_hooks_loop rl ev todo : forall done,
    good A rl ->
    (forall h, In h todo -> In (rkey (h_res h)) A) ->
    (forall h, In h done -> In (rkey (h_res h)) A) ->
    AP (exec_hooks_loop rl ev todo done).
  Proof.
    induction todo as [|h t IH]; intros done Hrl Ht Hd; simpl.
    - apply fp_delete_hooks_by_policy. intros h Hh. apply Hd. now apply in_rev.
    - apb; [apply fp_delete_hook_by_policy; apply Ht; now left|].
      destruct a; simpl; [|apply AP_ret; exact I].
      apply AP_eff; [exact Hrl|]. intros e _. simpl.
      apply AP_eff; [simpl; intros x [<-|[]]; apply Ht; now left|]. intros created _.
      destruct created; simpl; [|apply AP_ret; exact I].
      apply AP_eff; [exact I|]. intros ready _.
      destruct ready.
      + apply IH; auto.
        * intros; apply Ht; now right.
        * intros h' Hh'. apply in_app_iff in Hh'. destruct Hh' as [Hh'|[<-|[]]]; auto. apply Ht; now left.
      + apb; [apply fp_delete_hook_by_policy; apply Ht; now left|].
        apb; [apply fp_delete_hooks_by_policy; exact Hd|].
        apply AP_ret; exact I.
  Qed.

  Lemma In_hook_insert x h l : In x (hook_insert h l) -> x = h \/ In x l.
  Proof.
    induction l as [|y t IH]; simpl; [intros [<-|[]]; auto|].
    destruct (hook_less y h); simpl; intros [H|H]; subst; auto.
    destruct (IH H); auto.
  Qed.

  Lemma In_sort_hooks x l : In x (sort_hooks l) -> In x l.
  Proof.
    unfold sort_hooks. induction l as [|h t IH]; simpl; auto.
    intros H. apply In_hook_insert in H. destruct H; auto.
  Qed.

  Lemma In_hooks_for x ev hs : In x (hooks_for ev hs) -> In x hs.
  Proof.
    unfold hooks_for. intros H. apply in_flat_map in H. destruct H as [h [Hh Hx]].
    apply in_map_iff in Hx. destruct Hx as [_ [<- _]]. exact Hh.
  Qed.

  Lemma fp_run_hooks fl rl ev : good A rl -> AP (run_hooks fl rl ev).
  Proof.
    intros Hrl. unfold run_hooks. destruct (f_no_hooks fl); [apply AP_ret; exact I|].
    unfold exec_hook. apply fp_exec_hooks_loop; auto.
    - intros h Hh. apply (good_hook rl h Hrl). eapply In_hooks_for. eapply In_sort_hooks. exact Hh.
    - intros h [].
  Qed.

  Lemma fp_purge vs : AP (purge vs).
  Proof.
    induction vs as [|v t IH]; simpl; [apply AP_ret; exact I|].
    apply AP_eff; [exact I|]. intros e _. destruct e; auto; apply AP_ret; exact I.
  Qed.

  Lemma fp_supersede_all ds : Forall (good A) ds -> AP (supersede_all ds).
  Proof.
    induction ds as [|d t IH]; simpl; intros H; [apply AP_ret; exact I|].
    inversion H; subst.
    apply AP_eff; [now apply good_with_status|]. intros e _. simpl. auto.
  Qed.

  Lemma incl_keys_filter (p : res -> bool) rs : incl (keys (filter p rs)) (keys rs).
  Proof.
    unfold keys. intros x Hx. apply in_map_iff in Hx. destruct Hx as [r [<- Hr]].
    apply filter_In in Hr. apply in_map. tauto.
  Qed.

  Lemma fp_uninstall fl : AP (uninstall fl).
  Proof.
    unfold uninstall. destruct (f_dry_run fl).
    - simpl. apply AP_eff; [exact I|]. intros h _. destruct h; apply AP_ret; exact I.
    - simpl. apply AP_eff; [exact I|]. intros h Hh. simpl in Hh.
      destruct (max_rev_of h) as [last|] eqn:El; [|apply AP_ret; exact I].
      pose proof (good_max h last Hh El) as Hl.
      destruct (status_eqb (st last) SUninstalled).
      + destruct (f_keep_history fl); [apply AP_ret; exact I|].
        apb; [apply fp_purge|]. apply AP_ret; exact I.
      + assert (Hrel : good A (with_status last SUninstalling)) by now apply good_with_status.
        apb; [now apply fp_run_hooks|].
        destruct a; simpl; [|apply AP_ret; exact I].
        apply AP_eff; [exact Hrel|]. intros e _. simpl.
        apb.
        { destruct (filter (fun r => negb (manifest_keep r)) (manifest last)) eqn:Ef; [apply AP_ret; exact I|].
          rewrite <- Ef. apply AP_eff.
          - simpl. eapply incl_tran; [apply incl_keys_filter|]. now apply good_manifest.
          - intros ok _. apply AP_ret; exact I. }
        destruct a; simpl; [|apply AP_ret; exact I].
        apply AP_eff; [exact I|]. intros w _.
        apb; [now apply fp_run_hooks|].
        destruct (f_keep_history fl).
        * apply AP_eff; [simpl; now apply good_with_status|]. intros e2 _. simpl. apply AP_ret; exact I.
        * apb; [apply fp_purge|]. apply AP_ret; exact I.
  Qed.

  Local Opaque run_hooks storage_create record_release purge supersede_all uninstall.

  Ltac qc :=
    simpl;
    first [ exact I | assumption
          | (apply good_with_status; assumption)
          | (apply good_with_rev; assumption)
          | (apply good_with_rev; apply good_with_status; assumption)
          | idtac ].

  Ltac step1 :=
    match goal with
    | |- all_path _ _ _ (Ret _) => apply AP_ret; exact I
    | |- all_path _ _ _ (Eff _ _) =>
        apply AP_eff; [ qc | let r := fresh "r" in let Hr := fresh "Hr" in intros r Hr; simpl in Hr ]
    | |- all_path _ _ _ (bind (run_hooks _ _ _) _) => apb; [ apply fp_run_hooks; qc | ]
    | |- all_path _ _ _ (bind (storage_create _ _) _) => apb; [ apply fp_storage_create; qc | ]
    | |- all_path _ _ _ (bind (record_release _) _) => apb; [ apply fp_record_release; qc | ]
    | |- all_path _ _ _ (bind (purge _) _) => apb; [ apply fp_purge | ]
    | |- all_path _ _ _ (bind (supersede_all _) _) => apb; [ apply fp_supersede_all; qc | ]
    | |- all_path _ _ _ (bind (uninstall _) _) => apb; [ apply fp_uninstall | ]
    | |- all_path _ _ _ (bind (match ?x with _ => _ end) _) => destruct x eqn:?
    | |- all_path _ _ _ (match ?x with _ => _ end) => destruct x eqn:?
    end.

  Ltac go := repeat (step1; simpl).

  Lemma fp_rollback fl : AP (rollback rn ns fl).
  Proof.
    unfold rollback. simpl.
    apply AP_eff; [exact I|]. intros h Hh. simpl in Hh.
    destruct (max_rev_of h) as [cur|] eqn:Ec; [|apply AP_ret; exact I].
    pose proof (good_max h cur Hh Ec) as Hcur.
    simpl. apply AP_eff; [exact I|]. intros h2 _.
    match goal with |- all_path _ _ _ (if ?x then _ else _) => destruct x end; [apply AP_ret; exact I|].
    simpl. apply AP_eff; [exact I|]. intros p Hp. simpl in Hp.
    destruct p as [pr|]; [|apply AP_ret; exact I].
    assert (Htgt : good A (mkRelease (S (rev cur)) SPendingRollback (chart_id pr) (config_id pr) (manifest pr) (hooks pr))) by exact Hp.
    assert (Htf : forall s', good A (with_status (mkRelease (S (rev cur)) SPendingRollback (chart_id pr) (config_id pr) (manifest pr) (hooks pr)) s'))
      by (intros; now apply good_with_status).
    assert (Hcs : forall s', good A (with_status cur s')) by (intros; now apply good_with_status).
    assert (Hk1 : incl (keys (manifest cur)) A) by now apply good_manifest.
    assert (Hk2 : incl (keys (stamp_all rn ns (manifest pr))) A) by (rewrite keys_stamp_all; now apply (good_manifest pr)).
    go.
    all: try (split; assumption).
    all: try apply Htf; try apply Hcs.
    all: try (eapply incl_tran; [eassumption|exact Hk2]).
  Qed.

  Lemma fp_install_fail fl rel : good A rel -> AP (install_fail fl rel).
  Proof.
    intros Hrel. unfold install_fail. destruct (f_atomic fl).
    - apb; [apply fp_uninstall|]. apply AP_ret; exact I.
    - apb; [apply fp_record_release; now apply good_with_status|]. apply AP_ret; exact I.
  Qed.

  Local Opaque rollback.

  Lemma fp_upgrade_fail fl up created :
    good A up -> incl (keys created) A -> AP (upgrade_fail rn ns fl up created).
  Proof.
    intros Hup Hc. unfold upgrade_fail.
    apb; [apply fp_record_release; now apply good_with_status|].
    apb.
    { destruct (f_cleanup fl && negb (match created with [] => true | _ :: _ => false end)).
      - apply AP_eff; [exact Hc|]. intros ok _. apply AP_ret; exact I.
      - apply AP_ret; exact I. }
    destruct (negb a0); [apply AP_ret; exact I|].
    destruct (f_atomic fl); [|apply AP_ret; exact I].
    simpl. apply AP_eff; [exact I|]. intros h _.
    match goal with |- all_path _ _ _ (match ?x with _ => _ end) => destruct x end; [|apply AP_ret; exact I].
    apb; [apply fp_rollback|]. apply AP_ret; exact I.
  Qed.

  Ltac step2 :=
    match goal with
    | |- all_path _ _ _ (install_fail _ _) => apply fp_install_fail; qc
    | |- all_path _ _ _ (upgrade_fail _ _ _ _ _) => apply fp_upgrade_fail; qc
    | _ => step1
    end.

  Ltac go2 := repeat (step2; simpl).

  Lemma fp_install fl cid vid mani hks :
    incl (keys mani ++ hook_keys hks) A -> AP (install rn ns fl cid vid mani hks).
  Proof.
    intros Hown.
    assert (Hrel0 : good A (mkRelease 1 SPendingInstall cid vid mani hks)) by exact Hown.
    assert (Hres : incl (keys (stamp_all rn ns mani)) A).
    { rewrite keys_stamp_all. intros x Hx. apply Hown. apply in_app_iff. now left. }
    unfold install. simpl.
    go2.
    all: try (apply good_with_status; eapply good_max; eassumption).
    all: split; [eapply incl_tran; eassumption|assumption].
  Qed.

  Lemma fp_upgrade fl cid vid mani hks :
    incl (keys mani ++ hook_keys hks) A -> AP (upgrade rn ns fl cid vid mani hks).
  Proof.
    intros Hown.
    assert (Hup : forall n s', good A (mkRelease n s' cid vid mani hks)) by (intros; exact Hown).
    assert (Hups : forall n s' s'', good A (with_status (mkRelease n s' cid vid mani hks) s'')) by (intros; exact Hown).
    assert (Hres : incl (keys (stamp_all rn ns mani)) A).
    { rewrite keys_stamp_all. intros x Hx. apply Hown. apply in_app_iff. now left. }
    assert (Hflt : forall (p : res -> bool) l, incl l (keys (filter p (stamp_all rn ns mani))) -> incl l A).
    { intros p l Hl. eapply incl_tran; [exact Hl|]. eapply incl_tran; [apply incl_keys_filter|exact Hres]. }
    unfold upgrade. simpl.
    go2.
    all: try apply Hup; try apply Hups.
    all: try apply incl_nil_l.
    all: try (eapply incl_tran; [eassumption|exact Hres]).
    all: try apply good_with_status.
    all: try (match goal with
              | H : max_rev_of ?l = Some ?x, Hf : Forall (good A) ?l |- good A ?x => exact (good_max l x Hf H)
              end).
    all: split; [|exact Hres].
    all: unfold keys; rewrite map_app; apply incl_app; [|eapply Hflt; eassumption].
    all: apply good_manifest.
    all: match goal with
         | H : max_rev_of ?l = Some ?x, Hf : Forall (good A) ?l |- good A ?x => exact (good_max l x Hf H)
         end.
  Qed.
End Frame.

Lemma fp_op rn ns A o :
  incl (op_chart_keys o) A ->
  all_path (Rc A) (Qf A) (fun _ => True) (op_prog rn ns o).
Proof.
  destruct o; simpl; intros H.
  - now apply fp_install.
  - now apply fp_upgrade.
  - apply fp_rollback.
  - apply fp_uninstall.
Qed.

(* C07_outside_release_untouched *)
Theorem outside_release_untouched rn ns c w key :
  ~ In key (ledger_keys (w_led w) ++ op_chart_keys (oc_op c)) ->
  aget key (w_objs (fst (fst (run_store_op rn ns c w)))) = aget key (w_objs w).
Proof.
  set (A := (ledger_keys (w_led w) ++ op_chart_keys (oc_op c))%list). intros Hk.
  unfold run_store_op, run_op.
  set (k0 := mkK (w_objs w) (cf_k (oc_cf c)) (cf_h (oc_cf c)) (cf_wait (oc_cf c))).
  assert (Hp : all_path (Rc A) (Qf A) (fun _ : outcome => True) (op_prog rn ns (oc_op c))).
  { apply fp_op. subst A. apply incl_appr, incl_refl. }
  assert (H0 : If_ A (w_objs w) (mkR (w_led w) k0 0 0 false [])).
  { split; simpl.
    - apply ledger_good. subst A. apply incl_appl, incl_refl.
    - reflexivity. }
  pose proof (run_all_path kstate (kube_handle rn ns) dead_resp (oc_sf c) (Rc A) (Qf A) (If_ A (w_objs w))
                (fun e s => If_step rn ns A (w_objs w) (oc_sf c) e s) (fun _ => True) (op_prog rn ns (oc_op c)) Hp
                (mkR (w_led w) k0 0 0 false []) H0) as [[G1 G2] _].
  destruct (run kstate (kube_handle rn ns) dead_resp (oc_sf c) (op_prog rn ns (oc_op c)) (mkR (w_led w) k0 0 0 false [])) as [s out].
  simpl in *. now apply G2.
Qed.

(* every write payload of every operation names only keys of the release *)
Theorem write_payloads_confined rn ns c w :
  all_path (Rc (ledger_keys (w_led w) ++ op_chart_keys (oc_op c)))
           (Qf (ledger_keys (w_led w) ++ op_chart_keys (oc_op c))) (fun _ : outcome => True)
           (op_prog rn ns (oc_op c)).
Proof. apply fp_op. apply incl_appr, incl_refl. Qed.

(* C03 — a failed, non-atomic install / upgrade / rollback leaves the revision it created
   failed, for EVERY cluster behaviour (no storage fault, no crash). *)
From Coq Require Import List String Bool Arith ZArith Lia.
From Helm Require Import Common.Assoc Engine.Types Engine.Eff Engine.Ops Engine.Cluster Engine.Seq
  Engine.SeqProofs Engine.HooksProofsTrace Engine.HooksProofsGate Engine.ContainLedger.
Import ListNotations.
Local Open Scope prog_scope.

Section Contain.
  Variable dresp : forall e : eff, resp e.
  Notation lrun := (@lrun dresp).
  Notation upd := (upd).

  (* ---- facts about upd ---- *)
  Lemma revs_upd x l : revs (upd x l) = revs l.
  Proof. unfold upd. destruct (has_rev (rev x) l); auto. apply revs_replace. Qed.

  Lemma has_rev_revs v l : has_rev v l = true <-> In v (revs l).
  Proof.
    unfold has_rev, revs. rewrite existsb_exists. split.
    - intros (x & Hx & E). apply Nat.eqb_eq in E. subst. now apply in_map.
    - intros H. apply in_map_iff in H. destruct H as (x & E & Hx). exists x. split; auto.
      now apply Nat.eqb_eq.
  Qed.

  Lemma has_rev_same_revs v l l' : revs l = revs l' -> has_rev v l = has_rev v l'.
  Proof.
    intros E. destruct (has_rev v l) eqn:H1; destruct (has_rev v l') eqn:H2; auto.
    - apply has_rev_revs in H1. rewrite E in H1. apply has_rev_revs in H1. congruence.
    - apply has_rev_revs in H2. rewrite <- E in H2. apply has_rev_revs in H2. congruence.
  Qed.

  Lemma in_upd x l y : has_rev (rev x) l = true -> In y (upd x l) -> rev y = rev x -> y = x.
  Proof.
    unfold upd. intros ->. unfold replace_rev. intros Hin E.
    apply in_map_iff in Hin. destruct Hin as (z & Hz & _).
    destruct (Nat.eqb (rev z) (rev x)) eqn:Ez; [congruence|].
    subst y. apply Nat.eqb_neq in Ez. congruence.
  Qed.

  (* ---- programs that never create or delete a revision keep the set of revisions ---- *)
  Definition keeps_revs (e : eff) : Prop :=
    match e with SCreate _ | SDelete _ => False | _ => True end.

  Lemma lrun_keeps_revs {A} (p : prog A) : only keeps_revs p ->
    forall l l' a, lrun p l l' a -> revs l' = revs l.
  Proof.
    induction p as [x|e k IH]; simpl; intros Ho l l' a H.
    - apply lrun_ret_inv in H. destruct H as [-> _]. reflexivity.
    - destruct Ho as [He Hk]. apply lrun_inv in H. destruct H as [[Hc [r H]]|[Hc H]].
      + eapply IH; eauto.
      + rewrite (IH _ (Hk _) _ _ _ H). unfold sled.
        destruct e; simpl in *; try contradiction; try discriminate; auto.
        destruct (has_rev (rev r) l); simpl; auto. apply revs_replace.
  Qed.

  Lemma cluster_keeps e : is_cluster_call e = true -> keeps_revs e.
  Proof. destruct e; simpl; auto; discriminate. Qed.

  Lemma delete_hook_keeps h p : only keeps_revs (delete_hook_by_policy h p).
  Proof.
    unfold delete_hook_by_policy.
    destruct (String.eqb (h_kind h) "CustomResourceDefinition"); simpl; auto.
    destruct (has_policy h p); simpl; auto. split; auto. intros []; simpl; auto.
  Qed.

  Lemma delete_hooks_keeps p hs : only keeps_revs (delete_hooks_by_policy hs p).
  Proof.
    induction hs as [|h t IH]; simpl; auto.
    apply only_bind; [apply delete_hook_keeps|]. intros []; simpl; auto.
  Qed.

  Lemma loop_keeps rl ev : forall todo done, only keeps_revs (exec_hooks_loop rl ev todo done).
  Proof.
    induction todo as [|h t IH]; intros done; simpl.
    - apply delete_hooks_keeps.
    - apply only_bind; [apply delete_hook_keeps|].
      intros []; simpl; auto. split; auto. intros _. split; auto.
      intros []; simpl; auto. split; auto.
      intros []; [apply IH|].
      apply only_bind; [apply delete_hook_keeps|]. intros _.
      apply only_bind; [apply delete_hooks_keeps|]. intros _. exact I.
  Qed.

  Lemma run_hooks_keeps fl rl ev : only keeps_revs (run_hooks fl rl ev).
  Proof. unfold run_hooks, exec_hook. destruct (f_no_hooks fl); [exact I|apply loop_keeps]. Qed.

  Lemma record_release_keeps x : only keeps_revs (record_release x).
  Proof. unfold record_release. simpl. auto. Qed.

  Lemma supersede_all_keeps ds : only keeps_revs (supersede_all ds).
  Proof. induction ds as [|d t IH]; simpl; auto. Qed.

  (* ---- storage.Create with pruning: on success exactly one new revision, the rest only shrinks ---- *)
  Lemma lrun_remove_least_recent m l l' e :
    lrun (remove_least_recent m) l l' e -> sub l' l.
  Proof.
    unfold remove_least_recent. intros H. apply lrun_shistory_inv in H.
    destruct l as [|x t].
    - apply lrun_ret_inv in H. destruct H as [-> _]. apply sub_refl.
    - match type of H with lrun (if ?c then _ else _) _ _ _ => destruct c end.
      + apply lrun_ret_inv in H. destruct H as [-> _]. apply sub_refl.
      + apply lrun_sdeployed_inv in H. apply lrun_bind_inv in H. destruct H as (l1 & r & H1 & H2).
        apply lrun_delete_all in H1. destruct H1 as [S1 _].
        assert (l' = l1).
        { destruct (fst r) as [|[|n]]; apply lrun_ret_inv in H2; tauto. }
        subst. exact S1.
  Qed.

  Lemma lrun_storage_create x m l l' e :
    lrun (storage_create x m) l l' e ->
    (e = SOk /\ exists l1, sub l1 l /\ has_rev (rev x) l1 = false /\ l' = (l1 ++ [x])%list)
    \/ (e <> SOk /\ sub l' l).
  Proof.
    unfold storage_create. destruct m as [|m].
    - intros H. unfold perform in H. apply lrun_screate_inv in H.
      destruct H as [[Hh H]|[Hh H]]; apply lrun_ret_inv in H; destruct H as [-> ->].
      + right. split; [discriminate|apply sub_refl].
      + left. split; auto. exists l. split; [apply sub_refl|auto].
    - intros H. apply lrun_bind_inv in H. destruct H as (l1 & e1 & H1 & H2).
      apply lrun_remove_least_recent in H1.
      assert (Hc : forall l2 e2, lrun (perform (SCreate x)) l1 l2 e2 ->
                (e2 = SOk /\ exists l3, sub l3 l /\ has_rev (rev x) l3 = false /\ l2 = (l3 ++ [x])%list)
                \/ (e2 <> SOk /\ sub l2 l)).
      { intros l2 e2 Hp. unfold perform in Hp. apply lrun_screate_inv in Hp.
        destruct Hp as [[Hh Hp]|[Hh Hp]]; apply lrun_ret_inv in Hp; destruct Hp as [-> ->].
        - right. split; [discriminate|exact H1].
        - left. split; auto. exists l1. auto. }
      destruct e1; auto; apply lrun_ret_inv in H2; destruct H2 as [-> ->]; right; split; auto; discriminate.
  Qed.

  Lemma sub_revs l1 l : sub l1 l -> forall v, In v (revs l1) -> In v (revs l).
  Proof.
    intros S v H. unfold revs in *. apply in_map_iff in H. destruct H as (x & <- & Hx).
    apply in_map. now apply S.
  Qed.

  (* ---- the common end of the argument ---- *)
  (* [fresh l0 l v]: every revision of l is a revision of l0 or the new revision v, which is stored *)
  Definition fresh (l0 l : list release) (v : nat) : Prop :=
    In v (revs l) /\ forall w, In w (revs l) -> In w (revs l0) \/ w = v.

  Lemma fresh_create l0 l1 x : sub l1 l0 -> fresh l0 (l1 ++ [x]) (rev x).
  Proof.
    intros S. unfold fresh, revs. rewrite map_app. simpl. split.
    - apply in_or_app. right. now left.
    - intros w Hw. apply in_app_or in Hw. destruct Hw as [Hw|[<-|[]]]; auto.
      left. eapply sub_revs; eauto.
  Qed.

  Lemma fresh_revs l0 l l' v : revs l' = revs l -> fresh l0 l v -> fresh l0 l' v.
  Proof. unfold fresh. intros ->. auto. Qed.

  (* recording the new revision as failed settles the claim *)
  Lemma failed_final l0 l v xf :
    fresh l0 l v -> rev xf = v -> st xf = SFailed ->
    forall y, In y (upd xf l) -> ~ In (rev y) (revs l0) -> st y = SFailed.
  Proof.
    intros [Hv Ho] Er Es y Hy Hn.
    assert (Hh : has_rev (rev xf) l = true) by (apply has_rev_revs; now rewrite Er).
    assert (Ey : rev y = v).
    { assert (In (rev y) (revs (upd xf l))) by (unfold revs; now apply in_map).
      rewrite revs_upd in H. destruct (Ho _ H); [contradiction|auto]. }
    rewrite (in_upd xf l y Hh Hy) by congruence. exact Es.
  Qed.

  Lemma no_new_rev l0 l : (forall w, In w (revs l) -> In w (revs l0)) ->
    forall y (P : Prop), In y l -> ~ In (rev y) (revs l0) -> P.
  Proof.
    intros H y P Hy Hn. exfalso. apply Hn, H. unfold revs. now apply in_map.
  Qed.

  Ltac lbind H l1 a H1 := apply lrun_bind_inv in H; destruct H as (l1 & a & H1 & H).
  Ltac lret H := apply lrun_ret_inv in H; destruct H as [? ?]; subst.
  Ltac lclu H r := apply lrun_cluster_inv in H; [destruct H as [r H]|reflexivity].

  Variable rn ns : string.

  (* ================= install ================= *)
  Lemma install_fail_lrun fl rel l l' out :
    f_atomic fl = false -> lrun (install_fail fl rel) l l' out ->
    l' = upd (with_status rel SFailed) l.
  Proof.
    intros Hat H. unfold install_fail in H. rewrite Hat in H.
    lbind H l1 u Hr. lret H. now apply lrun_record_release in Hr.
  Qed.

  Theorem install_failed_recorded fl cid vid mani hks l0 l' c :
    f_atomic fl = false -> f_dry_run fl = false ->
    lrun (install rn ns fl cid vid mani hks) l0 l' (OErr c) ->
    forall y, In y l' -> ~ In (rev y) (revs l0) -> st y = SFailed.
  Proof.
    intros Hat Hdry H. unfold install in H. rewrite Hdry in H.
    cbv beta iota zeta delta [negb] in H.
    lbind H la avail Hav.
    apply lrun_shistory_inv in Hav.
    assert (la = l0) by (destruct (max_rev_of l0); lret Hav; auto). subst la. clear Hav.
    destruct avail; cbv beta iota in H.
    2:{ lret H. intros y. apply no_new_rev. auto. }
    lbind H lb adopt Ha.
    assert (lb = l0).
    { match type of Ha with ContainLedger.lrun (if ?c then _ else _) _ _ _ => destruct c end.
      - unfold perform in Ha. lclu Ha r. lret Ha. auto.
      - lret Ha. auto. }
    subst lb. clear Ha.
    destruct adopt as [adopted|].
    2:{ lret H. intros y. apply no_new_rev. auto. }
    lbind H lc rr Hc.
    assert (Hrevs : revs lc = revs l0).
    { match type of Hc with ContainLedger.lrun (if ?c then _ else _) _ _ _ => destruct c end.
      - apply lrun_shistory_inv in Hc. destruct (max_rev_of l0) as [last|].
        + match type of Hc with ContainLedger.lrun (if ?c then _ else _) _ _ _ => destruct c end.
          * lret Hc. auto.
          * apply lrun_supdate_inv in Hc.
            assert (lc = upd (with_status last SSuperseded) l0).
            { destruct (has_rev (rev (with_status last SSuperseded)) l0); lret Hc; auto. }
            subst lc. apply revs_upd.
        + lret Hc. auto.
      - lret Hc. auto. }
    destruct rr as [rel|].
    2:{ lret H. intros y. apply no_new_rev. rewrite Hrevs. auto. }
    lbind H ld e He.
    apply lrun_storage_create in He.
    destruct He as [[-> (l1 & S1 & Hh & ->)]|[Hne S]].
    2:{ assert (ld = l').
        { destruct e; try congruence; lret H; auto. }
        subst ld. intros y. apply no_new_rev. intros w Hw. rewrite <- Hrevs. eapply sub_revs; eauto. }
    (* the revision is stored *)
    assert (F : fresh l0 (l1 ++ [rel]) (rev rel)).
    { destruct (fresh_create lc l1 rel S1) as [F1 F2]. split; auto.
      intros w Hw. destruct (F2 w Hw); auto. left. now rewrite <- Hrevs. }
    clear Hc Hh S1.
    assert (Hfail : forall l lx o, fresh l0 l (rev rel) -> lrun (install_fail fl rel) l lx o ->
                     forall y, In y lx -> ~ In (rev y) (revs l0) -> st y = SFailed).
    { intros l lx o Fl Hf. apply (install_fail_lrun _ _ _ _ _ Hat) in Hf. subst lx.
      eapply failed_final; eauto. }
    lbind H l2 pre Hpre.
    pose proof (fresh_revs _ _ _ _ (lrun_keeps_revs _ (run_hooks_keeps _ _ _) _ _ _ Hpre) F) as F2.
    destruct pre; cbv beta iota in H; [|eapply Hfail; eauto].
    lbind H l3 ok Hok.
    assert (F3 : fresh l0 l3 (rev rel)).
    { eapply fresh_revs; [|exact F2]. eapply lrun_keeps_revs; [|exact Hok].
      destruct (stamp_all rn ns mani); [exact I|]. destruct adopted; simpl; auto. }
    destruct ok; cbv beta iota in H; [|eapply Hfail; eauto].
    unfold perform in H. simpl in H. lclu H w.
    destruct w; cbv beta iota in H; [|eapply Hfail; eauto].
    lbind H l4 post Hpost.
    pose proof (fresh_revs _ _ _ _ (lrun_keeps_revs _ (run_hooks_keeps _ _ _) _ _ _ Hpost) F3) as F4.
    destruct post; cbv beta iota in H; [|eapply Hfail; eauto].
    apply lrun_supdate_inv in H. apply lrun_ret_inv in H. destruct H as [_ E]. discriminate.
  Qed.

  Ltac case_if H := match type of H with ContainLedger.lrun (if ?c then _ else _) _ _ _ => destruct c eqn:? end.

  (* record_release x ;;; rest, in either syntactic form *)
  Ltac lrec H :=
    first [ apply lrun_supdate_inv in H; cbv beta in H
          | let l3 := fresh "l" in let x := fresh "x" in let Hr := fresh "Hr" in
            lbind H l3 x Hr; apply lrun_record_release in Hr; subst l3 ].

  Lemma fresh_has_rev l0 l v : fresh l0 l v -> has_rev v l = true.
  Proof. intros [H _]. now apply has_rev_revs. Qed.

  Lemma fresh_upd l0 l v x : fresh l0 l v -> fresh l0 (upd x l) v.
  Proof. apply fresh_revs. apply revs_upd. Qed.

  (* ================= upgrade ================= *)
  Lemma upgrade_fail_lrun fl up created l l' out :
    f_atomic fl = false -> lrun (upgrade_fail rn ns fl up created) l l' out ->
    l' = upd (with_status up SFailed) l.
  Proof.
    intros Hat H. unfold upgrade_fail in H. rewrite Hat in H.
    lbind H l1 u Hr. apply lrun_record_release in Hr. subst l1.
    lbind H l2 cleaned Hc.
    assert (l2 = upd (with_status up SFailed) l).
    { case_if Hc.
      - unfold perform in Hc. lclu Hc r. lret Hc. auto.
      - lret Hc. auto. }
    subst l2. destruct cleaned; cbv beta iota delta [negb] in H; lret H; auto.
  Qed.

  Theorem upgrade_failed_recorded fl cid vid mani hks l0 l' c :
    f_atomic fl = false -> f_dry_run fl = false ->
    lrun (upgrade rn ns fl cid vid mani hks) l0 l' (OErr c) ->
    forall y, In y l' -> ~ In (rev y) (revs l0) -> st y = SFailed.
  Proof.
    intros Hat Hdry H. unfold upgrade in H. rewrite Hdry in H.
    cbv beta iota zeta in H.
    apply lrun_shistory_inv in H.
    destruct (max_rev_of l0) as [last|].
    2:{ lret H. intros y. apply no_new_rev. auto. }
    case_if H.
    { lret H. intros y. apply no_new_rev. auto. }
    lbind H la cur Ha.
    assert (la = l0).
    { case_if Ha.
      - lret Ha. auto.
      - apply lrun_sdeployed_inv in Ha.
        destruct (max_rev_of (filter (fun r => status_eqb (st r) SDeployed) l0)); [lret Ha; auto|].
        case_if Ha; lret Ha; auto. }
    subst la. clear Ha.
    destruct cur as [current|].
    2:{ lret H. intros y. apply no_new_rev. auto. }
    unfold perform in H. simpl in H. lclu H adopt.
    destruct adopt as [adopted|].
    2:{ lret H. intros y. apply no_new_rev. auto. }
    lbind H ld e He.
    apply lrun_storage_create in He.
    destruct He as [[-> (l1 & S1 & Hh & ->)]|[Hne S]].
    2:{ assert (ld = l').
        { destruct e; try congruence; lret H; auto. }
        subst ld. intros y. apply no_new_rev. intros w Hw. eapply sub_revs; eauto. }
    set (up := mkRelease (S (rev last)) SPendingUpgrade cid vid mani hks) in *.
    assert (F : fresh l0 (l1 ++ [up]) (rev up)) by (apply fresh_create; exact S1).
    clear Hh S1.
    assert (Hfail : forall cr l lx o, fresh l0 l (rev up) -> lrun (upgrade_fail rn ns fl up cr) l lx o ->
                     forall y, In y lx -> ~ In (rev y) (revs l0) -> st y = SFailed).
    { intros cr l lx o Fl Hf. apply (upgrade_fail_lrun _ _ _ _ _ _ Hat) in Hf. subst lx.
      eapply failed_final; eauto. }
    lbind H l2 pre Hpre.
    pose proof (fresh_revs _ _ _ _ (lrun_keeps_revs _ (run_hooks_keeps _ _ _) _ _ _ Hpre) F) as F2.
    destruct pre; cbv beta iota delta [negb] in H; [|eapply Hfail; eauto].
    lclu H u.
    destruct (fst u); cbv beta iota in H.
    2:{ lrec H. eapply Hfail; [|exact H]. now apply fresh_upd. }
    lclu H w.
    destruct w; cbv beta iota in H.
    2:{ lrec H. eapply Hfail; [|exact H]. now apply fresh_upd. }
    lbind H l4 post Hpost.
    pose proof (fresh_revs _ _ _ _ (lrun_keeps_revs _ (run_hooks_keeps _ _ _) _ _ _ Hpost) F2) as F4.
    destruct post; cbv beta iota in H; [|eapply Hfail; eauto].
    lrec H.
    apply lrun_supdate_inv in H.
    assert (Hh : has_rev (rev (with_status up SDeployed)) (upd (with_status current SSuperseded) l4) = true).
    { apply (fresh_has_rev l0). now apply fresh_upd. }
    rewrite Hh in H. apply lrun_ret_inv in H. destruct H as [_ E]. discriminate.
  Qed.

  (* ================= rollback ================= *)
  Theorem rollback_failed_recorded fl l0 l' c :
    f_dry_run fl = false ->
    lrun (rollback rn ns fl) l0 l' (OErr c) ->
    forall y, In y l' -> ~ In (rev y) (revs l0) -> st y = SFailed.
  Proof.
    intros Hdry H. unfold rollback in H. rewrite Hdry in H.
    cbv beta iota zeta in H.
    apply lrun_shistory_inv in H.
    destruct (max_rev_of l0) as [cur|].
    2:{ lret H. intros y. apply no_new_rev. auto. }
    apply lrun_shistory_inv in H.
    case_if H.
    { lret H. intros y. apply no_new_rev. auto. }
    apply lrun_sget_inv in H.
    match type of H with ContainLedger.lrun (match ?x with _ => _ end) _ _ _ => destruct x as [pr|] end.
    2:{ lret H. intros y. apply no_new_rev. auto. }
    lbind H ld e He.
    apply lrun_storage_create in He.
    destruct He as [[-> (l1 & S1 & Hh & ->)]|[Hne S]].
    2:{ assert (ld = l').
        { destruct e; try congruence; lret H; auto. }
        subst ld. intros y. apply no_new_rev. intros w Hw. eapply sub_revs; eauto. }
    match type of H with context [run_hooks fl ?t PreRollback] => set (tgt := t) in * end.
    assert (F : fresh l0 (l1 ++ [tgt]) (rev tgt)) by (apply fresh_create; exact S1).
    clear Hh S1.
    assert (Hfp : forall l lx o, fresh l0 l (rev tgt) ->
                   lrun (record_release (with_status tgt SFailed) ;;; Ret (OErr EOtherErr)) l lx o ->
                   forall y, In y lx -> ~ In (rev y) (revs l0) -> st y = SFailed).
    { intros l lx o Fl Hf. lbind Hf l2 u Hr. lret Hf. apply lrun_record_release in Hr. subst.
      eapply failed_final; eauto. }
    lbind H l2 pre Hpre.
    pose proof (fresh_revs _ _ _ _ (lrun_keeps_revs _ (run_hooks_keeps _ _ _) _ _ _ Hpre) F) as F2.
    destruct pre; cbv beta iota delta [negb] in H; [|eapply Hfp; eauto].
    lclu H u.
    destruct (fst u); cbv beta iota in H.
    2:{ lrec H. lrec H.
        assert (l' = upd (with_status tgt SFailed) (upd (with_status cur SSuperseded) l2)).
        { case_if H.
          - unfold perform in H. simpl in H. lclu H d. lret H. auto.
          - lret H. auto. }
        subst l'. eapply failed_final; eauto. now apply fresh_upd. }
    lclu H w.
    destruct w; cbv beta iota in H.
    2:{ lrec H. lrec H. lret H.
        eapply failed_final; eauto. now apply fresh_upd. }
    lbind H l4 post Hpost.
    pose proof (fresh_revs _ _ _ _ (lrun_keeps_revs _ (run_hooks_keeps _ _ _) _ _ _ Hpost) F2) as F4.
    destruct post; cbv beta iota in H; [|eapply Hfp; eauto].
    apply lrun_sdeployed_inv in H.
    lbind H l5 x Hs.
    pose proof (fresh_revs _ _ _ _ (lrun_keeps_revs _ (supersede_all_keeps _) _ _ _ Hs) F4) as F5.
    apply lrun_supdate_inv in H.
    assert (Hh : has_rev (rev (with_status tgt SDeployed)) l5 = true) by (apply (fresh_has_rev l0); exact F5).
    rewrite Hh in H. apply lrun_ret_inv in H. destruct H as [_ E]. discriminate.
  Qed.

  (* ================= all three, in terms of Seq.run ================= *)
  Definition contained_op (o : op) : Prop :=
    match o with OpUninstall _ => False | _ => True end.

  Theorem failed_recorded_lrun o l0 l' c :
    contained_op o -> f_atomic (op_flags o) = false -> f_dry_run (op_flags o) = false ->
    lrun (op_prog rn ns o) l0 l' (OErr c) ->
    forall y, In y l' -> ~ In (rev y) (revs l0) -> st y = SFailed.
  Proof.
    intros Hc Hat Hdry H. destruct o; simpl in *.
    - eapply install_failed_recorded; eauto.
    - eapply upgrade_failed_recorded; eauto.
    - eapply rollback_failed_recorded; eauto.
    - contradiction.
  Qed.
End Contain.

(* for EVERY cluster handler, in terms of the interpreter *)
Theorem failed_is_recorded :
  forall (K : Type) (kh : forall e : eff, K -> K * resp e * list kev) (dresp : forall e, resp e)
         (rn ns : string) (o : op) (l0 : list release) (k0 : K) l' k' c t,
    contained_op o -> f_atomic (op_flags o) = false -> f_dry_run (op_flags o) = false ->
    run_op K kh dresp rn ns o nofault l0 k0 = (l', k', OErr c, t) ->
    forall y, In y l' -> ~ In (rev y) (revs l0) -> st y = SFailed.
Proof.
  intros K kh dresp rn ns o l0 k0 l' k' c t Hc Hat Hdry H.
  unfold run_op in H.
  destruct (run K kh dresp nofault (op_prog rn ns o) (mkR l0 k0 0 0 false [])) as [s out] eqn:E.
  apply run_lrun in E; [|reflexivity]. destruct E as [E Hd]. simpl in E.
  rewrite Hd in H. inversion H; subst.
  eapply failed_recorded_lrun; eauto.
Qed.

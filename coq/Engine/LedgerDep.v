(* C01 — at most one deployed revision, and what a successful operation leaves behind.
   Everything here is under H1: the fault plan has no storage-write failure ([wfail f = None]);
   crash points and the cluster behaviour are arbitrary. *)
From Coq Require Import List String Bool Arith Lia.
From Helm Require Import Common.Assoc Engine.Types Engine.Eff Engine.Ops Engine.Cluster Engine.Seq
  Engine.SeqProofs Engine.LedgerBase Engine.LedgerPieces.
Import ListNotations.

Lemma status_eqb_eq a b : status_eqb a b = true <-> a = b.
Proof. split; [destruct a, b; simpl; congruence|intros ->; destruct b; reflexivity]. Qed.

(* ---- number of deployed records ---- *)
Definition is_deployed (r : release) : bool := status_eqb (st r) SDeployed.
Definition ndep (l : list release) : nat := List.length (filter is_deployed l).

Lemma ndep_DG l : ndep l <= 1 -> DG l.
Proof.
  unfold ndep. intros H. destruct (filter is_deployed l) as [|d t] eqn:E.
  - exists 0. intros r Hr Hs. assert (X : In r (filter is_deployed l)).
    { apply filter_In. split; auto. unfold is_deployed. now apply status_eqb_eq. }
    rewrite E in X. destruct X.
  - destruct t; [|simpl in H; lia]. exists (rev d). intros r Hr Hs.
    assert (X : In r (filter is_deployed l)).
    { apply filter_In. split; auto. unfold is_deployed. now apply status_eqb_eq. }
    rewrite E in X. destruct X as [->|[]]. reflexivity.
Qed.

Lemma ndep_zero_none l : ndep l = 0 <-> dep_none l.
Proof.
  unfold ndep. split.
  - intros H r Hr Hs. apply length_zero_iff_nil in H.
    assert (X : In r (filter is_deployed l)).
    { apply filter_In. split; auto. unfold is_deployed. now apply status_eqb_eq. }
    rewrite H in X. destruct X.
  - intros H. destruct (filter is_deployed l) as [|d t] eqn:E; auto.
    assert (X : In d (filter is_deployed l)) by (rewrite E; now left).
    apply filter_In in X. destruct X as [X1 X2]. apply status_eqb_eq in X2. exfalso. eapply H; eauto.
Qed.

Lemma DG_ndep l : NoDup (revs l) -> DG l -> ndep l <= 1.
Proof.
  intros Hn [c Hc]. unfold ndep. induction l as [|r t IH]; simpl; auto.
  inversion Hn as [|? ? Hnotin Hn']; subst.
  assert (Hct : dep_only c t) by (intros y Hy; apply Hc; now right).
  destruct (is_deployed r) eqn:E; [|auto].
  simpl. unfold is_deployed in E. apply status_eqb_eq in E.
  assert (Hr : rev r = c) by (apply Hc; [now left|auto]).
  destruct (filter is_deployed t) as [|d u] eqn:F; simpl; auto.
  exfalso. assert (X : In d (filter is_deployed t)) by (rewrite F; now left).
  apply filter_In in X. destruct X as [X1 X2]. apply status_eqb_eq in X2.
  apply Hnotin. rewrite Hr, <- (Hct d X1 X2). now apply in_map.
Qed.

Lemma nodup_revs_inj l a b : NoDup (revs l) -> In a l -> In b l -> rev a = rev b -> a = b.
Proof.
  induction l as [|x t IH]; simpl; [tauto|]. intros Hn Ha Hb E.
  inversion Hn as [|? ? Hnotin Hn']; subst.
  destruct Ha as [->|Ha]; destruct Hb as [->|Hb]; auto.
  - exfalso. apply Hnotin. rewrite E. now apply in_map.
  - exfalso. apply Hnotin. rewrite <- E. now apply in_map.
Qed.

(* ---- superseding a list of records ---- *)
Definition sup_all (ds : list release) (l : list release) : list release :=
  fold_left (fun l d => replace_rev (with_status d SSuperseded) l) ds l.

Lemma revs_sup_all ds : forall l, revs (sup_all ds l) = revs l.
Proof.
  induction ds as [|d t IH]; intros l; simpl; auto. rewrite IH. apply revs_replace.
Qed.

Lemma in_sup_all ds : forall l r,
  In r (sup_all ds l) -> (In r l /\ ~ In (rev r) (revs ds)) \/ st r = SSuperseded.
Proof.
  induction ds as [|d t IH]; intros l r H; simpl in *; auto.
  destruct (IH _ _ H) as [[H1 H2]|H1]; auto.
  apply in_replace_rev in H1. destruct H1 as [[-> _]|[H1 Hne]]; auto.
  left. split; auto. simpl in Hne. intros [X|X]; auto.
Qed.

Lemma sup_all_deployed_none l : dep_none (sup_all (filter is_deployed l) l).
Proof.
  intros r Hr Hs. apply in_sup_all in Hr. destruct Hr as [[H1 H2]|H1]; [|congruence].
  apply H2. unfold revs. apply in_map. apply filter_In. split; auto.
  unfold is_deployed. now apply status_eqb_eq.
Qed.

(* ---- purge ---- *)
Definition remove_all (vs : list nat) (l : list release) : list release :=
  fold_left (fun l v => remove_rev v l) vs l.

Lemma in_remove_all vs : forall l r, In r (remove_all vs l) -> In r l /\ ~ In (rev r) vs.
Proof.
  induction vs as [|v t IH]; intros l r H; simpl in *; auto.
  destruct (IH _ _ H) as [H1 H2]. apply in_remove_rev in H1. destruct H1 as [H1 H3].
  split; auto. intros [X|X]; auto.
Qed.

Lemma remove_all_nil vs l : (forall r, In r l -> In (rev r) vs) -> remove_all vs l = [].
Proof.
  intros H. destruct (remove_all vs l) as [|r t] eqn:E; auto.
  assert (X : In r (remove_all vs l)) by (rewrite E; now left).
  apply in_remove_all in X. destruct X as [X1 X2]. exfalso. auto.
Qed.

Lemma in_insert_by_rev x r l : In x (insert_by_rev r l) <-> x = r \/ In x l.
Proof.
  induction l as [|y t IH]; simpl; [intuition|].
  destruct (Nat.leb (rev r) (rev y)); simpl; rewrite ?IH; intuition.
Qed.

Lemma in_sort_by_rev x l : In x (sort_by_rev l) <-> In x l.
Proof.
  unfold sort_by_rev. induction l as [|y t IH]; simpl; [tauto|].
  rewrite in_insert_by_rev, IH. intuition.
Qed.

(* ---- what success means ---- *)
Definition succ_new (l0 l' : list release) (x : release) : Prop :=
  In x l' /\ st x = SDeployed /\ rev x = S (mx l0) /\ (forall r, In r l' -> rev r <= rev x).

Definition prev_superseded (l0 l' : list release) : Prop :=
  forall d, In d l0 -> st d = SDeployed -> forall r, In r l' -> rev r = rev d -> st r = SSuperseded.

Definition same_content (x y : release) : Prop :=
  chart_id x = chart_id y /\ config_id x = config_id y /\ manifest x = manifest y /\ hooks x = hooks y.

Definition rollback_target (fl : flags) (l0 : list release) : nat :=
  match f_version fl with 0 => mx l0 - 1 | v => v end.

(* ---- which storage writes the injected failure may hit ---- *)
(* for "at most one deployed": anything but a write that marks a record superseded *)
Definition fail_ok2 (e : eff) : Prop :=
  match e with SUpdate x => st x <> SSuperseded | _ => True end.
(* for the success postconditions: nor the final status write (deployed / uninstalled) *)
Definition fail_ok3 (e : eff) : Prop :=
  match e with
  | SUpdate x => st x <> SSuperseded /\ st x <> SDeployed /\ st x <> SUninstalled
  | _ => True
  end.
Lemma fail_ok3_2 e : fail_ok3 e -> fail_ok2 e.
Proof. destruct e; simpl; tauto. Qed.

(* a storage Create / Delete that failed does not answer success *)
Definition honest (dresp : forall e : eff, resp e) : Prop :=
  (forall x, dresp (SCreate x) <> SOk) /\ (forall v, dresp (SDelete v) <> SOk).

Lemma upd_of_dep_only c x l l' :
  dep_only c l -> (st x = SDeployed -> rev x = c) -> upd_of x l l' -> dep_only c l'.
Proof. intros H Hx [->| ->]; auto. now apply dep_only_replace. Qed.

(* the failing write cannot be one that supersedes *)
Ltac no_sup_fail HF2 :=
  let HFe := fresh "HFe" in
  intros _ HFe; apply HF2 in HFe; cbn in HFe; exfalso; apply HFe; reflexivity.

(* close a failure branch with a lemma whose post is [DG l /\ out <> OOk] *)
Ltac by_fail H :=
  eapply wp_conseq;
  [eapply H
  |auto
  |cbv beta; intros ? ? ? [? ?]; split; [assumption|intros; congruence]].

Section Dep.
  Variable K : Type.
  Variable kh : forall e : eff, K -> K * resp e * list kev.
  Variable dresp : forall e : eff, resp e.
  Variable f : sfaults.
  Variable F : eff -> Prop.                            (* the writes the injected failure may hit *)
  Hypothesis Hsafe : wfail f = None \/ honest dresp.
  Hypothesis HF2 : forall e, F e -> fail_ok2 e.        (* H1, narrow form *)
  (* needed in addition for the success postconditions *)
  Definition S3 : Prop := forall e, F e -> fail_ok3 e.
  Variable rn ns : string.
  Notation wpA := (wpA kh dresp f F).
  Notation G := (fun (l : list release) (_ : list nat) => DG l).

  Lemma created_D x l0 cs0 l c e :
    created_post dresp f x l0 cs0 l c e ->
    (e = SOk /\ exists l', l = (l' ++ [x])%list /\ incl l' l0)
    \/ (e <> SOk /\ incl l l0).
  Proof.
    intros [[-> [l' [-> [Hi _]]]]|[Hi [_ He]]].
    - left. split; auto. exists l'. auto.
    - right. split; auto. intros ->. destruct (He eq_refl) as [X Y].
      destruct Hsafe as [Hn|[Hc _]]; [congruence|]. now apply Hc in Y.
  Qed.

  Lemma supersede_all_D ds : forall l cs c,
    dep_only c l ->
    wpA G (supersede_all ds) (fun l' c' _ => l' = sup_all ds l /\ c' = cs) l cs.
  Proof.
    induction ds as [|d t IH]; intros l cs c Hc; cbn [supersede_all]; wp_norm.
    - apply wp_ret. auto.
    - apply wp_update; [exists c; exact Hc|no_sup_fail HF2|].
      apply (IH _ _ c). apply dep_only_replace_nd; auto. simpl. discriminate.
  Qed.

  Lemma purge_D vs : forall l cs,
    wpA (fun _ _ => True) (purge vs) (fun l' _ ok => ok = true -> l' = remove_all vs l) l cs.
  Proof.
    induction vs as [|v t IH]; intros l cs; cbn [purge]; wp_norm.
    - apply wp_ret. auto.
    - apply wp_delete; [exact I| |].
      + intros Hn _. destruct Hsafe as [X|[_ Hdel]]; [congruence|].
        destruct (dresp (SDelete v)) eqn:E; [exfalso; eapply Hdel; eauto|..]; apply wp_ret; discriminate.
      + destruct (has_rev v l); [apply IH|apply wp_ret; discriminate].
  Qed.

  (* a failure handler that never writes a deployed payload and never returns success *)
  Lemma fail_path (p : prog outcome) l cs c :
    dep_only c l -> all_eff nd_nc p -> leaves (fun o => o <> OOk) p ->
    wpA G p (fun l' _ out => DG l' /\ out <> OOk) l cs.
  Proof.
    intros Hc Ha Hl.
    eapply wp_conseq; [apply wp_leaves; [exact Hl|apply wp_nd_nc; exact Ha]| |]; cbv beta.
    - intros l1 _ [Hs _]. exists c. eapply dep_only_sub; eauto.
    - intros l1 _ a [[Hs _] Ha']. split; auto. exists c. eapply dep_only_sub; eauto.
  Qed.

  (* the final "deployed" write fails: allowed by H1 for the invariant, excluded by S3 for success *)
  Ltac final_fail Hn :=
    let HFe := fresh "HFe" in
    intros _ HFe;
    try (match goal with |- context [dresp ?e] => destruct (dresp e) end);
    apply wp_ret;
    (split; [apply dep_none_DG; exact Hn
            |try discriminate; intros _ _ H3; exfalso; destruct (H3 _ HFe) as [_ [X _]]; apply X; reflexivity]).

  (* invariants between the Create of the new record [x] and the final writes *)
  Definition mid (c : nat) (x : release) (l0 l : list release) : Prop :=
    dep_only c l /\ (forall r, In r l -> r = x \/ In r l0) /\ In x l.

  Lemma mid_upd c x l0 l l' : st x <> SDeployed -> mid c x l0 l -> upd_of x l l' -> mid c x l0 l'.
  Proof.
    intros Hx [H1 [H2 H3]] Hu. split; [|split].
    - eapply dep_only_sub; eauto. eapply upd_of_dep_sub; eauto.
    - intros r Hr. destruct (upd_of_in _ _ _ _ Hu Hr) as [->|Hr']; auto.
    - eapply upd_of_keeps; eauto.
  Qed.

  Lemma mid_DG c x l0 l : mid c x l0 l -> DG l.
  Proof. intros [H _]. now exists c. Qed.

  Definition rollback_post (fl : flags) (l0 l' : list release) (out : outcome) : Prop :=
    DG l' /\
    (out = OOk -> f_dry_run fl = false -> S3 ->
     exists x pr, succ_new l0 l' x /\ (NoDup (revs l0) -> prev_superseded l0 l') /\
                  find (fun r => Nat.eqb (rev r) (rollback_target fl l0)) l0 = Some pr /\
                  same_content x pr).

  Lemma rollback_D fl l0 cs0 :
    DG l0 -> wpA G (rollback rn ns fl) (fun l' _ out => rollback_post fl l0 l' out) l0 cs0.
  Proof.
    intros [c Hc]. unfold rollback_post, rollback. wp_norm. apply wp_history.
    destruct (max_rev_of l0) as [cur|] eqn:Hmax;
      [|apply wp_ret; split; [now exists c|discriminate]].
    destruct (max_rev_of_some _ _ Hmax) as [Hcur Hle].
    assert (Hm : mx l0 = rev cur) by (unfold mx; now rewrite Hmax).
    apply wp_history.
    destruct (negb (existsb _ l0)); [apply wp_ret; split; [now exists c|discriminate]|].
    apply wp_get. unfold rollback_target. rewrite Hm.
    destruct (find _ l0) as [pr|] eqn:Hfind; [|apply wp_ret; split; [now exists c|discriminate]].
    destruct (f_dry_run fl) eqn:Hdry; [apply wp_ret; split; [now exists c|discriminate]|].
    set (tgt := mkRelease (S (rev cur)) SPendingRollback (chart_id pr) (config_id pr) (manifest pr) (hooks pr)).
    assert (Htnd : st tgt <> SDeployed) by (simpl; discriminate).
    wp_piece storage_create_spec; cbv beta.
    { intros l1 _ [Hi _]. exists c. eapply dep_only_incl; eauto. }
    intros l1 c1 e HQ. apply created_D in HQ. destruct HQ as [[-> [l' [-> Hi]]]|[Hne Hi]].
    2: { destruct e; try congruence; apply wp_ret;
           (split; [exists c; eapply dep_only_incl; eauto|discriminate]). }
    assert (Hmid1 : mid c tgt l0 (l' ++ [tgt])).
    { split; [|split].
      - apply dep_only_app; auto. eapply dep_only_incl; eauto.
      - intros r Hr. apply in_app_iff in Hr. destruct Hr as [Hr|[<-|[]]]; auto.
      - apply in_app_iff. right. now left. }
    assert (Hfailp : forall l c2, dep_only c l ->
              wpA G (Eff (SUpdate (with_status tgt SFailed)) (fun _ => Ret (OErr EOtherErr)))
                  (fun l'0 _ out => DG l'0 /\ out <> OOk) l c2).
    { intros l c2 Hl. apply wp_update_any; [now exists c|]. intros lw r0 _ Hu.
      apply wp_ret. split; [|discriminate]. exists c.
      eapply upd_of_dep_only; [exact Hl| |exact Hu]. simpl. discriminate. }
    wp_piece wp_quiet; [apply ae_run_hooks| |]; cbv beta.
    { intros l2 _ [Hu _]. eapply mid_DG. eapply mid_upd; eauto. }
    intros l2 c2 pre [Hu2 _]. pose proof (mid_upd _ _ _ _ _ Htnd Hmid1 Hu2) as Hmid2.
    destruct (negb pre); [by_fail Hfailp; apply Hmid2|].
    apply wp_cluster; [reflexivity|eapply mid_DG; eauto|]. intros u.
    destruct (negb (fst u)).
    { by_fail fail_path; [apply Hmid2|ae|lv]. }
    apply wp_cluster; [reflexivity|eapply mid_DG; eauto|]. intros w.
    destruct (negb w).
    { apply wp_update_any; [eapply mid_DG; eauto|]. intros lw r0 _ Huw. by_fail Hfailp.
      eapply upd_of_dep_only; [apply Hmid2| |exact Huw]. intros Hs. now apply Hc. }
    wp_piece wp_quiet; [apply ae_run_hooks| |]; cbv beta.
    { intros l3 _ [Hu _]. eapply mid_DG. eapply mid_upd; eauto. }
    intros l3 c3 post [Hu3 _]. pose proof (mid_upd _ _ _ _ _ Htnd Hmid2 Hu3) as Hmid3.
    destruct (negb post); [by_fail Hfailp; apply Hmid3|].
    apply wp_deployed_all.
    destruct Hmid3 as [Hd3 [Hin3 Hx3]].
    wp_piece (supersede_all_D (filter (fun r => status_eqb (st r) SDeployed) l3) l3 c3 c Hd3); cbv beta; [auto|].
    intros l4 c4 _ [-> ->].
    pose proof (sup_all_deployed_none l3) as Hnone. fold is_deployed.
    set (l4 := sup_all (filter is_deployed l3) l3) in *.
    set (x := with_status tgt SDeployed).
    apply wp_update; [exists c; now apply dep_none_only|final_fail Hnone|].
    assert (HDG : DG (replace_rev x l4)) by (exists (rev x); now apply dep_none_deploy).
    destruct (has_rev (rev x) l4) eqn:Hhas; apply wp_ret; (split; [exact HDG|]); [|discriminate].
    intros _ _ _. exists x, pr.
    assert (Hb4 : forall r, In r l4 -> rev r <= S (rev cur)).
    { intros r Hr. assert (X : In (rev r) (revs l4)) by (now apply in_map).
      unfold l4 in X. rewrite revs_sup_all in X. apply in_revs in X. destruct X as [r' [Hr' E]].
      rewrite <- E. destruct (Hin3 r' Hr') as [->|Hr0]; [reflexivity|]. specialize (Hle r' Hr0). lia. }
    split; [|split; [|split]].
    - split; [|split; [|split]].
      + apply in_replace_rev. left. auto.
      + reflexivity.
      + simpl. now rewrite Hm.
      + intros r Hr. apply in_replace_rev_weak in Hr. destruct Hr as [->|Hr]; auto.
    - intros Hnd d Hd Hds r Hr E.
      apply in_replace_rev in Hr. destruct Hr as [[-> _]|[Hr Hne]].
      + simpl in E. specialize (Hle d Hd). lia.
      + unfold l4 in Hr. apply in_sup_all in Hr. destruct Hr as [[Hr Hnot]|Hr]; auto.
        exfalso. apply Hnot. destruct (Hin3 r Hr) as [->|Hr0].
        * simpl in E. specialize (Hle d Hd). lia.
        * assert (r = d) by (eapply nodup_revs_inj; eauto). subst r.
          unfold revs. apply in_map. apply filter_In. split; auto. unfold is_deployed. now apply status_eqb_eq.
    - reflexivity.
    - repeat split.
  Qed.

  Lemma upgrade_fail_D fl up created l cs c :
    dep_only c l ->
    wpA G (upgrade_fail rn ns fl up created) (fun l' _ out => DG l' /\ out <> OOk) l cs.
  Proof.
    intros Hc. unfold upgrade_fail. wp_norm.
    apply wp_update_any; [now exists c|]. intros lf r0 _ Hu.
    assert (Hd : dep_only c lf)
      by (eapply upd_of_dep_only; [exact Hc| |exact Hu]; simpl; discriminate).
    wp_piece wp_no_write; [ae| |]; cbv beta.
    { intros l1 _ [-> _]. now exists c. }
    intros l1 c1 cleaned [-> ->].
    destruct (negb cleaned); [apply wp_ret; split; [now exists c|discriminate]|].
    destruct (f_atomic fl); [|apply wp_ret; split; [now exists c|discriminate]].
    apply wp_history.
    destruct (max_rev_of _) as [g|]; [|apply wp_ret; split; [now exists c|discriminate]].
    wp_piece rollback_D; cbv beta; [now exists c|auto|].
    intros l2 c2 r [HDG _]. apply wp_ret. split; [auto|discriminate].
  Qed.

  Definition upgrade_post (fl : flags) (cid vid : nat) (mani : list res) (hks : list hook)
             (l0 l' : list release) (out : outcome) : Prop :=
    DG l' /\
    (out = OOk -> f_dry_run fl = false -> S3 ->
     exists x, succ_new l0 l' x /\ prev_superseded l0 l' /\
               chart_id x = cid /\ config_id x = vid /\ manifest x = mani /\ hooks x = hks).

  Lemma upgrade_D fl cid vid mani hks l0 cs0 :
    DG l0 ->
    wpA G (upgrade rn ns fl cid vid mani hks)
        (fun l' _ out => upgrade_post fl cid vid mani hks l0 l' out) l0 cs0.
  Proof.
    intros [c Hc]. unfold upgrade_post, upgrade. wp_norm. apply wp_history.
    destruct (max_rev_of l0) as [last|] eqn:Hmax;
      [|apply wp_ret; split; [now exists c|discriminate]].
    destruct (max_rev_of_some _ _ Hmax) as [Hlast Hle].
    assert (Hm : mx l0 = rev last) by (unfold mx; now rewrite Hmax).
    destruct (is_pending (st last)); [apply wp_ret; split; [now exists c|discriminate]|].
    eapply wp_bind_rel with
      (GP := fun l1 (_ : list nat) => l1 = l0)
      (QP := fun l1 c1 cur => l1 = l0 /\ c1 = cs0 /\
               forall current, cur = Some current -> In current l0 /\ dep_only (rev current) l0).
    { destruct (status_eqb (st last) SDeployed) eqn:Hld.
      - apply wp_ret. split; auto. split; auto. intros current H. inversion H; subst current.
        split; auto. apply status_eqb_eq in Hld. intros r Hr Hs. rewrite (Hc r Hr Hs). symmetry. now apply Hc.
      - apply wp_deployed_all. destruct (max_rev_of (filter _ l0)) as [d|] eqn:Hd.
        + apply wp_ret. split; auto. split; auto. intros current H. inversion H; subst current.
          apply max_rev_of_some in Hd. destruct Hd as [Hd _]. apply filter_In in Hd.
          destruct Hd as [Hd Hs]. apply status_eqb_eq in Hs. split; auto.
          intros r Hr Hsr. rewrite (Hc r Hr Hsr). symmetry. now apply Hc.
        + apply max_rev_of_none in Hd.
          assert (Hnone : dep_none l0).
          { intros r Hr Hs. assert (X : In r (filter (fun r => status_eqb (st r) SDeployed) l0)).
            { apply filter_In. split; auto. now apply status_eqb_eq. }
            rewrite Hd in X. destruct X. }
          destruct (status_eqb (st last) SFailed || status_eqb (st last) SSuperseded); apply wp_ret.
          * split; auto. split; auto. intros current H. inversion H; subst current. split; auto.
            now apply dep_none_only.
          * split; auto. split; auto. intros current H. discriminate H. }
    { intros l1 _ ->. now exists c. }
    intros l1 c1 cur [-> [-> Hcur]].
    destruct cur as [current|]; [|apply wp_ret; split; [now exists c|discriminate]].
    destruct (Hcur current eq_refl) as [Hcin Hcd]. clear Hcur.
    apply wp_cluster; [reflexivity|now exists c|]. intros adopt.
    destruct adopt as [adopted|]; [|apply wp_ret; split; [now exists c|discriminate]].
    destruct (f_dry_run fl) eqn:Hdry; [apply wp_ret; split; [now exists c|discriminate]|].
    set (up := mkRelease (S (rev last)) SPendingUpgrade cid vid mani hks).
    assert (Hund : st up <> SDeployed) by (simpl; discriminate).
    wp_piece storage_create_spec; cbv beta.
    { intros l1 _ [Hi _]. exists c. eapply dep_only_incl; eauto. }
    intros l1 c1 e HQ. apply created_D in HQ. destruct HQ as [[-> [l' [-> Hi]]]|[Hne Hi]].
    2: { destruct e; try congruence; apply wp_ret;
           (split; [exists c; eapply dep_only_incl; eauto|discriminate]). }
    assert (Hmid1 : mid (rev current) up l0 (l' ++ [up])).
    { split; [|split].
      - apply dep_only_app; auto. eapply dep_only_incl; eauto.
      - intros r Hr. apply in_app_iff in Hr. destruct Hr as [Hr|[<-|[]]]; auto.
      - apply in_app_iff. right. now left. }
    wp_piece wp_quiet; [apply ae_run_hooks| |]; cbv beta.
    { intros l2 _ [Hu _]. eapply mid_DG. eapply mid_upd; eauto. }
    intros l2 c2 pre [Hu2 _]. pose proof (mid_upd _ _ _ _ _ Hund Hmid1 Hu2) as Hmid2.
    destruct (negb pre); [by_fail upgrade_fail_D; apply Hmid2|].
    apply wp_cluster; [reflexivity|eapply mid_DG; eauto|]. intros u.
    assert (Hcur2 : forall l', upd_of current l2 l' -> dep_only (rev current) l').
    { intros lw Huw. eapply upd_of_dep_only; [apply Hmid2| |exact Huw]. auto. }
    destruct (negb (fst u)).
    { apply wp_update_any; [eapply mid_DG; eauto|]. intros lw r0 _ Huw. by_fail upgrade_fail_D; exact (Hcur2 lw Huw). }
    apply wp_cluster; [reflexivity|eapply mid_DG; eauto|]. intros w.
    destruct (negb w).
    { apply wp_update_any; [eapply mid_DG; eauto|]. intros lw r0 _ Huw. by_fail upgrade_fail_D; exact (Hcur2 lw Huw). }
    wp_piece wp_quiet; [apply ae_run_hooks| |]; cbv beta.
    { intros l3 _ [Hu _]. eapply mid_DG. eapply mid_upd; eauto. }
    intros l3 c3 post [Hu3 _]. pose proof (mid_upd _ _ _ _ _ Hund Hmid2 Hu3) as Hmid3.
    destruct (negb post); [by_fail upgrade_fail_D; apply Hmid3|].
    destruct Hmid3 as [Hd3 [Hin3 Hx3]].
    apply wp_update; [now exists (rev current)|no_sup_fail HF2|].
    set (sup := with_status current SSuperseded).
    set (la := replace_rev sup l3).
    assert (Hnone : dep_none la).
    { apply (dep_only_supersede (rev current)); auto. simpl. discriminate. }
    apply wp_update; [exists 0; now apply dep_none_only|final_fail Hnone|].
    set (x := with_status up SDeployed).
    assert (HDG : DG (replace_rev x la)) by (exists (rev x); now apply dep_none_deploy).
    destruct (has_rev (rev x) la) eqn:Hhas; apply wp_ret; (split; [exact HDG|]); [|discriminate].
    intros _ _ _. exists x.
    assert (Hba : forall r, In r la -> rev r <= S (rev last)).
    { intros r Hr. apply in_replace_rev_weak in Hr. destruct Hr as [->|Hr].
      - simpl. specialize (Hle current Hcin). lia.
      - destruct (Hin3 r Hr) as [->|Hr0]; [reflexivity|]. specialize (Hle r Hr0). lia. }
    split; [|split].
    - split; [|split; [|split]].
      + apply in_replace_rev. left. auto.
      + reflexivity.
      + simpl. now rewrite Hm.
      + intros r Hr. apply in_replace_rev_weak in Hr. destruct Hr as [->|Hr]; auto.
    - intros d Hd Hds r Hr E.
      assert (Hdc : rev d = rev current) by (now apply Hcd).
      apply in_replace_rev in Hr. destruct Hr as [[-> _]|[Hr _]].
      + simpl in E. specialize (Hle d Hd). lia.
      + apply in_replace_rev in Hr. destruct Hr as [[-> _]|[Hr Hne]]; [reflexivity|].
        exfalso. apply Hne. simpl. congruence.
    - repeat split.
  Qed.

  Lemma revs_bound l1 l0 r : revs l1 = revs l0 -> In r l1 -> rev r <= mx l0.
  Proof.
    intros E Hr. assert (X : In (rev r) (revs l1)) by (now apply in_map).
    rewrite E in X. apply in_revs in X. destruct X as [r0 [H0 <-]]. now apply mx_bound.
  Qed.

  Lemma install_fail_D fl rel l cs :
    dep_none l -> wpA G (install_fail fl rel) (fun l' _ out => DG l' /\ out <> OOk) l cs.
  Proof.
    intros Hn.
    eapply wp_conseq;
      [apply wp_leaves with (R := fun o : outcome => o <> OOk);
         [unfold install_fail; lv|apply wp_nd_nc; apply ae_install_fail]| |]; cbv beta.
    - intros l1 _ [Hs _]. apply dep_none_DG. eapply dep_none_sub; eauto.
    - intros l1 _ a [[Hs _] Ha]. split; auto. apply dep_none_DG. eapply dep_none_sub; eauto.
  Qed.

  Definition install_post (fl : flags) (cid vid : nat) (mani : list res) (hks : list hook)
             (l0 l' : list release) (out : outcome) : Prop :=
    DG l' /\
    (out = OOk -> f_dry_run fl = false -> S3 ->
     exists x, succ_new l0 l' x /\ prev_superseded l0 l' /\
               chart_id x = cid /\ config_id x = vid /\ manifest x = mani /\ hooks x = hks).

  Lemma install_D fl cid vid mani hks l0 cs0 :
    DG l0 -> (f_replace fl = true -> dep_none l0) ->               (* H2 *)
    wpA G (install rn ns fl cid vid mani hks)
        (fun l' _ out => install_post fl cid vid mani hks l0 l' out) l0 cs0.
  Proof.
    intros [c Hc] H2. unfold install_post, install. wp_norm.
    eapply wp_bind_rel with
      (GP := fun l1 (_ : list nat) => l1 = l0)
      (QP := fun l1 c1 a => l1 = l0 /\ c1 = cs0 /\
                            (a = true -> f_dry_run fl = true \/ l0 = [] \/ f_replace fl = true)).
    { destruct (f_dry_run fl) eqn:Hdry.
      - apply wp_ret. auto.
      - apply wp_history. destruct (max_rev_of l0) as [last|] eqn:Hmax; apply wp_ret.
        + split; auto. split; auto. intros Ha. right. right. apply andb_true_iff in Ha. tauto.
        + split; auto. split; auto. intros _. right. left. now apply max_rev_of_none. }
    { intros l1 _ ->. now exists c. }
    intros la ca avail [-> [-> Hav]].
    destruct (negb avail) eqn:Hna; [apply wp_ret; split; [now exists c|discriminate]|].
    apply negb_false_iff in Hna. specialize (Hav Hna).
    wp_piece wp_no_write; [ae| |]; cbv beta.
    { intros l1 _ [-> _]. now exists c. }
    intros la ca adopt [-> ->].
    destruct adopt as [adopted|]; [|apply wp_ret; split; [now exists c|discriminate]].
    destruct (f_dry_run fl) eqn:Hdry; [apply wp_ret; split; [now exists c|discriminate]|].
    assert (Hnone : dep_none l0).
    { destruct Hav as [X|[X|X]]; [congruence| |auto]. subst l0. intros r []. }
    set (rel := mkRelease (S (mx l0)) SPendingInstall cid vid mani hks).
    eapply wp_bind_rel with
      (GP := fun l1 (_ : list nat) => dep_none l1)
      (QP := fun l1 (_ : list nat) rr => dep_none l1 /\ revs l1 = revs l0 /\
                                         forall r0, rr = Some r0 -> r0 = rel).
    { destruct (f_replace fl) eqn:Hrep.
      - apply wp_history. destruct (max_rev_of l0) as [last|] eqn:Hmax.
        + assert (Hm : mx l0 = rev last) by (unfold mx; now rewrite Hmax).
          destruct (status_eqb (st last) SFailed).
          * apply wp_ret. split; auto. split; auto. intros r0 H. inversion H; subst r0.
            unfold rel, with_rev. simpl. now rewrite Hm.
          * apply wp_update; [auto|no_sup_fail HF2|].
            assert (Hn1 : dep_none (replace_rev (with_status last SSuperseded) l0))
              by (apply dep_none_replace_nd; [auto|simpl; discriminate]).
            destruct (has_rev _ l0); apply wp_ret; (split; [auto|split; [apply revs_replace|]]);
              intros r0 H; try discriminate H. inversion H; subst r0.
            unfold rel, with_rev. simpl. now rewrite Hm.
        + apply wp_ret. split; auto. split; auto. intros r0 H. inversion H; subst r0.
          unfold rel, mx. now rewrite Hmax.
      - apply wp_ret. split; auto. split; auto. intros r0 H. inversion H; subst r0.
        destruct Hav as [X|[X|X]]; try congruence. subst l0. reflexivity. }
    { intros l1 _ Hn. now apply dep_none_DG. }
    intros l1 c1 rr [Hn1 [Hr1 Hrr]].
    destruct rr as [r0|]; [|apply wp_ret; split; [now apply dep_none_DG|discriminate]].
    rewrite (Hrr r0 eq_refl). clear Hrr r0.
    assert (Hrnd : st rel <> SDeployed) by (simpl; discriminate).
    wp_piece storage_create_spec; cbv beta.
    { intros l2 _ [Hi _]. apply dep_none_DG. eapply dep_none_incl; eauto. }
    intros l2 c2 e HQ. apply created_D in HQ. destruct HQ as [[-> [l' [-> Hi]]]|[Hne Hi]].
    2: { destruct e; try congruence; apply wp_ret;
           (split; [apply dep_none_DG; eapply dep_none_incl; eauto|discriminate]). }
    set (mid0 := fun l : list release => dep_none l /\ rbound (S (mx l0)) l /\ In rel l).
    assert (Hmid_upd : forall l l'0, mid0 l -> upd_of rel l l'0 -> mid0 l'0).
    { intros l l'0 [A [B C]] Hu. split; [|split].
      - eapply dep_none_sub; eauto. eapply upd_of_dep_sub; eauto.
      - intros r Hr. destruct (upd_of_in _ _ _ _ Hu Hr) as [->|Hr']; auto.
      - eapply upd_of_keeps; eauto. }
    assert (Hmid1 : mid0 (l' ++ [rel])).
    { split; [|split].
      - apply dep_none_app; auto. eapply dep_none_incl; eauto.
      - intros r Hr. apply in_app_iff in Hr. destruct Hr as [Hr|[<-|[]]]; [|reflexivity].
        apply Hi in Hr. pose proof (revs_bound _ _ _ Hr1 Hr). lia.
      - apply in_app_iff. right. now left. }
    wp_piece wp_quiet; [apply ae_run_hooks| |]; cbv beta.
    { intros l2 _ [Hu _]. apply dep_none_DG. eapply Hmid_upd; eauto. }
    intros lh1 ch1 pre [Hu2 _]. pose proof (Hmid_upd _ _ Hmid1 Hu2) as Hmid2.
    destruct (negb pre); [by_fail install_fail_D; apply Hmid2|].
    wp_piece wp_no_write; [ae| |]; cbv beta.
    { intros l3 _ [-> _]. apply dep_none_DG. apply Hmid2. }
    intros lh2 ch2 ok [-> ->].
    destruct (negb ok); [by_fail install_fail_D; apply Hmid2|].
    apply wp_cluster; [reflexivity|apply dep_none_DG; apply Hmid2|]. intros w.
    destruct (negb w); [by_fail install_fail_D; apply Hmid2|].
    wp_piece wp_quiet; [apply ae_run_hooks| |]; cbv beta.
    { intros l3 _ [Hu _]. apply dep_none_DG. eapply Hmid_upd; eauto. }
    intros lh3 ch3 post [Hu3 _]. pose proof (Hmid_upd _ _ Hmid2 Hu3) as [Hn3 [Hb3 Hx3]].
    destruct (negb post); [by_fail install_fail_D; exact Hn3|].
    apply wp_update; [now apply dep_none_DG|final_fail Hn3|].
    set (x := with_status rel SDeployed).
    apply wp_ret. split; [exists (rev x); now apply dep_none_deploy|].
    intros _ _ _. exists x. split; [|split].
    - split; [|split; [|split]].
      + apply in_replace_rev. left. split; auto. apply has_rev_true. exists rel. auto.
      + reflexivity.
      + reflexivity.
      + intros r Hr. apply in_replace_rev_weak in Hr. destruct Hr as [->|Hr]; [reflexivity|now apply Hb3].
    - intros d Hd Hds. exfalso. eapply Hnone; eauto.
    - repeat split.
  Qed.

  Lemma uninstall_D fl l0 cs0 :
    DG l0 -> wpA G (uninstall fl) (fun l' _ _ => DG l') l0 cs0.
  Proof.
    intros [c Hc]. eapply wp_conseq; [apply wp_nd_nc; apply ae_uninstall| |]; cbv beta.
    - intros l1 _ [Hs _]. exists c. eapply dep_only_sub; eauto.
    - intros l1 _ _ [Hs _]. exists c. eapply dep_only_sub; eauto.
  Qed.

  Definition uninstall_post (fl : flags) (l' : list release) (out : outcome) : Prop :=
    out = OOk -> f_dry_run fl = false -> S3 ->
    if f_keep_history fl
    then exists x, In x l' /\ st x = SUninstalled /\ forall r, In r l' -> rev r <= rev x
    else l' = [].

  Lemma uninstall_S fl l0 cs0 :
    wpA (fun _ _ => True) (uninstall fl) (fun l' _ out => uninstall_post fl l' out) l0 cs0.
  Proof.
    unfold uninstall_post, uninstall. wp_norm.
    destruct (f_dry_run fl) eqn:Hdry.
    { apply wp_history. destruct l0; apply wp_ret; intros _ X; discriminate X. }
    apply wp_history.
    destruct (max_rev_of l0) as [last|] eqn:Hmax; [|apply wp_ret; discriminate].
    destruct (max_rev_of_some _ _ Hmax) as [Hlast Hle].
    assert (Hall : forall l, revs l = revs l0 -> forall r, In r l -> In (rev r) (map rev (sort_by_rev l0))).
    { intros l E r Hr. assert (X : In (rev r) (revs l)) by (now apply in_map).
      rewrite E in X. apply in_revs in X. destruct X as [r0 [H0 <-]].
      apply in_map. now apply in_sort_by_rev. }
    destruct (status_eqb (st last) SUninstalled).
    { destruct (f_keep_history fl) eqn:Hkeep; [apply wp_ret; discriminate|].
      wp_piece purge_D; cbv beta; [auto|].
      intros l1 cp ok Hok. apply wp_ret. intros Hout _ _.
      destruct ok; [|discriminate Hout]. rewrite (Hok eq_refl). apply remove_all_nil. now apply Hall. }
    set (rel := with_status last SUninstalling).
    wp_piece wp_quiet; [apply ae_run_hooks| |]; cbv beta; [auto|].
    intros l1 c1 pre [Hu1 _]. apply upd_of_revs in Hu1.
    destruct (negb pre); [apply wp_ret; discriminate|].
    apply wp_update_any; [exact I|]. intros l2 _ Hr2 _. rewrite Hu1 in Hr2.
    wp_piece wp_no_write; [ae| |]; cbv beta; [auto|].
    intros l3 c3 delok [-> ->].
    destruct (negb delok); [apply wp_ret; discriminate|].
    apply wp_cluster; [reflexivity|exact I|]. intros w.
    wp_piece wp_quiet; [apply ae_run_hooks| |]; cbv beta; [auto|].
    intros l3 c3 post [Hu3 _]. apply upd_of_revs in Hu3. rewrite Hr2 in Hu3.
    destruct (f_keep_history fl) eqn:Hkeep.
    - apply wp_update; [exact I| |].
      { intros _ HFe. apply wp_ret. intros _ _ H3. exfalso.
        destruct (H3 _ HFe) as [_ [_ X]]. apply X. reflexivity. }
      apply wp_ret. intros _ _ _.
      set (x := with_status rel SUninstalled). exists x. split; [|split].
      + apply in_replace_rev. left. split; auto. apply has_rev_true.
        assert (X : In (rev last) (revs l3)) by (rewrite Hu3; now apply in_map).
        apply in_revs in X. destruct X as [r0 [H0 E0]]. exists r0. auto.
      + reflexivity.
      + intros r Hr. apply in_replace_rev_weak in Hr. destruct Hr as [->|Hr]; [reflexivity|].
        pose proof (revs_bound _ _ _ Hu3 Hr) as B. unfold mx in B. rewrite Hmax in B. exact B.
    - wp_piece purge_D; cbv beta; [auto|].
      intros l4 cp ok Hok. apply wp_ret. intros Hout _ _.
      destruct ok; [|destruct (w && post); discriminate Hout].
      rewrite (Hok eq_refl). apply remove_all_nil. now apply Hall.
  Qed.
End Dep.

(* ------------------------------------------------------------------ *)
(* one operation, then histories                                        *)

(* H2 for one operation: no install --replace while some revision is deployed *)
Definition h2_op (o : op) (l : list release) : Prop :=
  match o with
  | OpInstall fl _ _ _ _ => f_replace fl = true -> ndep l = 0
  | _ => True
  end.

Definition op_flags (o : op) : flags :=
  match o with
  | OpInstall fl _ _ _ _ | OpUpgrade fl _ _ _ _ | OpRollback fl | OpUninstall fl => fl
  end.

Definition success_post (o : op) (l0 l' : list release) : Prop :=
  match o with
  | OpInstall fl cid vid mani hks | OpUpgrade fl cid vid mani hks =>
      exists x, succ_new l0 l' x /\ prev_superseded l0 l' /\
                chart_id x = cid /\ config_id x = vid /\ manifest x = mani /\ hooks x = hks
  | OpRollback fl =>
      exists x pr, succ_new l0 l' x /\ prev_superseded l0 l' /\
                   find (fun r => Nat.eqb (rev r) (rollback_target fl l0)) l0 = Some pr /\
                   same_content x pr
  | OpUninstall fl =>
      if f_keep_history fl
      then exists x, In x l' /\ st x = SUninstalled /\ forall r, In r l' -> rev r <= rev x
      else l' = []
  end.

Section OneOp.
  Variable K : Type.
  Variable kh : forall e : eff, K -> K * resp e * list kev.
  Variable dresp : forall e : eff, resp e.
  Variable rn ns : string.

  Lemma op_D f (F : eff -> Prop) o l0 :
    wfail f = None \/ honest dresp -> (forall e, F e -> fail_ok2 e) ->
    NoDup (revs l0) -> DG l0 -> h2_op o l0 ->
    wpA kh dresp f F (fun l _ => DG l) (op_prog rn ns o)
        (fun l' _ out => DG l' /\
           (out = OOk -> f_dry_run (op_flags o) = false -> S3 F -> success_post o l0 l'))
        l0 [].
  Proof.
    intros Hs HF2 Hn HDG H2.
    destruct o as [fl cid vid mani hks|fl cid vid mani hks|fl|fl]; cbn [op_prog op_flags success_post].
    - apply install_D; auto. intros Hr. apply ndep_zero_none. now apply H2.
    - apply upgrade_D; auto.
    - eapply wp_conseq; [apply rollback_D; auto|auto|]; cbv beta.
      intros l' _ out [H1 H3]. split; auto. intros Ho Hd H3'.
      destruct (H3 Ho Hd H3') as [x [pr [A [B [C D]]]]]. exists x, pr. auto.
    - eapply wp_conseq; [apply wp_and; [apply uninstall_D; auto|apply uninstall_S; auto]| |]; cbv beta.
      + intros l' _ [H _]. exact H.
      + intros l' _ out [H1 H3]. split; auto.
  Qed.

  Definition op_result := (list release * K * outcome * list tev)%type.
  Definition res_led (r : op_result) : list release := fst (fst (fst r)).
  Definition res_ks (r : op_result) : K := snd (fst (fst r)).
  Definition res_out (r : op_result) : outcome := snd (fst r).
  Definition res_trace (r : op_result) : list tev := snd r.

  (* H1, narrow form, for one operation run from ledger l and cluster state k: the injected
     storage-write failure of the plan f, if it fires at all, hits a write in F *)
  Definition fail_hits_only (F : eff -> Prop) (o : op) (f : sfaults) (l : list release) (k : K) : Prop :=
    fails_only K kh dresp f F (op_prog rn ns o) (mkR l k 0 0 false []).

  Lemma fail_hits_only_none (F : eff -> Prop) o f l k : wfail f = None -> fail_hits_only F o f l k.
  Proof. intros H. now apply fails_only_none. Qed.

  Lemma run_op_D_gen f (F : eff -> Prop) o l k0 :
    wfail f = None \/ honest dresp -> (forall e, F e -> fail_ok2 e) -> fail_hits_only F o f l k0 ->
    NoDup (revs l) -> ndep l <= 1 -> h2_op o l ->
    let r := run_op K kh dresp rn ns o f l k0 in
    NoDup (revs (res_led r)) /\ ndep (res_led r) <= 1 /\
    (res_out r = OOk -> f_dry_run (op_flags o) = false -> S3 F -> success_post o l (res_led r)).
  Proof.
    intros Hs HF2 Hf Hn Hd H2.
    pose proof (wp_run_op K kh dresp f _ _ _ _ l k0 (op_D f F o l Hs HF2 Hn (ndep_DG _ Hd) H2) Hf) as H.
    pose proof (run_revisions_unique K kh dresp outcome f (op_prog rn ns o) (mkR l k0 0 0 false []) Hn) as Hu.
    cbv zeta in *. unfold run_op, res_led, res_out.
    destruct (run K kh dresp f (op_prog rn ns o) (mkR l k0 0 0 false [])) as [s out].
    cbn [fst snd] in *. destruct H as [H1 H3]. split; auto.
    destruct (dead s) eqn:Hdead.
    - split; [apply DG_ndep; auto|]. discriminate.
    - destruct (H3 eq_refl) as [A B]. split; [apply DG_ndep; auto|]. exact B.
  Qed.

  (* coarse H1: no injected storage-write failure *)
  Lemma run_op_D f o l k0 :
    wfail f = None -> NoDup (revs l) -> ndep l <= 1 -> h2_op o l ->
    let r := run_op K kh dresp rn ns o f l k0 in
    NoDup (revs (res_led r)) /\ ndep (res_led r) <= 1 /\
    (res_out r = OOk -> f_dry_run (op_flags o) = false -> success_post o l (res_led r)).
  Proof.
    intros Hw Hn Hd H2.
    destruct (run_op_D_gen f fail_ok3 o l k0 (or_introl Hw) fail_ok3_2
                (fail_hits_only_none _ o f l k0 Hw) Hn Hd H2) as [A [B C]].
    split; auto. split; auto. intros Ho Hdry. apply C; auto. intros e He. exact He.
  Qed.

  (* narrow H1 for the success postcondition: the failing write, if any, is neither a
     "superseded" write nor a final status write ("deployed", "uninstalled") *)
  Lemma run_op_D_narrow f o l k0 :
    honest dresp -> fail_hits_only fail_ok3 o f l k0 ->
    NoDup (revs l) -> ndep l <= 1 -> h2_op o l ->
    let r := run_op K kh dresp rn ns o f l k0 in
    NoDup (revs (res_led r)) /\ ndep (res_led r) <= 1 /\
    (res_out r = OOk -> f_dry_run (op_flags o) = false -> success_post o l (res_led r)).
  Proof.
    intros Hh Hf Hn Hd H2.
    destruct (run_op_D_gen f fail_ok3 o l k0 (or_intror Hh) fail_ok3_2 Hf Hn Hd H2) as [A [B C]].
    split; auto. split; auto. intros Ho Hdry. apply C; auto. intros e He. exact He.
  Qed.

  (* a history of operations, each with its own storage-fault plan; the cluster state is
     threaded through (and is whatever the handler makes of it) *)
  Fixpoint run_ops (h : list (op * sfaults)) (l : list release) (k : K) : list op_result :=
    match h with
    | [] => []
    | (o, f) :: t =>
        let r := run_op K kh dresp rn ns o f l k in
        r :: run_ops t (res_led r) (res_ks r)
    end.

  (* H2 along a history *)
  Fixpoint h2_hist (h : list (op * sfaults)) (l : list release) (k : K) : Prop :=
    match h with
    | [] => True
    | (o, f) :: t =>
        h2_op o l /\
        let r := run_op K kh dresp rn ns o f l k in h2_hist t (res_led r) (res_ks r)
    end.

  (* narrow H1 along a history: no injected failure ever hits a "superseded" write *)
  Fixpoint h1_hist (h : list (op * sfaults)) (l : list release) (k : K) : Prop :=
    match h with
    | [] => True
    | (o, f) :: t =>
        fail_hits_only fail_ok2 o f l k /\
        let r := run_op K kh dresp rn ns o f l k in h1_hist t (res_led r) (res_ks r)
    end.

  Lemma h1_hist_none h : forall l k, (forall o f, In (o, f) h -> wfail f = None) -> h1_hist h l k.
  Proof.
    induction h as [|[o f] t IH]; intros l k H; simpl; auto. split.
    - apply fail_hits_only_none. apply (H o f). now left.
    - apply IH. intros o' f' Hin. apply (H o' f'). now right.
  Qed.

  Lemma run_ops_inv h : forall l k,
    (forall o f, In (o, f) h -> wfail f = None \/ honest dresp) ->
    NoDup (revs l) -> ndep l <= 1 -> h1_hist h l k -> h2_hist h l k ->
    Forall (fun r => NoDup (revs (res_led r)) /\ ndep (res_led r) <= 1) (run_ops h l k).
  Proof.
    induction h as [|[o f] t IH]; intros l k Hs Hn Hd H1 H2; simpl; [constructor|].
    destruct H1 as [H1o H1t]. destruct H2 as [H2o H2t].
    destruct (run_op_D_gen f fail_ok2 o l k (Hs o f (or_introl eq_refl)) (fun e He => He) H1o Hn Hd H2o)
      as [A [B _]].
    constructor; auto. apply IH; auto. intros o' f' Hin. apply (Hs o' f'). now right.
  Qed.

  Lemma run_ops_one_deployed_narrow h l k :
    honest dresp -> NoDup (revs l) -> ndep l <= 1 -> h1_hist h l k -> h2_hist h l k ->
    Forall (fun r => ndep (res_led r) <= 1) (run_ops h l k).
  Proof.
    intros Hh Hn Hd H1 H2.
    assert (Hs : forall o f, In (o, f) h -> wfail f = None \/ honest dresp) by (intros o f _; now right).
    eapply Forall_impl; [|exact (run_ops_inv h l k Hs Hn Hd H1 H2)].
    intros r [_ B]. exact B.
  Qed.

  Lemma run_ops_one_deployed h l k :
    NoDup (revs l) -> ndep l <= 1 ->
    (forall o f, In (o, f) h -> wfail f = None) ->
    h2_hist h l k ->
    Forall (fun r => ndep (res_led r) <= 1) (run_ops h l k).
  Proof.
    intros Hn Hd Hw H2.
    assert (Hs : forall o f, In (o, f) h -> wfail f = None \/ honest dresp) by (intros o f Hin; left; eauto).
    eapply Forall_impl; [|exact (run_ops_inv h l k Hs Hn Hd (h1_hist_none h l k Hw) H2)].
    intros r [_ B]. exact B.
  Qed.
End OneOp.

(* the same over the object-store instance, with out-of-band edits of the cluster *)
Definition store_k0 (c : opcase) (w : world) : kstate :=
  mkK (w_objs w) (cf_k (oc_cf c)) (cf_h (oc_cf c)) (cf_wait (oc_cf c)).

Fixpoint h2_history (rn ns : string) (h : list hstep) (w : world) : Prop :=
  match h with
  | [] => True
  | HOp c :: t => h2_op (oc_op c) (w_led w) /\ h2_history rn ns t (fst (fst (run_store_op rn ns c w)))
  | HEdit e :: t => h2_history rn ns t (apply_edit w e)
  end.

Fixpoint h1_history (rn ns : string) (h : list hstep) (w : world) : Prop :=
  match h with
  | [] => True
  | HOp c :: t =>
      fail_hits_only kstate (kube_handle rn ns) dead_resp rn ns fail_ok2 (oc_op c) (oc_sf c) (w_led w) (store_k0 c w)
      /\ h1_history rn ns t (fst (fst (run_store_op rn ns c w)))
  | HEdit e :: t => h1_history rn ns t (apply_edit w e)
  end.

Lemma dead_resp_is_honest : honest dead_resp.
Proof. split; intros x; simpl; discriminate. Qed.

Lemma run_store_op_led rn ns c w :
  w_led (fst (fst (run_store_op rn ns c w))) =
  res_led kstate (run_op kstate (kube_handle rn ns) dead_resp rn ns (oc_op c) (oc_sf c) (w_led w) (store_k0 c w)).
Proof.
  unfold run_store_op, res_led, store_k0.
  destruct (run_op kstate (kube_handle rn ns) dead_resp rn ns (oc_op c) (oc_sf c) (w_led w) _) as [[[l k] out] t].
  reflexivity.
Qed.

Lemma history_one_deployed_narrow rn ns h : forall w,
  NoDup (revs (w_led w)) -> ndep (w_led w) <= 1 ->
  h1_history rn ns h w -> h2_history rn ns h w ->
  Forall (fun x => ndep (w_led (fst (fst x))) <= 1) (run_history rn ns h w).
Proof.
  induction h as [|s t IH]; intros w Hn Hd H1 H2; simpl; [constructor|].
  destruct s as [c|e].
  - destruct H1 as [H1o H1t]. destruct H2 as [H2o H2t].
    pose proof (run_op_D_gen kstate (kube_handle rn ns) dead_resp rn ns (oc_sf c) fail_ok2 (oc_op c) (w_led w)
                  (store_k0 c w) (or_intror dead_resp_is_honest) (fun e He => He) H1o Hn Hd H2o) as [A [B _]].
    cbv zeta in A, B. rewrite <- run_store_op_led in A, B.
    destruct (run_store_op rn ns c w) as [[w' out] tr] eqn:E. cbn [fst] in *.
    constructor; [exact B|]. apply IH; auto.
  - simpl in H1, H2. constructor.
    + destruct e; exact Hd.
    + apply IH; auto; destruct e; assumption.
Qed.

Lemma h1_history_none rn ns h : forall w,
  (forall c, In (HOp c) h -> wfail (oc_sf c) = None) -> h1_history rn ns h w.
Proof.
  induction h as [|s t IH]; intros w H; simpl; auto. destruct s as [c|e].
  - split; [apply fail_hits_only_none; apply H; now left|]. apply IH. intros c' Hin. apply H. now right.
  - apply IH. intros c' Hin. apply H. now right.
Qed.

Lemma history_one_deployed rn ns h w :
  NoDup (revs (w_led w)) -> ndep (w_led w) <= 1 ->
  (forall c, In (HOp c) h -> wfail (oc_sf c) = None) ->
  h2_history rn ns h w ->
  Forall (fun x => ndep (w_led (fst (fst x))) <= 1) (run_history rn ns h w).
Proof.
  intros Hn Hd H1 H2. apply history_one_deployed_narrow; auto. now apply h1_history_none.
Qed.

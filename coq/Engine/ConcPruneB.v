(* C09, round 4 — pruning under concurrency (upgrade --max-history N among any threads, every
   schedule).  Thread-local, for all flags:
     - a pruner never deletes the revision that its OWN latest deployed-read named as deployed
       ([upgrade_spares_deployed]);
     - with N >= 3 it never deletes the newest revision of its own latest history read — in
       particular not another operation's pending record ([upgrade_spares_newest]).
   Global, for any number k of concurrent upgrades with limits 1 <= N_i <= N (no --atomic):
     - the history never holds more than max (|initial|, max (N-1, 1) + #successful creates)
       records, hence at most max (N-1, 1) + k ([run_pruning_bound], [pruning_bound]).
   What does NOT hold (refuted by computation, replayed on the real code): "the revision deleted is
   not deployed at the time of the delete"; "at most one deployed at quiescence" (K-C09-3). *)
From Coq Require Import List String Bool Arith ZArith Lia Sorted.
From Helm Require Import Common.Assoc Engine.Types Engine.Eff Engine.Ops Engine.OpsFix Engine.Cluster Engine.Seq Engine.SeqProofs
                         Engine.Conc Engine.ConcProofs Engine.ConcLocal Engine.ConcProofsB Engine.ConcRG Engine.ConcPrune
                         Engine.ConcC09.
Import ListNotations.
Local Open Scope prog_scope.

(* ================================================================== *)
(* 1. thread-local: what a pruner spares *)

Lemma prune_pick_skips d total mk : forall t p v,
  In v (prune_pick t (Some d) total mk p) -> v <> d.
Proof.
  induction t as [|x t IH]; simpl; intros p v H; [contradiction|].
  destruct (Nat.eqb (total - p) mk); [contradiction|].
  destruct (Nat.eqb (rev x) d) eqn:E.
  - eapply IH; eauto.
  - destruct H as [<-|H]; [now apply Nat.eqb_neq|eapply IH; eauto].
Qed.

(* the answer of a deployed-revisions read *)
Definition deployed_seen (c : cev) : option (list release) :=
  match ce_eff c as e return resp e -> option (list release) with
  | SDeployedAll => fun r => Some r
  | _ => fun _ => None
  end (ce_resp c).

(* [v] is not the revision that the read [ds] shows as the (newest) deployed one *)
Definition spared (ds : list release) (v : nat) : Prop :=
  forall d, max_rev_of ds = Some d -> v <> rev d.

Fixpoint spare_ok {A} (dl : option (list release)) (p : prog A) : Prop :=
  match p with
  | Ret _ => True
  | Eff e k =>
      match e as e' return (resp e' -> prog A) -> (option (list release) -> resp e' -> Prop) -> Prop with
      | SDeployedAll => fun _ ih => forall ds, ih (Some ds) ds
      | SDelete v => fun _ ih => (exists ds, dl = Some ds /\ spared ds v) /\ forall r, ih dl r
      | _ => fun _ ih => forall r, ih dl r
      end k (fun dl' r => spare_ok dl' (k r))
  end.

Lemma spare_ok_of_no_delete {A} (p : prog A) : all_eff not_delete p -> forall dl, spare_ok dl p.
Proof.
  induction p as [a|e k IH]; simpl; auto. intros [He Hk] dl.
  destruct e; simpl in *; try contradiction; intros; apply IH; auto.
Qed.

Lemma spare_ok_bind {A B} (p : prog A) (f : A -> prog B) : forall dl,
  spare_ok dl p -> (forall a dl', spare_ok dl' (f a)) -> spare_ok dl (bind p f).
Proof.
  induction p as [a|e k IH]; simpl; intros dl Hp Hf; auto.
  destruct e; simpl in *; try (intros rr; apply IH; auto).
  destruct Hp as [Hb Hk]. split; [exact Hb|]. intros rr. apply IH; auto.
Qed.

Fixpoint deletes_spare (dl : option (list release)) (evs : list cev) : Prop :=
  match evs with
  | [] => True
  | c :: t =>
      match delete_target c with
      | Some v => exists ds, dl = Some ds /\ spared ds v
      | None => True
      end
      /\ deletes_spare (match deployed_seen c with Some ds => Some ds | None => dl end) t
  end.

Lemma spare_ok_path {A} evs : forall (p q : prog A) dl,
  spare_ok dl p -> follows p evs q -> deletes_spare dl evs.
Proof.
  induction evs as [|c t IH]; intros p q dl Hp Hf; simpl; auto.
  simpl in Hf. destruct p as [a|e k]; [contradiction|].
  destruct Hf as [rsp [out [Hc Hf]]]. rewrite Hc. unfold delete_target, deployed_seen. cbn [ce_eff ce_resp].
  revert rsp Hc Hf. destruct e; intros rsp Hc Hf; simpl in Hp; cbn;
    try (split; [exact I|]; eapply IH; [apply Hp|exact Hf]).
  destruct Hp as [Hb Hk]. split; [exact Hb|]. eapply IH; [apply Hk|exact Hf].
Qed.

Lemma spare_ok_delete_all ds vs :
  (forall v, In v vs -> spared ds v) -> spare_ok (Some ds) (delete_all vs).
Proof.
  induction vs as [|v t IH]; simpl; intros H; auto.
  split; [exists ds; split; [reflexivity|apply H; now left]|].
  intros e. apply spare_ok_bind; [apply IH; intros w Hw; apply H; now right|].
  intros a dl'. destruct e; simpl; exact I.
Qed.

Lemma spare_ok_remove_least_recent m dl : spare_ok dl (remove_least_recent m).
Proof.
  unfold remove_least_recent. simpl. intros h.
  destruct h as [|x h']; [exact I|].
  destruct (Nat.leb (List.length (x :: h')) m); [exact I|].
  simpl. intros ds.
  apply spare_ok_bind.
  - apply spare_ok_delete_all. intros v Hv d Hd. rewrite Hd in Hv. eapply prune_pick_skips; eauto.
  - intros [n e] dl'. simpl. destruct n as [|[|n]]; exact I.
Qed.

Lemma spare_ok_storage_create r mh dl : spare_ok dl (storage_create r mh).
Proof.
  unfold storage_create. destruct mh as [|m]; [simpl; intros; exact I|].
  apply spare_ok_bind; [apply spare_ok_remove_least_recent|].
  intros e dl'. destruct e; simpl; intros; exact I.
Qed.

Theorem upgrade_spare_ok rn ns fl cid vid mani hks :
  spare_ok None (upgrade rn ns fl cid vid mani hks).
Proof.
  unfold upgrade. simpl. intros h.
  destruct (max_rev_of h) as [last|]; [|exact I].
  destruct (is_pending (st last)); [exact I|].
  apply spare_ok_bind.
  { destruct (status_eqb (st last) SDeployed); simpl; [exact I|]. intros ds.
    destruct (max_rev_of ds); simpl; [exact I|].
    destruct (status_eqb (st last) SFailed || status_eqb (st last) SSuperseded); exact I. }
  intros cur dl1. destruct cur as [current|]; [|exact I].
  simpl. intros adopt. destruct adopt as [adopted|]; [|exact I].
  destruct (f_dry_run fl); [exact I|].
  apply spare_ok_bind; [apply spare_ok_storage_create|].
  intros e dl2. apply spare_ok_of_no_delete. destruct e; nd_auto.
Qed.

Theorem run_upgrade_spares_deployed (K : Type) (kh : forall e : eff, K -> K * resp e * list kev) (dresp : forall e, resp e)
        rn ns (ts : list (prog outcome)) sch l k i fl cid vid mani hks :
  nth_error ts i = Some (upgrade rn ns fl cid vid mani hks) ->
  deletes_spare None (thread_events i (c_tr (snd (run K kh dresp outcome ts sch (mkC l k []))))).
Proof.
  intros Hn. destruct (run_follows K kh dresp outcome ts sch l k i _ Hn) as [a [_ Hf]].
  eapply spare_ok_path; [apply upgrade_spare_ok|exact Hf].
Qed.

(* ---- with a limit of at least 3 the newest revision of the pruner's own history read is spared ---- *)
Lemma cnt_le (f g : release -> bool) l :
  (forall x, In x l -> f x = true -> g x = true) -> cnt f l <= cnt g l.
Proof.
  induction l as [|x t IH]; intros H; [unfold cnt; simpl; lia|].
  rewrite !cnt_cons. assert (cnt f t <= cnt g t) by (apply IH; intros y Hy; apply H; now right).
  destruct (f x) eqn:E; [rewrite (H x (or_introl eq_refl) E)|destruct (g x)]; lia.
Qed.

Lemma newest_counted_once v h last :
  NoDup (revs h) -> max_rev_of h = Some last -> v = rev last -> newer_or_same v h <= 1.
Proof.
  intros Hn Hm ->. unfold newer_or_same.
  etransitivity; [|apply (nodup_cnt_rev (rev last) h Hn)].
  apply cnt_le. intros x Hx Hle. apply Nat.leb_le in Hle. apply Nat.eqb_eq.
  destruct (max_rev_of_some _ _ Hm) as [_ Hmax]. specialize (Hmax x Hx). lia.
Qed.

Fixpoint deletes_spare_newest (hl : option (list release)) (evs : list cev) : Prop :=
  match evs with
  | [] => True
  | c :: t =>
      match delete_target c with
      | Some v => exists h, hl = Some h /\ (NoDup (revs h) -> forall last, max_rev_of h = Some last -> v <> rev last)
      | None => True
      end
      /\ deletes_spare_newest (match history_seen c with Some h => Some h | None => hl end) t
  end.

Lemma justified_spares_newest m evs : forall hl,
  2 <= m -> deletes_justified m hl evs -> deletes_spare_newest hl evs.
Proof.
  induction evs as [|c t IH]; intros hl Hm H; simpl in *; auto.
  destruct H as [H1 H2]. split; [|now apply IH].
  destruct (delete_target c) as [v|]; [|exact I].
  destruct H1 as [h [-> Hj]]. exists h. split; [reflexivity|].
  intros Hn last Hl E. pose proof (newest_counted_once v h last Hn Hl E). specialize (Hj Hn). lia.
Qed.

Theorem run_upgrade_spares_newest (K : Type) (kh : forall e : eff, K -> K * resp e * list kev) (dresp : forall e, resp e)
        rn ns (ts : list (prog outcome)) sch l k i fl cid vid mani hks :
  nth_error ts i = Some (upgrade rn ns fl cid vid mani hks) -> 3 <= f_max_history fl ->
  deletes_spare_newest None (thread_events i (c_tr (snd (run K kh dresp outcome ts sch (mkC l k []))))).
Proof.
  intros Hn H3. apply (justified_spares_newest (f_max_history fl - 1)); [lia|].
  exact (run_upgrade_prunes_old K kh dresp rn ns ts sch l k i fl cid vid mani hks Hn).
Qed.

(* C09, round 4 — pruning under concurrency (upgrade --max-history N among any threads, every
   schedule).  Thread-local, for all flags:
     - a pruner never deletes the revision that its OWN latest deployed-read named as deployed
       ([upgrade_spares_deployed]);
     - with N >= 3 it never deletes the newest revision of its own latest history read — in
       particular not another operation's pending record ([upgrade_spares_newest]).
   Global, for any number k of concurrent upgrades with limits 1 <= N_i <= N (no --atomic):
     - the history never holds more than max (|initial|, max (N-1, 1) + #successful creates)
       records, hence at most max (N-1, 1) + k ([run_pruning_bound], [pruning_bound]).
   What does NOT hold (refuted by computation, replayed on the real code): "the revision deleted is
   not deployed at the time of the delete"; "at most one deployed at quiescence" (K-C09-3). *)
From Coq Require Import List String Bool Arith ZArith Lia Sorted.
From Helm Require Import Common.Assoc Engine.Types Engine.Eff Engine.Ops Engine.OpsFix Engine.Cluster Engine.Seq Engine.SeqProofs
                         Engine.Conc Engine.ConcProofs Engine.ConcLocal Engine.ConcProofsB Engine.ConcRG Engine.ConcPrune
                         Engine.ConcC09.
Import ListNotations.
Local Open Scope prog_scope.

(* ================================================================== *)
(* 1. thread-local: what a pruner spares *)

Lemma prune_pick_skips d total mk : forall t p v,
  In v (prune_pick t (Some d) total mk p) -> v <> d.
Proof.
  induction t as [|x t IH]; simpl; intros p v H; [contradiction|].
  destruct (Nat.eqb (total - p) mk); [contradiction|].
  destruct (Nat.eqb (rev x) d) eqn:E.
  - eapply IH; eauto.
  - destruct H as [<-|H]; [now apply Nat.eqb_neq|eapply IH; eauto].
Qed.

(* the answer of a deployed-revisions read *)
Definition deployed_seen (c : cev) : option (list release) :=
  match ce_eff c as e return resp e -> option (list release) with
  | SDeployedAll => fun r => Some r
  | _ => fun _ => None
  end (ce_resp c).

(* [v] is not the revision that the read [ds] shows as the (newest) deployed one *)
Definition spared (ds : list release) (v : nat) : Prop :=
  forall d, max_rev_of ds = Some d -> v <> rev d.

Fixpoint spare_ok {A} (dl : option (list release)) (p : prog A) : Prop :=
  match p with
  | Ret _ => True
  | Eff e k =>
      match e as e' return (resp e' -> prog A) -> (option (list release) -> resp e' -> Prop) -> Prop with
      | SDeployedAll => fun _ ih => forall ds, ih (Some ds) ds
      | SDelete v => fun _ ih => (exists ds, dl = Some ds /\ spared ds v) /\ forall r, ih dl r
      | _ => fun _ ih => forall r, ih dl r
      end k (fun dl' r => spare_ok dl' (k r))
  end.

Lemma spare_ok_of_no_delete {A} (p : prog A) : all_eff not_delete p -> forall dl, spare_ok dl p.
Proof.
  induction p as [a|e k IH]; simpl; auto. intros [He Hk] dl.
  destruct e; simpl in *; try contradiction; intros; apply IH; auto.
Qed.

Lemma spare_ok_bind {A B} (p : prog A) (f : A -> prog B) : forall dl,
  spare_ok dl p -> (forall a dl', spare_ok dl' (f a)) -> spare_ok dl (bind p f).
Proof.
  induction p as [a|e k IH]; simpl; intros dl Hp Hf; auto.
  destruct e; simpl in *; try (intros rr; apply IH; auto).
  destruct Hp as [Hb Hk]. split; [exact Hb|]. intros rr. apply IH; auto.
Qed.

Fixpoint deletes_spare (dl : option (list release)) (evs : list cev) : Prop :=
  match evs with
  | [] => True
  | c :: t =>
      match delete_target c with
      | Some v => exists ds, dl = Some ds /\ spared ds v
      | None => True
      end
      /\ deletes_spare (match deployed_seen c with Some ds => Some ds | None => dl end) t
  end.

Lemma spare_ok_path {A} evs : forall (p q : prog A) dl,
  spare_ok dl p -> follows p evs q -> deletes_spare dl evs.
Proof.
  induction evs as [|c t IH]; intros p q dl Hp Hf; simpl; auto.
  simpl in Hf. destruct p as [a|e k]; [contradiction|].
  destruct Hf as [rsp [out [Hc Hf]]]. rewrite Hc. unfold delete_target, deployed_seen. cbn [ce_eff ce_resp].
  revert rsp Hc Hf. destruct e; intros rsp Hc Hf; simpl in Hp; cbn;
    try (split; [exact I|]; eapply IH; [apply Hp|exact Hf]).
  destruct Hp as [Hb Hk]. split; [exact Hb|]. eapply IH; [apply Hk|exact Hf].
Qed.

Lemma spare_ok_delete_all ds vs :
  (forall v, In v vs -> spared ds v) -> spare_ok (Some ds) (delete_all vs).
Proof.
  induction vs as [|v t IH]; simpl; intros H; auto.
  split; [exists ds; split; [reflexivity|apply H; now left]|].
  intros e. apply spare_ok_bind; [apply IH; intros w Hw; apply H; now right|].
  intros a dl'. destruct e; simpl; exact I.
Qed.

Lemma spare_ok_remove_least_recent m dl : spare_ok dl (remove_least_recent m).
Proof.
  unfold remove_least_recent. simpl. intros h.
  destruct h as [|x h']; [exact I|].
  destruct (Nat.leb (List.length (x :: h')) m); [exact I|].
  simpl. intros ds.
  apply spare_ok_bind.
  - apply spare_ok_delete_all. intros v Hv d Hd. rewrite Hd in Hv. eapply prune_pick_skips; eauto.
  - intros [n e] dl'. simpl. destruct n as [|[|n]]; exact I.
Qed.

Lemma spare_ok_storage_create r mh dl : spare_ok dl (storage_create r mh).
Proof.
  unfold storage_create. destruct mh as [|m]; [simpl; intros; exact I|].
  apply spare_ok_bind; [apply spare_ok_remove_least_recent|].
  intros e dl'. destruct e; simpl; intros; exact I.
Qed.

Theorem upgrade_spare_ok rn ns fl cid vid mani hks :
  spare_ok None (upgrade rn ns fl cid vid mani hks).
Proof.
  unfold upgrade. simpl. intros h.
  destruct (max_rev_of h) as [last|]; [|exact I].
  destruct (is_pending (st last)); [exact I|].
  apply spare_ok_bind.
  { destruct (status_eqb (st last) SDeployed); simpl; [exact I|]. intros ds.
    destruct (max_rev_of ds); simpl; [exact I|].
    destruct (status_eqb (st last) SFailed || status_eqb (st last) SSuperseded); exact I. }
  intros cur dl1. destruct cur as [current|]; [|exact I].
  simpl. intros adopt. destruct adopt as [adopted|]; [|exact I].
  destruct (f_dry_run fl); [exact I|].
  apply spare_ok_bind; [apply spare_ok_storage_create|].
  intros e dl2. apply spare_ok_of_no_delete. destruct e; nd_auto.
Qed.

Theorem run_upgrade_spares_deployed (K : Type) (kh : forall e : eff, K -> K * resp e * list kev) (dresp : forall e, resp e)
        rn ns (ts : list (prog outcome)) sch l k i fl cid vid mani hks :
  nth_error ts i = Some (upgrade rn ns fl cid vid mani hks) ->
  deletes_spare None (thread_events i (c_tr (snd (run K kh dresp outcome ts sch (mkC l k []))))).
Proof.
  intros Hn. destruct (run_follows K kh dresp outcome ts sch l k i _ Hn) as [a [_ Hf]].
  eapply spare_ok_path; [apply upgrade_spare_ok|exact Hf].
Qed.

(* ---- with a limit of at least 3 the newest revision of the pruner's own history read is spared ---- *)
Lemma cnt_le (f g : release -> bool) l :
  (forall x, In x l -> f x = true -> g x = true) -> cnt f l <= cnt g l.
Proof.
  induction l as [|x t IH]; intros H; [unfold cnt; simpl; lia|].
  rewrite !cnt_cons. assert (cnt f t <= cnt g t) by (apply IH; intros y Hy; apply H; now right).
  destruct (f x) eqn:E; [rewrite (H x (or_introl eq_refl) E)|destruct (g x)]; lia.
Qed.

Lemma newest_counted_once v h last :
  NoDup (revs h) -> max_rev_of h = Some last -> v = rev last -> newer_or_same v h <= 1.
Proof.
  intros Hn Hm ->. unfold newer_or_same.
  etransitivity; [|apply (nodup_cnt_rev (rev last) h Hn)].
  apply cnt_le. intros x Hx Hle. apply Nat.leb_le in Hle. apply Nat.eqb_eq.
  destruct (max_rev_of_some _ _ Hm) as [_ Hmax]. specialize (Hmax x Hx). lia.
Qed.

Fixpoint deletes_spare_newest (hl : option (list release)) (evs : list cev) : Prop :=
  match evs with
  | [] => True
  | c :: t =>
      match delete_target c with
      | Some v => exists h, hl = Some h /\ (NoDup (revs h) -> forall last, max_rev_of h = Some last -> v <> rev last)
      | None => True
      end
      /\ deletes_spare_newest (match history_seen c with Some h => Some h | None => hl end) t
  end.

Lemma justified_spares_newest m evs : forall hl,
  2 <= m -> deletes_justified m hl evs -> deletes_spare_newest hl evs.
Proof.
  induction evs as [|c t IH]; intros hl Hm H; simpl in *; auto.
  destruct H as [H1 H2]. split; [|now apply IH].
  destruct (delete_target c) as [v|]; [|exact I].
  destruct H1 as [h [-> Hj]]. exists h. split; [reflexivity|].
  intros Hn last Hl E. pose proof (newest_counted_once v h last Hn Hl E). specialize (Hj Hn). lia.
Qed.

Theorem run_upgrade_spares_newest (K : Type) (kh : forall e : eff, K -> K * resp e * list kev) (dresp : forall e, resp e)
        rn ns (ts : list (prog outcome)) sch l k i fl cid vid mani hks :
  nth_error ts i = Some (upgrade rn ns fl cid vid mani hks) -> 3 <= f_max_history fl ->
  deletes_spare_newest None (thread_events i (c_tr (snd (run K kh dresp outcome ts sch (mkC l k []))))).
Proof.
  intros Hn H3. apply (justified_spares_newest (f_max_history fl - 1)); [lia|].
  exact (run_upgrade_prunes_old K kh dresp rn ns ts sch l k i fl cid vid mani hks Hn).
Qed.

(* ================================================================== *)
(* 2. the size of the history under concurrent pruning *)

Definition not_create (e : eff) : Prop := match e with SCreate _ => False | _ => True end.

Definition inb (v : nat) (l : list nat) : bool := existsb (Nat.eqb v) l.

(* the revisions of a history read that have not been the target of a delete since *)
Definition keepb (dels : list nat) (r : release) : bool := negb (inb (rev r) dels).
Definition kept (h : list release) (dels : list nat) : list release := filter (keepb dels) h.

Lemma kept_length h dels : List.length (kept h dels) = cnt (keepb dels) h.
Proof. reflexivity. Qed.

Lemma cnt_le_length f (l : list release) : cnt f l <= List.length l.
Proof. unfold cnt. induction l as [|x t IH]; simpl; [lia|]. destruct (f x); simpl; lia. Qed.

Lemma cnt_all f (l : list release) : (forall x, f x = true) -> cnt f l = List.length l.
Proof. intros H. unfold cnt. induction l as [|x t IH]; simpl; auto. rewrite H. simpl. now f_equal. Qed.

Lemma kept_nil h : kept h [] = h.
Proof. unfold kept, keepb. induction h as [|x t IH]; simpl; auto. now f_equal. Qed.

Lemma in_revs_kept v h dels :
  In v (revs (kept h dels)) <-> In v (revs h) /\ inb v dels = false.
Proof.
  unfold revs, kept, keepb. rewrite !in_map_iff. split.
  - intros [r [E Hr]]. apply filter_In in Hr. destruct Hr as [Hr Hb]. subst v.
    split; [eauto|]. now apply negb_true_iff in Hb.
  - intros [[r [E Hr]] Hb]. exists r. split; auto. apply filter_In. split; auto. subst v. now rewrite Hb.
Qed.

(* how many revisions the toDelete loop leaves: at most max (maxkeep, 1) *)
Lemma prune_pick_kept dep total mk : forall t p k,
  total = p + k + List.length t -> k + cnt (skipb dep) t <= 1 -> mk <= total - p ->
  cnt (keepb (prune_pick t dep total mk p)) t + k <= Nat.max mk 1.
Proof.
  induction t as [|x t IH]; intros p k Ht Hk Hm.
  - unfold cnt. simpl in *. lia.
  - simpl prune_pick. destruct (Nat.eqb (total - p) mk) eqn:E.
    + apply Nat.eqb_eq in E. rewrite cnt_all by reflexivity. simpl in *. lia.
    + apply Nat.eqb_neq in E. rewrite cnt_cons in Hk. fold (skipb dep x). simpl in Ht.
      destruct (skipb dep x) eqn:Es.
      * specialize (IH p (S k)). rewrite cnt_cons.
        assert (cnt (keepb (prune_pick t dep total mk p)) t + S k <= Nat.max mk 1) by (apply IH; lia).
        destruct (keepb (prune_pick t dep total mk p) x); lia.
      * specialize (IH (S p) k). rewrite cnt_cons.
        assert (Hx : keepb (rev x :: prune_pick t dep total mk (S p)) x = false).
        { unfold keepb, inb. simpl. now rewrite Nat.eqb_refl. }
        rewrite Hx.
        assert (cnt (keepb (prune_pick t dep total mk (S p))) t + k <= Nat.max mk 1) by (apply IH; lia).
        assert (cnt (keepb (rev x :: prune_pick t dep total mk (S p))) t <= cnt (keepb (prune_pick t dep total mk (S p))) t).
        { apply cnt_le. intros y _. unfold keepb, inb. simpl. destruct (Nat.eqb (rev y) (rev x)); simpl; auto. discriminate. }
        lia.
Qed.

Lemma kept_after_prune h dep mk dels :
  NoDup (revs h) ->
  (forall v, In v (prune_pick (sort_by_rev h) dep (List.length h) mk 0) -> inb v dels = true) ->
  List.length (kept h dels) <= Nat.max mk 1 \/ List.length h < mk.
Proof.
  intros Hn Hin. destruct (Nat.le_gt_cases mk (List.length h)) as [Hl|Hl]; [left|right; exact Hl].
  rewrite kept_length.
  etransitivity; [apply (cnt_le _ (keepb (prune_pick (sort_by_rev h) dep (List.length h) mk 0)))|].
  { intros x _. unfold keepb. intros Hk. apply negb_true_iff in Hk. apply negb_true_iff.
    destruct (inb (rev x) (prune_pick (sort_by_rev h) dep (List.length h) mk 0)) eqn:Ei; auto.
    unfold inb in Ei. apply existsb_exists in Ei. destruct Ei as [w [Hw Ew]]. apply Nat.eqb_eq in Ew. subst w.
    rewrite (Hin _ Hw) in Hk. discriminate. }
  rewrite <- (cnt_sort _ h).
  pose proof (prune_pick_kept dep (List.length h) mk (sort_by_rev h) 0 0) as G.
  assert (G' : cnt (keepb (prune_pick (sort_by_rev h) dep (List.length h) mk 0)) (sort_by_rev h) + 0 <= Nat.max mk 1); [|lia].
  apply G.
  - now rewrite length_sort.
  - simpl. destruct dep as [d|]; simpl.
    + rewrite (cnt_sort (fun x => Nat.eqb (rev x) d)). now apply nodup_cnt_rev.
    + unfold cnt. clear. induction (sort_by_rev h); simpl; auto.
  - lia.
Qed.

(* ---- the state-carrying predicate: at every create, the latest history read of the program minus
   the revisions it has tried to delete since holds at most [M1] revisions ---- *)
Section PTC.
  Variable M1 : nat.

  Fixpoint ptc {A} (Q : A -> option (list release) -> list nat -> Prop)
           (hl : option (list release)) (dels : list nat) (p : prog A) {struct p} : Prop :=
    match p with
    | Ret a => Q a hl dels
    | Eff e k =>
        match e as e' return (resp e' -> prog A) -> (option (list release) -> list nat -> resp e' -> Prop) -> Prop with
        | SHistory => fun _ ih => forall h, ih (Some h) [] h
        | SDelete v => fun _ ih => forall r, ih hl (v :: dels) r
        | SCreate _ => fun _ ih =>
            (exists h, hl = Some h /\ (NoDup (revs h) -> List.length (kept h dels) <= M1)) /\ forall r, ih hl dels r
        | _ => fun _ ih => forall r, ih hl dels r
        end k (fun hl' dels' r => ptc Q hl' dels' (k r))
    end.

  Lemma ptc_bind {A B} (Q : A -> option (list release) -> list nat -> Prop) (R : B -> option (list release) -> list nat -> Prop)
        (p : prog A) (f : A -> prog B) : forall hl dels,
    ptc Q hl dels p -> (forall a hl' dels', Q a hl' dels' -> ptc R hl' dels' (f a)) -> ptc R hl dels (bind p f).
  Proof.
    induction p as [a|e k IH]; simpl; intros hl dels Hp Hf; auto.
    destruct e; simpl in *; try (intros rr; apply IH; auto).
    destruct Hp as [Hb Hk]. split; [exact Hb|]. intros rr. apply IH; auto.
  Qed.

  Lemma ptc_of_no_create {A} (Q : A -> option (list release) -> list nat -> Prop) (p : prog A) :
    all_eff not_create p -> (forall a hl dels, Q a hl dels) -> forall hl dels, ptc Q hl dels p.
  Proof.
    intros Hp HQ. induction p as [a|e k IH]; simpl; auto. destruct Hp as [He Hk]. intros hl dels.
    destruct e; simpl in *; try contradiction; intros; apply IH; auto.
  Qed.

  Definition qtrue {A} : A -> option (list release) -> list nat -> Prop := fun _ _ _ => True.

  Lemma ptc_delete_all vs : forall hl dels,
    ptc (fun (_ : nat * serr) hl' dels' => hl' = hl /\ forall v, In v vs \/ inb v dels = true -> inb v dels' = true)
        hl dels (delete_all vs).
  Proof.
    induction vs as [|v t IH]; intros hl dels; simpl.
    - split; [reflexivity|]. intros v [[]|H]; exact H.
    - intros e. eapply ptc_bind; [apply IH|].
      intros a hl' dels' [-> Hin].
      assert (G : forall w, (v = w \/ In w t) \/ inb w dels = true -> inb w dels' = true).
      { intros w [[<-|Hw]|Hw]; apply Hin.
        - right. unfold inb. simpl. now rewrite Nat.eqb_refl.
        - now left.
        - right. unfold inb in *. simpl. rewrite Hw. apply orb_true_r. }
      destruct e; simpl; split; auto.
  Qed.

  Lemma ptc_remove_least_recent m : forall hl dels,
    ptc (fun (_ : serr) hl' dels' => exists h, hl' = Some h /\ (NoDup (revs h) -> List.length (kept h dels') <= Nat.max m 1))
        hl dels (remove_least_recent m).
  Proof.
    intros hl dels. unfold remove_least_recent. simpl. intros h.
    destruct h as [|x h'].
    { simpl. exists []. split; [reflexivity|]. intros _. simpl. lia. }
    destruct (Nat.leb (List.length (x :: h')) m) eqn:E.
    { simpl. exists (x :: h'). split; [reflexivity|]. intros _. rewrite kept_nil. apply Nat.leb_le in E. lia. }
    apply Nat.leb_gt in E. simpl. intros ds.
    eapply ptc_bind; [apply ptc_delete_all|].
    intros [n e] hl' dels' [-> Hin].
    assert (G : NoDup (revs (x :: h')) -> List.length (kept (x :: h') dels') <= Nat.max m 1).
    { intros Hn.
      destruct (kept_after_prune (x :: h')
                  (match max_rev_of ds with Some d => Some (rev d) | None => None end) m dels' Hn) as [G|G]; [|exact G|lia].
      intros v Hv. apply Hin. now left. }
    simpl. destruct n as [|[|n]]; simpl; exists (x :: h'); split; auto.
  Qed.

  Lemma ptc_storage_create up m : Nat.max m 1 <= M1 -> forall hl dels,
    ptc (@qtrue serr) hl dels (storage_create up (S m)).
  Proof.
    intros Hm hl dels. unfold storage_create.
    eapply ptc_bind; [apply ptc_remove_least_recent|].
    intros e hl' dels' [h [-> Hb]].
    destruct e; simpl; try exact I;
      (split; [exists h; split; [reflexivity|intros Hn; specialize (Hb Hn); lia]|intros; exact I]).
  Qed.
End PTC.

(* ---- the programs: no create outside storage_create ---- *)
Ltac nc_auto :=
  repeat (first
    [ exact I
    | solve [auto with nc]
    | match goal with H : forall _, all_eff _ _ |- _ => apply H end
    | match goal with
      | |- all_eff _ (Ret _) => exact I
      | |- all_eff _ (perform _) => apply all_eff_perform; exact I
      | |- all_eff _ (Eff _ _) => simpl; split; [exact I|intros ?]
      | |- all_eff _ (bind _ _) => apply all_eff_bind; [|intros ?]
      | |- all_eff _ (if ?b then _ else _) => destruct b
      | |- all_eff _ (match ?x with _ => _ end) => destruct x
      | |- _ /\ _ => split
      | |- forall _, _ => intros ?
      end ]).

Lemma nc_record_release r : all_eff not_create (record_release r).
Proof. unfold record_release. simpl. split; [exact I|]. intros; exact I. Qed.
#[export] Hint Resolve nc_record_release : nc.

Lemma nc_delete_hook_by_policy h p : all_eff not_create (delete_hook_by_policy h p).
Proof. unfold delete_hook_by_policy. nc_auto. Qed.
#[export] Hint Resolve nc_delete_hook_by_policy : nc.

Lemma nc_delete_hooks_by_policy hs p : all_eff not_create (delete_hooks_by_policy hs p).
Proof. induction hs as [|h t IH]; simpl; nc_auto. Qed.
#[export] Hint Resolve nc_delete_hooks_by_policy : nc.

Lemma nc_exec_hooks_loop rl ev todo : forall done, all_eff not_create (exec_hooks_loop rl ev todo done).
Proof. induction todo as [|h t IH]; intros done; simpl; nc_auto. Qed.
#[export] Hint Resolve nc_exec_hooks_loop : nc.

Lemma nc_run_hooks fl rl ev : all_eff not_create (run_hooks fl rl ev).
Proof. unfold run_hooks, exec_hook. nc_auto. Qed.
#[export] Hint Resolve nc_run_hooks : nc.

Lemma nc_upgrade_fail rn ns fl up created : f_atomic fl = false -> all_eff not_create (upgrade_fail rn ns fl up created).
Proof. intros H. unfold upgrade_fail. rewrite H. nc_auto. Qed.

Lemma nc_delete_all vs : all_eff not_create (delete_all vs).
Proof. induction vs as [|v t IH]; simpl; nc_auto. Qed.
#[export] Hint Resolve nc_delete_all : nc.

Lemma nc_remove_least_recent m : all_eff not_create (remove_least_recent m).
Proof. unfold remove_least_recent. nc_auto. Qed.
#[export] Hint Resolve nc_remove_least_recent : nc.

(* what follows a successful (or refused) create of a non-atomic upgrade *)
Definition upgrade_tail rn ns fl (up current : release) (curres target : list res) (e : serr) : prog outcome :=
  match e with
  | SExists => Ret (OErr EExistsRev)
  | SNotFound | SFail => Ret (OErr EOtherErr)
  | SOk =>
      pre <- run_hooks fl up PreUpgrade ;;
      if negb pre then upgrade_fail rn ns fl up [] else
      u <- perform (KUpdate curres target) ;;
      if negb (fst u) then record_release current ;;; upgrade_fail rn ns fl up (snd u) else
      w <- perform (KWait target) ;;
      if negb w then record_release current ;;; upgrade_fail rn ns fl up (snd u) else
      post <- run_hooks fl up PostUpgrade ;;
      if negb post then upgrade_fail rn ns fl up (snd u) else
      record_release (with_status current SSuperseded) ;;;
      e2 <- perform (SUpdate (with_status up SDeployed)) ;;
      match e2 with SOk => Ret OOk | _ => Ret (OErr EOtherErr) end
  end.

Lemma nc_upgrade_tail rn ns fl up current curres target e :
  f_atomic fl = false -> all_eff not_create (upgrade_tail rn ns fl up current curres target e).
Proof.
  intros Ha. pose proof (fun c => nc_upgrade_fail rn ns fl up c Ha) as Hf.
  unfold upgrade_tail. destruct e; nc_auto.
Qed.

(* at most one create on every path *)
Fixpoint one_create {A} (p : prog A) : Prop :=
  match p with
  | Ret _ => True
  | Eff e k =>
      match e as e' return (resp e' -> prog A) -> (resp e' -> Prop) -> Prop with
      | SCreate _ => fun k _ => forall r, all_eff not_create (k r)
      | _ => fun _ ih => forall r, ih r
      end k (fun r => one_create (k r))
  end.

Lemma one_create_of_nc {A} (p : prog A) : all_eff not_create p -> one_create p.
Proof.
  induction p as [a|e k IH]; simpl; auto. intros [He Hk].
  destruct e; simpl in *; try contradiction; intros; apply IH; auto.
Qed.

Lemma one_create_bind_pre {A B} (p : prog A) (f : A -> prog B) :
  all_eff not_create p -> (forall a, one_create (f a)) -> one_create (bind p f).
Proof.
  induction p as [a|e k IH]; simpl; intros Hp Hf; auto. destruct Hp as [He Hk].
  destruct e; simpl in *; try contradiction; intros; apply IH; auto.
Qed.

Lemma one_create_bind_post {A B} (p : prog A) (f : A -> prog B) :
  one_create p -> (forall a, all_eff not_create (f a)) -> one_create (bind p f).
Proof.
  induction p as [a|e k IH]; simpl; intros Hp Hf.
  - now apply one_create_of_nc.
  - destruct e; simpl in *; try (intros rr; apply IH; auto).
    intros rr. apply all_eff_bind; auto.
Qed.

Lemma one_create_storage_create up mh : one_create (storage_create up mh).
Proof.
  unfold storage_create. destruct mh as [|m]; [simpl; intros; exact I|].
  apply one_create_bind_pre; [apply nc_remove_least_recent|].
  intros e. destruct e; simpl; intros; exact I.
Qed.

Section UpgradeShape.
  Variable rn ns : string.
  Variable fl : flags.
  Variable cid vid : nat.
  Variable mani : list res.
  Variable hks : list hook.
  Hypothesis Ha : f_atomic fl = false.

  Theorem upgrade_one_create : one_create (upgrade rn ns fl cid vid mani hks).
  Proof.
    unfold upgrade. simpl. intros h.
    destruct (max_rev_of h) as [last|]; [|exact I].
    destruct (is_pending (st last)); [exact I|].
    apply one_create_bind_pre.
    { destruct (status_eqb (st last) SDeployed); nc_auto. }
    intros cur. destruct cur as [current|]; [|exact I].
    simpl. intros adopt. destruct adopt as [adopted|]; [|exact I].
    destruct (f_dry_run fl); [exact I|].
    apply one_create_bind_post; [apply one_create_storage_create|].
    intros e. apply (nc_upgrade_tail rn ns fl _ current _ _ e Ha).
  Qed.

  Theorem upgrade_ptc M1 m :
    f_max_history fl = S m -> Nat.max m 1 <= M1 ->
    ptc M1 (@qtrue outcome) None [] (upgrade rn ns fl cid vid mani hks).
  Proof.
    intros Hm HM. unfold upgrade. simpl. intros h.
    destruct (max_rev_of h) as [last|]; [|exact I].
    destruct (is_pending (st last)); [exact I|].
    eapply ptc_bind with (Q := qtrue).
    { apply ptc_of_no_create; [|intros; exact I]. destruct (status_eqb (st last) SDeployed); nc_auto. }
    intros cur hl1 dels1 _. destruct cur as [current|]; [|exact I].
    simpl. intros adopt. destruct adopt as [adopted|]; [|exact I].
    destruct (f_dry_run fl); [exact I|].
    eapply ptc_bind; [rewrite Hm; apply (ptc_storage_create M1 _ m HM)|].
    intros e hl2 dels2 _. apply ptc_of_no_create; [|intros; exact I].
    apply (nc_upgrade_tail rn ns fl _ current _ _ e Ha).
  Qed.
End UpgradeShape.

(* ================================================================== *)
(* 3. the global invariant: every schedule, every cluster behaviour, any number of threads *)

(* what thread [i] knows, computed from the trace: its latest history read, the revisions it has
   tried to delete since, and the revisions created (by anybody) since that read *)
Record pview := mkV { v_hl : option (list release); v_dels : list nat; v_since : list nat }.

Definition view_own (v : pview) (c : cev) : pview :=
  match ce_eff c as e return resp e -> pview with
  | SHistory => fun h => mkV (Some h) [] []
  | SDelete w => fun _ => mkV (v_hl v) (w :: v_dels v) (v_since v)
  | _ => fun _ => v
  end (ce_resp c).

Definition view_step (i : nat) (v : pview) (c : cev) : pview :=
  let v1 := if by_thread i c then view_own v c else v in
  match created_rev c with
  | Some x => mkV (v_hl v1) (v_dels v1) (v_since v1 ++ [x])
  | None => v1
  end.

Definition view (i : nat) (tr : list cev) : pview := fold_left (view_step i) tr (mkV None [] []).

Lemma view_snoc i tr c : view i (tr ++ [c]) = view_step i (view i tr) c.
Proof. unfold view. rewrite fold_left_app. reflexivity. Qed.

Lemma creations_snoc tr c :
  creations (tr ++ [c]) = (creations tr ++ match created_rev c with Some v => [(ce_tid c, v)] | None => [] end)%list.
Proof. rewrite creations_app. simpl. destruct (created_rev c); reflexivity. Qed.

Lemma view_since_le i tr : List.length (v_since (view i tr)) <= List.length (creations tr).
Proof.
  induction tr as [|c tr IH] using rev_ind; [simpl; lia|].
  rewrite view_snoc, creations_snoc, app_length. unfold view_step.
  assert (H : List.length (v_since (if by_thread i c then view_own (view i tr) c else view i tr))
              <= List.length (v_since (view i tr))).
  { destruct (by_thread i c); [|lia]. unfold view_own. destruct c as [t e r o]. simpl.
    destruct e; simpl; lia. }
  destruct (created_rev c); simpl; [rewrite app_length; simpl|]; lia.
Qed.

(* a step that is neither a history read nor a delete of thread [i] and creates nothing leaves
   the view alone; another thread's step only adds to [v_since] *)
Lemma view_step_hl_dels_other i v c :
  by_thread i c = false ->
  v_hl (view_step i v c) = v_hl v /\ v_dels (view_step i v c) = v_dels v
  /\ v_since (view_step i v c) = (v_since v ++ match created_rev c with Some x => [x] | None => [] end)%list.
Proof.
  intros H. unfold view_step. rewrite H. destruct (created_rev c); simpl; rewrite ?app_nil_r; auto.
Qed.

Section Bound.
  Variable K : Type.
  Variable kh : forall e : eff, K -> K * resp e * list kev.
  Variable dresp : forall e : eff, resp e.
  Variable A : Type.
  Variable M1 : nat.
  Variable n0 : nat.     (* size of the initial history *)

  Definition view_ok (led : list release) (v : pview) : Prop :=
    forall h, v_hl v = Some h ->
      NoDup (revs h) /\ incl (revs led) (revs (kept h (v_dels v)) ++ v_since v).

  Definition bound_inv (ts : list (prog A)) (s : cstate K) : Prop :=
    NoDup (revs (c_led s))
    /\ (forall i p, nth_error ts i = Some p ->
          ptc M1 (@qtrue A) (v_hl (view i (c_tr s))) (v_dels (view i (c_tr s))) p)
    /\ (forall i, view_ok (c_led s) (view i (c_tr s)))
    /\ List.length (c_led s) <= Nat.max n0 (M1 + List.length (creations (c_tr s))).

  (* monotonicity of [view_ok]: fewer stored revisions, more revisions created since *)
  Lemma view_ok_mono led led' hl dels since extra :
    incl (revs led') (revs led ++ extra) ->
    view_ok led (mkV hl dels since) -> view_ok led' (mkV hl dels (since ++ extra)).
  Proof.
    intros Hi Hv h Hh. simpl in *. destruct (Hv h Hh) as [Hn Hincl]. split; [exact Hn|].
    intros v Hv'. apply Hi in Hv'. rewrite !in_app_iff in *. simpl in Hincl.
    destruct Hv' as [Hv'|Hv']; [|auto]. apply Hincl in Hv'. rewrite in_app_iff in Hv'. tauto.
  Qed.

  Lemma revs_length (l : list release) : List.length (revs l) = List.length l.
  Proof. unfold revs. apply map_length. Qed.

  Lemma remove_rev_length v (l : list release) : List.length (remove_rev v l) <= List.length l.
  Proof. unfold remove_rev. induction l as [|x t IH]; simpl; [lia|]. destruct (negb (Nat.eqb (rev x) v)); simpl; lia. Qed.

  Lemma replace_rev_length y (l : list release) : List.length (replace_rev y l) = List.length l.
  Proof. unfold replace_rev. apply map_length. Qed.

  Lemma bound_step i ts s ts' s' :
    bound_inv ts s -> step_thread K kh dresp A i ts s = Some (ts', s') -> bound_inv ts' s'.
  Proof.
    intros [HN [HP [HJ HB]]] St. apply step_thread_inv in St. destruct St as [e [k [Hn [-> ->]]]].
    assert (Hi : i < List.length ts) by (eapply nth_error_lt; eauto).
    destruct (cstep_spec K kh dresp i e s) as [r [out [E Hs]]]. rewrite E. clear E.
    set (c := mkCev i e r out).
    pose proof (HP i _ Hn) as Hpi.
    assert (Hbt : by_thread i c = true) by (unfold by_thread; simpl; apply Nat.eqb_refl).
    (* the other threads: program unchanged, view changes only in [v_since] *)
    assert (Hother : forall j, j <> i -> by_thread j c = false).
    { intros j Hj. unfold by_thread. simpl. apply Nat.eqb_neq. congruence. }
    (* closing lemma: given the new ledger, the new view of thread i and the facts about them *)
    assert (Close : forall led',
      NoDup (revs led') ->
      ptc M1 (@qtrue A) (v_hl (view_step i (view i (c_tr s)) c)) (v_dels (view_step i (view i (c_tr s)) c)) (k r) ->
      view_ok led' (view_step i (view i (c_tr s)) c) ->
      incl (revs led') (revs (c_led s) ++ match created_rev c with Some x => [x] | None => [] end) ->
      List.length led' <= Nat.max n0 (M1 + List.length (creations (c_tr s ++ [c]))) ->
      bound_inv (set_nth i (k r) ts) (mkC led' (c_ks (fst (cstep K kh dresp i e s))) (c_tr s ++ [c]))).
    { intros led' N' P' V' I' B'. unfold bound_inv. simpl.
      split; [exact N'|]. split; [|split; [|exact B']].
      - intros j p Hj. rewrite view_snoc. destruct (Nat.eq_dec j i) as [->|Hne].
        + rewrite nth_error_set_nth_eq in Hj by exact Hi. inversion Hj; subst p. exact P'.
        + rewrite nth_error_set_nth_neq in Hj by congruence.
          destruct (view_step_hl_dels_other j (view j (c_tr s)) c (Hother j Hne)) as [-> [-> _]]. auto.
      - intros j. rewrite view_snoc. destruct (Nat.eq_dec j i) as [->|Hne]; [exact V'|].
        destruct (view_step_hl_dels_other j (view j (c_tr s)) c (Hother j Hne)) as [H1 [H2 H3]].
        specialize (HJ j). destruct (view j (c_tr s)) as [hl dels since] eqn:Ev. simpl in *.
        destruct (view_step j (mkV hl dels since) c) as [hl' dels' since']. simpl in *. subst hl' dels' since'.
        now apply (view_ok_mono (c_led s)). }
    destruct (is_cluster_call e) eqn:Ec.
    - (* a cluster call: ledger and views unchanged *)
      assert (Hcr : created_rev c = None) by (now apply created_rev_cluster).
      assert (Hv : view_step i (view i (c_tr s)) c = view i (c_tr s)).
      { unfold view_step. rewrite Hbt, Hcr. unfold view_own, c. simpl. destruct e; try discriminate; reflexivity. }
      apply Close; rewrite ?Hv, ?Hcr, ?creations_snoc, ?Hcr, ?app_nil_r; auto.
      + destruct e; try discriminate; simpl in Hpi; apply Hpi.
      + apply incl_refl.
    - destruct (Hs eq_refl) as [Hr [Hout _]]. clear Hs.
      unfold c in *. clear c.
      revert r out Hbt Hother Close Hr Hout. destruct e as [| |w|x|x|w| | | | | | |]; try discriminate; simpl in Hpi; simpl resp;
        intros r out Hbt Hother Close Hr Hout; simpl in Hr, Hout; cbn [storage_apply fst snd];
        match goal with |- context [(c_tr s ++ [?cc])%list] => set (c := cc) in * end.
      + (* SHistory: the view of thread i is reset to the ledger *)
        subst r. apply Close; simpl; auto.
        * unfold view_step. rewrite Hbt. simpl. apply Hpi.
        * unfold view_step. rewrite Hbt. simpl. intros h Hh. inversion Hh; subst h. split; [exact HN|].
          rewrite kept_nil, app_nil_r. apply incl_refl.
        * rewrite app_nil_r. apply incl_refl.
        * rewrite creations_snoc. simpl. rewrite app_nil_r. exact HB.
      + (* SDeployedAll *)
        assert (Hv : view_step i (view i (c_tr s)) c = view i (c_tr s)) by (unfold view_step; rewrite Hbt; reflexivity).
        apply Close; rewrite ?Hv; simpl; rewrite ?app_nil_r, ?creations_snoc; simpl; rewrite ?app_nil_r; auto; try apply incl_refl.
      + (* SGet *)
        assert (Hv : view_step i (view i (c_tr s)) c = view i (c_tr s)) by (unfold view_step; rewrite Hbt; reflexivity).
        apply Close; rewrite ?Hv; simpl; rewrite ?app_nil_r, ?creations_snoc; simpl; rewrite ?app_nil_r; auto; try apply incl_refl.
      + (* SCreate x *)
        destruct Hpi as [[h [Hh Hkept]] Hk].
        destruct (has_rev (rev x) (c_led s)) eqn:Eh; simpl in *; subst r.
        * (* refused *)
          assert (Hv : view_step i (view i (c_tr s)) c = view i (c_tr s)) by (unfold view_step; rewrite Hbt; reflexivity).
          apply Close; rewrite ?Hv; simpl; rewrite ?app_nil_r, ?creations_snoc; simpl; rewrite ?app_nil_r; auto; try apply incl_refl.
        * (* succeeded *)
          pose proof (has_rev_false_notin _ _ Eh) as Hnot.
          destruct (HJ i h Hh) as [Hnh Hincl].
          assert (Hv : view_step i (view i (c_tr s)) c
                       = mkV (v_hl (view i (c_tr s))) (v_dels (view i (c_tr s))) (v_since (view i (c_tr s)) ++ [rev x])).
          { unfold view_step. rewrite Hbt. reflexivity. }
          apply Close; rewrite ?Hv; simpl; auto.
          -- rewrite revs_app. simpl. now apply NoDup_snoc.
          -- specialize (HJ i). destruct (view i (c_tr s)) as [hl dels since]. simpl in *.
             apply (view_ok_mono (c_led s)); auto. rewrite revs_app. apply incl_refl.
          -- rewrite revs_app. apply incl_refl.
          -- rewrite creations_snoc. simpl. rewrite !app_length. simpl.
             assert (List.length (c_led s) <= M1 + List.length (creations (c_tr s))); [|lia].
             rewrite <- revs_length.
             etransitivity; [apply (NoDup_incl_length HN Hincl)|].
             rewrite app_length, revs_length. specialize (Hkept Hnh).
             pose proof (view_since_le i (c_tr s)). lia.
      + (* SUpdate x *)
        assert (Hv : view_step i (view i (c_tr s)) c = view i (c_tr s)) by (unfold view_step; rewrite Hbt; reflexivity).
        destruct (has_rev (rev x) (c_led s)); simpl in *; subst r;
          apply Close; rewrite ?Hv; simpl; rewrite ?revs_replace, ?app_nil_r, ?creations_snoc; simpl;
          rewrite ?app_nil_r, ?replace_rev_length; auto; try apply incl_refl.
        specialize (HJ i). intros h Hh. destruct (HJ h Hh) as [G1 G2]. split; auto. now rewrite revs_replace.
      + (* SDelete w *)
        assert (Hv : view_step i (view i (c_tr s)) c
                     = mkV (v_hl (view i (c_tr s))) (w :: v_dels (view i (c_tr s))) (v_since (view i (c_tr s)))).
        { unfold view_step. rewrite Hbt. reflexivity. }
        assert (Hsub : forall led', (forall v, In v (revs led') -> In v (revs (c_led s)) /\ v <> w) ->
                  view_ok led' (mkV (v_hl (view i (c_tr s))) (w :: v_dels (view i (c_tr s))) (v_since (view i (c_tr s))))).
        { intros led' Hl h Hh. simpl in *. destruct (HJ i h Hh) as [G1 G2]. split; [exact G1|].
          intros v Hv'. destruct (Hl v Hv') as [Hin Hne]. apply G2 in Hin. rewrite in_app_iff in *.
          destruct Hin as [Hin|Hin]; [left|now right].
          apply in_revs_kept in Hin. apply in_revs_kept. destruct Hin as [Hin Hb]. split; [exact Hin|].
          unfold inb in *. simpl. rewrite Hb. apply Nat.eqb_neq in Hne. now rewrite Hne. }
        destruct (has_rev w (c_led s)) eqn:Eh; simpl in *; subst r.
        * apply Close; rewrite ?Hv; simpl; auto.
          -- unfold revs, remove_rev. clear -HN. unfold revs in HN.
             induction (c_led s) as [|y t IH]; simpl in *; [constructor|]. inversion HN; subst.
             destruct (negb (Nat.eqb (rev y) w)); simpl; auto. constructor; auto.
             intros Hin. apply H1. apply in_map_iff in Hin. destruct Hin as [z [Ez Hz]].
             apply filter_In in Hz. destruct Hz as [Hz _]. apply in_map_iff. eauto.
          -- apply Hsub. intros v Hv'. now apply revs_remove_in in Hv'.
          -- rewrite app_nil_r. intros v Hv'. apply revs_remove_in in Hv'. tauto.
          -- rewrite creations_snoc. simpl. rewrite app_nil_r. pose proof (remove_rev_length w (c_led s)). lia.
        * apply Close; rewrite ?Hv; simpl; auto.
          -- apply Hsub. intros v Hv'. split; [exact Hv'|]. intros ->.
             apply (has_rev_false_notin _ _ Eh). exact Hv'.
          -- rewrite app_nil_r. apply incl_refl.
          -- rewrite creations_snoc. simpl. rewrite app_nil_r. exact HB.
  Qed.

  Theorem run_pruning_bound ts sch l k :
    Forall (ptc M1 (@qtrue A) None []) ts -> NoDup (revs l) -> List.length l <= n0 ->
    let res := run K kh dresp A ts sch (mkC l k []) in
    List.length (c_led (snd res)) <= Nat.max n0 (M1 + List.length (creations (c_tr (snd res)))).
  Proof.
    intros HF Hn Hl res.
    assert (G : bound_inv (fst res) (snd res)).
    { apply (run_inv K kh dresp A bound_inv bound_step). unfold bound_inv. simpl.
      split; [exact Hn|]. split; [|split; [|lia]].
      - intros i p Hp. eapply Forall_nth_error; eauto.
      - intros i h Hh. discriminate. }
    destruct G as [_ [_ [_ G]]]. exact G.
  Qed.
End Bound.

(* ---- every thread creates at most once, so the number of successful creates is at most the
   number of threads ---- *)
Section Creators.
  Variable K : Type.
  Variable kh : forall e : eff, K -> K * resp e * list kev.
  Variable dresp : forall e : eff, resp e.
  Variable A : Type.
  Variable n : nat.

  Definition creators (tr : list cev) : list nat := map fst (creations tr).

  Definition oc_inv (ts : list (prog A)) (s : cstate K) : Prop :=
    List.length ts = n
    /\ (forall j p, nth_error ts j = Some p -> one_create p)
    /\ NoDup (creators (c_tr s))
    /\ (forall j, In j (creators (c_tr s)) -> exists p, nth_error ts j = Some p /\ all_eff not_create p).

  Lemma oc_step i ts s ts' s' :
    oc_inv ts s -> step_thread K kh dresp A i ts s = Some (ts', s') -> oc_inv ts' s'.
  Proof.
    intros [HL [HO [HN HC]]] St. apply step_thread_inv in St. destruct St as [e [k [Hn [-> ->]]]].
    assert (Hi : i < List.length ts) by (eapply nth_error_lt; eauto).
    destruct (cstep_spec K kh dresp i e s) as [r [out [E _]]]. rewrite E. clear E.
    unfold oc_inv. simpl. rewrite set_nth_length. split; [exact HL|].
    pose proof (HO i _ Hn) as Hoi.
    assert (Hkr : one_create (k r)).
    { destruct e; simpl in Hoi; try apply Hoi. apply one_create_of_nc. apply Hoi. }
    split.
    { intros j p Hj. destruct (Nat.eq_dec j i) as [->|Hne].
      - rewrite nth_error_set_nth_eq in Hj by exact Hi. inversion Hj; subst p. exact Hkr.
      - rewrite nth_error_set_nth_neq in Hj by congruence. eauto. }
    unfold creators. rewrite creations_snoc, map_app. fold (creators (c_tr s)).
    (* a thread already recorded as a creator performs no create *)
    assert (Hspent : In i (creators (c_tr s)) -> all_eff not_create (Eff e k)).
    { intros Hin. destruct (HC i Hin) as [p [Hp Hnc]]. rewrite Hn in Hp. inversion Hp; subst p. exact Hnc. }
    destruct (created_rev (mkCev i e r out)) as [v|] eqn:Ecr; simpl.
    - assert (Hec : exists x, e = SCreate x).
      { unfold created_rev in Ecr. simpl in Ecr. destruct e; try discriminate. eauto. }
      destruct Hec as [x ->].
      assert (Hnew : ~ In i (creators (c_tr s))).
      { intros Hin. destruct (Hspent Hin) as [F _]. exact F. }
      split; [now apply NoDup_snoc|].
      intros j Hj. rewrite in_app_iff in Hj. simpl in Hj. destruct Hj as [Hj|[<-|[]]].
      + destruct (Nat.eq_dec j i) as [->|Hne]; [contradiction|].
        rewrite nth_error_set_nth_neq by congruence. auto.
      + exists (k r). split; [now apply nth_error_set_nth_eq|]. simpl in Hoi. apply Hoi.
    - rewrite app_nil_r. split; [exact HN|].
      intros j Hj. destruct (Nat.eq_dec j i) as [->|Hne].
      + exists (k r). split; [now apply nth_error_set_nth_eq|]. destruct (Hspent Hj) as [_ Hk]. apply Hk.
      + rewrite nth_error_set_nth_neq by congruence. auto.
  Qed.

  Theorem run_creates_le ts sch l k :
    List.length ts = n -> Forall one_create ts ->
    List.length (creations (c_tr (snd (run K kh dresp A ts sch (mkC l k []))))) <= n.
  Proof.
    intros HL HF.
    assert (G : oc_inv (fst (run K kh dresp A ts sch (mkC l k []))) (snd (run K kh dresp A ts sch (mkC l k [])))).
    { apply (run_inv K kh dresp A oc_inv oc_step). unfold oc_inv. simpl.
      split; [exact HL|]. split; [intros j p Hj; eapply Forall_nth_error; eauto|].
      split; [constructor|intros j []]. }
    destruct G as [GL [_ [GN GC]]].
    rewrite <- (map_length fst). fold (creators (c_tr (snd (run K kh dresp A ts sch (mkC l k []))))).
    rewrite <- (seq_length n 0). apply NoDup_incl_length; [exact GN|].
    intros j Hj. destruct (GC j Hj) as [p [Hp _]]. apply in_seq. apply nth_error_lt in Hp. lia.
  Qed.
End Creators.

(* ---- the property-level statement ---- *)
Definition pruning_op (N : nat) (o : op) : Prop :=
  match o with
  | OpUpgrade fl _ _ _ _ => f_atomic fl = false /\ 1 <= f_max_history fl <= N
  | _ => False
  end.

Theorem pruning_bound (K : Type) (kh : forall e : eff, K -> K * resp e * list kev) (dresp : forall e, resp e)
        (rn ns : string) (N : nat) (ops : list op) (sch : list nat) (l0 : list release) (k : K) :
  Forall (pruning_op N) ops -> NoDup (revs l0) ->
  let res := run K kh dresp outcome (map (op_prog_fx rn ns) ops) sch (mkC l0 k []) in
  List.length (c_led (snd res)) <= Nat.max (List.length l0) (Nat.max (N - 1) 1 + List.length (creations (c_tr (snd res))))
  /\ List.length (creations (c_tr (snd res))) <= List.length ops.
Proof.
  intros HF Hn res. split.
  - apply (run_pruning_bound K kh dresp outcome (Nat.max (N - 1) 1) (List.length l0)); auto.
    rewrite Forall_forall in *. intros p Hp. apply in_map_iff in Hp. destruct Hp as [o [<- Ho]].
    specialize (HF o Ho). destruct o; simpl in HF; try contradiction. destruct HF as [Ha [H1 H2]].
    unfold op_prog_fx, op_prog. destruct (f_max_history fl) as [|m] eqn:Em; [lia|].
    apply (upgrade_ptc rn ns fl cid vid mani hks Ha _ m Em). lia.
  - rewrite <- (map_length (op_prog_fx rn ns) ops).
    apply run_creates_le; [reflexivity|].
    rewrite Forall_forall in *. intros p Hp. apply in_map_iff in Hp. destruct Hp as [o [<- Ho]].
    specialize (HF o Ho). destruct o; simpl in HF; try contradiction. destruct HF as [Ha _].
    unfold op_prog_fx, op_prog. now apply upgrade_one_create.
Qed.

(* ================================================================== *)
(* 4. examples and refutations, by computation on the object-store cluster *)
Local Open Scope string_scope.
Definition x_flM (n : nat) := mkFlags false false false false n false false false false 0.

(* K-C09-3 (replayed on the real code, corpus): two upgrades --max-history 1 on 1:deployed 2:failed.
   The first reads last = 2 (its revision will be 3) and prunes revision 2 inside Create; before it
   creates 3 the second reads the history (last = 1, deployed) and creates revision 2 AGAIN; both
   proceed and both end deployed.  The history then holds 3 = max (N-1, 1) + k records: the bound
   of [pruning_bound] is reached. *)
Definition x_k3_ops := [OpUpgrade (x_flM 1) 10 10 [x_cm "a" "v10"] []; OpUpgrade (x_flM 1) 11 11 [x_cm "a" "v11"] []].
Definition x_k3_sched := [1; 1; 1; 1; 1; 0; 0; 1; 1; 0; 0; 0; 0; 0; 1; 0; 1; 0].

Lemma x_k3_hyps : Forall (pruning_op 1) x_k3_ops /\ NoDup (revs x_prune_led).
Proof. split; [repeat constructor|repeat constructor; simpl; intuition discriminate]. Qed.

Lemma pruning_two_deployed_refuted :
  let res := run_gated kstate (kube_handle "rel" "default") dead_resp outcome
                 (map (op_prog_fx "rel" "default") x_k3_ops) x_k3_sched (mkC x_prune_led (k0 x_objs) []) in
  outcomes outcome (fst res) = [Some OOk; Some OOk]
  /\ map (fun r => (rev r, st r)) (c_led (snd res)) = [(1, SSuperseded); (3, SDeployed); (2, SDeployed)]
  /\ creations (c_tr (snd res)) = [(1, 3); (0, 2)]
  /\ List.length (c_led (snd res)) = Nat.max (1 - 1) 1 + List.length x_k3_ops.
Proof. vm_compute. repeat split; reflexivity. Qed.

(* "a pruner never deletes the revision that is deployed" holds only for what the pruner itself READ
   as deployed ([run_upgrade_spares_deployed]); globally it is false: thread 0 computes its picks
   while revision 3 of thread 1 is pending, thread 1 finishes (3: deployed), thread 0 deletes the
   deployed revision 3 and creates its own revision 3; BOTH report success.  Replayed on the real
   code (corpus). *)
Fixpoint deleted_deployed (l : list release) (tr : list cev) : bool :=
  match tr with
  | [] => false
  | c :: t =>
      match deleted_rev c with
      | Some v => existsb (fun r => Nat.eqb (rev r) v && status_eqb (st r) SDeployed) l
      | None => false
      end || deleted_deployed (fst (fst (storage_apply dead_resp (ce_eff c) l))) t
  end.

Definition x_dd_sched := ([0; 0; 0] ++ repeat 1 7 ++ [0; 0] ++ repeat 1 4)%list.

Lemma pruning_deletes_deployed_refuted :
  let res := x_run x_k3_ops x_dd_sched x_prune_led (k0 x_objs) in
  deleted_deployed x_prune_led (c_tr (snd res)) = true
  /\ outcomes outcome (fst res) = [Some OOk; Some OOk]
  /\ creations (c_tr (snd res)) = [(1, 3); (0, 3)]
  /\ map (fun r => (rev r, st r)) (c_led (snd res)) = [(1, SSuperseded); (3, SDeployed)].
Proof. vm_compute. repeat split; reflexivity. Qed.

(* Decision translator — the per-run obligations over coq/Gen/ActionDecisions.v (regenerated
   from /repo by every check run).  One lemma per Go function, ONE PER LINE, so that the
   line of a failure names the function whose conditions no longer mean what the model
   tests; the message of the failing tactic names the site.  See notes/DEC.md.

   [fn_ok sites decisions f] says: the Go function f has as many data conditions as the
   model's table lists for it, in the same order, and for every site that the table ties to
   a condition c of the model, FOR ALL environments m (all statuses, events, policies,
   booleans, ALL integers, all strings) the extracted Go expression evaluates, and to c m.
   Proof per site: evaluate the interpreter symbolically, abstract the variables, case split
   over the finite kinds, [lia] (with ZifyBool) for what is left over the integers — no
   finite window. *)
From Coq Require Import List String Bool ZArith Lia ZifyBool.
From Helm Require Import Engine.Types Engine.Ops Engine.Decisions Engine.DecisionsModel Gen.ActionDecisions.
Import ListNotations.
Local Open Scope string_scope.

(* lengths are not negative *)
Ltac pose_lens m Hwf :=
  repeat match goal with
  | |- context [m_n m ?x] =>
      lazymatch eval vm_compute in (is_len x) with
      | true =>
          lazymatch goal with
          | _ : (0 <= m_n m x)%Z |- _ => fail
          | _ => pose proof (Hwf x eq_refl)
          end
      end
  end;
  repeat match goal with H : (0 <= m_n m _)%Z |- _ => revert H end.

Ltac gen_atoms m :=
  repeat match goal with
  | |- context [m_s m ?x] => let v := fresh "s" in generalize (m_s m x); intro v
  | |- context [m_b m ?x] => let v := fresh "b" in generalize (m_b m x); intro v
  | |- context [m_e m ?x] => let v := fresh "e" in generalize (m_e m x); intro v
  | |- context [m_p m ?x] => let v := fresh "p" in generalize (m_p m x); intro v
  | |- context [m_flag m ?x] => let v := fresh "f" in generalize (m_flag m x); intro v
  | |- context [m_err m ?x] => let v := fresh "r" in generalize (m_err m x); intro v
  | |- context [m_nil m ?x] => let v := fresh "n" in generalize (m_nil m x); intro v
  | |- context [m_n m ?x] => let v := fresh "z" in generalize (m_n m x); intro v
  | |- context [m_str m ?x] => let v := fresh "t" in generalize (m_str m x); intro v
  end.

(* comparisons of string variables are opaque booleans (sound: fewer equations are provable) *)
Ltac gen_strs :=
  repeat match goal with
  | |- context [vstr_eqb ?a ?b] => let v := fresh "q" in generalize (vstr_eqb a b); intro v
  | |- context [vstr_ltb ?a ?b] => let v := fresh "q" in generalize (vstr_ltb a b); intro v
  end.

Ltac split_fin :=
  repeat match goal with
  | x : status |- _ => destruct x
  | x : event |- _ => destruct x
  | x : policy |- _ => destruct x
  | x : bool |- _ => destruct x
  end.

Ltac site_tac :=
  lazymatch goal with
  | |- site_ok (Outside _ _) _ => exact I
  | |- site_ok (Modelled ?lbl ?c) ?g =>
      first
        [ solve
            [ let m := fresh "m" in
              let Hwf := fresh "Hwf" in
              intros m Hwf; try unfold c; cbv beta;
              simpl; unfold err_is_key; simpl;
              apply (f_equal (fun b => Some (VB b)));
              pose_lens m Hwf; clear Hwf;
              gen_atoms m; clear m; gen_strs; intros; split_fin; simpl; try reflexivity; lia ]
        | fail 1 "DEC: the Go condition at site" lbl "no longer means what the model tests:" g ]
  end.

Ltac fn_tac :=
  lazymatch goal with
  | |- fn_ok ?st ?gt ?f =>
      let gs := eval vm_compute in (map snd (sites_of gt f)) in
      let ss := eval cbv [sites_of st find fst snd String.eqb Ascii.eqb Bool.eqb] in (sites_of st f) in
      change (sites_ok ss gs);
      lazymatch eval vm_compute in (Nat.eqb (List.length ss) (List.length gs)) with
      | true => idtac
      | false => fail "DEC: the number of data conditions of" f "changed; the Go source now has:" gs
      end;
      cbv [sites_ok]; repeat split; site_tac
  end.

(* (a) structure: the tracked functions, in order *)
Lemma decisions_functions : map fst sites = map fst decisions.
Proof. vm_compute. reflexivity. Qed.

(* (b) per function *)
Lemma fn_Install_RunWithContext : fn_ok sites decisions "Install.RunWithContext". Proof. fn_tac. Qed.
Lemma fn_Install_performInstall : fn_ok sites decisions "Install.performInstall". Proof. fn_tac. Qed.
Lemma fn_Install_failRelease : fn_ok sites decisions "Install.failRelease". Proof. fn_tac. Qed.
Lemma fn_Install_availableName : fn_ok sites decisions "Install.availableName". Proof. fn_tac. Qed.
Lemma fn_Install_replaceRelease : fn_ok sites decisions "Install.replaceRelease". Proof. fn_tac. Qed.
Lemma fn_Upgrade_RunWithContext : fn_ok sites decisions "Upgrade.RunWithContext". Proof. fn_tac. Qed.
Lemma fn_Upgrade_prepareUpgrade : fn_ok sites decisions "Upgrade.prepareUpgrade". Proof. fn_tac. Qed.
Lemma fn_Upgrade_performUpgrade : fn_ok sites decisions "Upgrade.performUpgrade". Proof. fn_tac. Qed.
Lemma fn_Upgrade_releasingUpgrade : fn_ok sites decisions "Upgrade.releasingUpgrade". Proof. fn_tac. Qed.
Lemma fn_Upgrade_failRelease : fn_ok sites decisions "Upgrade.failRelease". Proof. fn_tac. Qed.
Lemma fn_Rollback_Run : fn_ok sites decisions "Rollback.Run". Proof. fn_tac. Qed.
Lemma fn_Rollback_prepareRollback : fn_ok sites decisions "Rollback.prepareRollback". Proof. fn_tac. Qed.
Lemma fn_Rollback_performRollback : fn_ok sites decisions "Rollback.performRollback". Proof. fn_tac. Qed.
Lemma fn_Uninstall_Run : fn_ok sites decisions "Uninstall.Run". Proof. fn_tac. Qed.
Lemma fn_Uninstall_purgeReleases : fn_ok sites decisions "Uninstall.purgeReleases". Proof. fn_tac. Qed.
Lemma fn_Uninstall_deleteRelease : fn_ok sites decisions "Uninstall.deleteRelease". Proof. fn_tac. Qed.
Lemma fn_Configuration_execHook : fn_ok sites decisions "Configuration.execHook". Proof. fn_tac. Qed.
Lemma fn_hookByWeight_Less : fn_ok sites decisions "hookByWeight.Less". Proof. fn_tac. Qed.
Lemma fn_Configuration_deleteHookByPolicy : fn_ok sites decisions "Configuration.deleteHookByPolicy". Proof. fn_tac. Qed.
Lemma fn_Configuration_deleteHooksByPolicy : fn_ok sites decisions "Configuration.deleteHooksByPolicy". Proof. fn_tac. Qed.
Lemma fn_hookHasDeletePolicy : fn_ok sites decisions "hookHasDeletePolicy". Proof. fn_tac. Qed.
Lemma fn_Configuration_outputLogsByPolicy : fn_ok sites decisions "Configuration.outputLogsByPolicy". Proof. fn_tac. Qed.
Lemma fn_Configuration_releaseContent : fn_ok sites decisions "Configuration.releaseContent". Proof. fn_tac. Qed.
Lemma fn_filterManifestsToKeep : fn_ok sites decisions "filterManifestsToKeep". Proof. fn_tac. Qed.
Lemma fn_requireValue : fn_ok sites decisions "requireValue". Proof. fn_tac. Qed.
Lemma fn_Storage_Create : fn_ok sites decisions "Storage.Create". Proof. fn_tac. Qed.
Lemma fn_Storage_Deployed : fn_ok sites decisions "Storage.Deployed". Proof. fn_tac. Qed.
Lemma fn_Storage_DeployedAll : fn_ok sites decisions "Storage.DeployedAll". Proof. fn_tac. Qed.
Lemma fn_Storage_removeLeastRecent : fn_ok sites decisions "Storage.removeLeastRecent". Proof. fn_tac. Qed.
Lemma fn_Storage_Last : fn_ok sites decisions "Storage.Last". Proof. fn_tac. Qed.
Lemma fn_Status_IsPending : fn_ok sites decisions "Status.IsPending". Proof. fn_tac. Qed.
Lemma fn_ByRevision_Less : fn_ok sites decisions "ByRevision.Less". Proof. fn_tac. Qed.

Lemma decisions_table_ok : table_ok sites decisions.
Proof.
  split; [exact decisions_functions|].
  change (map fst sites) with
    ["Install.RunWithContext";
     "Install.performInstall";
     "Install.failRelease";
     "Install.availableName";
     "Install.replaceRelease";
     "Upgrade.RunWithContext";
     "Upgrade.prepareUpgrade";
     "Upgrade.performUpgrade";
     "Upgrade.releasingUpgrade";
     "Upgrade.failRelease";
     "Rollback.Run";
     "Rollback.prepareRollback";
     "Rollback.performRollback";
     "Uninstall.Run";
     "Uninstall.purgeReleases";
     "Uninstall.deleteRelease";
     "Configuration.execHook";
     "hookByWeight.Less";
     "Configuration.deleteHookByPolicy";
     "Configuration.deleteHooksByPolicy";
     "hookHasDeletePolicy";
     "Configuration.outputLogsByPolicy";
     "Configuration.releaseContent";
     "filterManifestsToKeep";
     "requireValue";
     "Storage.Create";
     "Storage.Deployed";
     "Storage.DeployedAll";
     "Storage.removeLeastRecent";
     "Storage.Last";
     "Status.IsPending";
     "ByRevision.Less"].
  exact
   (Forall_cons _ fn_Install_RunWithContext
    (Forall_cons _ fn_Install_performInstall
    (Forall_cons _ fn_Install_failRelease
    (Forall_cons _ fn_Install_availableName
    (Forall_cons _ fn_Install_replaceRelease
    (Forall_cons _ fn_Upgrade_RunWithContext
    (Forall_cons _ fn_Upgrade_prepareUpgrade
    (Forall_cons _ fn_Upgrade_performUpgrade
    (Forall_cons _ fn_Upgrade_releasingUpgrade
    (Forall_cons _ fn_Upgrade_failRelease
    (Forall_cons _ fn_Rollback_Run
    (Forall_cons _ fn_Rollback_prepareRollback
    (Forall_cons _ fn_Rollback_performRollback
    (Forall_cons _ fn_Uninstall_Run
    (Forall_cons _ fn_Uninstall_purgeReleases
    (Forall_cons _ fn_Uninstall_deleteRelease
    (Forall_cons _ fn_Configuration_execHook
    (Forall_cons _ fn_hookByWeight_Less
    (Forall_cons _ fn_Configuration_deleteHookByPolicy
    (Forall_cons _ fn_Configuration_deleteHooksByPolicy
    (Forall_cons _ fn_hookHasDeletePolicy
    (Forall_cons _ fn_Configuration_outputLogsByPolicy
    (Forall_cons _ fn_Configuration_releaseContent
    (Forall_cons _ fn_filterManifestsToKeep
    (Forall_cons _ fn_requireValue
    (Forall_cons _ fn_Storage_Create
    (Forall_cons _ fn_Storage_Deployed
    (Forall_cons _ fn_Storage_DeployedAll
    (Forall_cons _ fn_Storage_removeLeastRecent
    (Forall_cons _ fn_Storage_Last
    (Forall_cons _ fn_Status_IsPending
    (Forall_cons _ fn_ByRevision_Less
    (Forall_nil _))))))))))))))))))))))))))))))))).
Qed.

(* the shape, as a plain equation between two computed lists (what [fn_ok] implies, stated
   once more so that a change of the NUMBER of conditions of a function is visible as such) *)
Lemma decisions_shape : shape sites = shape decisions.
Proof. vm_compute. reflexivity. Qed.

(* ---- the readable form of [table_ok] ---------------------------------------------------------- *)

Lemma sites_ok_nth ss : forall gs n lbl c,
  sites_ok ss gs -> nth_error ss n = Some (Modelled lbl c) ->
  exists g, nth_error gs n = Some g /\ forall m : menv, env_wf m -> deval m g = Some (VB (c m)).
Proof.
  induction ss as [|s ss IH]; intros gs n lbl c Hok Hn; [destruct n; discriminate|].
  destruct gs as [|g gs]; [contradiction|]. destruct Hok as [Hs Hok].
  destruct n as [|n]; simpl in Hn.
  - injection Hn as ->. exists g. split; [reflexivity|exact Hs].
  - apply (IH gs n lbl c Hok Hn).
Qed.

Lemma sites_of_in {A} (t : list (string * list A)) f x : In x (sites_of t f) -> In f (map fst t).
Proof.
  unfold sites_of. destruct (find _ t) as [fl|] eqn:E; [|contradiction]. intros _.
  apply find_some in E. destruct E as [Hin He]. apply String.eqb_eq in He. subst f.
  apply in_map. exact Hin.
Qed.

Lemma decision_site_agrees_lemma f n lbl c :
  nth_error (sites_of sites f) n = Some (Modelled lbl c) ->
  exists kind g, nth_error (sites_of decisions f) n = Some (kind, g) /\
                 forall m : menv, env_wf m -> deval m g = Some (VB (c m)).
Proof.
  intros Hn.
  assert (Hf : In f (map fst sites)) by (eapply sites_of_in, nth_error_In, Hn).
  destruct decisions_table_ok as [_ Hall]. rewrite Forall_forall in Hall.
  destruct (sites_ok_nth _ _ _ _ _ (Hall f Hf) Hn) as [g [Hg Hm]].
  rewrite nth_error_map in Hg. destruct (nth_error (sites_of decisions f) n) as [[k g']|]; [|discriminate].
  injection Hg as <-. exists k, g'. split; [reflexivity|exact Hm].
Qed.

(* ---- examples: the obligation is not vacuous, and not syntactic --------------------------------- *)

Lemma site_counts :
  List.length (List.concat (map snd sites)) = 61 /\
  List.length (filter modelled (List.concat (map snd sites))) = 43 /\ List.length sites = 32.
Proof. vm_compute. repeat split. Qed.

(* prepareUpgrade's `lastRelease.Info.Status == release.StatusDeployed` widened by
   `|| … == release.StatusFailed`: an environment tells the two apart *)
Lemma rejects_widened_lemma :
  exists m, deval m (DOr (DEq (DVar TS "Last.status") (DStatus "deployed"))
                         (DEq (DVar TS "Last.status") (DStatus "failed")))
            <> Some (VB (c_up_last_deployed m)).
Proof. exists (set_s "Last.status" SFailed env0). vm_compute. discriminate. Qed.

(* the max-history test off by one *)
Lemma rejects_off_by_one_lemma :
  exists m, deval m (DLt (DVar TN "len(History)") (DVar TN "arg2")) <> Some (VB (c_rlr_fits m)).
Proof. exists (set_n "len(History)" 3%Z (set_n "arg2" 3%Z env0)). vm_compute. discriminate. Qed.

(* an expression the translator could not read never meets an obligation *)
Lemma rejects_unknown_lemma c txt : ~ site_ok (Modelled "x" c) (DUnknown txt).
Proof. intros H. specialize (H env0 (fun x _ => Z.le_refl 0)). discriminate. Qed.

(* IsPending written as a switch, with the operands in another order: accepted *)
Lemma accepts_switch_lemma :
  site_ok (Modelled "pending" c_is_pending)
          (DIf (DIn (DVar TS "recv") [DStatus "pending-rollback"; DStatus "pending-install"; DStatus "pending-upgrade"])
               (DBool true) (DBool false)).
Proof. site_tac. Qed.

(* removeLeastRecent's `len(h) <= maximum` as `!(maximum < len(h))`: accepted, for all integers *)
Lemma accepts_de_morgan_lemma :
  site_ok (Modelled "fits" c_rlr_fits) (DNot (DLt (DVar TN "arg2") (DVar TN "len(History)"))).
Proof. site_tac. Qed.

(* Decision translator — the per-run obligations over coq/Gen/ActionDecisions.v (regenerated
   from /repo by every check run).  One lemma per Go function, ONE PER LINE, so that the
   line of a failure names the function whose decisions no longer mean what the model
   tests; the message of the failing tactic names the item.  See notes/DEC.md.

   [fn_ok decisions (model_of model f)] says: for every item the model lists for the Go
   function f (a return identified by its error, a call, an append, a field assignment, a
   predicate, the value of an integer local), the generated table has an item with that key,
   and FOR ALL environments m (all statuses, events, policies, booleans, ALL integers, all
   strings) that meet the function's stated assumptions, its path condition evaluates, and
   to the model's path condition at m.  Proof per item: evaluate the interpreter
   symbolically, use the assumptions, abstract the variables, case split over the finite
   kinds, [lia] (with ZifyBool) for what is left over the integers — no finite window. *)
From Coq Require Import List String Bool ZArith Lia ZifyBool.
From Helm Require Import Engine.Types Engine.Ops Engine.Decisions Engine.DecisionsModel Gen.ActionDecisions.
Import ListNotations.
Local Open Scope string_scope.

(* the facts of [env_wf] about the variables that occur in the goal *)
Ltac pose_facts m Hwf :=
  let Hlen := fresh "Hlen" in let Hnil := fresh "Hnil" in let Hhas := fresh "Hhas" in let Hzero := fresh "Hzero" in
  destruct Hwf as (Hlen & Hnil & Hhas & Hzero);
  (* a lookup that finds nothing yields "" *)
  repeat match goal with
  | |- context [m_str m ?p] =>
      lazymatch goal with
      | _ : m_b m _ = false -> m_str m p = _ |- _ => fail
      | _ => let H := fresh "Hz" in pose proof (Hzero p) as H; cbv [has_of append] in H
      end
  end;
  (* nil has length 0 *)
  repeat match goal with
  | |- context [m_nil m ?x] =>
      lazymatch goal with
      | _ : m_nil m x = true -> _ |- _ => fail
      | _ => let H := fresh "Hn" in pose proof (Hnil x) as H; cbv [len_of append] in H
      end
  end;
  (* an empty map has no key *)
  repeat match goal with
  | |- context [m_n m ?l] =>
      lazymatch eval vm_compute in (is_len l) with
      | true =>
          let x := eval vm_compute in (unlen l) in
          match goal with
          | |- context [m_b m ?y] =>
              lazymatch eval vm_compute in (has_key x y) with
              | true =>
                  lazymatch goal with
                  | _ : m_n m l = 0%Z -> m_b m y = false |- _ => fail
                  | _ => let H := fresh "Hh" in pose proof (Hhas x y eq_refl) as H; cbv [len_of append] in H
                  end
              end
          | _ : context [m_b m ?y] |- _ =>
              lazymatch eval vm_compute in (has_key x y) with
              | true =>
                  lazymatch goal with
                  | _ : m_n m l = 0%Z -> m_b m y = false |- _ => fail
                  | _ => let H := fresh "Hh" in pose proof (Hhas x y eq_refl) as H; cbv [len_of append] in H
                  end
              end
          end
      end
  end;
  (* lengths are not negative *)
  repeat match goal with
  | |- context [m_n m ?x] =>
      lazymatch eval vm_compute in (is_len x) with
      | true =>
          lazymatch goal with
          | _ : (0 <= m_n m x)%Z |- _ => fail
          | _ => pose proof (Hlen x eq_refl)
          end
      end
  | _ : context [m_n m ?x] |- _ =>
      lazymatch eval vm_compute in (is_len x) with
      | true =>
          lazymatch goal with
          | _ : (0 <= m_n m x)%Z |- _ => fail
          | _ => pose proof (Hlen x eq_refl)
          end
      end
  end;
  clear Hlen Hnil Hhas Hzero.

(* the assumptions of the function: equations are rewritten, bounds are kept *)
Ltac use_pre Hpre :=
  cbn [all_hold holds map fst no_err app] in Hpre; unfold err_is_key in Hpre; cbn [append] in Hpre;
  repeat match type of Hpre with
  | _ /\ _ => let H := fresh "Ha" in destruct Hpre as [H Hpre]
  end;
  clear Hpre;
  repeat match goal with
  | H : ?a = ?b |- _ => try rewrite H; clear H
  end.

Ltac gen_atoms m :=
  repeat match goal with
  | |- context [m_s m ?x] => let v := fresh "s" in generalize (m_s m x); intro v
  | |- context [m_b m ?x] => let v := fresh "b" in generalize (m_b m x); intro v
  | |- context [m_e m ?x] => let v := fresh "e" in generalize (m_e m x); intro v
  | |- context [m_p m ?x] => let v := fresh "p" in generalize (m_p m x); intro v
  | |- context [m_flag m ?x] => let v := fresh "f" in generalize (m_flag m x); intro v
  | |- context [m_err m ?x] => let v := fresh "r" in generalize (m_err m x); intro v
  | |- context [m_nil m ?x] => let v := fresh "n" in generalize (m_nil m x); intro v
  | |- context [m_opq m ?x] => let v := fresh "o" in generalize (m_opq m x); intro v
  | |- context [m_n m ?x] => let v := fresh "z" in generalize (m_n m x); intro v
  | |- context [m_str m ?x] => let v := fresh "t" in generalize (m_str m x); intro v
  end.

(* comparisons of string variables are opaque booleans (sound: fewer equations are provable) *)
Ltac gen_strs :=
  repeat match goal with
  | |- context [vstr_eqb ?a ?b] => let v := fresh "q" in generalize (vstr_eqb a b); intro v
  | |- context [vstr_ltb ?a ?b] => let v := fresh "q" in generalize (vstr_ltb a b); intro v
  end.

Ltac split_fin :=
  repeat match goal with
  | x : status |- _ => destruct x
  | x : event |- _ => destruct x
  | x : policy |- _ => destruct x
  | x : bool |- _ => destruct x
  end.

(* after the case split: use the implications whose premise is decided *)
Ltac settle :=
  repeat match goal with
  | H : ?x = ?x -> _ |- _ => specialize (H eq_refl)
  | H : true = false -> _ |- _ => clear H
  | H : false = true -> _ |- _ => clear H
  | H : ?t = EmptyString |- _ => subst t
  | H : false = true |- _ => discriminate H
  | H : true = false |- _ => discriminate H
  end.

Ltac item_core :=
  let m := fresh "m" in
  let Hwf := fresh "Hwf" in
  let Hpre := fresh "Hpre" in
  intros m Hwf Hpre; unfold mvalue; autounfold with dec; cbv beta;
  simpl deval; unfold err_is_key; simpl;
  use_pre Hpre; simpl;
  first [ apply (f_equal (fun b => Some (VB b))) | apply (f_equal (fun z => Some (VN z))) ];
  pose_facts m Hwf;
  repeat match goal with H : context [m] |- _ => revert H end;
  gen_atoms m; clear m; intros; split_fin; settle; unfold vstr_ltb, vstr_eqb in *; simpl;
  try reflexivity;
  fold vstr_eqb; fold vstr_ltb;
  repeat match goal with
  | |- context [String.eqb ?a ?b] => let v := fresh "q" in generalize (String.eqb a b); intro v
  | |- context [str_ltb ?a ?b] => let v := fresh "q" in generalize (str_ltb a b); intro v
  end;
  split_fin; simpl; try reflexivity;
  repeat match goal with |- context [if ?c then _ else _] => let E := fresh "E" in destruct c eqn:E end;
  try reflexivity; lia.

Ltac item_tac :=
  lazymatch goal with
  | |- item_ok ?pre ?it ?g =>
      first
        [ solve [ item_core ]
        | fail 1 "DEC: an item of the Go function no longer means what the model says:" g ]
  end.

Ltac in_tac := repeat first [ left; reflexivity | right ].

(* one of the candidates (the Go items of that class) means what the model says *)
Ltac cand_tac all l :=
  lazymatch l with
  | ?c :: ?t => first [ solve [ exists c; split; [ in_tac | item_core ] ] | cand_tac all t ]
  | _ => fail "DEC: no item of this class of the Go function means what the model says any more; the Go source has:" all
  end.

Ltac items_tac :=
  lazymatch goal with
  | |- True => exact I
  | |- (exists g, In g ?l /\ _) /\ _ => split; [ cand_tac l l | items_tac ]
  end.

Ltac fn_tac :=
  lazymatch goal with
  | |- fn_ok ?gt (model_of ?mt ?f) =>
      let fm := eval cbv [model_of mt find fn_name String.eqb Ascii.eqb Bool.eqb] in (model_of mt f) in
      change (fn_ok gt fm);
      cbv [fn_ok fn_name fn_pre fn_items items_ok];
      repeat match goal with
      | |- context [go_items gt f ?k] =>
          let g := eval vm_compute in (go_items gt f k) in
          lazymatch g with
          | nil => fail 2 "DEC: the Go function" f "has no item" k "any more (or the function itself is gone)"
          | _ => change (go_items gt f k) with g
          end
      end;
      items_tac
  end.

(* per function *)
Lemma fn_Install_RunWithContext : fn_ok decisions (model_of model "Install.RunWithContext"). Proof. fn_tac. Qed.
Lemma fn_Install_performInstall : fn_ok decisions (model_of model "Install.performInstall"). Proof. fn_tac. Qed.
Lemma fn_Install_availableName : fn_ok decisions (model_of model "Install.availableName"). Proof. fn_tac. Qed.
Lemma fn_Install_replaceRelease : fn_ok decisions (model_of model "Install.replaceRelease"). Proof. fn_tac. Qed.
Lemma fn_Upgrade_prepareUpgrade : fn_ok decisions (model_of model "Upgrade.prepareUpgrade"). Proof. fn_tac. Qed.
Lemma fn_Upgrade_failRelease : fn_ok decisions (model_of model "Upgrade.failRelease"). Proof. fn_tac. Qed.
Lemma fn_Rollback_prepareRollback : fn_ok decisions (model_of model "Rollback.prepareRollback"). Proof. fn_tac. Qed.
Lemma fn_Uninstall_Run : fn_ok decisions (model_of model "Uninstall.Run"). Proof. fn_tac. Qed.
Lemma fn_Uninstall_deleteRelease : fn_ok decisions (model_of model "Uninstall.deleteRelease"). Proof. fn_tac. Qed.
Lemma fn_Configuration_execHook : fn_ok decisions (model_of model "Configuration.execHook"). Proof. fn_tac. Qed.
Lemma fn_hookByWeight_Less : fn_ok decisions (model_of model "hookByWeight.Less"). Proof. fn_tac. Qed.
Lemma fn_Configuration_deleteHookByPolicy : fn_ok decisions (model_of model "Configuration.deleteHookByPolicy"). Proof. fn_tac. Qed.
Lemma fn_hookHasDeletePolicy : fn_ok decisions (model_of model "hookHasDeletePolicy"). Proof. fn_tac. Qed.
Lemma fn_Configuration_releaseContent : fn_ok decisions (model_of model "Configuration.releaseContent"). Proof. fn_tac. Qed.
Lemma fn_filterManifestsToKeep : fn_ok decisions (model_of model "filterManifestsToKeep"). Proof. fn_tac. Qed.
Lemma fn_requireValue : fn_ok decisions (model_of model "requireValue"). Proof. fn_tac. Qed.
Lemma fn_Storage_Create : fn_ok decisions (model_of model "Storage.Create"). Proof. fn_tac. Qed.
Lemma fn_Storage_Deployed : fn_ok decisions (model_of model "Storage.Deployed"). Proof. fn_tac. Qed.
Lemma fn_Storage_removeLeastRecent : fn_ok decisions (model_of model "Storage.removeLeastRecent"). Proof. fn_tac. Qed.
Lemma fn_Storage_Last : fn_ok decisions (model_of model "Storage.Last"). Proof. fn_tac. Qed.
Lemma fn_Status_IsPending : fn_ok decisions (model_of model "Status.IsPending"). Proof. fn_tac. Qed.
Lemma fn_ByRevision_Less : fn_ok decisions (model_of model "ByRevision.Less"). Proof. fn_tac. Qed.

Lemma decisions_table_ok : table_ok model decisions.
Proof.
  unfold table_ok.
  change model with
    [model_of model "Install.RunWithContext";
     model_of model "Install.performInstall";
     model_of model "Install.availableName";
     model_of model "Install.replaceRelease";
     model_of model "Upgrade.prepareUpgrade";
     model_of model "Upgrade.failRelease";
     model_of model "Rollback.prepareRollback";
     model_of model "Uninstall.Run";
     model_of model "Uninstall.deleteRelease";
     model_of model "Configuration.execHook";
     model_of model "hookByWeight.Less";
     model_of model "Configuration.deleteHookByPolicy";
     model_of model "hookHasDeletePolicy";
     model_of model "Configuration.releaseContent";
     model_of model "filterManifestsToKeep";
     model_of model "requireValue";
     model_of model "Storage.Create";
     model_of model "Storage.Deployed";
     model_of model "Storage.removeLeastRecent";
     model_of model "Storage.Last";
     model_of model "Status.IsPending";
     model_of model "ByRevision.Less"].
  exact
   (Forall_cons _ fn_Install_RunWithContext
    (Forall_cons _ fn_Install_performInstall
    (Forall_cons _ fn_Install_availableName
    (Forall_cons _ fn_Install_replaceRelease
    (Forall_cons _ fn_Upgrade_prepareUpgrade
    (Forall_cons _ fn_Upgrade_failRelease
    (Forall_cons _ fn_Rollback_prepareRollback
    (Forall_cons _ fn_Uninstall_Run
    (Forall_cons _ fn_Uninstall_deleteRelease
    (Forall_cons _ fn_Configuration_execHook
    (Forall_cons _ fn_hookByWeight_Less
    (Forall_cons _ fn_Configuration_deleteHookByPolicy
    (Forall_cons _ fn_hookHasDeletePolicy
    (Forall_cons _ fn_Configuration_releaseContent
    (Forall_cons _ fn_filterManifestsToKeep
    (Forall_cons _ fn_requireValue
    (Forall_cons _ fn_Storage_Create
    (Forall_cons _ fn_Storage_Deployed
    (Forall_cons _ fn_Storage_removeLeastRecent
    (Forall_cons _ fn_Storage_Last
    (Forall_cons _ fn_Status_IsPending
    (Forall_cons _ fn_ByRevision_Less
    (Forall_nil _))))))))))))))))))))))).
Qed.

(* ---- the readable form of [table_ok] ---------------------------------------------------------- *)

Lemma items_ok_in gt f pre l : items_ok gt f pre l ->
  forall k it, In (k, it) l -> exists g, In g (go_items gt f k) /\ item_ok pre it g.
Proof.
  induction l as [|[k0 it0] t IH]; intros H k it Hin; [contradiction|].
  destruct H as [H0 Ht]. destruct Hin as [E|Hin]; [injection E as <- <-; exact H0 | exact (IH Ht k it Hin)].
Qed.

Lemma decision_item_agrees_lemma fm k it :
  In fm model -> In (k, it) (fn_items fm) ->
  exists g, In g (go_items decisions (fn_name fm) k) /\
    forall m : menv, env_wf m -> all_hold m (map fst (fn_pre fm)) -> deval m g = Some (mvalue it m).
Proof.
  intros Hfm Hk. pose proof decisions_table_ok as H. unfold table_ok in H. rewrite Forall_forall in H.
  exact (items_ok_in _ _ _ _ (H fm Hfm) k it Hk).
Qed.

(* the assumptions are satisfiable: the all-default environment meets those of every function,
   so every listed item exists in the generated table and evaluates *)
Lemma env0_wf : env_wf env0.
Proof. unfold env_wf. repeat split; intros; try reflexivity; apply Z.le_refl. Qed.

Lemma assumptions_satisfiable_lemma : Forall (fun fm => all_hold env0 (map fst (fn_pre fm))) model.
Proof. repeat constructor; vm_compute; discriminate. Qed.

(* ---- examples: the obligation is not vacuous, and not syntactic --------------------------------- *)

Lemma model_counts :
  List.length model = 22 /\ List.length (List.concat (map fn_items model)) = 52 /\
  List.length (List.concat (map fn_pre model)) = 36.
Proof. vm_compute. repeat split. Qed.

(* prepareUpgrade's "ask the storage for the deployed revision" with
   `lastRelease.Info.Status == release.StatusDeployed` widened by `|| … == release.StatusFailed` *)
Lemma rejects_widened_lemma :
  exists m, env_wf m /\
    deval m (DAnd (DNot (DIsPending (DVar TS "Last.status")))
                  (DNot (DOr (DEq (DVar TS "Last.status") (DStatus "deployed"))
                             (DEq (DVar TS "Last.status") (DStatus "failed")))))
    <> Some (VB (p_up_ask_deployed m)).
Proof. exists (set_s "Last.status" SFailed env0). split; [exact env0_wf|]. vm_compute. discriminate. Qed.

(* the max-history test off by one *)
Lemma rejects_off_by_one_lemma :
  exists m, env_wf m /\
    deval m (DNot (DLt (DVar TN "len(History)") (DVar TN "arg2"))) <> Some (VB (p_rlr_prune m)).
Proof.
  exists (set_n "len(History)" 3%Z (set_n "arg2" 3%Z env0)). split; [|vm_compute; discriminate].
  repeat split; intros; try reflexivity.
  - unfold set_n, upd; simpl. repeat destruct (String.eqb _ _); vm_compute; discriminate.
  - discriminate.
Qed.

(* an expression the translator could not read never meets an obligation; an opaque atom
   does not either unless the model names it *)
Lemma rejects_unknown_lemma it txt : ~ item_ok [] it (DUnknown txt).
Proof. intros H. specialize (H env0 env0_wf I). discriminate. Qed.

Lemma rejects_opaque_lemma :
  ~ item_ok [] (IB c_up_pending) (DOr (DIsPending (DVar TS "Last.status")) (DOpaque "somethingElse(rel)")).
Proof.
  intros H.
  specialize (H (mkEnv (fun _ => false) (fun _ => SUnknown) (fun _ => 0%Z) (fun _ => TestHook) (fun _ => BeforeHookCreation)
                       (fun _ => "") (fun _ => false) (fun _ => false) (fun _ => false) (fun _ => true))
                ltac:(repeat split; intros; try reflexivity; try discriminate; apply Z.le_refl) I).
  vm_compute in H. discriminate.
Qed.

(* the nested selection of removeLeastRecent flattened into one inverted guard with continue,
   IsPending as a switch with the operands in another order, De Morgan on integers: accepted *)
Lemma accepts_flattened_lemma :
  item_ok [ANonNeg "arg2"] (IB p_rlr_pick)
    (DAnd (DAnd (DNot (DLe (DVar TN "len(History)") (DVar TN "arg2")))
                (DNot (DEq (DSub (DVar TN "len(sorted(History))") (DVar TN "len(new([]Release))")) (DVar TN "arg2"))))
          (DNot (DAnd (DNot (DNil "Deployed"))
                      (DEq (DVar TN "each(sorted(History)).version") (DVar TN "Deployed.version"))))).
Proof. item_tac. Qed.

Lemma accepts_switch_lemma :
  item_ok [] (IB c_is_pending)
          (DIn (DVar TS "recv") [DStatus "pending-rollback"; DStatus "pending-install"; DStatus "pending-upgrade"]).
Proof. item_tac. Qed.

Lemma accepts_de_morgan_lemma :
  item_ok [] (IB p_rlr_prune) (DLt (DVar TN "arg2") (DVar TN "len(History)")).
Proof. item_tac. Qed.

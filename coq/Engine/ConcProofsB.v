(* C09 — global theorems over the interleaving interpreter, part B:
   - unique creator: without storage deletes, at most one successful create per revision,
     under every schedule, for any number of threads and every cluster behaviour;
   - losers are inert: the thread-local lemma of ConcLocal.v lifted through the projection
     theorem ([run_follows]). *)
From Coq Require Import List String Bool Arith ZArith Lia.
From Helm Require Import Common.Assoc Engine.Types Engine.Eff Engine.Ops Engine.Cluster Engine.Seq Engine.SeqProofs
                         Engine.Conc Engine.ConcProofs Engine.ConcLocal.
Import ListNotations.

(* ---- trace projections and append ---- *)
Lemma creations_app a b : creations (a ++ b) = (creations a ++ creations b)%list.
Proof.
  induction a as [|c t IH]; simpl; auto. destruct (created_rev c); simpl; rewrite IH; reflexivity.
Qed.

Lemma created_revs_app a b : created_revs (a ++ b) = (created_revs a ++ created_revs b)%list.
Proof. unfold created_revs. rewrite creations_app, map_app. reflexivity. Qed.

Lemma created_revs_single c :
  created_revs [c] = match created_rev c with Some v => [v] | None => [] end.
Proof. unfold created_revs. simpl. destruct (created_rev c); reflexivity. Qed.

Lemma existsb_filter {X} (f g : X -> bool) l :
  existsb (fun x => f x && g x) l = existsb g (filter f l).
Proof.
  induction l as [|x t IH]; simpl; auto. destruct (f x); simpl; rewrite IH; reflexivity.
Qed.

Lemma thread_created_local i tr : thread_created i tr = created_any (thread_events i tr).
Proof.
  unfold thread_created, created_any, thread_events, is_created_ev. apply existsb_filter.
Qed.
Lemma thread_mutated_local i tr : thread_mutated i tr = mutated_any (thread_events i tr).
Proof. unfold thread_mutated, mutated_any, thread_events. apply existsb_filter. Qed.
Lemma thread_refused_local i tr : thread_refused i tr = refused_any (thread_events i tr).
Proof. unfold thread_refused, refused_any, thread_events. apply existsb_filter. Qed.

Lemma Forall_set_nth {X} (P : X -> Prop) i x l : Forall P l -> P x -> Forall P (set_nth i x l).
Proof.
  intros H Hx. revert i. induction H as [|y t Hy Ht IH]; intros [|i]; simpl; constructor; auto.
Qed.

Lemma Forall_nth_error {X} (P : X -> Prop) l i x : Forall P l -> nth_error l i = Some x -> P x.
Proof. intros H Hn. rewrite Forall_forall in H. apply H. eapply nth_error_In; eauto. Qed.

Lemma NoDup_snoc {X} (l : list X) x : NoDup l -> ~ In x l -> NoDup (l ++ [x]).
Proof.
  induction l as [|y t IH]; simpl; intros Hn Hx.
  - constructor; [tauto|constructor].
  - inversion Hn; subst. constructor.
    + rewrite in_app_iff. simpl. intros [H|[H|[]]]; [tauto|]. subst. apply Hx. now left.
    + apply IH; auto.
Qed.

Lemma has_rev_true_in v l : has_rev v l = true -> In v (revs l).
Proof.
  unfold has_rev, revs. intros H. apply existsb_exists in H. destruct H as [r [Hr E]].
  apply Nat.eqb_eq in E. subst. now apply in_map.
Qed.

Lemma revs_app a b : revs (a ++ b) = (revs a ++ revs b)%list.
Proof. unfold revs. apply map_app. Qed.

(* ------------------------------------------------------------------ *)
Section Unique.
  Variable K : Type.
  Variable kh : forall e : eff, K -> K * resp e * list kev.
  Variable dresp : forall e : eff, resp e.
  Variable A : Type.
  Variable l0 : list release.

  Definition uc_inv (ts : list (prog A)) (s : cstate K) : Prop :=
    Forall (all_eff not_delete) ts /\
    NoDup (created_revs (c_tr s)) /\
    (forall v, In v (revs (c_led s)) <-> In v (revs l0) \/ In v (created_revs (c_tr s))) /\
    (forall v, In v (created_revs (c_tr s)) -> ~ In v (revs l0)).

  Lemma created_rev_cluster i e (r : resp e) out :
    is_cluster_call e = true -> created_rev (mkCev i e r out) = None.
  Proof. destruct e; simpl; intros H; try discriminate; reflexivity. Qed.

  Lemma uc_step i ts s ts' s' :
    uc_inv ts s -> step_thread K kh dresp A i ts s = Some (ts', s') -> uc_inv ts' s'.
  Proof.
    intros [HF [HN [HI HD]]] St. apply step_thread_inv in St. destruct St as [e [k [Hn [-> ->]]]].
    pose proof (Forall_nth_error _ _ _ _ HF Hn) as Hp. simpl in Hp. destruct Hp as [Hnd Hk].
    destruct (cstep_spec K kh dresp i e s) as [r [out [E Hs]]]. rewrite E. simpl.
    unfold uc_inv. simpl. split; [apply Forall_set_nth; auto|].
    rewrite created_revs_app, created_revs_single.
    destruct (is_cluster_call e) eqn:Ec.
    - rewrite (created_rev_cluster i e r out Ec). rewrite app_nil_r. auto.
    - destruct (Hs eq_refl) as [Hr [Hout _]]. clear Hs E.
      revert r Hr out Hout k Hn Hk. destruct e as [| |v|x|x|v| | | | | | |]; try discriminate; simpl in *;
        intros r Hr out Hout k Hn Hk; try (rewrite app_nil_r; auto; fail).
      + (* SCreate *)
        destruct (has_rev (rev x) (c_led s)) eqn:Eh; simpl in *; subst r.
        * rewrite app_nil_r. auto.
        * pose proof (has_rev_false_notin _ _ Eh) as Hnot.
          assert (Hnc : ~ In (rev x) (created_revs (c_tr s))).
          { intros Hc. apply Hnot. apply HI. now right. }
          split; [apply NoDup_snoc; auto|]. split.
          -- intros v. rewrite revs_app, !in_app_iff. simpl. rewrite HI. tauto.
          -- intros v Hv. rewrite in_app_iff in Hv. destruct Hv as [Hv|[Hv|[]]]; [auto|].
             subst v. intros H0. apply Hnot. apply HI. now left.
      + (* SUpdate *)
        destruct (has_rev (rev x) (c_led s)); simpl in *; rewrite app_nil_r; auto.
        split; auto. split; auto. intros v. rewrite revs_replace. apply HI.
      + (* SDelete *) contradiction.
  Qed.

  Theorem run_unique_creator ts sch k :
    Forall (all_eff not_delete) ts -> NoDup (revs l0) ->
    let res := run K kh dresp A ts sch (mkC l0 k []) in
    NoDup (created_revs (c_tr (snd res)))
    /\ (forall v, In v (revs (c_led (snd res))) <-> In v (revs l0) \/ In v (created_revs (c_tr (snd res))))
    /\ (forall v, In v (created_revs (c_tr (snd res))) -> ~ In v (revs l0)).
  Proof.
    intros HF H0 res.
    assert (G : uc_inv (fst res) (snd res)).
    { apply (run_inv K kh dresp A uc_inv uc_step). unfold uc_inv. simpl.
      split; [exact HF|]. split; [constructor|]. split; [intros v; tauto|intros v []]. }
    destruct G as [_ G]. exact G.
  Qed.

  (* exactly one thread created a revision that is not initial *)
  Lemma creators_of_unique v tr :
    NoDup (created_revs tr) -> In v (created_revs tr) -> exists i, creators_of v tr = [i].
  Proof.
    unfold created_revs, creators_of. induction (creations tr) as [|[i w] t IH]; simpl; intros Hn Hi; [contradiction|].
    inversion Hn; subst. destruct (Nat.eqb w v) eqn:E.
    - apply Nat.eqb_eq in E. subst w. exists i. simpl. f_equal.
      assert (G : filter (fun tv : nat * nat => Nat.eqb (snd tv) v) t = []).
      { clear -H1. induction t as [|[j u] t IH]; simpl; auto.
        destruct (Nat.eqb u v) eqn:E.
        - apply Nat.eqb_eq in E. subst. exfalso. apply H1. simpl. now left.
        - apply IH. intros H. apply H1. simpl. now right. }
      rewrite G. reflexivity.
    - apply IH; auto. destruct Hi as [Hi|Hi]; auto. apply Nat.eqb_neq in E. simpl in Hi. congruence.
  Qed.
End Unique.

(* ------------------------------------------------------------------ *)
Section Losers.
  Variable K : Type.
  Variable kh : forall e : eff, K -> K * resp e * list kev.
  Variable dresp : forall e : eff, resp e.

  Theorem run_losers_inert (P : outcome -> Prop) (ts : list (prog outcome)) sch l k i p :
    nth_error ts i = Some p -> inert P p ->
    let res := run K kh dresp outcome ts sch (mkC l k []) in
    let tr := c_tr (snd res) in
    mutations_guarded false (thread_events i tr) = true
    /\ (thread_created i tr = false ->
        thread_mutated i tr = false
        /\ (thread_refused i tr = true ->
            exists o, nth_error (outcomes outcome (fst res)) i = Some (Some o) /\ P o)).
  Proof.
    intros Hn Hi res tr.
    destruct (run_follows K kh dresp outcome ts sch l k i p Hn) as [a [Ha Hf]].
    fold res in Ha, Hf. fold tr in Hf.
    destruct (inert_path P (fun _ => True) _ _ _ Hi Hf) as [G1 G2].
    split; [exact G1|]. rewrite thread_created_local, thread_mutated_local, thread_refused_local.
    intros Hc. destruct (G2 Hc) as [M [R _]]. split; [exact M|].
    intros Hr. destruct (R Hr) as [a' [E Pa]]. inversion E; subst a'.
    exists a. split; [now apply outcomes_nth|exact Pa].
  Qed.
End Losers.

(* ------------------------------------------------------------------ *)
(* With deletes (install --atomic purges its own history when it fails, history pruning):
   for ANY programs, every revision of the ledger that is not an untouched initial one has
   exactly one LIVE creation — a revision is never created twice without a successful delete
   of it in between. *)
Lemma revs_remove_in w v l : In w (revs (remove_rev v l)) <-> In w (revs l) /\ w <> v.
Proof.
  unfold revs, remove_rev. split.
  - intros H. apply in_map_iff in H. destruct H as [r [E Hr]]. apply filter_In in Hr.
    destruct Hr as [Hr Hb]. split; [rewrite <- E; now apply in_map|].
    subst w. intros E. rewrite E, Nat.eqb_refl in Hb. discriminate.
  - intros [H Hne]. apply in_map_iff in H. destruct H as [r [E Hr]]. apply in_map_iff. exists r.
    split; auto. apply filter_In. split; auto. subst w. apply Nat.eqb_neq in Hne. now rewrite Hne.
Qed.

Lemma live_creations_snoc tr c : live_creations (tr ++ [c]) = live_step (live_creations tr) c.
Proof. unfold live_creations. rewrite fold_left_app. reflexivity. Qed.

Section Live.
  Variable K : Type.
  Variable kh : forall e : eff, K -> K * resp e * list kev.
  Variable dresp : forall e : eff, resp e.
  Variable A : Type.
  Variable l0 : list release.

  Definition live_inv (ts : list (prog A)) (s : cstate K) : Prop :=
    let live := map snd (live_creations (c_tr s)) in
    NoDup live
    /\ (forall v, In v live -> In v (revs (c_led s)))
    /\ (forall v, In v (revs (c_led s)) -> In v (revs l0) \/ In v live).

  Lemma live_step_none acc i e (r : resp e) out :
    created_rev (mkCev i e r out) = None -> deleted_rev (mkCev i e r out) = None ->
    live_step acc (mkCev i e r out) = acc.
  Proof. intros H1 H2. unfold live_step. rewrite H1, H2. reflexivity. Qed.

  Lemma deleted_rev_cluster i e (r : resp e) out :
    is_cluster_call e = true -> deleted_rev (mkCev i e r out) = None.
  Proof. destruct e; simpl; intros H; try discriminate; reflexivity. Qed.

  Lemma live_step_inv i ts s ts' s' :
    live_inv ts s -> step_thread K kh dresp A i ts s = Some (ts', s') -> live_inv ts' s'.
  Proof.
    intros [HN [HI HD]] St. apply step_thread_inv in St. destruct St as [e [k [Hn [-> ->]]]].
    destruct (cstep_spec K kh dresp i e s) as [r [out [E Hs]]]. rewrite E. unfold live_inv. simpl.
    rewrite live_creations_snoc.
    destruct (is_cluster_call e) eqn:Ec.
    - rewrite live_step_none by (first [now apply created_rev_cluster|now apply deleted_rev_cluster]). auto.
    - destruct (Hs eq_refl) as [Hr [Hout _]]. clear Hs E.
      revert r Hr out Hout k Hn. destruct e as [| |w|x|x|w| | | | | | |]; try discriminate; simpl in *;
        intros r Hr out Hout k Hn; try (rewrite live_step_none by reflexivity; auto; fail).
      + (* SCreate *)
        destruct (has_rev (rev x) (c_led s)) eqn:Eh; simpl in *; subst r.
        * rewrite live_step_none by reflexivity. auto.
        * unfold live_step. simpl. rewrite map_app. simpl.
          pose proof (has_rev_false_notin _ _ Eh) as Hnot.
          split; [apply NoDup_snoc; auto|]. split.
          -- intros v Hv. rewrite revs_app, in_app_iff. rewrite in_app_iff in Hv. simpl in *.
             destruct Hv as [Hv|[Hv|[]]]; auto.
          -- intros v Hv. rewrite revs_app, in_app_iff in Hv. rewrite in_app_iff. simpl in *.
             destruct Hv as [Hv|[Hv|[]]]; auto. destruct (HD v Hv); auto.
      + (* SUpdate *)
        destruct (has_rev (rev x) (c_led s)); simpl in *; subst r; rewrite live_step_none by reflexivity; auto.
        split; auto. split; intros v; rewrite revs_replace; auto.
      + (* SDelete *)
        destruct (has_rev w (c_led s)) eqn:Eh; simpl in *; subst r.
        * unfold live_step. simpl.
          assert (Hf : forall v, In v (map snd (filter (fun tv : nat * nat => negb (Nat.eqb (snd tv) w)) (live_creations (c_tr s))))
                         <-> In v (map snd (live_creations (c_tr s))) /\ v <> w).
          { intros v. rewrite !in_map_iff. split.
            - intros [tv [Ev Hin]]. apply filter_In in Hin. destruct Hin as [Hin Hb]. split; [eauto|].
              subst v. intros E. rewrite E, Nat.eqb_refl in Hb. discriminate.
            - intros [[tv [Ev Hin]] Hne]. exists tv. split; auto. apply filter_In. split; auto.
              subst v. apply Nat.eqb_neq in Hne. now rewrite Hne. }
          split.
          { clear -HN. induction (live_creations (c_tr s)) as [|[j u] t IH]; simpl in *; [constructor|].
            inversion HN; subst. destruct (negb (Nat.eqb u w)); simpl; auto. constructor; auto.
            intros Hin. apply H1. apply in_map_iff in Hin. destruct Hin as [tv [Ev Hin]].
            apply filter_In in Hin. destruct Hin as [Hin _]. apply in_map_iff. eauto. }
          split.
          -- intros v Hv. apply Hf in Hv. destruct Hv as [Hv Hne]. apply revs_remove_in. auto.
          -- intros v Hv. apply revs_remove_in in Hv. destruct Hv as [Hv Hne].
             destruct (HD v Hv); auto. right. apply Hf. auto.
        * rewrite live_step_none by reflexivity. auto.
  Qed.

  Theorem run_live_creator ts sch k :
    let res := run K kh dresp A ts sch (mkC l0 k []) in
    let live := map snd (live_creations (c_tr (snd res))) in
    NoDup live
    /\ (forall v, In v live -> In v (revs (c_led (snd res))))
    /\ (forall v, In v (revs (c_led (snd res))) -> In v (revs l0) \/ In v live).
  Proof.
    intros res live.
    apply (run_inv K kh dresp A live_inv live_step_inv). unfold live_inv. simpl.
    split; [constructor|]. split; [intros v []|auto].
  Qed.
End Live.

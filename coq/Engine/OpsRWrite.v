(* Release engine with failing storage reads — a failing read AND a failing storage write in one operation.

   Engine/OpsRLedger.v proves the ledger clauses for an operation whose n-th read fails and whose writes all
   succeed.  The transfer principle (OpsRProofs.rfail_led) holds for every fault plan without a crash point,
   so the same follows when, in addition, the w-th storage write of the operation fails - under H1 in its
   narrow form (Engine/LedgerDep.v: the failing write is not one that marks a revision superseded), asked
   of the fault-free program for every crash point, which is where the crash-point theorems need it.  The
   handler's own write (rollback's last lookup: record the revision failed) may be the failing one. *)
From Coq Require Import List String Bool Arith ZArith Lia.
From Helm Require Import Common.Assoc Engine.Types Engine.Eff Engine.Ops Engine.Cluster Engine.Seq
                         Engine.SeqProofs Engine.LedgerBase Engine.LedgerDep Engine.OpsR Engine.OpsRProofs
                         Engine.OpsRLedger.
Import ListNotations.
Local Open Scope string_scope.

Section ReadWrite.
  Variable K : Type.
  Variable kh : forall e : eff, K -> K * resp e * list kev.
  Variable dresp : forall e : eff, resp e.
  Variable rn ns : string.

  (* one operation whose n-th storage read fails, under the storage fault plan f *)
  Definition run_opRF (o : op) (n : nat) (f : sfaults) (l : list release) (k : K)
    : list release * K * outcome * list tev :=
    let '(s, out) := run K kh dresp f (rfail n (op_progR rn ns o)) (mkR l k 0 0 false []) in
    (led s, ks s, out, tr s).

  Theorem read_and_write_fault_ledger o n f l k :
    crash f = None -> honest dresp ->
    fail_hits_only K kh dresp rn ns fail_ok2 o f l k ->
    (forall m, fail_hits_only K kh dresp rn ns fail_ok2 o (fc f m) l k) ->
    NoDup (revs l) -> ndep l <= 1 -> h2_op o l ->
    ledger_ok (fst (fst (fst (run_opRF o n f l k)))).
  Proof.
    intros Hc Hh Hf Hfm Hn Hd H2. unfold run_opRF.
    destruct (run K kh dresp f (rfail n (op_progR rn ns o)) (mkR l k 0 0 false [])) as [s out] eqn:E.
    cbn [fst]. replace s with (fst (run K kh dresp f (rfail n (op_progR rn ns o)) (mkR l k 0 0 false [])))
      by now rewrite E.
    apply (rfail_led K kh dresp ledger_ok ledger_ok_upd); [apply hq_op | exact Hc | reflexivity | |].
    - intros m. rewrite (erase_op K kh dresp rn ns o). rewrite <- (run_op_led K kh dresp rn ns).
      destruct (run_op_D_gen K kh dresp rn ns (fc f m) fail_ok2 o l k (or_intror Hh) (fun e He => He) (Hfm m) Hn Hd H2)
        as [A [B _]].
      split; assumption.
    - rewrite (erase_op K kh dresp rn ns o). rewrite <- (run_op_led K kh dresp rn ns).
      destruct (run_op_D_gen K kh dresp rn ns f fail_ok2 o l k (or_intror Hh) (fun e He => He) Hf Hn Hd H2)
        as [A [B _]].
      split; assumption.
  Qed.
End ReadWrite.

(* C07 — stamping of rendered objects, transcribed from pkg/action/validate.go:
     mergeStrStrMaps (:202)  mergeLabels (:183)  mergeAnnotations (:191)
     requireValue (:125)     checkOwnership (:94)
     setMetadataVisitor (:140, with and without force)
   as functions on the label map and the annotation map of one object.  Go maps are association
   lists (Common/Assoc.v): [aget] is the map look-up, [aset] is the assignment m[k] = v.
   Definitions only; proofs are in Engine/StampProofs.v. *)
From Coq Require Import List String Ascii Bool.
From Helm Require Import Common.Assoc Engine.Types.
Import ListNotations.
Local Open Scope string_scope.

Definition strmap := list (string * string).

(* the constants of validate.go:32-37 *)
Definition app_managed_by_label := "app.kubernetes.io/managed-by".
Definition app_managed_by_helm := "Helm".
Definition helm_release_name_annotation := "meta.helm.sh/release-name".
Definition helm_release_namespace_annotation := "meta.helm.sh/release-namespace".

(* for k, v := range m { result[k] = v } *)
Definition assign_all (m result : strmap) : strmap :=
  fold_left (fun acc kv => aset (fst kv) (snd kv) acc) m result.

(* mergeStrStrMaps: "merge two maps, always taking the value on the right"
     result := make(map[string]string)
     for k, v := range current { result[k] = v }
     for k, desiredVal := range desired { result[k] = desiredVal } *)
Definition merge_str_str_maps (current desired : strmap) : strmap :=
  assign_all desired (assign_all current []).

(* what the accessor reads and writes: metadata.labels and metadata.annotations *)
Record meta := mkMeta { m_labels : strmap; m_annots : strmap }.

(* mergeLabels: accessor.SetLabels(obj, mergeStrStrMaps(current, labels)) *)
Definition merge_labels (o : meta) (labels : strmap) : meta :=
  mkMeta (merge_str_str_maps (m_labels o) labels) (m_annots o).

(* mergeAnnotations: accessor.SetAnnotations(obj, mergeStrStrMaps(current, annotations)) *)
Definition merge_annotations (o : meta) (annotations : strmap) : meta :=
  mkMeta (m_labels o) (merge_str_str_maps (m_annots o) annotations).

(* requireValue: nil = no error *)
Inductive req_err := ReqMissing | ReqDiffers (actual : string).

Definition require_value (m : strmap) (k v : string) : option req_err :=
  match aget k m with
  | None => Some ReqMissing
  | Some actual => if String.eqb actual v then None else Some (ReqDiffers actual)
  end.

(* checkOwnership: the errors it collects, in order (label, release name, release namespace);
   the empty list is the nil error *)
Inductive own_err := ErrLabel (e : req_err) | ErrName (e : req_err) | ErrNamespace (e : req_err).

Definition opt_list {A B} (f : A -> B) (o : option A) : list B :=
  match o with Some a => [f a] | None => [] end.

Definition check_ownership (o : meta) (release_name release_namespace : string) : list own_err :=
  (opt_list ErrLabel (require_value (m_labels o) app_managed_by_label app_managed_by_helm)
   ++ opt_list ErrName (require_value (m_annots o) helm_release_name_annotation release_name)
   ++ opt_list ErrNamespace (require_value (m_annots o) helm_release_namespace_annotation release_namespace))%list.

Definition owned_meta (o : meta) (release_name release_namespace : string) : bool :=
  match check_ownership o release_name release_namespace with [] => true | _ => false end.

(* setMetadataVisitor: None = the "cannot be owned" error of the non-forcing variant *)
Definition set_metadata_visitor (release_name release_namespace : string) (force : bool) (o : meta)
  : option meta :=
  if negb force && negb (owned_meta o release_name release_namespace) then None
  else
    let o1 := merge_labels o [(app_managed_by_label, app_managed_by_helm)] in
    Some (merge_annotations o1 [(helm_release_name_annotation, release_name);
                                (helm_release_namespace_annotation, release_namespace)]).

(* every call site (install.go:349, upgrade.go:332, rollback.go:193) forces *)
Definition stamp_meta (release_name release_namespace : string) (o : meta) : meta :=
  merge_annotations (merge_labels o [(app_managed_by_label, app_managed_by_helm)])
                    [(helm_release_name_annotation, release_name);
                     (helm_release_namespace_annotation, release_namespace)].

(* ---- the flattened field map of Engine/Types.v ("l:<k>" labels, "a:<k>" annotations) ---- *)

Definition strip2 (a b : Ascii.ascii) (s : string) : option string :=
  match s with
  | String c1 (String c2 rest) => if Ascii.eqb c1 a && Ascii.eqb c2 b then Some rest else None
  | _ => None
  end.

Definition strip_label (s : string) : option string := strip2 "l"%char ":"%char s.
Definition strip_annot (s : string) : option string := strip2 "a"%char ":"%char s.

Fixpoint pick (strip : string -> option string) (f : fields) : strmap :=
  match f with
  | [] => []
  | (k, v) :: t => match strip k with Some k' => (k', v) :: pick strip t | None => pick strip t end
  end.

Definition meta_of (f : fields) : meta := mkMeta (pick strip_label f) (pick strip_annot f).

(* the entries that are neither labels nor annotations *)
Definition rest_of (f : fields) : fields :=
  filter (fun kv => match strip_label (fst kv), strip_annot (fst kv) with None, None => true | _, _ => false end) f.

Definition flat_meta (o : meta) : fields :=
  (map (fun kv => (String "l" (String ":" (fst kv)), snd kv)) (m_labels o)
   ++ map (fun kv => (String "a" (String ":" (fst kv)), snd kv)) (m_annots o))%list.

(* a resource stamped through the transcription of validate.go *)
Definition stamp_fields_v (release_name release_namespace : string) (f : fields) : fields :=
  (rest_of f ++ flat_meta (stamp_meta release_name release_namespace (meta_of f)))%list.

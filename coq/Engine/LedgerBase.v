(* C01 — base of the ledger proofs.
   1. list facts about the ledger operations of Seq.v (replace_rev, remove_rev, max_rev_of);
   2. facts about the interpreter that hold for EVERY cluster handler: run/bind, a dead process
      changes nothing, a case analysis of one step;
   3. "effect typing": a program all of whose effects lie in a class preserves every relation
      that one step of that class preserves (used for hooks, uninstall, ...: loops);
   4. a weakest-precondition calculus at the level of the LEDGER and the list of created
      revisions: cluster answers are universally quantified, process death is an obligation
      [G] at every effect boundary, a failing storage write is a branch that exists only when
      the fault plan has one. *)
From Coq Require Import List String Bool Arith Lia.
From Helm Require Import Common.Assoc Engine.Types Engine.Eff Engine.Ops Engine.Cluster Engine.Seq
  Engine.SeqProofs.
Import ListNotations.

(* ------------------------------------------------------------------ *)
(* 1. ledger lists                                                      *)

Lemma has_rev_true v l : has_rev v l = true <-> exists r, In r l /\ rev r = v.
Proof.
  unfold has_rev. rewrite existsb_exists. split; intros [r [H1 H2]]; exists r; split; auto.
  - now apply Nat.eqb_eq.
  - now apply Nat.eqb_eq.
Qed.

Lemma has_rev_false v l : has_rev v l = false <-> forall r, In r l -> rev r <> v.
Proof.
  split.
  - intros H r Hin E. assert (has_rev v l = true) by (apply has_rev_true; eauto). congruence.
  - intros H. destruct (has_rev v l) eqn:E; auto. apply has_rev_true in E.
    destruct E as [r [Hin Hr]]. exfalso. eapply H; eauto.
Qed.

Lemma in_replace_rev r x l :
  In r (replace_rev x l) <-> (r = x /\ has_rev (rev x) l = true) \/ (In r l /\ rev r <> rev x).
Proof.
  unfold replace_rev. rewrite in_map_iff. split.
  - intros [y [Hy Hin]]. destruct (Nat.eqb (rev y) (rev x)) eqn:E.
    + left. split; auto. apply has_rev_true. exists y. split; auto. now apply Nat.eqb_eq.
    + right. subst. split; auto. now apply Nat.eqb_neq.
  - intros [[-> H]|[Hin Hne]].
    + apply has_rev_true in H. destruct H as [y [Hin Hy]]. exists y. split; auto.
      apply Nat.eqb_eq in Hy. now rewrite Hy.
    + exists r. split; auto. apply Nat.eqb_neq in Hne. now rewrite Hne.
Qed.

Lemma in_replace_rev_weak r x l : In r (replace_rev x l) -> r = x \/ In r l.
Proof. rewrite in_replace_rev. tauto. Qed.

Lemma replace_rev_absent x l : has_rev (rev x) l = false -> replace_rev x l = l.
Proof.
  intros H. rewrite has_rev_false in H. unfold replace_rev.
  rewrite <- (map_id l) at 2. apply map_ext_in. intros r Hin.
  specialize (H r Hin). apply Nat.eqb_neq in H. now rewrite H.
Qed.

Lemma replace_rev_idem x l : replace_rev x (replace_rev x l) = replace_rev x l.
Proof.
  unfold replace_rev. rewrite map_map. apply map_ext. intros r.
  destruct (Nat.eqb (rev r) (rev x)) eqn:E; [now rewrite Nat.eqb_refl | now rewrite E].
Qed.

Lemma in_remove_rev r v l : In r (remove_rev v l) <-> In r l /\ rev r <> v.
Proof.
  unfold remove_rev. rewrite filter_In. rewrite negb_true_iff, Nat.eqb_neq. tauto.
Qed.

Lemma remove_rev_absent v l : has_rev v l = false -> remove_rev v l = l.
Proof.
  intros H. rewrite has_rev_false in H. unfold remove_rev.
  induction l as [|r t IH]; simpl; auto.
  assert (Hr : rev r <> v) by (apply H; now left). apply Nat.eqb_neq in Hr. rewrite Hr. simpl.
  f_equal. apply IH. intros y Hy. apply H. now right.
Qed.

Lemma has_rev_replace v x l : has_rev v (replace_rev x l) = has_rev v l.
Proof.
  unfold has_rev, replace_rev. induction l as [|r t IH]; simpl; auto. rewrite IH. f_equal.
  destruct (Nat.eqb (rev r) (rev x)) eqn:E; auto. apply Nat.eqb_eq in E. now rewrite E.
Qed.

Lemma max_rev_of_none l : max_rev_of l = None <-> l = [].
Proof.
  split; [|intros ->; reflexivity].
  destruct l as [|r t]; auto. simpl. destruct (max_rev_of t) as [m|]; [|discriminate].
  destruct (Nat.ltb (rev m) (rev r)); discriminate.
Qed.

Lemma max_rev_of_some l m :
  max_rev_of l = Some m -> In m l /\ forall r, In r l -> rev r <= rev m.
Proof.
  revert m. induction l as [|x t IH]; simpl; [discriminate|].
  intros m. destruct (max_rev_of t) as [m'|] eqn:E.
  - destruct (IH m' eq_refl) as [Hin Hle].
    destruct (Nat.ltb (rev m') (rev x)) eqn:L; intros H; inversion H; subst.
    + apply Nat.ltb_lt in L. split; [now left|]. intros r [->|Hr]; auto.
      specialize (Hle r Hr). lia.
    + apply Nat.ltb_ge in L. split; [now right|]. intros r [->|Hr]; auto.
  - apply max_rev_of_none in E. subst t. intros H; inversion H; subst.
    split; [now left|]. intros r [->|[]]; auto.
Qed.

(* the highest stored revision, 0 for the empty ledger *)
Definition mx (l : list release) : nat :=
  match max_rev_of l with Some m => rev m | None => 0 end.

Lemma mx_bound l r : In r l -> rev r <= mx l.
Proof.
  intros H. unfold mx. destruct (max_rev_of l) as [m|] eqn:E.
  - now apply (max_rev_of_some _ _ E).
  - apply max_rev_of_none in E. subst. destruct H.
Qed.

Lemma mx_char l n :
  (forall r, In r l -> rev r <= n) -> (exists r, In r l /\ rev r = n) -> mx l = n.
Proof.
  intros Hb [r [Hin Hr]]. unfold mx. destruct (max_rev_of l) as [m|] eqn:E.
  - destruct (max_rev_of_some _ _ E) as [Hm Hle]. specialize (Hb m Hm). specialize (Hle r Hin). lia.
  - apply max_rev_of_none in E. subst. destruct Hin.
Qed.

Lemma mx_revs l l' : revs l = revs l' -> mx l = mx l'.
Proof.
  intros H. unfold mx.
  destruct (max_rev_of l) as [m|] eqn:E; destruct (max_rev_of l') as [m'|] eqn:E'.
  - destruct (max_rev_of_some _ _ E) as [Hm Hle]. destruct (max_rev_of_some _ _ E') as [Hm' Hle'].
    assert (A : In (rev m) (revs l')) by (rewrite <- H; now apply in_map).
    assert (B : In (rev m') (revs l)) by (rewrite H; now apply in_map).
    apply in_map_iff in A. destruct A as [a [Ha Hina]]. apply in_map_iff in B. destruct B as [b [Hb Hinb]].
    specialize (Hle b Hinb). specialize (Hle' a Hina). lia.
  - apply max_rev_of_none in E'. subst l'. destruct l; [discriminate E|discriminate H].
  - apply max_rev_of_none in E. subst l. destruct l'; [discriminate E'|discriminate H].
  - reflexivity.
Qed.

Lemma in_revs v l : In v (revs l) <-> exists r, In r l /\ rev r = v.
Proof.
  unfold revs. rewrite in_map_iff. split; intros [r [A B]]; exists r; auto.
Qed.

(* ------------------------------------------------------------------ *)
(* created revisions in a trace                                         *)

Definition create_of (e : tev) : list nat :=
  match e with
  | TStore w v _ => if String.eqb w "create" then [v] else []
  | TKube _ => []
  end.

Definition creates (t : list tev) : list nat := flat_map create_of t.

Lemma creates_app a b : creates (a ++ b) = creates a ++ creates b.
Proof. unfold creates. apply flat_map_app. Qed.

Lemma creates_kube evs : creates (map TKube evs) = [].
Proof. induction evs; simpl; auto. Qed.

(* ------------------------------------------------------------------ *)
(* 2. the interpreter, for every cluster handler                        *)

Section Interp.
  Variable K : Type.
  Variable kh : forall e : eff, K -> K * resp e * list kev.
  Variable dresp : forall e : eff, resp e.
  Variable f : sfaults.

  Notation rstate := (rstate K).
  Notation step := (step K kh dresp f).
  Notation run := (run K kh dresp f).

  Lemma run_bind {A B} (p : prog A) (k : A -> prog B) (s : rstate) :
    run (bind p k) s = run (k (snd (run p s))) (fst (run p s)).
  Proof.
    revert s. induction p as [a|e c IH]; intros s; simpl; auto.
    destruct (step e s) as [s' r]. apply IH.
  Qed.

  Lemma run_eff {A} e (k : resp e -> prog A) (s : rstate) :
    run (Eff e k) s = run (k (snd (step e s))) (fst (step e s)).
  Proof. simpl. destruct (step e s); reflexivity. Qed.

  Lemma dead_step e (s : rstate) : dead s = true -> fst (step e s) = s.
  Proof.
    intros H. unfold Seq.step. rewrite H. simpl. rewrite H.
    destruct (is_storage_write e || is_cluster_call e); simpl; auto.
    destruct (storage_apply dresp e (led s)) as [[? ?] ?]. reflexivity.
  Qed.

  Lemma dead_run {A} (p : prog A) (s : rstate) : dead s = true -> fst (run p s) = s.
  Proof.
    revert s. induction p as [a|e k IH]; intros s H; simpl; auto.
    pose proof (dead_step e s H) as E. destruct (step e s) as [s' r]. simpl in E. subst s'.
    now apply IH.
  Qed.

  Lemma eq_opt_some o n : eq_opt o n = true -> o <> None.
  Proof. destruct o; simpl; congruence. Qed.

  (* the injected storage-write failure fires at this step *)
  Definition hits (e : eff) (s : rstate) : Prop :=
    dead s = false /\ is_cluster_call e = false /\ is_storage_write e = true /\
    eq_opt (crash f) (nmut s) = false /\ eq_opt (wfail f) (nwrites s) = true.

  (* one step from a live process *)
  Lemma step_cases e (s : rstate) :
    dead s = false ->
    (dead (fst (step e s)) = true /\ led (fst (step e s)) = led s /\ tr (fst (step e s)) = tr s)
    \/ (dead (fst (step e s)) = false /\
        ((is_cluster_call e = true /\ led (fst (step e s)) = led s /\
          exists evs, tr (fst (step e s)) = (tr s ++ map TKube evs)%list)
         \/ (is_cluster_call e = false /\ is_storage_write e = true /\ (wfail f <> None /\ hits e s) /\
             led (fst (step e s)) = led s /\ tr (fst (step e s)) = tr s /\ snd (step e s) = dresp e)
         \/ (is_cluster_call e = false /\ is_storage_write e = true /\
             led (fst (step e s)) = fst (fst (storage_apply dresp e (led s))) /\
             tr (fst (step e s)) = (tr s ++ snd (storage_apply dresp e (led s)))%list /\
             snd (step e s) = snd (fst (storage_apply dresp e (led s))))
         \/ (is_cluster_call e = false /\ is_storage_write e = false /\ fst (step e s) = s /\
             snd (step e s) = snd (fst (storage_apply dresp e (led s)))))).
  Proof.
    intros Hd. unfold Seq.step. rewrite Hd. cbn [negb andb].
    destruct ((is_storage_write e || is_cluster_mutation e) && eq_opt (crash f) (nmut s)) eqn:Hcr.
    - left. cbn [dead]. destruct (is_storage_write e || is_cluster_call e); cbn; auto.
      destruct (storage_apply dresp e (led s)) as [[? ?] ?]. cbn. auto.
    - rewrite Hd. destruct (is_cluster_call e) eqn:Hc.
      + right. destruct (kh e (ks s)) as [[k' r] evs]. cbn. split; auto. left. eauto.
      + destruct (is_storage_write e) eqn:Hw.
        * destruct (eq_opt (wfail f) (nwrites s)) eqn:Hf.
          -- right. cbn. split; auto. right. left.
             assert (Hh : hits e s).
             { unfold hits. cbn [orb andb] in Hcr. auto 10. }
             apply eq_opt_some in Hf. auto 10.
          -- right. destruct (storage_apply dresp e (led s)) as [[l' r] evs]. cbn. split; auto.
             right. right. left. auto 10.
        * right. destruct (storage_apply dresp e (led s)) as [[l' r] evs]. cbn. split; auto.
          right. right. right. auto.
  Qed.

  (* reads answer from the ledger, dead or alive, and change nothing *)
  Lemma step_read e (s : rstate) :
    is_cluster_call e = false -> is_storage_write e = false ->
    step e s = (s, snd (fst (storage_apply dresp e (led s)))).
  Proof.
    intros Hc Hw. unfold Seq.step.
    assert (Hm : is_cluster_mutation e = false) by (destruct e; simpl in *; congruence).
    rewrite Hw, Hm, Hc. cbn [orb]. rewrite andb_false_r. cbn [andb].
    destruct (dead s); destruct (storage_apply dresp e (led s)) as [[? ?] ?]; reflexivity.
  Qed.

  (* ---------------------------------------------------------------- *)
  (* 3. effect typing                                                   *)

  Inductive all_eff {A} (P : eff -> Prop) : prog A -> Prop :=
  | ae_ret a : all_eff P (Ret a)
  | ae_eff e k : P e -> (forall r, all_eff P (k r)) -> all_eff P (Eff e k).

  Lemma ae_bind {A B} (P : eff -> Prop) (p : prog A) (k : A -> prog B) :
    all_eff P p -> (forall a, all_eff P (k a)) -> all_eff P (bind p k).
  Proof.
    intros Hp Hk. induction Hp as [a|e c He Hc IH]; simpl; auto. constructor; auto.
  Qed.

  Lemma ae_perform (P : eff -> Prop) e : P e -> all_eff P (perform e).
  Proof. intros H. constructor; auto. intros r. constructor. Qed.

  Lemma ae_weaken {A} (P Q : eff -> Prop) (p : prog A) :
    (forall e, P e -> Q e) -> all_eff P p -> all_eff Q p.
  Proof. intros H Hp. induction Hp; constructor; auto. Qed.

  (* a reflexive-transitive relation on interpreter states that every step of class P
     respects is respected by every program of class P *)
  Lemma ae_run {A} (P : eff -> Prop) (R : rstate -> rstate -> Prop) (p : prog A) :
    (forall s, R s s) -> (forall a b c, R a b -> R b c -> R a c) ->
    (forall e s, P e -> R s (fst (step e s))) ->
    all_eff P p -> forall s, R s (fst (run p s)).
  Proof.
    intros Hrefl Htrans Hstep Hp. induction Hp as [a|e k He Hk IH]; intros s; simpl; auto.
    specialize (Hstep e s He). destruct (step e s) as [s' r]. simpl in Hstep.
    eapply Htrans; eauto.
  Qed.

  (* ---------------------------------------------------------------- *)
  (* 4. weakest preconditions over (ledger, created revisions)          *)

  (* along the run of p from s, the injected write failure (if it fires) hits an effect in F *)
  Fixpoint fails_only {A} (F : eff -> Prop) (p : prog A) (s : rstate) : Prop :=
    match p with
    | Ret _ => True
    | Eff e k => (hits e s -> F e) /\ fails_only F (k (snd (step e s))) (fst (step e s))
    end.

  Lemma fails_only_bind {A B} F (p : prog A) (k : A -> prog B) : forall s,
    fails_only F (bind p k) s <->
    fails_only F p s /\ fails_only F (k (snd (run p s))) (fst (run p s)).
  Proof.
    induction p as [a|e c IH]; intros s; simpl; [tauto|].
    rewrite IH. destruct (step e s) as [s' r]. simpl. tauto.
  Qed.

  Lemma fails_only_weaken {A} (F F' : eff -> Prop) (p : prog A) :
    (forall e, F e -> F' e) -> forall s, fails_only F p s -> fails_only F' p s.
  Proof.
    intros H. induction p as [a|e k IH]; intros s; simpl; auto. intros [H1 H2]. split; auto.
  Qed.

  Lemma fails_only_none {A} F (p : prog A) : wfail f = None -> forall s, fails_only F p s.
  Proof.
    intros Hn. induction p as [a|e k IH]; intros s; simpl; auto. split; auto.
    intros [_ [_ [_ [_ X]]]]. rewrite Hn in X. discriminate X.
  Qed.

  Lemma fails_only_all {A} (p : prog A) : forall s, fails_only (fun _ => True) p s.
  Proof. induction p as [a|e k IH]; intros s; simpl; auto. Qed.

  Lemma fails_only_dead {A} F (p : prog A) : forall s, dead s = true -> fails_only F p s.
  Proof.
    induction p as [a|e k IH]; intros s Hd; simpl; auto. split.
    - intros [X _]. congruence.
    - apply IH. rewrite (dead_step e s Hd). exact Hd.
  Qed.

  Definition wpA {A} (F : eff -> Prop) (G : list release -> list nat -> Prop) (p : prog A)
             (Q : list release -> list nat -> A -> Prop) (l : list release) (cs : list nat) : Prop :=
    forall s : rstate, led s = l -> creates (tr s) = cs -> dead s = false -> fails_only F p s ->
      (dead (fst (run p s)) = true ->
         G (led (fst (run p s))) (creates (tr (fst (run p s))))) /\
      (dead (fst (run p s)) = false ->
         Q (led (fst (run p s))) (creates (tr (fst (run p s)))) (snd (run p s))).

  Implicit Types G : list release -> list nat -> Prop.
  Implicit Types F : eff -> Prop.

  Lemma wp_ret {A} F G (a : A) (Q : list release -> list nat -> A -> Prop) l cs :
    Q l cs a -> wpA F G (Ret a) Q l cs.
  Proof. intros H s Hl Hc Hd _. simpl. subst. split; [congruence|auto]. Qed.

  Lemma wp_bind {A B} F G (p : prog A) (k : A -> prog B) Q l cs :
    wpA F G p (fun l1 cs1 a => wpA F G (k a) Q l1 cs1) l cs -> wpA F G (bind p k) Q l cs.
  Proof.
    intros H s Hl Hc Hd Hf. rewrite run_bind. apply fails_only_bind in Hf. destruct Hf as [Hf1 Hf2].
    destruct (H s Hl Hc Hd Hf1) as [H1 H2].
    destruct (dead (fst (run p s))) eqn:E.
    - rewrite (dead_run _ _ E). rewrite E. split; [auto|congruence].
    - apply (H2 eq_refl); auto.
  Qed.

  Lemma wp_conseq {A} F (G G' : list release -> list nat -> Prop) (p : prog A)
        (Q Q' : list release -> list nat -> A -> Prop) l cs :
    wpA F G p Q l cs ->
    (forall l1 cs1, G l1 cs1 -> G' l1 cs1) ->
    (forall l1 cs1 a, Q l1 cs1 a -> Q' l1 cs1 a) ->
    wpA F G' p Q' l cs.
  Proof.
    intros H HG HQ s Hl Hc Hd Hf. destruct (H s Hl Hc Hd Hf) as [H1 H2]. split; auto.
  Qed.

  (* fewer failable writes: a weaker assumption on the fault plan *)
  Lemma wp_fail_weaken {A} F F' G (p : prog A) Q l cs :
    (forall e, F' e -> F e) -> wpA F G p Q l cs -> wpA F' G p Q l cs.
  Proof.
    intros HF H s Hl Hc Hd Hf. apply H; auto. eapply fails_only_weaken; eauto.
  Qed.

  (* a program of a class whose steps respect a relation on (ledger, creates) *)
  Lemma wp_typed {A} (P : eff -> Prop) (R : list release -> list nat -> list release -> list nat -> Prop)
        (p : prog A) l cs :
    (forall l0 c0, R l0 c0 l0 c0) ->
    (forall l0 c0 l1 c1 l2 c2, R l0 c0 l1 c1 -> R l1 c1 l2 c2 -> R l0 c0 l2 c2) ->
    (forall e s, P e -> R (led s) (creates (tr s)) (led (fst (step e s))) (creates (tr (fst (step e s))))) ->
    all_eff P p ->
    forall F, wpA F (R l cs) p (fun l1 cs1 _ => R l cs l1 cs1) l cs.
  Proof.
    intros Hrefl Htrans Hstep Hp F s Hl Hc Hd _.
    pose proof (ae_run P (fun a b => R (led a) (creates (tr a)) (led b) (creates (tr b))) p
                  (fun s0 => Hrefl _ _) (fun a b c => Htrans _ _ _ _ _ _) Hstep Hp s) as H.
    subst. split; auto.
  Qed.

  (* reads *)
  Lemma wp_history {A} F G (k : list release -> prog A) Q l cs :
    wpA F G (k l) Q l cs -> wpA F G (Eff SHistory k) Q l cs.
  Proof.
    intros H s Hl Hc Hd [_ Hf]. rewrite run_eff. rewrite (step_read SHistory s eq_refl eq_refl) in *.
    cbn [fst snd storage_apply] in *. rewrite Hl in *. now apply H.
  Qed.

  Lemma wp_deployed_all {A} F G (k : list release -> prog A) Q l cs :
    wpA F G (k (filter (fun r => status_eqb (st r) SDeployed) l)) Q l cs ->
    wpA F G (Eff SDeployedAll k) Q l cs.
  Proof.
    intros H s Hl Hc Hd [_ Hf]. rewrite run_eff. rewrite (step_read SDeployedAll s eq_refl eq_refl) in *.
    cbn [fst snd storage_apply] in *. rewrite Hl in *. now apply H.
  Qed.

  Lemma wp_get {A} F G v (k : option release -> prog A) Q l cs :
    wpA F G (k (find (fun r => Nat.eqb (rev r) v) l)) Q l cs -> wpA F G (Eff (SGet v) k) Q l cs.
  Proof.
    intros H s Hl Hc Hd [_ Hf]. rewrite run_eff. rewrite (step_read (SGet v) s eq_refl eq_refl) in *.
    cbn [fst snd storage_apply] in *. rewrite Hl in *. now apply H.
  Qed.

  (* cluster calls: any answer; the process may die here *)
  Lemma wp_cluster {A} F G e (k : resp e -> prog A) Q l cs :
    is_cluster_call e = true ->
    G l cs -> (forall r, wpA F G (k r) Q l cs) -> wpA F G (Eff e k) Q l cs.
  Proof.
    intros He HG H s Hl Hc Hd [_ Hf]. rewrite run_eff.
    destruct (step_cases e s Hd) as [[D [L T]]|[D C]].
    - rewrite (dead_run _ _ D). rewrite D, L, T, Hl, Hc. split; [auto|congruence].
    - destruct C as [[_ [L [evs T]]]|[[X _]|[[X _]|[X _]]]]; try congruence.
      apply H; auto; try congruence.
      rewrite T, creates_app, creates_kube, app_nil_r. auto.
  Qed.

  (* storage writes: die, fail (only if the fault plan has a write failure), or apply *)
  Lemma wp_write {A} F G e (k : resp e -> prog A) Q l cs :
    is_cluster_call e = false -> is_storage_write e = true ->
    G l cs ->
    (wfail f <> None -> F e -> wpA F G (k (dresp e)) Q l cs) ->
    wpA F G (k (snd (fst (storage_apply dresp e l)))) Q
        (fst (fst (storage_apply dresp e l))) (cs ++ creates (snd (storage_apply dresp e l))) ->
    wpA F G (Eff e k) Q l cs.
  Proof.
    intros Hcl Hw HG Hfail Happ s Hl Hc Hd [Hh Hf]. rewrite run_eff.
    destruct (step_cases e s Hd) as [[D [L T]]|[D C]].
    - rewrite (dead_run _ _ D). rewrite D, L, T, Hl, Hc. split; [auto|congruence].
    - destruct C as [[X _]|[[_ [_ [[Fl Hit] [L [T R]]]]]|[[_ [_ [L [T R]]]]|[_ [X _]]]]]; try congruence.
      + rewrite R in *. apply Hfail; auto; congruence.
      + rewrite R in *. rewrite Hl in *. apply Happ; auto.
        rewrite T, creates_app, Hc. reflexivity.
  Qed.

  Lemma wp_update {A} F G x (k : serr -> prog A) Q l cs :
    G l cs ->
    (wfail f <> None -> F (SUpdate x) -> wpA F G (k (dresp (SUpdate x))) Q l cs) ->
    wpA F G (k (if has_rev (rev x) l then SOk else SNotFound)) Q (replace_rev x l) cs ->
    wpA F G (Eff (SUpdate x) k) Q l cs.
  Proof.
    intros HG Hf H. apply wp_write; auto. cbn [storage_apply].
    destruct (has_rev (rev x) l) eqn:E; cbn [fst snd creates flat_map].
    - cbn. rewrite app_nil_r. exact H.
    - rewrite app_nil_r. rewrite (replace_rev_absent _ _ E) in H. exact H.
  Qed.

  Lemma wp_delete {A} F G v (k : serr -> prog A) Q l cs :
    G l cs ->
    (wfail f <> None -> F (SDelete v) -> wpA F G (k (dresp (SDelete v))) Q l cs) ->
    wpA F G (k (if has_rev v l then SOk else SNotFound)) Q (remove_rev v l) cs ->
    wpA F G (Eff (SDelete v) k) Q l cs.
  Proof.
    intros HG Hf H. apply wp_write; auto. cbn [storage_apply].
    destruct (has_rev v l) eqn:E; cbn [fst snd creates flat_map].
    - cbn. rewrite app_nil_r. exact H.
    - rewrite app_nil_r. rewrite (remove_rev_absent _ _ E) in H. exact H.
  Qed.

  Lemma wp_create {A} F G x (k : serr -> prog A) Q l cs :
    G l cs ->
    (wfail f <> None -> F (SCreate x) -> wpA F G (k (dresp (SCreate x))) Q l cs) ->
    (has_rev (rev x) l = true -> wpA F G (k SExists) Q l cs) ->
    (has_rev (rev x) l = false -> wpA F G (k SOk) Q (l ++ [x])%list (cs ++ [rev x])%list) ->
    wpA F G (Eff (SCreate x) k) Q l cs.
  Proof.
    intros HG Hf H1 H2. apply wp_write; auto. cbn [storage_apply].
    destruct (has_rev (rev x) l) eqn:E; cbn [fst snd creates flat_map].
    - rewrite app_nil_r. auto.
    - cbn. auto.
  Qed.

  (* lifting a wp fact to one operation *)
  Lemma wp_run_op {A} F G (p : prog A) Q l (k0 : K) :
    wpA F G p Q l [] ->
    fails_only F p (mkR l k0 0 0 false []) ->
    let s' := fst (run p (mkR l k0 0 0 false [])) in
    (dead s' = true -> G (led s') (creates (tr s'))) /\
    (dead s' = false -> Q (led s') (creates (tr s')) (snd (run p (mkR l k0 0 0 false [])))).
  Proof. intros H Hf. apply H; auto. Qed.
End Interp.

Arguments wpA {K} kh dresp f {A} F G p Q l cs.
Arguments all_eff {A} P p.

(* C07 — proofs about the cluster handler with an intruder (Engine/OwnershipRace.v):
   1. without an intruder it IS the plain handler: [run_store_op_i rn ns None] = [run_store_op]
      (so every theorem about [run_store_op] is a theorem about the race-free runs of the new handler);
   2. the race, per cluster call: a create whose object appeared in between answers "already
      exists": Client.Create / Client.update fail, the foreign object is exactly what the other
      actor made it, nothing is logged for its key;
   3. the race, whole operation ([create_race_refused]): an install whose pre-flight look-up
      found nothing at a manifest key and whose create meets the foreign object there ends in an
      error, records its revision as FAILED, and leaves the foreign object unchanged. *)
From Coq Require Import List String Bool Arith ZArith Lia.
From Helm Require Import Common.Assoc Engine.Types Engine.Eff Engine.Ops Engine.Cluster Engine.Seq
                         Engine.DryRun Engine.Ownership Engine.OwnershipRace.
Import ListNotations.
Local Open Scope string_scope.

(* ------------------------------------------------------------------ *)
(* 1. no intruder = the plain handler                                   *)

Lemma tick_get404_idle key s : ki_intr s = None -> tick_get404 key s = s.
Proof. unfold tick_get404. now intros ->. Qed.

Lemma tick_post_idle key s : ki_intr s = None -> tick_post key s = s.
Proof. unfold tick_post. now intros ->. Qed.

Lemma with_k_idle s k : ki_intr s = None -> ki_intr (with_k s k) = None.
Proof. auto. Qed.

Lemma with_k_k s k : ki_k (with_k s k) = k.
Proof. reflexivity. Qed.

Lemma with_k_with_k s k k' : with_k (with_k s k) k' = with_k s k'.
Proof. reflexivity. Qed.

Lemma with_k_self s : with_k s (ki_k s) = s.
Proof. now destruct s. Qed.

Section Idle.
  Variable rn ns : string.

  Lemma k_existing_i_idle rs : forall s take acc, ki_intr s = None ->
    k_existing_i rn ns s rs take acc =
    (with_k s (fst (k_existing rn ns (ki_k s) rs take acc)), snd (k_existing rn ns (ki_k s) rs take acc)).
  Proof.
    induction rs as [|r t IH]; intros s take acc Hi; simpl.
    - now rewrite with_k_self.
    - destruct (fault_hits (ki_k s) VGet (rkey r)); [reflexivity|].
      destruct (aget (rkey r) (objs (ki_k s))) as [live|].
      + destruct (take || owned_by rn ns live); [now apply IH|simpl; now rewrite with_k_self].
      + rewrite tick_get404_idle by exact Hi. now apply IH.
  Qed.

  Lemma k_create_i_idle rs : forall s ok muts, ki_intr s = None ->
    k_create_i s rs ok muts =
    (let '(k', ok', m') := k_create (ki_k s) rs ok muts in (with_k s k', ok', m')).
  Proof.
    induction rs as [|r t IH]; intros s ok muts Hi; simpl.
    - now rewrite with_k_self.
    - destruct (fault_hits (ki_k s) VCreate (rkey r)).
      + rewrite IH by auto. simpl. now destruct (k_create (clear_kfault (ki_k s)) t false muts) as [[? ?] ?].
      + rewrite tick_post_idle by exact Hi.
        destruct (amem (rkey r) (objs (ki_k s))); [now apply IH|].
        rewrite IH by auto. simpl.
        now destruct (k_create (set_objs (ki_k s) (aset (rkey r) (r_fields r) (objs (ki_k s)))) t ok (muts ++ [(VCreate, rkey r)])) as [[? ?] ?].
  Qed.

  Lemma k_update_targets_i_idle tgt : forall s cur created pe muts, ki_intr s = None ->
    k_update_targets_i s cur tgt created pe muts =
    (let '(k', h, p, c, m) := k_update_targets (ki_k s) cur tgt created pe muts in (with_k s k', h, p, c, m)).
  Proof.
    induction tgt as [|r t IH]; intros s cur created pe muts Hi; simpl.
    - now rewrite with_k_self.
    - destruct (fault_hits (ki_k s) VGet (rkey r)); [reflexivity|].
      destruct (aget (rkey r) (objs (ki_k s))) as [live|] eqn:Eg.
      + destruct (find_res (rkey r) cur) as [o|]; [|simpl; now rewrite with_k_self].
        destruct (patch_needed (r_fields o) (r_fields r) live).
        * destruct (fault_hits (ki_k s) VPatch (rkey r)).
          -- rewrite IH by auto. simpl.
             now destruct (k_update_targets (clear_kfault (ki_k s)) cur t created true muts) as [[[[? ?] ?] ?] ?].
          -- rewrite IH by auto. simpl.
             now destruct (k_update_targets _ cur t created pe _) as [[[[? ?] ?] ?] ?].
        * now apply IH.
      + rewrite tick_get404_idle by exact Hi.
        destruct (fault_hits (ki_k s) VCreate (rkey r)); [reflexivity|].
        rewrite tick_post_idle by exact Hi.
        unfold amem. rewrite Eg.
        rewrite IH by auto. simpl.
        now destruct (k_update_targets _ cur t (created ++ [r]) pe _) as [[[[? ?] ?] ?] ?].
  Qed.

  Lemma k_update_deletes_i_idle dels : forall s muts, ki_intr s = None ->
    k_update_deletes_i s dels muts =
    (let '(k', m) := k_update_deletes (ki_k s) dels muts in (with_k s k', m)).
  Proof.
    induction dels as [|r t IH]; intros s muts Hi; simpl.
    - now rewrite with_k_self.
    - destruct (fault_hits (ki_k s) VGet (rkey r)).
      + rewrite IH by auto. simpl. now destruct (k_update_deletes (clear_kfault (ki_k s)) t muts).
      + destruct (aget (rkey r) (objs (ki_k s))) as [live|].
        * destruct (live_keep live); [now apply IH|].
          destruct (fault_hits (ki_k s) VDelete (rkey r)).
          -- rewrite IH by auto. simpl. now destruct (k_update_deletes (clear_kfault (ki_k s)) t muts).
          -- rewrite IH by auto. simpl. now destruct (k_update_deletes _ t _).
        * rewrite tick_get404_idle by exact Hi. now apply IH.
  Qed.

  Lemma k_update_i_idle s cur tgt : ki_intr s = None ->
    k_update_i s cur tgt = (let '(k', r, m) := k_update (ki_k s) cur tgt in (with_k s k', r, m)).
  Proof.
    intros Hi. unfold k_update_i, k_update. rewrite k_update_targets_i_idle by exact Hi.
    destruct (k_update_targets (ki_k s) cur tgt [] false []) as [[[[k1 hard] pe] created] muts].
    destruct (hard || pe); [reflexivity|].
    rewrite k_update_deletes_i_idle by auto. simpl.
    now destruct (k_update_deletes k1 _ muts).
  Qed.

  (* the handler *)
  Lemma kube_handle_i_idle e s : ki_intr s = None ->
    kube_handle_i rn ns e s =
    (let '(k', r, evs) := kube_handle rn ns e (ki_k s) in (with_k s k', r, evs)).
  Proof.
    intros Hi. destruct e; try reflexivity.
    - simpl. rewrite k_existing_i_idle by exact Hi. now destruct (k_existing rn ns (ki_k s) rs take []).
    - simpl. destruct rs as [|r t]; [now rewrite with_k_self|].
      rewrite k_create_i_idle by exact Hi. now destruct (k_create (ki_k s) (r :: t) true []) as [[? ?] ?].
    - simpl. rewrite k_update_i_idle by exact Hi. now destruct (k_update (ki_k s) cur tgt) as [[? ?] ?].
  Qed.
End Idle.

(* two runs over different cluster-state types whose handlers agree *)
Section Sim2.
  Variable K K' : Type.
  Variable kh : forall e : eff, K -> K * resp e * list kev.
  Variable kh' : forall e : eff, K' -> K' * resp e * list kev.
  Variable dresp : forall e : eff, resp e.
  Variable Rk : K -> K' -> Prop.
  Hypothesis Hh : forall e k k', Rk k k' ->
    Rk (fst (fst (kh e k))) (fst (fst (kh' e k'))) /\
    snd (fst (kh' e k')) = snd (fst (kh e k)) /\ snd (kh' e k') = snd (kh e k).
  Variable f : sfaults.

  Definition sim2 (s : rstate K) (s' : rstate K') : Prop :=
    led s' = led s /\ Rk (ks s) (ks s') /\ nwrites s' = nwrites s /\ nmut s' = nmut s /\ dead s' = dead s /\ tr s' = tr s.

  Lemma step_sim2 e s s' : sim2 s s' ->
    sim2 (fst (step K kh dresp f e s)) (fst (step K' kh' dresp f e s')) /\
    snd (step K' kh' dresp f e s') = snd (step K kh dresp f e s).
  Proof.
    intros Hs. unfold step.
    set (s1 := if negb (dead s) && (is_storage_write e || is_cluster_mutation e) && eq_opt (crash f) (nmut s)
               then mkR (led s) (ks s) (nwrites s) (nmut s) true (tr s) else s).
    set (s1' := if negb (dead s') && (is_storage_write e || is_cluster_mutation e) && eq_opt (crash f) (nmut s')
                then mkR (led s') (ks s') (nwrites s') (nmut s') true (tr s') else s').
    assert (Hs1 : sim2 s1 s1').
    { destruct Hs as (H1 & H2 & H3 & H4 & H5 & H6). subst s1 s1'. rewrite H4, H5.
      destruct (negb (dead s) && (is_storage_write e || is_cluster_mutation e) && eq_opt (crash f) (nmut s));
        repeat split; auto. }
    clearbody s1 s1'. clear Hs s s'. destruct Hs1 as (H1 & H2 & H3 & H4 & H5 & H6).
    rewrite H5. destruct (dead s1) eqn:Hd.
    - destruct (is_storage_write e || is_cluster_call e) eqn:Ew; cbn [fst snd].
      + split; [repeat split; auto; congruence|reflexivity].
      + rewrite H1. destruct (storage_apply dresp e (led s1)) as [[l' r] evs]. cbn [fst snd].
        split; [repeat split; auto; congruence|reflexivity].
    - destruct (is_cluster_call e) eqn:Ec.
      + destruct (Hh e (ks s1) (ks s1') H2) as (Ha & Hb & Hc).
        destruct (kh' e (ks s1')) as [[k1 r1] ev1]. destruct (kh e (ks s1)) as [[k2 r2] ev2]. cbn [fst snd] in *.
        subst r1 ev1. rewrite H1, H3, H4, H6.
        split; [|reflexivity]. repeat split; auto.
      + destruct (is_storage_write e) eqn:Ew.
        * rewrite H3. destruct (eq_opt (wfail f) (nwrites s1)); cbn [fst snd].
          -- rewrite H1, H4, H6. split; [repeat split; auto|reflexivity].
          -- rewrite H1. destruct (storage_apply dresp e (led s1)) as [[l' r] evs]. cbn [fst snd] in *.
             rewrite H4, H6. split; [|reflexivity]. repeat split; auto.
        * rewrite H1. destruct (storage_apply dresp e (led s1)) as [[l' r] evs]. cbn [fst snd].
          split; [repeat split; auto; congruence|reflexivity].
  Qed.

  Lemma run_sim2 {A} (p : prog A) : forall s s', sim2 s s' ->
    sim2 (fst (run K kh dresp f p s)) (fst (run K' kh' dresp f p s')) /\
    snd (run K' kh' dresp f p s') = snd (run K kh dresp f p s).
  Proof.
    induction p as [a|e k IH]; intros s s' Hs; simpl; auto.
    pose proof (step_sim2 e s s' Hs) as [H1 H2].
    destruct (step K kh dresp f e s) as [s1 r1].
    destruct (step K' kh' dresp f e s') as [s2 r2]. cbn [fst snd] in *. subst r2.
    now apply IH.
  Qed.
End Sim2.

(* C07_no_intruder_is_plain *)
Theorem run_store_op_i_none rn ns c w : run_store_op_i rn ns None c w = run_store_op rn ns c w.
Proof.
  unfold run_store_op_i, run_store_op, run_op.
  set (k0 := mkK (w_objs w) (cf_k (oc_cf c)) (cf_h (oc_cf c)) (cf_wait (oc_cf c))).
  assert (Hh : forall (e : eff) (k : kstate) (k' : kstate_i),
             ki_k k' = k /\ ki_intr k' = None ->
             (ki_k (fst (fst (kube_handle_i rn ns e k'))) = fst (fst (kube_handle rn ns e k)) /\
              ki_intr (fst (fst (kube_handle_i rn ns e k'))) = None) /\
             snd (fst (kube_handle_i rn ns e k')) = snd (fst (kube_handle rn ns e k)) /\
             snd (kube_handle_i rn ns e k') = snd (kube_handle rn ns e k)).
  { intros e k k' [<- Hi]. rewrite (kube_handle_i_idle rn ns e k' Hi).
    destruct (kube_handle rn ns e (ki_k k')) as [[k1 r] evs]. simpl. auto. }
  pose proof (run_sim2 kstate kstate_i (kube_handle rn ns) (kube_handle_i rn ns) dead_resp
                (fun k k' => ki_k k' = k /\ ki_intr k' = None) Hh (oc_sf c) (op_prog rn ns (oc_op c))
                (mkR (w_led w) k0 0 0 false []) (mkR (w_led w) (mkKI k0 None 0) 0 0 false [])) as H.
  destruct H as [(H1 & [H2 _] & H3 & H4 & H5 & H6) H7]; [repeat split|].
  destruct (run kstate (kube_handle rn ns) dead_resp (oc_sf c) (op_prog rn ns (oc_op c)) (mkR (w_led w) k0 0 0 false [])) as [s out].
  destruct (run kstate_i (kube_handle_i rn ns) dead_resp (oc_sf c) (op_prog rn ns (oc_op c)) (mkR (w_led w) (mkKI k0 None 0) 0 0 false [])) as [s' out'].
  cbn [fst snd] in *. subst out'. now rewrite H1, H2, H5, H6.
Qed.

(* ------------------------------------------------------------------ *)
(* 2. the race, per cluster call                                        *)

Definition no_mut_of (K : string) (muts : list (verb * string)) : Prop := forall v, ~ In (v, K) muts.

Lemma no_mut_of_app K muts v key : no_mut_of K muts -> key <> K -> no_mut_of K (muts ++ [(v, key)]).
Proof.
  intros H Hne v' Hin. apply in_app_iff in Hin. destruct Hin as [Hin|[Hin|[]]]; [now apply (H v')|].
  inversion Hin. congruence.
Qed.

Lemma eqb_false_ne a b : String.eqb a b = false -> a <> b.
Proof. intros H ->. now rewrite String.eqb_refl in H. Qed.

Lemma fault_hits_none k v key : kfault k = None -> fault_hits k v key = false.
Proof. unfold fault_hits. now intros ->. Qed.

Section RaceCalls.
  Variable rn ns : string.
  Variable K : string.
  Variable f : fields.

  (* the foreign object is there and nobody else is coming *)
  Definition landed (s : kstate_i) : Prop :=
    ki_intr s = None /\ aget K (objs (ki_k s)) = Some f /\ kfault (ki_k s) = None.

  (* it will appear just before the POST of K *)
  Definition at_post (s : kstate_i) : Prop :=
    ki_intr s = Some (mkIntr K IPost f) /\ aget K (objs (ki_k s)) = None /\ kfault (ki_k s) = None.

  Lemma fire_landed s when : kfault (ki_k s) = None -> landed (fire s (mkIntr K when f)).
  Proof. intros Hf. unfold landed, fire. simpl. repeat split; auto. apply aget_aset_eq. Qed.

  (* Client.Create once the object is there: the object stays as it is, its POST is refused,
     nothing is logged for its key, and the call fails if it names the key *)
  Lemma k_create_i_landed rs : forall s ok muts, landed s -> no_mut_of K muts ->
    landed (fst (fst (k_create_i s rs ok muts))) /\
    no_mut_of K (snd (k_create_i s rs ok muts)) /\
    (ok = false \/ In K (keys rs) -> snd (fst (k_create_i s rs ok muts)) = false).
  Proof.
    induction rs as [|r t IH]; intros s ok muts (Hi & Ho & Hf) Hm; simpl.
    - repeat split; auto. intros [H|[]]. exact H.
    - rewrite (fault_hits_none _ _ _ Hf). rewrite (tick_post_idle _ _ Hi).
      destruct (amem (rkey r) (objs (ki_k s))) eqn:Em.
      + destruct (IH s false muts (conj Hi (conj Ho Hf)) Hm) as (A & B & C).
        split; [exact A|split; [exact B|]]. intros _. apply C. now left.
      + assert (Hne : rkey r <> K).
        { intros E. unfold amem in Em. rewrite E, Ho in Em. discriminate. }
        set (s1 := with_k s (set_objs (ki_k s) (aset (rkey r) (r_fields r) (objs (ki_k s))))).
        assert (L1 : landed s1).
        { subst s1. unfold landed. simpl. repeat split; auto. now rewrite aget_aset_neq. }
        destruct (IH s1 ok (muts ++ [(VCreate, rkey r)])%list L1 (no_mut_of_app K muts VCreate (rkey r) Hm Hne)) as (A & B & C).
        split; [exact A|split; [exact B|]]. intros [H|[H|H]]; [apply C; now left|congruence|apply C; now right].
  Qed.

  (* Client.Create when the object appears just before its POST *)
  Lemma k_create_i_at_post rs : forall s ok muts, at_post s -> no_mut_of K muts -> In K (keys rs) ->
    landed (fst (fst (k_create_i s rs ok muts))) /\
    no_mut_of K (snd (k_create_i s rs ok muts)) /\
    snd (fst (k_create_i s rs ok muts)) = false.
  Proof.
    induction rs as [|r t IH]; intros s ok muts (Hi & Ho & Hf) Hm Hin; simpl; [destruct Hin|].
    rewrite (fault_hits_none _ _ _ Hf).
    destruct (String.eqb K (rkey r)) eqn:E.
    - apply String.eqb_eq in E. rewrite <- E.
      assert (Ht : tick_post K s = fire s (mkIntr K IPost f)).
      { unfold tick_post. rewrite Hi. simpl. now rewrite String.eqb_refl. }
      rewrite Ht.
      pose proof (fire_landed s IPost Hf) as L.
      assert (Em : amem K (objs (ki_k (fire s (mkIntr K IPost f)))) = true).
      { destruct L as (_ & L2 & _). unfold amem. now rewrite L2. }
      rewrite Em.
      destruct (k_create_i_landed t _ false muts L Hm) as (A & B & C).
      split; [exact A|split; [exact B|]]. apply C. now left.
    - apply eqb_false_ne in E.
      assert (Ht : tick_post (rkey r) s = s).
      { unfold tick_post. rewrite Hi. simpl.
        destruct (String.eqb K (rkey r)) eqn:E2; auto. apply String.eqb_eq in E2. congruence. }
      rewrite Ht.
      assert (Hin' : In K (keys t)) by (destruct Hin as [H|H]; [congruence|exact H]).
      destruct (amem (rkey r) (objs (ki_k s))).
      + apply IH; auto. repeat split; auto.
      + apply IH; auto.
        * unfold at_post. simpl. repeat split; auto. rewrite aget_aset_neq; auto.
        * apply no_mut_of_app; auto.
  Qed.
End RaceCalls.

(* the statement of Props/C07.v: both situations *)
Theorem create_race_call (K : string) (f : fields) (rs : list res) (s : kstate_i) :
  ((ki_intr s = None /\ aget K (objs (ki_k s)) = Some f /\ kfault (ki_k s) = None) \/
   (ki_intr s = Some (mkIntr K IPost f) /\ aget K (objs (ki_k s)) = None /\ kfault (ki_k s) = None)) ->
  In K (map rkey rs) ->
  snd (fst (k_create_i s rs true [])) = false /\
  aget K (objs (ki_k (fst (fst (k_create_i s rs true []))))) = Some f /\
  (forall v, ~ In (v, K) (snd (k_create_i s rs true []))).
Proof.
  intros H Hin. assert (Hm0 : no_mut_of K []) by (intros v []).
  destruct H as [L|P].
  - destruct (k_create_i_landed K f rs s true [] L Hm0) as ((_ & A & _) & B & C).
    split; [apply C; now right|split; [exact A|exact B]].
  - destruct (k_create_i_at_post K f rs s true [] P Hm0 Hin) as ((_ & A & _) & B & C).
    split; [exact C|split; [exact A|exact B]].
Qed.

(* the pre-flight look-up over keys that hold nothing: it answers "nothing to adopt"; an intruder
   waiting for the first 404 of one of them appears during it, one waiting for the POST does not *)
Section RaceLookup.
  Variable rn ns : string.
  Variable K : string.
  Variable f : fields.

  Lemma k_existing_i_absent_quiet rs : forall s take acc,
    kfault (ki_k s) = None ->
    (forall r, In r rs -> aget (rkey r) (objs (ki_k s)) = None) ->
    (forall r, In r rs -> tick_get404 (rkey r) s = s) ->
    k_existing_i rn ns s rs take acc = (s, Some acc).
  Proof.
    induction rs as [|r t IH]; intros s take acc Hf Ha Hq; simpl; auto.
    rewrite (fault_hits_none _ _ _ Hf), (Ha r (or_introl eq_refl)), (Hq r (or_introl eq_refl)).
    apply IH; auto; intros x Hx; [apply Ha|apply Hq]; now right.
  Qed.

  Lemma k_existing_i_absent_fires rs : forall s take acc,
    kfault (ki_k s) = None -> ki_intr s = Some (mkIntr K (IGet404 1) f) -> ki_seen s = 0 ->
    (forall r, In r rs -> aget (rkey r) (objs (ki_k s)) = None) ->
    NoDup (keys rs) -> In K (keys rs) ->
    k_existing_i rn ns s rs take acc = (fire s (mkIntr K (IGet404 1) f), Some acc).
  Proof.
    induction rs as [|r t IH]; intros s take acc Hf Hi Hs Ha Hnd Hin; simpl; [destruct Hin|].
    rewrite (fault_hits_none _ _ _ Hf), (Ha r (or_introl eq_refl)).
    inversion Hnd as [|? ? Hni Hnd']; subst.
    destruct (String.eqb K (rkey r)) eqn:E.
    - apply String.eqb_eq in E.
      assert (Ht : tick_get404 (rkey r) s = fire s (mkIntr K (IGet404 1) f)).
      { unfold tick_get404. rewrite Hi. simpl. rewrite E, String.eqb_refl, Hs. reflexivity. }
      rewrite Ht. apply k_existing_i_absent_quiet.
      + exact Hf.
      + intros x Hx. simpl. rewrite aget_aset_neq; [apply Ha; now right|].
        intros E2. apply Hni. rewrite <- E, E2. unfold keys. now apply in_map.
      + intros x Hx. apply tick_get404_idle. reflexivity.
    - apply eqb_false_ne in E.
      assert (Ht : tick_get404 (rkey r) s = s).
      { unfold tick_get404. rewrite Hi. simpl.
        destruct (String.eqb K (rkey r)) eqn:E2; auto. apply String.eqb_eq in E2. congruence. }
      rewrite Ht. apply IH; auto.
      + intros x Hx. apply Ha. now right.
      + destruct Hin as [H|H]; [congruence|exact H].
  Qed.
End RaceLookup.

(* ------------------------------------------------------------------ *)
(* 3. the race, whole operation                                         *)

Lemma run_eff K0 kh dresp {A} f e (k : resp e -> prog A) s :
  run K0 kh dresp f (Eff e k) s =
  run K0 kh dresp f (k (snd (step K0 kh dresp f e s))) (fst (step K0 kh dresp f e s)).
Proof. simpl. now destruct (step K0 kh dresp f e s). Qed.

Section RaceInstall.
  Variable rn ns : string.
  Let nof := mkSF None None.
  Notation RUN p s := (run kstate_i (kube_handle_i rn ns) dead_resp nof p s).
  Notation STEP e s := (step kstate_i (kube_handle_i rn ns) dead_resp nof e s).

  Lemma step_history (s : rstate kstate_i) : dead s = false -> STEP SHistory s = (s, led s).
  Proof. intros Hd. unfold step. simpl. rewrite Hd. simpl. rewrite Hd. reflexivity. Qed.

  Lemma step_kube e (s : rstate kstate_i) : dead s = false -> is_cluster_call e = true ->
    STEP e s =
    (mkR (led s) (fst (fst (kube_handle_i rn ns e (ks s)))) (nwrites s)
         (if is_storage_write e || is_cluster_mutation e then S (nmut s) else nmut s) false
         (tr s ++ map TKube (snd (kube_handle_i rn ns e (ks s))))%list,
     snd (fst (kube_handle_i rn ns e (ks s)))).
  Proof.
    intros Hd Hc. unfold step. rewrite Hd. cbn [negb andb crash nof eq_opt]. rewrite andb_false_r. rewrite Hd, Hc.
    now destruct (kube_handle_i rn ns e (ks s)) as [[k' r] evs].
  Qed.

  Lemma step_write e (s : rstate kstate_i) : dead s = false -> is_cluster_call e = false -> is_storage_write e = true ->
    STEP e s =
    (mkR (fst (fst (storage_apply dead_resp e (led s)))) (ks s) (S (nwrites s)) (S (nmut s)) false
         (tr s ++ snd (storage_apply dead_resp e (led s)))%list,
     snd (fst (storage_apply dead_resp e (led s)))).
  Proof.
    intros Hd Hc Hw. unfold step. rewrite Hd. cbn [negb andb crash wfail nof eq_opt]. rewrite andb_false_r. rewrite Hd, Hc, Hw.
    now destruct (storage_apply dead_resp e (led s)) as [[l' r] evs].
  Qed.
End RaceInstall.

(* C07_create_race_refused.  A fresh install (no stored revision; nothing at any key of the
   manifest; flags: not a dry run, not client-only, not --atomic, hooks disabled; take-ownership,
   --replace: any).  Another actor creates the object f — ANY object: unlabelled, another
   release's — at the key K of a manifest resource, right after the pre-flight GET of K was
   answered "not found", or just before Helm's POST of K.  Then: the POST answers "already
   exists", the install ends in an error, its revision is recorded and ends FAILED, the object is
   exactly f, and no request of Helm created, patched or deleted anything at K. *)
Theorem create_race_refused rn ns fl cid vid mani hks K f when w :
  f_dry_run fl = false -> f_client_only fl = false -> f_atomic fl = false -> f_no_hooks fl = true ->
  w_led w = [] -> (forall r, In r mani -> aget (rkey r) (w_objs w) = None) ->
  NoDup (keys mani) -> In K (keys mani) ->
  when = IGet404 1 \/ when = IPost ->
  let res := run_store_op_i rn ns (Some (mkIntr K when f))
               (mkOp (OpInstall fl cid vid mani hks) (mkSF None None) (mkCF None None false)) w in
  snd (fst res) = OErr EOtherErr /\
  w_led (fst (fst res)) = [mkRelease 1 SFailed cid vid mani hks] /\
  aget K (w_objs (fst (fst res))) = Some f /\
  (forall v, ~ In (v, K) (trace_muts (snd res))).
Proof.
  intros Hd Hc Hat Hnh Hl Habs Hnd Hin Hw res. subst res.
  unfold run_store_op_i, run_op. cbn [oc_op oc_sf oc_cf cf_k cf_h cf_wait op_prog]. rewrite Hl.
  set (k0 := mkK (w_objs w) None None false).
  set (i := mkIntr K when f).
  set (rel0 := mkRelease 1 SPendingInstall cid vid mani hks).
  assert (Hne : match stamp_all rn ns mani with [] => true | _ :: _ => false end = false).
  { destruct mani; [destruct Hin|reflexivity]. }
  assert (Hks : keys (stamp_all rn ns mani) = keys mani).
  { unfold keys, stamp_all. rewrite map_map. apply map_ext. reflexivity. }
  (* the pre-flight look-up *)
  assert (Hex : exists s1, k_existing_i rn ns (mkKI k0 (Some i) 0) (stamp_all rn ns mani) (f_take_ownership fl) [] = (s1, Some []) /\
                           (landed K f s1 \/ at_post K f s1)).
  { assert (Ha : forall r, In r (stamp_all rn ns mani) -> aget (rkey r) (objs (ki_k (mkKI k0 (Some i) 0))) = None).
    { intros r Hr. unfold stamp_all in Hr. apply in_map_iff in Hr. destruct Hr as [x [<- Hx]].
      change (rkey (stamp rn ns x)) with (rkey x). cbn [ki_k]. unfold k0. cbn [objs]. now apply Habs. }
    assert (HK : aget K (w_objs w) = None).
    { unfold keys in Hin. apply in_map_iff in Hin. destruct Hin as [x [<- Hx]]. now apply Habs. }
    destruct Hw as [-> | ->].
    - eexists. split.
      + apply (k_existing_i_absent_fires rn ns K f (stamp_all rn ns mani) (mkKI k0 (Some i) 0) (f_take_ownership fl) []
                 eq_refl eq_refl eq_refl Ha); rewrite Hks; assumption.
      + left. now apply fire_landed.
    - eexists. split.
      + apply k_existing_i_absent_quiet; auto.
        intros r _. unfold tick_get404. simpl. now destruct (String.eqb K (rkey r)).
      + right. unfold at_post. simpl. auto. }
  destruct Hex as [s1 [Hex Hs1]].
  (* the create *)
  assert (Hcr : landed K f (fst (fst (k_create_i s1 (stamp_all rn ns mani) true []))) /\
                no_mut_of K (snd (k_create_i s1 (stamp_all rn ns mani) true [])) /\
                snd (fst (k_create_i s1 (stamp_all rn ns mani) true [])) = false).
  { assert (Hm0 : no_mut_of K []) by (intros v []).
    destruct Hs1 as [L|P].
    - destruct (k_create_i_landed K f (stamp_all rn ns mani) s1 true [] L Hm0) as (A & B & C).
      split; [exact A|split; [exact B|]]. apply C. right. now rewrite Hks.
    - apply k_create_i_at_post; auto. now rewrite Hks. }
  destruct (k_create_i s1 (stamp_all rn ns mani) true []) as [[s2 ok2] muts2] eqn:Ecr.
  cbn [fst snd] in Hcr. destruct Hcr as ((_ & Hobj & _) & Hmuts & ->).
  (* run the program *)
  unfold install. rewrite Hd. cbn [negb].
  cbn [bind perform]. rewrite run_eff, step_history by reflexivity. cbn [fst snd led max_rev_of negb].
  rewrite Hc, Hne. cbn [negb andb bind perform].
  rewrite run_eff, step_kube by reflexivity. cbn [fst snd ks kube_handle_i]. rewrite Hex. cbn [fst snd].
  destruct (f_replace fl).
  - cbn [bind perform]. rewrite run_eff, step_history by reflexivity. cbn [fst snd led max_rev_of bind].
    unfold storage_create. cbn [bind perform].
    rewrite run_eff, step_write by reflexivity. cbn [fst snd led storage_apply has_rev existsb rev app].
    unfold run_hooks. rewrite Hnh. cbn [bind negb].
    destruct (stamp_all rn ns mani) as [|r0 rt] eqn:Es; [discriminate|].
    cbn [bind perform]. rewrite run_eff, step_kube by reflexivity. cbn [fst snd ks kube_handle_i].
    rewrite Ecr. cbn [fst snd negb].
    unfold install_fail. rewrite Hat. unfold record_release. cbn [bind perform].
    rewrite run_eff, step_write by reflexivity.
    cbn [fst snd led ks tr dead run storage_apply has_rev existsb rev with_status Nat.eqb orb replace_rev map st chart_id config_id manifest hooks].
    repeat split; auto.
    intros v Hv. unfold trace_muts in Hv. simpl in Hv. rewrite app_nil_r in Hv. exact (Hmuts v Hv).
  - cbn [bind].
    unfold storage_create. cbn [bind perform].
    rewrite run_eff, step_write by reflexivity. cbn [fst snd led storage_apply has_rev existsb rev app].
    unfold run_hooks. rewrite Hnh. cbn [bind negb].
    destruct (stamp_all rn ns mani) as [|r0 rt] eqn:Es; [discriminate|].
    cbn [bind perform]. rewrite run_eff, step_kube by reflexivity. cbn [fst snd ks kube_handle_i].
    rewrite Ecr. cbn [fst snd negb].
    unfold install_fail. rewrite Hat. unfold record_release. cbn [bind perform].
    rewrite run_eff, step_write by reflexivity.
    cbn [fst snd led ks tr dead run storage_apply has_rev existsb rev with_status Nat.eqb orb replace_rev map st chart_id config_id manifest hooks].
    repeat split; auto.
    intros v Hv. unfold trace_muts in Hv. simpl in Hv. rewrite app_nil_r in Hv. exact (Hmuts v Hv).
Qed.

(* the hypothesis f_atomic = false is needed (and, for upgrade / rollback, "no --cleanup-on-fail"):
   the failure clean-up deletes by manifest key.  Witnesses, replayed on the real code by the
   corpus (known findings K-C07-1a..d) *)
Theorem create_race_cleanup_refuted :
  let cm n := mkRes "ConfigMap" n [("d:k", "v")] in
  let foreign := [("d:k", "intruder")] in
  let fl atm cl := mkFlags atm cl false false 0 true false false false 0 in
  let noF := mkSF None None in let noC := mkCF None None false in
  let i n := Some (mkIntr "ConfigMap/a" (IGet404 n) foreign) in
  (* install --atomic: the automatic uninstall deletes the object the other actor created *)
  (let r := run_store_op_i "rel" "default" (i 1) (mkOp (OpInstall (fl true false) 1 1 [cm "a"; cm "b"] []) noF noC) (mkW [] []) in
   snd (fst r) = OErr EOtherErr /\ aget "ConfigMap/a" (w_objs (fst (fst r))) = None /\
   In (VDelete, "ConfigMap/a") (trace_muts (snd r))) /\
  (* the same install without --atomic: failed revision, object untouched *)
  (let r := run_store_op_i "rel" "default" (i 1) (mkOp (OpInstall (fl false false) 1 1 [cm "a"; cm "b"] []) noF noC) (mkW [] []) in
   snd (fst r) = OErr EOtherErr /\ aget "ConfigMap/a" (w_objs (fst (fst r))) = Some foreign /\
   map st (w_led (fst (fst r))) = [SFailed]) /\
  (* upgrade adding a: the object appears between Client.update's GET and its POST *)
  (let w1 := fst (fst (run_store_op "rel" "default" (mkOp (OpInstall (fl false false) 1 1 [cm "base"] []) noF noC) (mkW [] []))) in
   let up atm cl := run_store_op_i "rel" "default" (i 2) (mkOp (OpUpgrade (fl atm cl) 2 1 [cm "base"; cm "a"] []) noF noC) w1 in
   snd (fst (up false false)) = OErr EOtherErr /\ aget "ConfigMap/a" (w_objs (fst (fst (up false false)))) = Some foreign /\
   map st (w_led (fst (fst (up false false)))) = [SDeployed; SFailed] /\
   aget "ConfigMap/a" (w_objs (fst (fst (up false true)))) = None /\      (* --cleanup-on-fail *)
   aget "ConfigMap/a" (w_objs (fst (fst (up true false)))) = None).       (* --atomic *)
Proof. vm_compute. repeat split; try reflexivity; tauto. Qed.

(* Release engine with failing storage reads — the four operations (Engine/OpsR.v) against the
   principles of Engine/OpsRProofs.v: every read handler of every operation is quiet
   ([hq_op]), forgetting the handlers gives the operations of Engine/Ops.v ([erase_op]), and so
   the ledger clauses proved for every crash point hold for every read-fault position
   ([read_fault_ledger], [run_opsR_ledger]). *)
From Coq Require Import List String Bool Arith ZArith Lia.
From Helm Require Import Common.Assoc Engine.Types Engine.Eff Engine.Ops Engine.Cluster Engine.Seq
                         Engine.SeqProofs Engine.LedgerBase Engine.LedgerDep Engine.OpsR Engine.OpsRProofs.
Import ListNotations.
Local Open Scope string_scope.

Ltac head_scrut p :=
  match p with
  | rbind ?q _ => head_scrut q
  | match ?x with _ => _ end => x
  end.

Ltac rsimp := cbv beta delta [rlift rperform record_releaseR run_hooksR read_err]; cbn [rbind].

Section Ops.
  Variable K : Type.
  Variable kh : forall e : eff, K -> K * resp e * list kev.
  Variable dresp : forall e : eff, resp e.
  Variable rn ns : string.
  Notation hqQ := (hqQ (A:=_)).

  Definition isFail (e : serr) : Prop := e = SFail.
  Definition isNone {A} (o : option A) : Prop := o = None.
  Definition errQ (o : outcome) : Prop := o <> OOk.

  Ltac quiet_go :=
    rsimp;
    first [ apply qq_ret; first [exact I | reflexivity | (unfold errQ; discriminate)]
          | apply qq_rec; [cbn; discriminate | intro; quiet_go] ].

  Ltac hq_step :=
    rsimp;
    lazymatch goal with
    | |- OpsRProofs.hqQ _ (RRet _) => apply hq_ret
    | |- OpsRProofs.hqQ _ (RLift _ _) => apply hq_lift; intro
    | |- OpsRProofs.hqQ _ (RTry _ _ _) => apply hq_try; [reflexivity | intro | quiet_go]
    | |- OpsRProofs.hqQ _ ?p => let x := head_scrut p in destruct x
    end.

  Lemma hq_rlr m : OpsRProofs.hqQ isFail (remove_least_recentR m).
  Proof. unfold remove_least_recentR. repeat hq_step. Qed.

  Lemma hq_storage_create r m : OpsRProofs.hqQ isFail (storage_createR r m).
  Proof.
    unfold storage_createR. destruct m as [|m]; [repeat hq_step|].
    eapply hq_rbind; [apply hq_rlr | intro a; destruct a; repeat hq_step | intros a ->; quiet_go].
  Qed.

  Ltac hq_step1 :=
    rsimp;
    lazymatch goal with
    | |- OpsRProofs.hqQ _ (rbind (storage_createR _ _) _) =>
        eapply hq_rbind; [apply hq_storage_create | intro | intros ? ->; quiet_go]
    | _ => hq_step
    end.

  Lemma hq_uninstall fl : OpsRProofs.hqQ errQ (uninstallR fl).
  Proof. unfold uninstallR. repeat hq_step. Qed.

  Lemma hq_rollback fl : OpsRProofs.hqQ errQ (rollbackR rn ns fl).
  Proof. unfold rollbackR. repeat hq_step1. Qed.

  Lemma hq_install_fail fl rel : OpsRProofs.hqQ errQ (install_failR fl rel).
  Proof.
    unfold install_failR. destruct (f_atomic fl); [|repeat hq_step].
    eapply hq_rbind; [apply hq_uninstall | intro; apply hq_ret | intros; quiet_go].
  Qed.

  Lemma hq_upgrade_fail fl up created : OpsRProofs.hqQ errQ (upgrade_failR rn ns fl up created).
  Proof.
    unfold upgrade_failR. repeat hq_step.
    all: try (eapply hq_rbind; [apply hq_rollback | intro; apply hq_ret | intros; quiet_go]).
  Qed.

  Ltac hq_step2 :=
    rsimp;
    lazymatch goal with
    | |- OpsRProofs.hqQ _ (install_failR _ _) => apply hq_install_fail
    | |- OpsRProofs.hqQ _ (upgrade_failR _ _ _ _ _) => apply hq_upgrade_fail
    | _ => hq_step1
    end.

  Lemma hq_install fl c v m hs : OpsRProofs.hqQ errQ (installR rn ns fl c v m hs).
  Proof. unfold installR. repeat hq_step2. Qed.

  Lemma hq_upgrade fl c v m hs : OpsRProofs.hqQ errQ (upgradeR rn ns fl c v m hs).
  Proof. unfold upgradeR. repeat hq_step2. Qed.

  (* every handler of every operation is quiet AND ends in an error outcome *)
  Theorem hq_op_err o : OpsRProofs.hqQ errQ (op_progR rn ns o).
  Proof. destruct o; cbn [op_progR]; [apply hq_install | apply hq_upgrade | apply hq_rollback | apply hq_uninstall]. Qed.

  Theorem hq_op o : OpsRProofs.hqQ anyQ (op_progR rn ns o).
  Proof. apply hq_weaken with (Q := errQ); [intros; exact I | apply hq_op_err]. Qed.

  (* ---- forgetting the handlers: the operations of Engine/Ops.v ---- *)
  Notation req := (req K kh dresp).

  Ltac esimp := cbv beta delta [rlift rperform record_releaseR run_hooksR read_err perform];
                cbn [rbind erase bind negb andb orb].

  Ltac req_step :=
    esimp;
    lazymatch goal with
    | |- OpsRProofs.req _ _ _ (Ret _) (Ret _) => apply req_refl
    | |- OpsRProofs.req _ _ _ (Eff _ _) (Eff _ _) => apply req_eff; intro
    | |- OpsRProofs.req _ _ _ (bind ?p _) (bind ?p _) => apply req_bind; [apply req_refl | intro]
    | |- OpsRProofs.req _ _ _ (erase ?p) _ => let x := head_scrut p in destruct x
    end.

  Lemma erase_rlr m : req (erase (remove_least_recentR m)) (remove_least_recent m).
  Proof. unfold remove_least_recentR, remove_least_recent. repeat req_step. Qed.

  Lemma erase_storage_create r m : req (erase (storage_createR r m)) (storage_create r m).
  Proof.
    unfold storage_createR, storage_create. destruct m as [|m]; [repeat req_step|].
    apply erase_rbind; [apply erase_rlr | intro a; destruct a; repeat req_step].
  Qed.

  Ltac req_step1 :=
    esimp;
    lazymatch goal with
    | |- OpsRProofs.req _ _ _ (erase (rbind (storage_createR _ _) _)) _ =>
        apply erase_rbind; [apply erase_storage_create | intro]
    | _ => req_step
    end.

  Lemma erase_uninstall fl : req (erase (uninstallR fl)) (uninstall fl).
  Proof. unfold uninstallR, uninstall. repeat req_step1. Qed.

  Lemma erase_rollback fl : req (erase (rollbackR rn ns fl)) (rollback rn ns fl).
  Proof. unfold rollbackR, rollback. repeat req_step1. Qed.

  Lemma erase_install_fail fl rel : req (erase (install_failR fl rel)) (install_fail fl rel).
  Proof.
    unfold install_failR, install_fail. destruct (f_atomic fl); [|repeat req_step1].
    apply erase_rbind; [apply erase_uninstall | intro; apply req_refl].
  Qed.

  Lemma erase_upgrade_fail fl up created :
    req (erase (upgrade_failR rn ns fl up created)) (upgrade_fail rn ns fl up created).
  Proof.
    unfold upgrade_failR, upgrade_fail. repeat req_step1.
    all: try (apply erase_rbind; [apply erase_rollback | intro; apply req_refl]).
  Qed.

  Ltac req_step2 :=
    esimp;
    lazymatch goal with
    | |- OpsRProofs.req _ _ _ (erase (install_failR _ _)) _ => apply erase_install_fail
    | |- OpsRProofs.req _ _ _ (erase (upgrade_failR _ _ _ _ _)) _ => apply erase_upgrade_fail
    | _ => req_step1
    end.

  Lemma erase_install fl c v m hs : req (erase (installR rn ns fl c v m hs)) (install rn ns fl c v m hs).
  Proof. unfold installR, install. repeat req_step2. Qed.

  Lemma erase_upgrade fl c v m hs : req (erase (upgradeR rn ns fl c v m hs)) (upgrade rn ns fl c v m hs).
  Proof. unfold upgradeR, upgrade. repeat req_step2. Qed.

  Theorem erase_op o : req (erase (op_progR rn ns o)) (op_prog rn ns o).
  Proof.
    destruct o; cbn [op_progR op_prog];
      [apply erase_install | apply erase_upgrade | apply erase_rollback | apply erase_uninstall].
  Qed.
End Ops.

(* ---- the ledger clauses under read faults ---- *)
Lemma ndep_replace_le x l : st x <> SDeployed -> ndep (replace_rev x l) <= ndep l.
Proof.
  intros Hx. unfold ndep, replace_rev. induction l as [|r t IH]; cbn [map filter List.length]; [lia|].
  destruct (Nat.eqb (rev r) (rev x)).
  - assert (E : is_deployed x = false).
    { unfold is_deployed. destruct (status_eqb (st x) SDeployed) eqn:E; [|reflexivity].
      apply status_eqb_eq in E. contradiction. }
    rewrite E. destruct (is_deployed r); cbn [List.length]; lia.
  - destruct (is_deployed r); cbn [List.length]; lia.
Qed.

Definition ledger_ok (l : list release) : Prop := NoDup (revs l) /\ ndep l <= 1.

Lemma ledger_ok_upd x l : st x <> SDeployed -> ledger_ok l -> ledger_ok (replace_rev x l).
Proof.
  intros Hx [Hn Hd]. split; [now rewrite revs_replace|].
  pose proof (ndep_replace_le x l Hx). lia.
Qed.

Section Final.
  Variable K : Type.
  Variable kh : forall e : eff, K -> K * resp e * list kev.
  Variable dresp : forall e : eff, resp e.
  Variable rn ns : string.

  (* one operation whose n-th storage read (0-based, in execution order) fails *)
  Definition run_opR (o : op) (n : nat) (l : list release) (k : K) : list release * K * outcome * list tev :=
    let '(s, out) := run K kh dresp (mkSF None None) (rfail n (op_progR rn ns o)) (mkR l k 0 0 false []) in
    (led s, ks s, out, tr s).

  Lemma run_op_led f o l k :
    res_led K (run_op K kh dresp rn ns o f l k)
    = led (fst (run K kh dresp f (op_prog rn ns o) (mkR l k 0 0 false []))).
  Proof.
    unfold run_op, res_led. destruct (run K kh dresp f (op_prog rn ns o) (mkR l k 0 0 false [])) as [s out].
    reflexivity.
  Qed.

  (* revisions stay unique and at most one is deployed, whichever read fails *)
  Theorem read_fault_ledger o n l k :
    NoDup (revs l) -> ndep l <= 1 -> h2_op o l ->
    ledger_ok (fst (fst (fst (run_opR o n l k)))).
  Proof.
    intros Hn Hd H2. unfold run_opR.
    destruct (run K kh dresp (mkSF None None) (rfail n (op_progR rn ns o)) (mkR l k 0 0 false [])) as [s out] eqn:E.
    cbn [fst]. replace s with (fst (run K kh dresp (mkSF None None) (rfail n (op_progR rn ns o)) (mkR l k 0 0 false [])))
      by now rewrite E.
    apply (rfail_led K kh dresp ledger_ok ledger_ok_upd); [apply hq_op | reflexivity | reflexivity | |].
    - intros m. rewrite (erase_op K kh dresp rn ns o). rewrite <- run_op_led.
      destruct (run_op_D K kh dresp rn ns (fc (mkSF None None) m) o l k eq_refl Hn Hd H2) as [A [B _]].
      split; assumption.
    - rewrite (erase_op K kh dresp rn ns o). rewrite <- run_op_led.
      destruct (run_op_D K kh dresp rn ns (mkSF None None) o l k eq_refl Hn Hd H2) as [A [B _]].
      split; assumption.
  Qed.

  (* an operation one of whose reads failed never reports success: either the read position is not
     reached, and the run is the fault-free run of Engine/Ops.v (same ledger, cluster, outcome, trace), or
     the outcome is an error *)
  Theorem read_fault_never_success o n l k :
    run_opR o n l k
      = (let '(s, out) := run K kh dresp (mkSF None None) (op_prog rn ns o) (mkR l k 0 0 false []) in
         (led s, ks s, out, tr s))
    \/ snd (fst (run_opR o n l k)) <> OOk.
  Proof.
    unfold run_opR.
    destruct (rfail_result K kh dresp errQ (op_progR rn ns o) (hq_op_err rn ns o) n (mkSF None None) (mkR l k 0 0 false [])) as [E | Q].
    - left. rewrite E, (erase_op K kh dresp rn ns o). reflexivity.
    - right. destruct (run K kh dresp (mkSF None None) (rfail n (op_progR rn ns o)) (mkR l k 0 0 false [])) as [s out].
      exact Q.
  Qed.

  (* a read position the operation does not reach changes nothing: in particular [rfail n] of a
     program without an n-th read is the fault-free program — checked by evaluation in
     Run/RunC01.v; here the statement that matters for histories *)

  (* histories whose operations carry a crash point or a read fault *)
  Inductive fault := FCrash (f : sfaults) | FRead (n : nat).

  Definition run_opF (o : op) (ft : fault) (l : list release) (k : K) : list release * K :=
    match ft with
    | FCrash f => let r := run_op K kh dresp rn ns o f l k in (res_led K r, res_ks K r)
    | FRead n => let r := run_opR o n l k in (fst (fst (fst r)), snd (fst (fst r)))
    end.

  Fixpoint run_opsF (h : list (op * fault)) (l : list release) (k : K) : list (list release) :=
    match h with
    | [] => []
    | (o, ft) :: t => let '(l', k') := run_opF o ft l k in l' :: run_opsF t l' k'
    end.

  Fixpoint h2_histF (h : list (op * fault)) (l : list release) (k : K) : Prop :=
    match h with
    | [] => True
    | (o, ft) :: t => h2_op o l /\ let '(l', k') := run_opF o ft l k in h2_histF t l' k'
    end.

  Theorem run_opsF_ledger h : forall l k,
    (forall o f, In (o, FCrash f) h -> wfail f = None) ->
    NoDup (revs l) -> ndep l <= 1 -> h2_histF h l k ->
    Forall ledger_ok (run_opsF h l k).
  Proof.
    induction h as [|[o ft] t IH]; intros l k Hw Hn Hd H2; cbn [run_opsF]; [constructor|].
    cbn [h2_histF] in H2. destruct H2 as [H2o H2t].
    assert (Hok : ledger_ok (fst (run_opF o ft l k))).
    { destruct ft as [f|n]; cbn [run_opF fst].
      - destruct (run_op_D K kh dresp rn ns f o l k (Hw o f (or_introl eq_refl)) Hn Hd H2o) as [A [B _]].
        split; assumption.
      - now apply read_fault_ledger. }
    destruct (run_opF o ft l k) as [l' k']. cbn [fst] in Hok. constructor; [exact Hok|].
    destruct Hok as [A B]. apply IH; auto. intros o' f' Hin. apply (Hw o' f'). now right.
  Qed.
End Final.

(* ---- non-vacuity: the two shapes of Engine/SeqRead.v with a read that really FAILS ---- *)
From Helm Require Engine.SeqRead Engine.Contain.

Definition run_store_read_fault (n : nat) (o : op) (w : world) : list (nat * status) * outcome * list tev :=
  let '(l, _, out, t) := run_opR kstate (kube_handle "rel" "default") dead_resp "rel" "default" o n
                                 (w_led w) (mkK (w_objs w) None None false) in
  (Contain.statuses l, out, t).

(* 1:deployed 2:failed 3:failed, upgrade --history-max 3: whichever of its four reads fails, the upgrade
   returns an error and nothing is written (with the read answered EMPTY instead, revision 1 is pruned
   while deployed: SeqRead.lost_read_prunes_deployed_refuted) *)
Lemma read_fault_upgrade_instance :
  map (fun n => run_store_read_fault n SeqRead.ra_op (SeqRead.world_of SeqRead.ra_prefix)) [0; 1; 2; 3]
  = repeat ([(1, SDeployed); (2, SFailed); (3, SFailed)], OErr EOtherErr, []) 4.
Proof. vm_compute. reflexivity. Qed.

(* 1:superseded 2:deployed, rollback to 1, the last lookup (read 3) fails: after the cluster was rolled
   back the new revision is recorded FAILED and revision 2 stays the deployed one *)
Lemma read_fault_rollback_instance :
  let '(l, out, t) := run_store_read_fault 3 (OpRollback SeqRead.fl_to1) (SeqRead.world_of SeqRead.rb_prefix) in
  l = [(1, SSuperseded); (2, SDeployed); (3, SFailed)] /\ out = OErr EOtherErr /\
  In (TStore "update" 3 SFailed) t.
Proof. vm_compute. repeat split. auto 20. Qed.

(* ---- Storage.Create with a failing read: nothing is deleted, nothing is created ---- *)
Section PruneRead.
  Variable K : Type.
  Variable kh : forall e : eff, K -> K * resp e * list kev.
  Variable dresp : forall e : eff, resp e.

  Lemma step_history f (s : rstate K) :
    crash f = None -> dead s = false -> step K kh dresp f SHistory s = (s, led s).
  Proof.
    intros Hc Hd. destruct s as [l k nw nm d t]; cbn in Hd; subst d. destruct f as [w c]; cbn in Hc; subst c.
    reflexivity.
  Qed.

  (* Storage.Create has two reads (the history, the deployed lookup of the pruning).  Whichever fails: either
     it is not reached (the history is within the limit) and the run is the fault-free one, or Create answers
     an error and the state - ledger, cluster, counters, trace - is exactly what it was: no revision pruned,
     no record created.  (Seeded C01-10 made the deployed lookup answer "nothing deployed" instead.) *)
  Theorem prune_read_fault f (r : release) (m n : nat) (s : rstate K) :
    crash f = None -> dead s = false -> n < 2 ->
    let res := run K kh dresp f (rfail n (storage_createR r (S m))) s in
    res = run K kh dresp f (storage_create r (S m)) s \/ res = (s, SFail).
  Proof.
    intros Hc Hd Hn. destruct n as [|[|n]]; [| |lia].
    - right. reflexivity.
    - unfold storage_createR, storage_create, remove_least_recentR, remove_least_recent.
      cbv beta delta [rlift rperform perform]. cbn [rbind rfail erase bind run].
      rewrite (step_history f s Hc Hd).
      destruct (led s) as [|x t] eqn:El.
      + left. reflexivity.
      + destruct (Nat.leb (List.length (x :: t)) m) eqn:E.
        * left. cbn [rbind rfail erase bind run]. reflexivity.
        * right. cbn [rbind rfail erase bind run]. reflexivity.
  Qed.
End PruneRead.

(* C02 — proofs about the object-store handler without request faults:
   three-way merge read field by field, Client.update / Create / Delete refine the pure
   functions of MatchDefs.v, and what those functions leave in the object map. *)
From Coq Require Import List String Bool Arith Lia.
From Helm Require Import Common.Assoc Engine.Types Engine.Eff Engine.Cluster Engine.MatchDefs.
Import ListNotations.

(* ------------------------------------------------------------------ *)
(* association lists                                                    *)

Lemma amem_true_iff {V} k (l : list (string * V)) : amem k l = true <-> aget k l <> None.
Proof. unfold amem. destruct (aget k l); split; intros; congruence. Qed.

Lemma amem_false_iff {V} k (l : list (string * V)) : amem k l = false <-> aget k l = None.
Proof. unfold amem. destruct (aget k l); split; intros; congruence. Qed.

Lemma amem_cons {V} f k (v : V) t : amem f ((k, v) :: t) = String.eqb f k || amem f t.
Proof. unfold amem. simpl. destruct (String.eqb f k); reflexivity. Qed.

Lemma aget_notin_keys {V} k (l : list (string * V)) : ~ In k (akeys l) -> aget k l = None.
Proof.
  intros H. destruct (aget k l) eqn:E; auto. exfalso. apply H.
  apply aget_In in E. unfold akeys. change k with (fst (k, v)). now apply in_map.
Qed.

Lemma adel_absent {V} k (l : list (string * V)) : aget k l = None -> adel k l = l.
Proof.
  induction l as [|[k' v'] t IH]; simpl; auto.
  destruct (String.eqb k k') eqn:E; [discriminate|]. intros H. f_equal. auto.
Qed.

Lemma eqb_neq_sym a b : String.eqb a b = false -> b <> a.
Proof. intros H ->. rewrite String.eqb_refl in H. discriminate. Qed.

(* ------------------------------------------------------------------ *)
(* three-way merge, field by field                                      *)

Lemma fold_aset_get_none : forall (new live : fields) f,
  aget f new = None ->
  aget f (fold_left (fun acc kv => aset (fst kv) (snd kv) acc) new live) = aget f live.
Proof.
  induction new as [|[k v] t IH]; intros live f H; simpl in *; auto.
  destruct (String.eqb f k) eqn:E; [discriminate|].
  rewrite IH by assumption. apply aget_aset_neq. now apply eqb_neq_sym.
Qed.

Lemma fold_aset_get_some : forall (new live : fields) f v,
  wf_fields new -> aget f new = Some v ->
  aget f (fold_left (fun acc kv => aset (fst kv) (snd kv) acc) new live) = Some v.
Proof.
  unfold wf_fields, akeys.
  induction new as [|[k v0] t IH]; intros live f v Hnd H; simpl in *; [discriminate|].
  inversion Hnd as [|? ? Hni Hnd']; subst.
  destruct (String.eqb f k) eqn:E.
  - apply String.eqb_eq in E. subst f. inversion H; subst v0.
    rewrite fold_aset_get_none by (now apply aget_notin_keys).
    apply aget_aset_eq.
  - now apply IH.
Qed.

Lemma fold_del_get : forall (old new added : fields) f,
  aget f (fold_left (fun acc kv => if amem (fst kv) new then acc else adel (fst kv) acc) old added)
  = if amem f old && negb (amem f new) then None else aget f added.
Proof.
  induction old as [|[k v] t IH]; intros new added f; simpl; auto.
  rewrite IH, amem_cons.
  destruct (String.eqb f k) eqn:E; simpl.
  - apply String.eqb_eq in E. subst f.
    destruct (amem k new); simpl.
    + now rewrite andb_false_r.
    + rewrite andb_true_r. rewrite aget_adel_eq. now destruct (amem k t).
  - assert (aget f (if amem k new then added else adel k added) = aget f added) as ->; auto.
    destruct (amem k new); auto. apply aget_adel_neq. now apply eqb_neq_sym.
Qed.

Theorem three_way_get old new live f :
  wf_fields new -> aget f (three_way old new live) = merged_get old new live f.
Proof.
  intros Hnd. unfold three_way, merged_get. rewrite fold_del_get.
  destruct (aget f new) eqn:E.
  - assert (amem f new = true) as -> by (apply amem_true_iff; congruence).
    simpl. rewrite andb_false_r. now apply fold_aset_get_some.
  - assert (amem f new = false) as -> by (now apply amem_false_iff).
    simpl. rewrite andb_true_r. destruct (amem f old); auto. now apply fold_aset_get_none.
Qed.

Lemma fields_sub_spec a b :
  fields_sub a b = true <-> (forall k v, In (k, v) a -> aget k b = Some v).
Proof.
  unfold fields_sub. rewrite forallb_forall. split.
  - intros H k v Hin. specialize (H (k, v) Hin). simpl in H.
    destruct (aget k b); [|discriminate]. apply String.eqb_eq in H. now subst.
  - intros H [k v] Hin. simpl. rewrite (H k v Hin). apply String.eqb_refl.
Qed.

Lemma fields_sub_refl a : wf_fields a -> fields_sub a a = true.
Proof. intros H. apply fields_sub_spec. intros k v Hin. now apply In_aget. Qed.

(* when CreateThreeWayMergePatch yields the empty patch the live object already is the merge *)
Lemma no_patch_merged old new live f :
  patch_needed old new live = false -> aget f live = merged_get old new live f.
Proof.
  unfold patch_needed. intros H. apply orb_false_iff in H. destruct H as [Hs He].
  apply negb_false_iff in Hs. unfold merged_get.
  destruct (aget f new) eqn:E.
  - apply aget_In in E. eapply fields_sub_spec in Hs; eauto.
  - destruct (amem f old) eqn:M; auto. exfalso.
    apply amem_true_iff in M. destruct (aget f old) eqn:G; [|congruence].
    apply aget_In in G.
    assert (existsb (fun kv : string * string => negb (amem (fst kv) new)) old = true); [|congruence].
    apply existsb_exists. exists (f, s). split; auto. simpl.
    apply negb_true_iff. now apply amem_false_iff.
Qed.

(* a merged object carries every field the new manifest names *)
Lemma merged_sub new live' old live :
  wf_fields new -> (forall f, aget f live' = merged_get old new live f) -> fields_sub new live' = true.
Proof.
  intros Hwf H. apply fields_sub_spec. intros k v Hin. rewrite H. unfold merged_get.
  now rewrite (In_aget k v new Hwf Hin).
Qed.

(* ------------------------------------------------------------------ *)
(* in_keys                                                              *)

Lemma in_keys_iff k rs : in_keys k rs = true <-> In k (map rkey rs).
Proof.
  unfold in_keys. rewrite existsb_exists, in_map_iff. split.
  - intros [r [Hin He]]. apply String.eqb_eq in He. eauto.
  - intros [r [He Hin]]. exists r. split; auto. subst. apply String.eqb_refl.
Qed.

Lemma in_keys_false_iff k rs : in_keys k rs = false <-> ~ In k (map rkey rs).
Proof. rewrite <- in_keys_iff. destruct (in_keys k rs); split; congruence. Qed.

Lemma in_keys_cons k r rs : in_keys k (r :: rs) = String.eqb (rkey r) k || in_keys k rs.
Proof. reflexivity. Qed.

Lemma in_keys_In r rs : In r rs -> in_keys (rkey r) rs = true.
Proof. intros H. apply in_keys_iff. now apply in_map. Qed.

Lemma in_keys_removed key cur tgt :
  in_keys key (removed cur tgt) = in_keys key cur && negb (in_keys key tgt).
Proof.
  unfold removed. induction cur as [|o t IH]; simpl; auto.
  destruct (in_keys (rkey o) tgt) eqn:E; simpl; rewrite ?in_keys_cons, IH.
  - destruct (String.eqb (rkey o) key) eqn:K; simpl; auto.
    apply String.eqb_eq in K. subst key. rewrite E. simpl. now rewrite andb_false_r.
  - destruct (String.eqb (rkey o) key) eqn:K; simpl; auto.
    apply String.eqb_eq in K. subst key. now rewrite E.
Qed.

(* ------------------------------------------------------------------ *)
(* the handler without faults refines the pure functions                *)

Lemma fault_hits_nofault k v key : nofault k -> fault_hits k v key = false.
Proof. unfold nofault, fault_hits. now intros ->. Qed.

Lemma nofault_set_objs k o : nofault k -> nofault (set_objs k o).
Proof. auto. Qed.

Lemma nofault_clear k : nofault (clear_kfault k).
Proof. reflexivity. Qed.

Lemma k_update_targets_nofault : forall tgt k cur created pe muts k1 hard pe' created' muts',
  nofault k ->
  k_update_targets k cur tgt created pe muts = (k1, hard, pe', created', muts') ->
  nofault k1 /\ hfault k1 = hfault k /\ waitfail k1 = waitfail k /\ pe' = pe /\
  match upd_targets (objs k) cur tgt with
  | Some o1 => hard = false /\ objs k1 = o1
  | None => hard = true
  end.
Proof.
  induction tgt as [|r t IH]; intros k cur created pe muts k1 hard pe' created' muts' Hnf H; simpl in H |- *.
  - inversion H; subst. repeat split; auto.
  - repeat rewrite fault_hits_nofault in H by assumption.
    destruct (aget (rkey r) (objs k)) as [live|] eqn:G.
    + destruct (find_res (rkey r) cur) as [old|] eqn:F.
      * destruct (patch_needed (r_fields old) (r_fields r) live) eqn:P.
        -- apply IH in H; [|now apply nofault_set_objs]. exact H.
        -- apply IH in H; auto.
      * inversion H; subst. repeat split; auto.
    + apply IH in H; [|now apply nofault_set_objs]. exact H.
Qed.

Lemma k_update_deletes_nofault : forall dels k muts k2 muts2,
  nofault k ->
  k_update_deletes k dels muts = (k2, muts2) ->
  nofault k2 /\ hfault k2 = hfault k /\ waitfail k2 = waitfail k /\ objs k2 = upd_deletes (objs k) dels.
Proof.
  induction dels as [|r t IH]; intros k muts k2 muts2 Hnf H; simpl in H |- *.
  - inversion H; subst. repeat split; auto.
  - repeat rewrite fault_hits_nofault in H by assumption.
    destruct (aget (rkey r) (objs k)) as [live|] eqn:G.
    + destruct (live_keep live).
      * apply IH in H; auto.
      * apply IH in H; [|now apply nofault_set_objs]. exact H.
    + apply IH in H; auto.
Qed.

Theorem k_update_nofault k cur tgt k' ok created muts :
  nofault k ->
  k_update k cur tgt = (k', (ok, created), muts) ->
  nofault k' /\ hfault k' = hfault k /\ waitfail k' = waitfail k /\
  match upd (objs k) cur tgt with
  | Some o' => ok = true /\ objs k' = o'
  | None => ok = false
  end.
Proof.
  intros Hnf H. unfold k_update in H.
  destruct (k_update_targets k cur tgt [] false []) as [[[[k1 hard] pe] cr] m1] eqn:T.
  apply k_update_targets_nofault in T; auto.
  destruct T as (Hnf1 & Hh & Hw & Hpe & Hspec). subst pe.
  unfold upd. destruct (upd_targets (objs k) cur tgt) as [o1|].
  - destruct Hspec as [-> Ho1]. simpl in H.
    fold (removed cur tgt) in H.
    destruct (k_update_deletes k1 (removed cur tgt) m1) as [k2 m2] eqn:D.
    apply k_update_deletes_nofault in D; auto. destruct D as (Hnf2 & Hh2 & Hw2 & Ho2).
    inversion H; subst. repeat split; auto; congruence.
  - subst hard. simpl in H. inversion H; subst. auto.
Qed.

Lemma k_create_nofault : forall rs k ok muts k' ok' muts',
  nofault k ->
  k_create k rs ok muts = (k', ok', muts') ->
  nofault k' /\ hfault k' = hfault k /\ waitfail k' = waitfail k /\
  (objs k', ok') = create_all (objs k) rs ok.
Proof.
  induction rs as [|r t IH]; intros k ok muts k' ok' muts' Hnf H; simpl in H |- *.
  - inversion H; subst. repeat split; auto.
  - rewrite fault_hits_nofault in H by assumption.
    destruct (amem (rkey r) (objs k)).
    + apply IH in H; auto.
    + apply IH in H; [|now apply nofault_set_objs]. exact H.
Qed.

Lemma k_delete_nofault : forall rs k ok muts k' ok' muts',
  nofault k ->
  k_delete k rs ok muts = (k', ok', muts') ->
  nofault k' /\ hfault k' = hfault k /\ waitfail k' = waitfail k /\
  ok' = ok /\ objs k' = delete_all_objs (objs k) rs.
Proof.
  induction rs as [|r t IH]; intros k ok muts k' ok' muts' Hnf H; simpl in H |- *.
  - inversion H; subst. repeat split; auto.
  - rewrite fault_hits_nofault in H by assumption.
    destruct (amem (rkey r) (objs k)) eqn:M.
    + apply IH in H; [|now apply nofault_set_objs]. exact H.
    + apply IH in H; auto. apply amem_false_iff in M. now rewrite (adel_absent _ _ M).
Qed.

(* ------------------------------------------------------------------ *)
(* what the pure functions leave in the object map                      *)

Lemma upd_targets_frame : forall tgt o cur o1,
  upd_targets o cur tgt = Some o1 ->
  forall key, in_keys key tgt = false -> aget key o1 = aget key o.
Proof.
  induction tgt as [|r t IH]; intros o cur o1 H key Hk; simpl in H.
  - now inversion H.
  - rewrite in_keys_cons in Hk. apply orb_false_iff in Hk. destruct Hk as [Hne Hk].
    assert (Hneq : rkey r <> key) by (intros E; rewrite E, String.eqb_refl in Hne; discriminate).
    destruct (aget (rkey r) o) as [live|] eqn:G.
    + destruct (find_res (rkey r) cur) as [old|]; [|discriminate].
      destruct (patch_needed (r_fields old) (r_fields r) live).
      * rewrite (IH _ _ _ H key Hk). now apply aget_aset_neq.
      * now apply (IH _ _ _ H).
    + rewrite (IH _ _ _ H key Hk). now apply aget_aset_neq.
Qed.

Lemma NoDup_keys_cons r t :
  NoDup (map rkey (r :: t)) ->
  in_keys (rkey r) t = false /\ NoDup (map rkey t) /\ (forall x, In x t -> rkey r <> rkey x).
Proof.
  simpl. intros H. inversion H as [|? ? Hni Hnd]; subst. repeat split; auto.
  - now apply in_keys_false_iff.
  - intros x Hx E. apply Hni. rewrite E. now apply in_map.
Qed.

(* per target: created with exactly the posted fields, or merged field by field *)
Definition target_post (o o1 : objmap) (cur : list res) (t : res) : Prop :=
  match aget (rkey t) o with
  | None => aget (rkey t) o1 = Some (r_fields t)
  | Some live =>
      exists old live', find_res (rkey t) cur = Some old /\ aget (rkey t) o1 = Some live' /\
        (wf_res t -> forall f, aget f live' = merged_get (r_fields old) (r_fields t) live f)
  end.

Lemma upd_targets_spec : forall tgt o cur o1,
  NoDup (map rkey tgt) -> upd_targets o cur tgt = Some o1 ->
  forall t, In t tgt -> target_post o o1 cur t.
Proof.
  induction tgt as [|r rest IH]; intros o cur o1 Hnd H t Hin; [destruct Hin|].
  apply NoDup_keys_cons in Hnd. destruct Hnd as (Hnotin & Hnd & Hdiff).
  simpl in H. destruct Hin as [->|Hin].
  - (* the head: later targets do not touch its key *)
    unfold target_post.
    destruct (aget (rkey t) o) as [live|] eqn:G.
    + destruct (find_res (rkey t) cur) as [old|] eqn:F; [|discriminate].
      destruct (patch_needed (r_fields old) (r_fields t) live) eqn:P.
      * exists old, (three_way (r_fields old) (r_fields t) live). repeat split; auto.
        -- rewrite (upd_targets_frame _ _ _ _ H _ Hnotin). apply aget_aset_eq.
        -- intros Hwf f. now apply three_way_get.
      * exists old, live. repeat split; auto.
        -- now rewrite (upd_targets_frame _ _ _ _ H _ Hnotin).
        -- intros _ f. now apply no_patch_merged.
    + rewrite (upd_targets_frame _ _ _ _ H _ Hnotin). apply aget_aset_eq.
  - (* a later target: the head did not touch its key *)
    specialize (Hdiff t Hin).
    assert (Hsame : forall v, aget (rkey t) (aset (rkey r) v o) = aget (rkey t) o)
      by (intros v; now apply aget_aset_neq).
    unfold target_post.
    destruct (aget (rkey r) o) as [live|] eqn:G.
    + destruct (find_res (rkey r) cur) as [old|]; [|discriminate].
      destruct (patch_needed (r_fields old) (r_fields r) live).
      * specialize (IH _ _ _ Hnd H t Hin). unfold target_post in IH. now rewrite Hsame in IH.
      * exact (IH _ _ _ Hnd H t Hin).
    + specialize (IH _ _ _ Hnd H t Hin). unfold target_post in IH. now rewrite Hsame in IH.
Qed.

(* the only way Client.update fails without a rejected request:
   a target exists in the cluster but is not in the original manifest *)
Lemma upd_targets_none_iff : forall tgt o cur,
  NoDup (map rkey tgt) ->
  (upd_targets o cur tgt = None <->
   exists t, In t tgt /\ aget (rkey t) o <> None /\ find_res (rkey t) cur = None).
Proof.
  induction tgt as [|r rest IH]; intros o cur Hnd; simpl.
  - split; [discriminate|]. intros [t [[] _]].
  - apply NoDup_keys_cons in Hnd. destruct Hnd as (Hnotin & Hnd & Hdiff).
    assert (Hsame : forall v t, In t rest -> aget (rkey t) (aset (rkey r) v o) = aget (rkey t) o)
      by (intros v t Hin; apply aget_aset_neq; now apply Hdiff).
    assert (Htail : forall o', (forall t, In t rest -> aget (rkey t) o' = aget (rkey t) o) ->
              (upd_targets o' cur rest = None <->
               exists t, In t rest /\ aget (rkey t) o <> None /\ find_res (rkey t) cur = None)).
    { intros o' Ho'. rewrite (IH o' cur Hnd). split; intros [t (Hin & Hl & Hf)]; exists t; repeat split; auto.
      - now rewrite <- Ho'.
      - now rewrite Ho'. }
    destruct (aget (rkey r) o) as [live|] eqn:G.
    + destruct (find_res (rkey r) cur) as [old|] eqn:F.
      * assert (Hhead : (exists t, In t (r :: rest) /\ aget (rkey t) o <> None /\ find_res (rkey t) cur = None) <->
                        (exists t, In t rest /\ aget (rkey t) o <> None /\ find_res (rkey t) cur = None)).
        { split; intros [t (Hin & Hl & Hf)]; exists t; repeat split; auto.
          - destruct Hin as [<-|Hin]; auto. congruence.
          - now right. }
        rewrite Hhead.
        destruct (patch_needed (r_fields old) (r_fields r) live).
        -- apply Htail. intros t Hin. now apply Hsame.
        -- apply Htail. auto.
      * split; auto. intros _. exists r. split; [now left|]. split; [congruence|auto].
    + assert (Hhead : (exists t, In t (r :: rest) /\ aget (rkey t) o <> None /\ find_res (rkey t) cur = None) <->
                      (exists t, In t rest /\ aget (rkey t) o <> None /\ find_res (rkey t) cur = None)).
      { split; intros [t (Hin & Hl & Hf)]; exists t; repeat split; auto.
        - destruct Hin as [<-|Hin]; auto. congruence.
        - now right. }
      rewrite Hhead. apply Htail. intros t Hin. now apply Hsame.
Qed.

Lemma keep_filter_idem x : keep_filter (keep_filter x) = keep_filter x.
Proof. destruct x as [l|]; simpl; auto. destruct (live_keep l) eqn:E; simpl; now rewrite ?E. Qed.

Lemma upd_deletes_get : forall dels o key,
  aget key (upd_deletes o dels) = if in_keys key dels then keep_filter (aget key o) else aget key o.
Proof.
  induction dels as [|r t IH]; intros o key; [reflexivity|].
  rewrite in_keys_cons.
  (* the object map after handling r, pointwise *)
  assert (Hstep : forall o', o' = (match aget (rkey r) o with
                                   | None => o
                                   | Some live => if live_keep live then o else adel (rkey r) o
                                   end) ->
            aget key o' = if String.eqb (rkey r) key then keep_filter (aget key o) else aget key o).
  { intros o' ->. destruct (String.eqb (rkey r) key) eqn:E.
    - apply String.eqb_eq in E. subst key.
      destruct (aget (rkey r) o) as [live|] eqn:G; simpl; auto.
      destruct (live_keep live) eqn:K; simpl; [now rewrite G|apply aget_adel_eq].
    - assert (rkey r <> key) by (intros X; rewrite X, String.eqb_refl in E; discriminate).
      destruct (aget (rkey r) o) as [live|]; auto.
      destruct (live_keep live); auto. now apply aget_adel_neq. }
  assert (Hrw : upd_deletes o (r :: t) =
                upd_deletes (match aget (rkey r) o with
                             | None => o
                             | Some live => if live_keep live then o else adel (rkey r) o
                             end) t).
  { simpl. destruct (aget (rkey r) o) as [live|]; auto. now destruct (live_keep live). }
  rewrite Hrw, IH, (Hstep _ eq_refl).
  destruct (String.eqb (rkey r) key); simpl; auto.
  destruct (in_keys key t); auto using keep_filter_idem.
Qed.

Lemma create_all_frame : forall rs o ok key,
  in_keys key rs = false -> aget key (fst (create_all o rs ok)) = aget key o.
Proof.
  induction rs as [|r t IH]; intros o ok key Hk; simpl; auto.
  rewrite in_keys_cons in Hk. apply orb_false_iff in Hk. destruct Hk as [Hne Hk].
  destruct (amem (rkey r) o).
  - now apply IH.
  - rewrite IH by assumption. apply aget_aset_neq.
    intros E. rewrite E, String.eqb_refl in Hne. discriminate.
Qed.

(* Create succeeds (without faults) exactly when none of the objects existed, and then every
   one of them exists with exactly the posted fields *)
Lemma create_all_ok : forall rs o,
  NoDup (map rkey rs) ->
  snd (create_all o rs true) = true ->
  forall r, In r rs -> aget (rkey r) o = None /\ aget (rkey r) (fst (create_all o rs true)) = Some (r_fields r).
Proof.
  assert (Hfalse : forall rs o, snd (create_all o rs false) = false).
  { induction rs as [|r t IH]; intros o; simpl; auto. destruct (amem (rkey r) o); auto. }
  induction rs as [|r t IH]; intros o Hnd Hok x Hin; [destruct Hin|].
  apply NoDup_keys_cons in Hnd. destruct Hnd as (Hnotin & Hnd & Hdiff).
  simpl in Hok |- *.
  destruct (amem (rkey r) o) eqn:M.
  - rewrite Hfalse in Hok. discriminate.
  - apply amem_false_iff in M. destruct Hin as [->|Hin].
    + split; auto. rewrite create_all_frame by assumption. apply aget_aset_eq.
    + destruct (IH _ Hnd Hok x Hin) as [Ha Hb]. split; auto.
      rewrite <- Ha. symmetry. apply aget_aset_neq. now apply Hdiff.
Qed.

Lemma delete_all_objs_get : forall rs o key,
  aget key (delete_all_objs o rs) = if in_keys key rs then None else aget key o.
Proof.
  induction rs as [|r t IH]; intros o key; [reflexivity|].
  rewrite in_keys_cons. cbn [delete_all_objs]. rewrite IH.
  destruct (String.eqb (rkey r) key) eqn:E; simpl.
  - apply String.eqb_eq in E. subst key. rewrite aget_adel_eq. now destruct (in_keys (rkey r) t).
  - destruct (in_keys key t); auto. apply aget_adel_neq.
    intros X. rewrite X, String.eqb_refl in E. discriminate.
Qed.

(* ------------------------------------------------------------------ *)
(* C02_update_matches                                                   *)

Theorem update_matches :
  forall (k : kstate) (cur tgt : list res) (k' : kstate) (created : list res) (muts : list (verb * string)),
    kfault k = None ->
    NoDup (map rkey tgt) ->
    (forall t, In t tgt -> NoDup (akeys (r_fields t))) ->
    k_update k cur tgt = (k', (true, created), muts) ->
    (* (i) every target exists and carries every field the new manifest names *)
    (forall t, In t tgt ->
       exists live', aget (rkey t) (objs k') = Some live' /\
         fields_sub (r_fields t) live' = true /\
         match aget (rkey t) (objs k) with
         | None => live' = r_fields t
         | Some live =>
             exists old, find_res (rkey t) cur = Some old /\
               (* foreign fields stay *)
               (forall f, aget f (r_fields t) = None -> aget f (r_fields old) = None -> aget f live' = aget f live) /\
               (* fields dropped by the new manifest go *)
               (forall f, aget f (r_fields t) = None -> aget f (r_fields old) <> None -> aget f live' = None)
         end) /\
    (* (ii) removed resources are gone unless the LIVE object says keep *)
    (forall o, In o cur -> in_keys (rkey o) tgt = false ->
       match aget (rkey o) (objs k) with
       | Some live => if live_keep live then aget (rkey o) (objs k') = Some live
                      else aget (rkey o) (objs k') = None
       | None => aget (rkey o) (objs k') = None
       end) /\
    (* (iii) frame *)
    (forall key, in_keys key cur = false -> in_keys key tgt = false ->
       aget key (objs k') = aget key (objs k)).
Proof.
  intros k cur tgt k' created muts Hnf Hnd Hwf H.
  apply k_update_nofault in H; auto. destruct H as (_ & _ & _ & H).
  unfold upd in H. destruct (upd_targets (objs k) cur tgt) as [o1|] eqn:T; [|discriminate].
  destruct H as [_ Ho']. rewrite Ho'. clear Ho'.
  repeat split.
  - intros t Hin.
    assert (Hk : aget (rkey t) (upd_deletes o1 (removed cur tgt)) = aget (rkey t) o1).
    { rewrite upd_deletes_get, in_keys_removed, (in_keys_In t tgt Hin). simpl. now rewrite andb_false_r. }
    rewrite Hk.
    pose proof (upd_targets_spec _ _ _ _ Hnd T t Hin) as S. unfold target_post in S.
    destruct (aget (rkey t) (objs k)) as [live|] eqn:G.
    + destruct S as (old & live' & F & A & M). specialize (M (Hwf t Hin)).
      exists live'. repeat split; auto.
      * eapply merged_sub; eauto. exact (Hwf t Hin).
      * exists old. repeat split; auto.
        -- intros f Hn Ho. rewrite M. unfold merged_get. rewrite Hn.
           assert (amem f (r_fields old) = false) as -> by (now apply amem_false_iff). reflexivity.
        -- intros f Hn Ho. rewrite M. unfold merged_get. rewrite Hn.
           assert (amem f (r_fields old) = true) as -> by (now apply amem_true_iff). reflexivity.
    + exists (r_fields t). repeat split; auto. apply fields_sub_refl. exact (Hwf t Hin).
  - intros o Hin Hnt.
    rewrite upd_deletes_get, in_keys_removed, (in_keys_In o cur Hin), Hnt. simpl.
    rewrite (upd_targets_frame _ _ _ _ T _ Hnt).
    destruct (aget (rkey o) (objs k)) as [live|]; simpl; auto. now destruct (live_keep live).
  - intros key Hc Ht.
    rewrite upd_deletes_get, in_keys_removed, Hc. simpl.
    now apply (upd_targets_frame _ _ _ _ T).
Qed.

(* without a rejected request Client.update fails exactly on "no <Kind> with the name found" *)
Theorem update_fails_iff :
  forall (k : kstate) (cur tgt : list res),
    kfault k = None ->
    NoDup (map rkey tgt) ->
    (fst (snd (fst (k_update k cur tgt))) = false <->
     exists t, In t tgt /\ aget (rkey t) (objs k) <> None /\ find_res (rkey t) cur = None).
Proof.
  intros k cur tgt Hnf Hnd.
  destruct (k_update k cur tgt) as [[k' [ok created]] muts] eqn:H. simpl.
  apply k_update_nofault in H; auto. destruct H as (_ & _ & _ & H).
  rewrite <- (upd_targets_none_iff tgt (objs k) cur Hnd).
  unfold upd in H. destruct (upd_targets (objs k) cur tgt).
  - destruct H as [-> _]. split; discriminate.
  - subst ok. split; auto.
Qed.

Theorem create_matches :
  forall (k : kstate) (rs : list res) (k' : kstate) (muts : list (verb * string)),
    kfault k = None ->
    NoDup (map rkey rs) ->
    k_create k rs true [] = (k', true, muts) ->
    (forall r, In r rs -> aget (rkey r) (objs k) = None /\ aget (rkey r) (objs k') = Some (r_fields r)) /\
    (forall key, in_keys key rs = false -> aget key (objs k') = aget key (objs k)).
Proof.
  intros k rs k' muts Hnf Hnd H.
  apply k_create_nofault in H; auto. destruct H as (_ & _ & _ & H).
  assert (Ho : objs k' = fst (create_all (objs k) rs true)) by (now rewrite <- H).
  assert (Hok : snd (create_all (objs k) rs true) = true) by (now rewrite <- H).
  rewrite Ho. split.
  - intros r Hin. now apply create_all_ok.
  - intros key Hk. now apply create_all_frame.
Qed.

Theorem delete_matches :
  forall (k : kstate) (rs : list res) (k' : kstate) (ok : bool) (muts : list (verb * string)),
    kfault k = None ->
    k_delete k rs true [] = (k', ok, muts) ->
    ok = true /\
    (forall r, In r rs -> aget (rkey r) (objs k') = None) /\
    (forall key, in_keys key rs = false -> aget key (objs k') = aget key (objs k)).
Proof.
  intros k rs k' ok muts Hnf H.
  apply k_delete_nofault in H; auto. destruct H as (_ & _ & _ & -> & Ho).
  rewrite Ho. repeat split.
  - intros r Hin. now rewrite delete_all_objs_get, (in_keys_In r rs Hin).
  - intros key Hk. now rewrite delete_all_objs_get, Hk.
Qed.

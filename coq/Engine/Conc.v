(* Release engine — interleaving interpreter (C09).

   Threads are the SAME program terms of Engine/Ops.v ([install …], [upgrade …]); a schedule
   is a list of thread indices; every scheduled step performs exactly ONE effect of that
   thread, atomically, on the shared ledger (storage semantics = [Seq.storage_apply]) and
   the shared cluster (any handler [kh]; the object store is [kube_handle]).  A thread that
   has returned is skipped.  When the schedule is exhausted the remaining threads are run
   to completion one after the other in index order, so [run] is total and every thread
   finishes.  There are no storage-write faults and no crash points here: the stated
   assumption is that a single storage call is atomic and durable (memory: mutex;
   Kubernetes: one API call, create-if-absent).

   Every step appends one event tagged with the performing thread (ghost), the effect and
   the answer it got. *)
From Coq Require Import List String Bool Arith ZArith.
From Helm Require Import Common.Assoc Engine.Types Engine.Eff Engine.Ops Engine.Cluster Engine.Seq.
Import ListNotations.

Record cev := mkCev {
  ce_tid : nat;                     (* ghost: the thread that performed the effect *)
  ce_eff : eff;
  ce_resp : resp ce_eff;            (* what it was answered *)
  ce_out : list tev }.              (* effective storage writes / logged cluster calls *)

(* ---- event classification (by computation, so that no dependent equality is needed) ---- *)
Definition created_rev (c : cev) : option nat :=
  match ce_eff c as e return resp e -> option nat with
  | SCreate x => fun r => match r with SOk => Some (rev x) | _ => None end
  | _ => fun _ => None
  end (ce_resp c).

Definition create_refused (c : cev) : bool :=
  match ce_eff c as e return resp e -> bool with
  | SCreate x => fun r => match r with SExists => true | _ => false end
  | _ => fun _ => false
  end (ce_resp c).

(* the answer of a history read *)
Definition history_seen (c : cev) : option (list release) :=
  match ce_eff c as e return resp e -> option (list release) with
  | SHistory => fun r => Some r
  | _ => fun _ => None
  end (ce_resp c).

Definition is_mutation_ev (c : cev) : bool := is_cluster_mutation (ce_eff c).
Definition by_thread (i : nat) (c : cev) : bool := Nat.eqb (ce_tid c) i.

(* a storage call or a mutating cluster call: the points where the harness can preempt *)
Definition gated (e : eff) : bool := negb (is_cluster_call e) || is_cluster_mutation e.

Fixpoint set_nth {X} (i : nat) (x : X) (l : list X) : list X :=
  match l, i with
  | [], _ => []
  | _ :: t, 0 => x :: t
  | y :: t, S j => y :: set_nth j x t
  end.

Section Conc.
  Variable K : Type.
  Variable kh : forall e : eff, K -> K * resp e * list kev.
  Variable dresp : forall e : eff, resp e.

  Record cstate := mkC { c_led : list release; c_ks : K; c_tr : list cev }.

  (* one effect of thread [i] *)
  Definition cstep (i : nat) (e : eff) (s : cstate) : cstate * resp e :=
    if is_cluster_call e then
      let '(k', r, evs) := kh e (c_ks s) in
      (mkC (c_led s) k' (c_tr s ++ [mkCev i e r (map TKube evs)])%list, r)
    else
      let '(l', r, evs) := storage_apply dresp e (c_led s) in
      (mkC l' (c_ks s) (c_tr s ++ [mkCev i e r evs])%list, r).

  Section Pool.
    Variable A : Type.
    Notation pool := (list (prog A)).

    (* thread [i] performs its next effect; [None]: returned already, or no such thread *)
    Definition step_thread (i : nat) (ts : pool) (s : cstate) : option (pool * cstate) :=
      match nth_error ts i with
      | Some (Eff e k) => let '(s', r) := cstep i e s in Some (set_nth i (k r) ts, s')
      | _ => None
      end.

    Fixpoint run_sched (sch : list nat) (ts : pool) (s : cstate) : pool * cstate :=
      match sch with
      | [] => (ts, s)
      | i :: t =>
          match step_thread i ts s with
          | Some (ts', s') => run_sched t ts' s'
          | None => run_sched t ts s
          end
      end.

    (* run thread [i], whose remaining program is [p], to completion inside the pool *)
    Fixpoint drain (i : nat) (p : prog A) (ts : pool) (s : cstate) : pool * cstate :=
      match p with
      | Ret _ => (ts, s)
      | Eff e k => let '(s', r) := cstep i e s in drain i (k r) (set_nth i (k r) ts) s'
      end.

    Fixpoint finish (is : list nat) (ts : pool) (s : cstate) : pool * cstate :=
      match is with
      | [] => (ts, s)
      | i :: t =>
          match nth_error ts i with
          | Some p => let '(ts', s') := drain i p ts s in finish t ts' s'
          | None => finish t ts s
          end
      end.

    Definition run (ts : pool) (sch : list nat) (s : cstate) : pool * cstate :=
      let '(ts1, s1) := run_sched sch ts s in
      finish (seq 0 (List.length ts1)) ts1 s1.

    Definition outcomes (ts : pool) : list (option A) :=
      map (fun p => match p with Ret a => Some a | Eff _ _ => None end) ts.

    (* ---- the schedule as the harness drives it: one entry = release one gate of the
       operation, i.e. perform its next effect and then every following effect that is not
       gated (read-only cluster lookups, waits) up to the next gated one ---- *)
    Fixpoint drain_ungated (i : nat) (p : prog A) (ts : pool) (s : cstate) : pool * cstate :=
      match p with
      | Ret _ => (ts, s)
      | Eff e k =>
          if gated e then (ts, s)
          else let '(s', r) := cstep i e s in drain_ungated i (k r) (set_nth i (k r) ts) s'
      end.

    Definition step_gate (i : nat) (ts : pool) (s : cstate) : option (pool * cstate) :=
      match nth_error ts i with
      | Some (Eff e k) =>
          let '(s', r) := cstep i e s in
          Some (drain_ungated i (k r) (set_nth i (k r) ts) s')
      | _ => None
      end.

    Fixpoint run_gates (sch : list nat) (ts : pool) (s : cstate) : pool * cstate :=
      match sch with
      | [] => (ts, s)
      | i :: t =>
          match step_gate i ts s with
          | Some (ts', s') => run_gates t ts' s'
          | None => run_gates t ts s
          end
      end.

    (* the effective gate schedule: entries that found their thread returned are dropped *)
    Fixpoint effective_gates (sch : list nat) (ts : pool) (s : cstate) : list nat :=
      match sch with
      | [] => []
      | i :: t =>
          match step_gate i ts s with
          | Some (ts', s') => i :: effective_gates t ts' s'
          | None => effective_gates t ts s
          end
      end.

    Definition run_gated (ts : pool) (sch : list nat) (s : cstate) : pool * cstate :=
      let '(ts1, s1) := run_gates sch ts s in
      finish (seq 0 (List.length ts1)) ts1 s1.
  End Pool.
End Conc.

Arguments c_led {K} c.
Arguments c_ks {K} c.
Arguments c_tr {K} c.
Arguments mkC {K} c_led c_ks c_tr.

(* ---- projections of a trace ---- *)
Definition thread_events (i : nat) (tr : list cev) : list cev := filter (by_thread i) tr.

(* what operation [i] wrote / called, in its program order: comparable with the per-operation
   trace the harness records *)
Definition thread_trace (i : nat) (tr : list cev) : list tev := flat_map ce_out (thread_events i tr).

(* (thread, revision) of every successful create, in order *)
Fixpoint creations (tr : list cev) : list (nat * nat) :=
  match tr with
  | [] => []
  | c :: t => match created_rev c with
              | Some v => (ce_tid c, v) :: creations t
              | None => creations t
              end
  end.

Definition created_revs (tr : list cev) : list nat := map snd (creations tr).

(* a delete that removed the revision *)
Definition deleted_rev (c : cev) : option nat :=
  match ce_eff c as e return resp e -> option nat with
  | SDelete v => fun r => match r with SOk => Some v | _ => None end
  | _ => fun _ => None
  end (ce_resp c).

(* (thread, revision) of the creates that are still LIVE: a successful delete of the revision
   retires its creation *)
Definition live_step (acc : list (nat * nat)) (c : cev) : list (nat * nat) :=
  let acc1 := match deleted_rev c with
              | Some v => filter (fun tv => negb (Nat.eqb (snd tv) v)) acc
              | None => acc
              end in
  match created_rev c with
  | Some v => (acc1 ++ [(ce_tid c, v)])%list
  | None => acc1
  end.

Definition live_creations (tr : list cev) : list (nat * nat) := fold_left live_step tr [].
Definition creators_of (v : nat) (tr : list cev) : list nat :=
  map fst (filter (fun tv => Nat.eqb (snd tv) v) (creations tr)).

Definition thread_created (i : nat) (tr : list cev) : bool :=
  existsb (fun c => by_thread i c && match created_rev c with Some _ => true | None => false end) tr.
Definition thread_mutated (i : nat) (tr : list cev) : bool :=
  existsb (fun c => by_thread i c && is_mutation_ev c) tr.
Definition thread_refused (i : nat) (tr : list cev) : bool :=
  existsb (fun c => by_thread i c && create_refused c) tr.

(* thread-local ordering: every mutating cluster effect comes after a successful create
   ([evs] = the events of ONE thread, in order) *)
Definition is_created_ev (c : cev) : bool := match created_rev c with Some _ => true | None => false end.

Fixpoint mutations_guarded (created : bool) (evs : list cev) : bool :=
  match evs with
  | [] => true
  | c :: t => (if is_mutation_ev c then created else true)
              && mutations_guarded (created || is_created_ev c) t
  end.

(* the first history read of a thread *)
Definition first_history (evs : list cev) : option (list release) :=
  match evs with c :: _ => history_seen c | [] => None end.

Definition count_deployed (l : list release) : nat :=
  List.length (filter (fun r => status_eqb (st r) SDeployed) l).

(* ---- instance: object-store cluster, no faults ---- *)
Definition k0 (objs : list (string * fields)) : kstate := mkK objs None None false.

Definition run_store (rn ns : string) (ops : list op) (sch : list nat) (w : world)
  : list (prog outcome) * cstate kstate :=
  run kstate (kube_handle rn ns) dead_resp outcome (map (op_prog rn ns) ops) sch
      (mkC (w_led w) (k0 (w_objs w)) []).

Definition run_store_gated (rn ns : string) (ops : list op) (sch : list nat) (w : world)
  : list (prog outcome) * cstate kstate :=
  run_gated kstate (kube_handle rn ns) dead_resp outcome (map (op_prog rn ns) ops) sch
      (mkC (w_led w) (k0 (w_objs w)) []).

(* Decision translator — the expression language of the DATA conditions that
   `hx gen-tables` (harness/cmd/hx/gentables_dec.go) reads out of pkg/action, pkg/storage and
   pkg/release on every check run (coq/Gen/ActionDecisions.v), and its interpreter.
   Definitions only.  See notes/DEC.md.

   A condition of the Go source is a [dexp] over variables named by a normalised access path
   ("Last.status", "len(History)", "revsorted(History)[0].status", "len(arg2)", …), each with
   the type the translator read off the source, the option flags of the action ([DFlag]),
   the error answers of calls ([DErr] "the error of this call is non-nil", [DErrIs] "… and
   it is this error"), nil tests of pointers / slices / maps ([DNil]), and the constants of
   pkg/release/v1 by their string value.  [deval] is total: a type error, an unknown
   constant or a [DUnknown] node evaluates to [None], and no obligation accepts [None]. *)
From Coq Require Import List String Bool ZArith.
From Helm Require Import Engine.Types Engine.Ops.
Import ListNotations.
Local Open Scope string_scope.

Inductive dty := TB | TS | TN | TE | TP | TStr.

Inductive dexp :=
| DVar (t : dty) (x : string)
| DFlag (f : string)
| DErr (src : string)
| DErrIs (src what : string)
| DNil (x : string)
| DStatus (v : string) | DEvent (v : string) | DPolicy (v : string)
| DInt (z : Z) | DStr (s : string) | DBool (b : bool)
| DEq (a b : dexp) | DNe (a b : dexp)
| DLt (a b : dexp) | DLe (a b : dexp) | DGt (a b : dexp) | DGe (a b : dexp)
| DAdd (a b : dexp) | DSub (a b : dexp)
| DAnd (a b : dexp) | DOr (a b : dexp) | DNot (a : dexp)
| DIsPending (a : dexp)
| DIn (a : dexp) (l : list dexp)
| DIf (c a b : dexp)
| DUnknown (text : string).

Inductive value :=
| VB (b : bool) | VS (s : status) | VN (z : Z) | VE (e : event) | VP (p : policy) | VStr (s : string).

(* an environment: one total assignment per kind of variable.  The numbers are unbounded
   integers (Go int; the obligations are proved for ALL of them). *)
Record menv := mkEnv {
  m_b : string -> bool;
  m_s : string -> status;
  m_n : string -> Z;
  m_e : string -> event;
  m_p : string -> policy;
  m_str : string -> string;
  m_flag : string -> bool;
  m_err : string -> bool;        (* key: the call that produced the error; "src is what" for DErrIs *)
  m_nil : string -> bool }.

Definition all_events : list event :=
  [PreInstall; PostInstall; PreDelete; PostDelete; PreUpgrade; PostUpgrade; PreRollback; PostRollback; TestHook].

Definition all_policies : list policy := [BeforeHookCreation; HookSucceeded; HookFailed].

(* pkg/release/v1/hook.go: HookDeletePolicy values *)
Definition policy_str (p : policy) : string :=
  match p with
  | BeforeHookCreation => "before-hook-creation"
  | HookSucceeded => "hook-succeeded"
  | HookFailed => "hook-failed"
  end.

Definition status_of_str (x : string) : option status :=
  find (fun s => String.eqb (status_str s) x) all_statuses.
Definition event_of_str (x : string) : option event :=
  find (fun e => String.eqb (event_str e) x) all_events.
Definition policy_of_str (x : string) : option policy :=
  find (fun p => String.eqb (policy_str p) x) all_policies.

(* comparison of two strings held in variables stays folded in the proofs *)
Definition vstr_eqb (a b : string) : bool := String.eqb a b.
Definition vstr_ltb (a b : string) : bool := str_ltb a b.

Definition err_is_key (src what : string) : string := src ++ " is " ++ what.

Definition veq (a b : value) : option bool :=
  match a, b with
  | VB x, VB y => Some (Bool.eqb x y)
  | VS x, VS y => Some (status_eqb x y)
  | VN x, VN y => Some (Z.eqb x y)
  | VE x, VE y => Some (event_eqb x y)
  | VP x, VP y => Some (policy_eqb x y)
  | VStr x, VStr y => Some (vstr_eqb x y)
  | _, _ => None
  end.

(* a < b *)
Definition vlt (a b : value) : option bool :=
  match a, b with
  | VN x, VN y => Some (Z.ltb x y)
  | VStr x, VStr y => Some (vstr_ltb x y)
  | _, _ => None
  end.

(* a <= b *)
Definition vle (a b : value) : option bool :=
  match a, b with
  | VN x, VN y => Some (Z.leb x y)
  | VStr x, VStr y => Some (negb (vstr_ltb y x))
  | _, _ => None
  end.

Definition vbool (o : option bool) : option value :=
  match o with Some b => Some (VB b) | None => None end.

Definition bin (f : value -> value -> option value) (a b : option value) : option value :=
  match a, b with Some x, Some y => f x y | _, _ => None end.

Definition vnum (f : Z -> Z -> Z) (a b : value) : option value :=
  match a, b with VN x, VN y => Some (VN (f x y)) | _, _ => None end.

Definition vlog (f : bool -> bool -> bool) (a b : value) : option value :=
  match a, b with VB x, VB y => Some (VB (f x y)) | _, _ => None end.

Fixpoint deval (m : menv) (e : dexp) : option value :=
  match e with
  | DVar TB x => Some (VB (m_b m x))
  | DVar TS x => Some (VS (m_s m x))
  | DVar TN x => Some (VN (m_n m x))
  | DVar TE x => Some (VE (m_e m x))
  | DVar TP x => Some (VP (m_p m x))
  | DVar TStr x => Some (VStr (m_str m x))
  | DFlag f => Some (VB (m_flag m f))
  | DErr src => Some (VB (m_err m src))
  | DErrIs src what => Some (VB (m_err m (err_is_key src what)))
  | DNil x => Some (VB (m_nil m x))
  | DStatus v => match status_of_str v with Some s => Some (VS s) | None => None end
  | DEvent v => match event_of_str v with Some s => Some (VE s) | None => None end
  | DPolicy v => match policy_of_str v with Some s => Some (VP s) | None => None end
  | DInt z => Some (VN z)
  | DStr s => Some (VStr s)
  | DBool b => Some (VB b)
  | DEq a b => bin (fun x y => vbool (veq x y)) (deval m a) (deval m b)
  | DNe a b => bin (fun x y => vbool (option_map negb (veq x y))) (deval m a) (deval m b)
  | DLt a b => bin (fun x y => vbool (vlt x y)) (deval m a) (deval m b)
  | DLe a b => bin (fun x y => vbool (vle x y)) (deval m a) (deval m b)
  | DGt a b => bin (fun x y => vbool (vlt y x)) (deval m a) (deval m b)
  | DGe a b => bin (fun x y => vbool (vle y x)) (deval m a) (deval m b)
  | DAdd a b => bin (vnum Z.add) (deval m a) (deval m b)
  | DSub a b => bin (vnum Z.sub) (deval m a) (deval m b)
  | DAnd a b => bin (vlog andb) (deval m a) (deval m b)
  | DOr a b => bin (vlog orb) (deval m a) (deval m b)
  | DNot a => match deval m a with Some (VB x) => Some (VB (negb x)) | _ => None end
  | DIsPending a => match deval m a with Some (VS s) => Some (VB (is_pending s)) | _ => None end
  | DIn a l =>
      match deval m a with
      | Some va =>
          (fix go (l : list dexp) : option value :=
             match l with
             | [] => Some (VB false)
             | c :: t =>
                 match deval m c, go t with
                 | Some vc, Some (VB r) =>
                     match veq va vc with Some b => Some (VB (b || r)) | None => None end
                 | _, _ => None
                 end
             end) l
      | None => None
      end
  | DIf c a b =>
      match deval m c, deval m a, deval m b with
      | Some (VB x), Some (VB va), Some (VB vb) => Some (VB (if x then va else vb))
      | _, _, _ => None
      end
  | DUnknown _ => None
  end.

(* ---- the table kept on the Coq side ------------------------------------------------------ *)

(* a site of the Go source is either tied to a condition of the model, or stated to lie
   outside the model, with the reason *)
Inductive site :=
| Modelled (label : string) (c : menv -> bool)
| Outside (label : string) (reason : string).

(* the only restriction on environments: a variable that the translator named "len(…)" is
   the value of Go's builtin len, which is never negative *)
Definition is_len (x : string) : bool := prefix "len(" x.
Definition env_wf (m : menv) : Prop := forall x, is_len x = true -> (0 <= m_n m x)%Z.

(* the obligation for one site: for ALL (well-formed) environments the Go condition
   evaluates, to the model's condition *)
Definition site_ok (s : site) (g : dexp) : Prop :=
  match s with
  | Modelled _ c => forall m : menv, env_wf m -> deval m g = Some (VB (c m))
  | Outside _ _ => True
  end.

Fixpoint sites_ok (ss : list site) (gs : list dexp) : Prop :=
  match ss, gs with
  | [], [] => True
  | s :: ss', g :: gs' => site_ok s g /\ sites_ok ss' gs'
  | _, _ => False
  end.

(* the sites of function f ([] when the function is not in the table) *)
Definition sites_of {A} (t : list (string * list A)) (f : string) : list A :=
  match find (fun fl => String.eqb (fst fl) f) t with
  | Some fl => snd fl
  | None => []
  end.

(* the obligation for one function: as many sites as the model's table lists, in the same
   order, each meeting [site_ok] *)
Definition fn_ok (st : list (string * list site)) (gt : list (string * list (string * dexp))) (f : string) : Prop :=
  sites_ok (sites_of st f) (map snd (sites_of gt f)).

(* the whole table: the same functions in the same order, and every function ok *)
Definition table_ok (st : list (string * list site)) (gt : list (string * list (string * dexp))) : Prop :=
  map fst st = map fst gt /\ Forall (fn_ok st gt) (map fst st).

(* structure: the functions in order, and the number of sites of each *)
Definition shape {A} (t : list (string * list A)) : list (string * nat) :=
  map (fun fl => (fst fl, List.length (snd fl))) t.

Definition modelled (s : site) : bool := match s with Modelled _ _ => true | Outside _ _ => false end.

(* ---- environments -------------------------------------------------------------------------- *)

Definition env0 : menv :=
  mkEnv (fun _ => false) (fun _ => SUnknown) (fun _ => 0%Z) (fun _ => TestHook) (fun _ => BeforeHookCreation)
        (fun _ => "") (fun _ => false) (fun _ => false) (fun _ => false).

Definition upd {A} (x : string) (v : A) (f : string -> A) : string -> A :=
  fun y => if String.eqb y x then v else f y.

Definition set_b x v m := mkEnv (upd x v (m_b m)) (m_s m) (m_n m) (m_e m) (m_p m) (m_str m) (m_flag m) (m_err m) (m_nil m).
Definition set_s x v m := mkEnv (m_b m) (upd x v (m_s m)) (m_n m) (m_e m) (m_p m) (m_str m) (m_flag m) (m_err m) (m_nil m).
Definition set_n x v m := mkEnv (m_b m) (m_s m) (upd x v (m_n m)) (m_e m) (m_p m) (m_str m) (m_flag m) (m_err m) (m_nil m).
Definition set_e x v m := mkEnv (m_b m) (m_s m) (m_n m) (upd x v (m_e m)) (m_p m) (m_str m) (m_flag m) (m_err m) (m_nil m).
Definition set_p x v m := mkEnv (m_b m) (m_s m) (m_n m) (m_e m) (upd x v (m_p m)) (m_str m) (m_flag m) (m_err m) (m_nil m).
Definition set_str x v m := mkEnv (m_b m) (m_s m) (m_n m) (m_e m) (m_p m) (upd x v (m_str m)) (m_flag m) (m_err m) (m_nil m).
Definition set_flags f m := mkEnv (m_b m) (m_s m) (m_n m) (m_e m) (m_p m) (m_str m) f (m_err m) (m_nil m).
Definition set_err x v m := mkEnv (m_b m) (m_s m) (m_n m) (m_e m) (m_p m) (m_str m) (m_flag m) (upd x v (m_err m)) (m_nil m).
Definition set_nil x v m := mkEnv (m_b m) (m_s m) (m_n m) (m_e m) (m_p m) (m_str m) (m_flag m) (m_err m) (upd x v (m_nil m)).

(* the option flags of the Go actions as the model's flag record sees them, by Go field
   name; options the model does not have (IsUpgrade, SkipCRDs, …) are off *)
Definition flag_env (fl : flags) (f : string) : bool :=
  if String.eqb f "Atomic" then f_atomic fl
  else if String.eqb f "CleanupOnFail" then f_cleanup fl
  else if String.eqb f "KeepHistory" then f_keep_history fl
  else if String.eqb f "Replace" then f_replace fl
  else if String.eqb f "DisableHooks" then f_no_hooks fl
  else if String.eqb f "DryRun" then f_dry_run fl
  else if String.eqb f "ClientOnly" then f_client_only fl
  else if String.eqb f "TakeOwnership" then f_take_ownership fl
  else false.

(* length of a list as a Go int *)
Definition zlen {A} (l : list A) : Z := Z.of_nat (List.length l).
